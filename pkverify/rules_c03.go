package main

import (
	"fmt"
	"go/constant"
	"go/token"
	"go/types"
	"regexp"
	"strings"

	"golang.org/x/tools/go/ssa"
)

// C03 — disk stores survive a crash at any instant.
//
// What is decided here is the write-ordering discipline the crash argument
// rests on (which call must have succeeded before which), the agreement
// between the writers and the readers of the on-disk formats, and the
// visibility filters of the read paths. No crash state is ever materialised.

func init() {
	register(&PropSpec{
		ID:    "C03",
		Title: "Disk stores survive a crash at any instant without losing or tearing blobs",
		Explanation: "Decided (structural necessary conditions of the crash argument, over every CFG path of the anchored functions): " +
			"F-order — in files.(*Storage).ReceiveBlob the single VFS.Rename has as source the Name() of the file returned by the VFS.TempFile call and as destination blobPath(ref) of the received ref (the very function the readers use); every call that writes into that temp file, then Sync() on it, then Close() on it have all succeeded (err==nil edge) on every path to the Rename, Sync precedes Close, and every return whose error may be nil is behind the success edge of the Rename. " +
			"F-cleanup (= C13 G-tmp) — after TempFile succeeds every path to a return passes the registration of a deferred cleanup (or an explicit VFS.Remove) of that temp file unless the Rename succeeded; the deferred cleanup removes the file whenever its success flag is false; the flag is set only behind the Rename's success edge. " +
			"F-visible — every VFS.Open/Stat/Lstat/Remove in package files takes blobPath(ref) (which ends in blobFileBaseName, whose constant format ends in the extension), or the receive path's own temp file, or is the enumeration's directory-entry stat; in readBlobs every channel send is behind strings.HasSuffix(name, ext)==true for the very name the sent ref is computed from, with the same ext constant as the writer and TrimSuffix; the TempFile prefix ends in a constant tail that can never complete the extension and contains no '*'; every VFS implementation's TempFile only appends to the prefix (os.CreateTemp pattern, or prefix+hex/decimal suffix). " +
			"D-order — in diskpacked.(*storage).append the index Set is behind the success edges of writer.Sync(), which is behind the success edges of every data write into s.writer (header and body) and behind the written-count == br.Size test; every maybe-nil return is behind the Set's success edge. In diskpacked.ReceiveBlob the duplicate-ack return (the only nil-error return that is not append's verdict) is behind {meta found, os.Stat(filename(m.file)) ok, fi.Size() >= m.offset+m.size}; the last is decided on linear forms: some dominating ordering comparison, normalised to F >= 0 and flattened through +, -, conversions, locals and one-expression helpers, is F = fi.Size() - m.offset - m.size + k with k <= 0 and no other term (so `fi.Size()-m.offset >= int64(m.size)` is the same guard, and a guard that omits the offset or the size, or has a sign wrong, is a violation). " +
			"D-reindex-agreement — the header writer in append (constant format: open delimiter, ref, separator, size, close delimiter; size printed base-10 from a 32-bit unsigned) and the three header readers (walkPack, readHeader, delete) use the same three delimiter bytes, base 10 and 32 bits, and delete's walk-back length counts exactly the literal bytes of the format; the deleted-marker regexp matches exactly what delete writes (and no real blobref) and both pack walkers consult it; index rows are written by append and by reindex through the same codec (blob.Ref.String → blobMeta.String) and parseBlobMeta reads the same fields in the same order. " +
			"D-dele-order — in diskpacked.delete the header is rewritten to the deleted marker (WriteAt succeeded) before the body is destroyed (punch hole / zero fill), so a pack walk never reports a live header over a destroyed body; RemoveBlobs commits the index deletions only after all delete workers were joined (delete reads the row it is about to lose). " +
			"D-walk-extent — a pack walker reports an entry (walkPack calls its walker / StreamBlobs sends) only where a read of the header's declared size succeeded or the extent was compared with the pack file's size, i.e. a header whose body was torn by a crash is not reported as a blob. Value clause (H7, on linear forms: integer expressions flattened through +, -, multiplication by a constant, integer conversions, local variables with one reaching store, len of a made slice and helpers that return one expression of their parameters; two loads of a variable are the same term only if no store can execute between them): (a) walkPack — on the edge that reaches the walker call some ordering comparison mentioning the file size, normalised to F >= 0, satisfies F = fileSize - OFF - SIZE exactly (all coefficients and the constant), where OFF and SIZE are the very offset and size arguments handed to the walker (which Reindex writes into the index row); so the quantity compared is the end of the reported body: it contains the entry's start, the header length consumed and the parsed size, in whatever algebraic arrangement. A comparison whose form lacks a term of OFF (header length, start offset) or differs by a constant is a violation ('extent computed from a stale position' / 'off by n'): an append torn inside the uncounted bytes would be indexed, or an intact last entry dropped. If an exact-length read is used instead, its length must equal SIZE. (b) StreamBlobs — the successful exact-length read (ReadFull buffer length / ReadAtLeast minimum / CopyN or Discard count) has as length exactly the uint32 size the sent blob is constructed with (pkg/blob constructor argument). " +
			"F-destroy — who may destroy a path of the file-per-blob store. A table of path-destroying primitives (os/syscall/pkg-sftp: Remove, RemoveAll, Rename source and destination, Truncate, Create, WriteFile, OpenFile with write access or O_TRUNC unless O_CREATE|O_EXCL) is closed under parameter forwarding through static calls and through dispatch on files.VFS (every implementer's method contributes its effects to every interface invoke). Every site in packages files, localdisk and the VFS implementers' packages at which the destroyed path is computed (not merely forwarded), and every invoke of a destroying VFS method anywhere in the module, must be one of: the path is Name() of the file the same call obtained from VFS.TempFile; the path lies in a directory os.MkdirTemp created in the same call; the site is reached only from RemoveBlobs of a blobserver.BlobRemover (static callers only, no function-value or interface use); the effect is rename-over in ReceiveBlob itself (the atomic publish, whose operands and order F-order decides); the effect is rmdir; or the effect is a non-recursive unlink of a path that a successful VFS.ReadDirNames of the same value dominates (an empty-directory clean-up; a recursive primitive reachable from any VFS implementation's RemoveDir is a violation here). Functions that forward a path parameter must be VFS methods or unexported and never used as values. " +
			"D-destroy — who may destroy bytes of a pack. (1) no function of package diskpacked removes, renames, truncates or re-creates a file by path (OpenFile without O_TRUNC is the only path-level write access, and the handle must stay local or become storage.writer). (2) every call in the package that writes, WriteAts, truncates, seeks or takes the descriptor of an *os.File, or hands one to a writer/hook, is classified by the handle's origin: handles from os.Open cannot write; the live append handle (storage.writer) may be written only in append, sought only neutrally (Seek(0, SeekCurrent/SeekEnd)) and moved back/truncated only as the roll-back of the current failed append — the offset is s.size (or the handle's position) read before the call's first write and first s.size update, and no return that may report success is reachable afterwards (a roll-back helper is followed through its static call sites); a handle opened writable locally may be modified only in a function reached only from RemoveBlobs, behind a successful meta(<ref parameter>) lookup, on filename(row.file), at WriteAt positions derived from row.offset, Seek(row.offset, SeekStart), exactly row.size bytes behind that Seek, or a hook call with exactly (row.offset, row.size) (a zero-fill helper is followed likewise). (3) index rows are deleted (Delete on the KeyValue or a batch; Wipe never) only in functions reached only from RemoveBlobs, with key String() of one of the refs passed in. " +
			"NOT decided: that a blob path is not aliased by another spelling, destroyers outside these packages (tools operating on the directory), whether Name() of a VFS.TempFile result is the created path, that storage.size equals the pack's length between calls (the roll-back offset is only shown to be the value captured before this call's writes), roll-backs placed in function literals/defers (reported undecided), torn writes and what a particular crash image looks like, fsync/rename semantics of the OS or of a remote VFS (sftp's Sync is a no-op), directory fsync, durability of the KV index file, what HashName()/Digest() may contain, recovery behaviour other than D-walk-extent (re-opening a pack with a torn tail; that Reindex stores the walker's arguments unchanged), whether the offset handed to the walker is itself the true body offset (the '+1' for the opening delimiter and the header length are only required to be the SAME in the reported offset and in the compared extent — dropping the +1 in both places is invisible here), that the file size compared with belongs to the pack being walked, that the walk continues at offset+size, that reads start at the body offset, integer overflow/wrap-around and narrowing conversions in the extent arithmetic (forms are over the integers), a second, stricter comparison next to an exact one, extent guards hidden in helpers with control flow or in methods of the row type (reported as violation/undecided, not followed), removal crash states (index row still present over a zeroed body), equality of fetched bytes with received bytes.",
		RuleDocs: map[string]string{
			"F-order":             "files.(*Storage).ReceiveBlob: Rename(tmp.Name(), blobPath(ref)) is dominated by the success edges of all writes into tmp, tmp.Sync(), tmp.Close(); nil-error returns are dominated by Rename success",
			"F-cleanup":           "F-order(iii), shared with C13 as G-tmp: temp-file cleanup registered right after TempFile succeeds, removes unless the success flag is set, flag set only after Rename succeeded",
			"F-visible":           "every VFS path access in package files is blobPath(ref)/own temp/enumeration stat; readBlobs sends only behind HasSuffix(name, ext); temp names cannot end in ext; VFS.TempFile implementations append only",
			"D-order":             "diskpacked.append: data writes → size check → Sync → index.Set → nil return, each on the success edge of the previous; ReceiveBlob duplicate-ack behind {meta, Stat, a comparison whose linear form is fi.Size() - m.offset - m.size + k >= 0, k <= 0}",
			"D-reindex-agreement": "pack header writer vs. readers (delimiters, base, bit size, walk-back length), deleted-marker regexp vs. what delete writes, index row codec shared by append/reindex/parseBlobMeta",
			"D-dele-order":        "diskpacked.delete: header rewrite succeeded before body destruction; RemoveBlobs: join of delete workers precedes the index CommitBatch",
			"F-destroy":           "files/localdisk/VFS implementers: every computed path handed (directly, through forwarding helpers or through files.VFS dispatch) to a removing/renaming/truncating primitive is the receive's own TempFile name, inside a fresh MkdirTemp dir, reached only from RemoveBlobs, the publishing Rename's destination in ReceiveBlob, or a non-recursive removal of a directory just listed by ReadDirNames",
			"D-destroy":           "diskpacked: no path-level destroyer; storage.writer written only in append, rewound/truncated only as roll-back of the current failed append to the offset captured before its first write; locally opened writable packs modified only below RemoveBlobs within the removed blob's row extent; index rows deleted only below RemoveBlobs for the refs passed in",
			"D-walk-extent":       "pack walkers (walkPack's walker call, StreamBlobs' send): an entry is reported only after its body was read in full or its extent was compared with the file size; and (linear forms) what was compared with the file size is exactly offset+size of the arguments handed to the walker, resp. the length read is exactly the size the sent blob is declared with",
		},
		Run:       runC03,
		DesignRef: "DESIGN.md §4 C03",
		Technique: "static analysis: dominance on err==nil edges (must-precede) over go/ssa, value dependence, CFG path exploration for the cleanup pairing, constant/format-string table agreement between writers and readers; linear-form (leaf multiset + constant) equality between the extent a guard compares with the file size and the extent that is reported/indexed; who-may-destroy: a table of path/handle-destroying primitives closed under parameter forwarding (static calls, files.VFS dispatch), classification of each root site by value dependence of the destroyed path/extent and by who-may-reach (static callers, function-value uses, interface invoke sites)",
		LevelText: "Decides structural necessary conditions only: the write ordering (write→sync→close→rename→ack; write→sync→index→ack; header-marked-deleted→body destroyed), the visibility filters (.dat only), the agreement of the on-disk codecs between writers and readers, that a pack walk reports an entry only behind a guard on exactly the extent it reports (consistency of the guard with the reported offset and size, not correctness of the offset itself), and that no code of the two stores other than the requested removal (and the roll-back of a failed, unacknowledged append) can destroy a final blob file, bytes of a pack or an index row. Does not decide the behaviour on any concrete crash image, OS/VFS durability semantics, or recovery.",
	})
}

const (
	c03PkgFiles = "pkg/blobserver/files"
	c03PkgDP    = "pkg/blobserver/diskpacked"
)

func runC03(p *Program, r *Reporter) {
	r.Analysed("functions", len(p.FuncsIn(c03PkgFiles))+len(p.FuncsIn(c03PkgDP)))
	c03RuleFOrder(p, r)
	ruleGTmpImpl(p, r, "F-cleanup")
	c03RuleFVisible(p, r)
	c03RuleDOrder(p, r)
	c03RuleDAgreement(p, r)
	c03RuleDDeleOrder(p, r)
	c03RuleDWalkExtent(p, r)
	dm := c03GetDestroyModel(p)
	c03RuleFDestroy(p, r, dm)
	c03RuleDDestroy(p, r, dm)
}

// ---------------------------------------------------------------------------
// small general helpers (candidates for helpers.go)

func c03Last(b *ssa.BasicBlock) ssa.Instruction { return b.Instrs[len(b.Instrs)-1] }

// c03RootAlloc strips FieldAddr/IndexAddr down to the Alloc an address is inside of.
func c03RootAlloc(addr ssa.Value) *ssa.Alloc {
	for i := 0; i < 16; i++ {
		switch x := addr.(type) {
		case *ssa.Alloc:
			return x
		case *ssa.FieldAddr:
			addr = x.X
		case *ssa.IndexAddr:
			addr = x.X
		default:
			return nil
		}
	}
	return nil
}

// c03StoresInto lists the stores to al or to any field/element address inside it.
func c03StoresInto(al *ssa.Alloc) []*ssa.Store {
	var out []*ssa.Store
	var walk func(addr ssa.Value, d int)
	walk = func(addr ssa.Value, d int) {
		refs := addr.Referrers()
		if refs == nil || d > 6 {
			return
		}
		for _, u := range *refs {
			switch x := u.(type) {
			case *ssa.Store:
				if x.Addr == addr {
					out = append(out, x)
				}
			case *ssa.FieldAddr:
				walk(x, d+1)
			case *ssa.IndexAddr:
				walk(x, d+1)
			}
		}
	}
	walk(al, 0)
	return out
}

// c03Depends is DependsOn extended with stores into fields/elements of local
// composite values (struct literals, varargs arrays).
func c03Depends(v ssa.Value, target func(ssa.Value) bool) bool {
	seen := map[ssa.Value]bool{}
	var walk func(v ssa.Value, d int) bool
	walk = func(v ssa.Value, d int) bool {
		if v == nil || seen[v] || d > 80 {
			return false
		}
		seen[v] = true
		if target(v) {
			return true
		}
		if x, ok := v.(*ssa.UnOp); ok && x.Op == token.MUL {
			if al := c03RootAlloc(x.X); al != nil {
				for _, st := range c03StoresInto(al) {
					if walk(st.Val, d+1) {
						return true
					}
				}
			}
			if cell, ok := varOf(x.X); ok {
				for _, st := range storesTo(cell) {
					if walk(st.Val, d+1) {
						return true
					}
				}
			}
		}
		if sl, ok := v.(*ssa.Slice); ok {
			if al := c03RootAlloc(sl.X); al != nil {
				for _, st := range c03StoresInto(al) {
					if walk(st.Val, d+1) {
						return true
					}
				}
			}
		}
		if in, ok := v.(ssa.Instruction); ok {
			for _, op := range in.Operands(nil) {
				if *op != nil && walk(*op, d+1) {
					return true
				}
			}
		}
		return false
	}
	return walk(v, 0)
}

// c03VarargElems returns the elements of a variadic argument built by go/ssa as
// `slice (new [N]T)[:]` with one store per constant index. nil when not of that shape.
func c03VarargElems(v ssa.Value) []ssa.Value {
	sl, ok := v.(*ssa.Slice)
	if !ok {
		return nil
	}
	al, ok := sl.X.(*ssa.Alloc)
	if !ok {
		return nil
	}
	arr, ok := al.Type().Underlying().(*types.Pointer).Elem().Underlying().(*types.Array)
	if !ok {
		return nil
	}
	out := make([]ssa.Value, arr.Len())
	for _, st := range c03StoresInto(al) {
		ia, ok := st.Addr.(*ssa.IndexAddr)
		if !ok {
			return nil
		}
		i, ok := ConstInt(ia.Index)
		if !ok || i < 0 || i >= arr.Len() || out[i] != nil {
			return nil
		}
		out[i] = st.Val
	}
	for _, e := range out {
		if e == nil {
			return nil
		}
	}
	return out
}

// c03Format splits a fmt format string into literal segments and verbs:
// "[%v %v]" -> lits ["[", " ", "]"], verbs ["v","v"]. ok=false for "%%",
// flags/width or a trailing '%'.
func c03Format(f string) (lits, verbs []string, ok bool) {
	cur := ""
	for i := 0; i < len(f); i++ {
		if f[i] != '%' {
			cur += string(f[i])
			continue
		}
		if i+1 >= len(f) {
			return nil, nil, false
		}
		c := f[i+1]
		if !(c >= 'a' && c <= 'z' || c >= 'A' && c <= 'Z') {
			return nil, nil, false
		}
		lits = append(lits, cur)
		cur = ""
		verbs = append(verbs, string(c))
		i++
	}
	lits = append(lits, cur)
	return lits, verbs, true
}

// c03StaticCall returns v's origin as a call to the given function, or nil.
func c03StaticCall(v ssa.Value, callee *ssa.Function) *ssa.Call {
	c, ok := originValue(v).(*ssa.Call)
	if !ok || c.Call.StaticCallee() != callee {
		return nil
	}
	return c
}

func c03CallIs(v ssa.Value, pkgPath, recv, name string) *ssa.Call {
	c, ok := originValue(v).(*ssa.Call)
	if !ok || !funcIs(c.Call.StaticCallee(), pkgPath, recv, name) {
		return nil
	}
	return c
}

// c03AddLeaves flattens a tree of integer/string additions (through
// conversions) into its leaves.
func c03AddLeaves(v ssa.Value) []ssa.Value {
	switch x := v.(type) {
	case *ssa.BinOp:
		if x.Op == token.ADD {
			return append(c03AddLeaves(x.X), c03AddLeaves(x.Y)...)
		}
	case *ssa.Convert:
		return c03AddLeaves(x.X)
	case *ssa.ChangeType:
		return c03AddLeaves(x.X)
	}
	return []ssa.Value{v}
}

// c03FieldRead interprets v as a read of a struct field: returns the field
// name and the struct value/variable it is read from (the Alloc holding the
// struct, or the struct value itself for ssa.Field).
func c03FieldRead(v ssa.Value) (name string, base ssa.Value, ok bool) {
	switch x := v.(type) {
	case *ssa.Field:
		return fieldName(x.X.Type(), x.Field), x.X, true
	case *ssa.UnOp:
		if x.Op == token.MUL {
			if fa, ok := x.X.(*ssa.FieldAddr); ok {
				return fieldName(fa.X.Type(), fa.Field), fa.X, true
			}
		}
	}
	return "", nil, false
}

// c03Holds reports whether struct base (an Alloc whose only whole-value store
// is val, or val itself) holds the value val.
func c03Holds(base, val ssa.Value) bool {
	if base == nil || val == nil {
		return false
	}
	if sameOrigin(base, val) {
		return true
	}
	al, ok := base.(*ssa.Alloc)
	if !ok {
		return false
	}
	n := 0
	okv := false
	for _, st := range c03StoresInto(al) {
		if st.Addr == ssa.Value(al) {
			n++
			okv = sameOrigin(st.Val, val)
		}
	}
	return n == 1 && okv
}

func c03Line(p *Program, pos token.Pos) int { return p.Fset.Position(pos).Line }

// ---------------------------------------------------------------------------
// anchors of files.(*Storage).ReceiveBlob

type c03Recv struct {
	p       *Program
	fn      *ssa.Function
	vfs     *types.Interface
	temp    *ssa.Call // the VFS.TempFile call, nil unless exactly one
	nTemp   int
	tmp     ssa.Value // its file result
	renames []CallSite
}

func c03FilesAnchors(p *Program) *c03Recv {
	a := &c03Recv{p: p}
	a.fn = p.Func(c03PkgFiles, "Storage", "ReceiveBlob")
	a.vfs = p.Iface(c03PkgFiles, "VFS")
	for _, c := range CallsIn(a.fn, false) {
		if c.Value() == nil {
			continue
		}
		if c.IsMethod("TempFile", a.vfs) {
			a.nTemp++
			a.temp = c.Value()
		}
		if c.IsMethod("Rename", a.vfs) {
			a.renames = append(a.renames, c)
		}
	}
	if a.nTemp != 1 {
		a.temp = nil
	} else {
		a.tmp = ResultValue(a.temp, 0)
	}
	return a
}

func (a *c03Recv) isTmp(v ssa.Value) bool { return a.tmp != nil && sameOrigin(v, a.tmp) }

// isTmpName: v is tmp.Name().
func (a *c03Recv) isTmpName(v ssa.Value) bool {
	c, ok := originValue(v).(*ssa.Call)
	if !ok || !c.Call.IsInvoke() || c.Call.Method.Name() != "Name" {
		return false
	}
	return a.isTmp(c.Call.Value)
}

// tmpMethod lists the invokes of method name on the temp file in ReceiveBlob itself.
func (a *c03Recv) tmpMethod(name string) []*ssa.Call {
	var out []*ssa.Call
	for _, c := range CallsIn(a.fn, false) {
		if v := c.Value(); v != nil && v.Call.IsInvoke() && v.Call.Method.Name() == name && a.isTmp(v.Call.Value) {
			out = append(out, v)
		}
	}
	return out
}

// renameOK: the Rename succeeded on every path to instruction at.
func (a *c03Recv) renameOK(at ssa.Instruction) bool {
	for _, rc := range a.renames {
		if ok, _ := SuccessDominates(rc.Value(), at); ok {
			return true
		}
	}
	return false
}

// writeSites lists the calls in ReceiveBlob that hand the temp file to a
// writer (io.Copy(tmp, ...), tmp.Write(...)); wrappers lists calls that take
// the temp file and return another io.Writer (not followed).
func (a *c03Recv) writeSites() (writes []*ssa.Call, wrappers []*ssa.Call) {
	for _, c := range CallsIn(a.fn, false) {
		v := c.Value()
		if v == nil || v == a.temp {
			continue
		}
		if v.Call.IsInvoke() && a.isTmp(v.Call.Value) {
			switch v.Call.Method.Name() {
			case "Name", "Sync", "Close":
				continue
			}
			writes = append(writes, v)
			continue
		}
		uses := false
		for _, arg := range v.Call.Args {
			if a.isTmp(arg) {
				uses = true
			}
		}
		if !uses {
			continue
		}
		res := v.Call.Signature().Results()
		if res.Len() >= 1 && !isErrorType(res.At(0).Type()) {
			if _, isIface := res.At(0).Type().Underlying().(*types.Interface); isIface && c03HasMethod(res.At(0).Type(), "Write") {
				wrappers = append(wrappers, v)
				continue
			}
		}
		writes = append(writes, v)
	}
	return
}

func c03HasMethod(t types.Type, name string) bool {
	ms := types.NewMethodSet(t)
	for i := 0; i < ms.Len(); i++ {
		if ms.At(i).Obj().Name() == name {
			return true
		}
	}
	return false
}

// ---------------------------------------------------------------------------
// F-order

func c03RuleFOrder(p *Program, r *Reporter) {
	const rule = "F-order"
	r.Floor(rule, 7)
	a := c03FilesAnchors(p)
	fk := FuncKey(a.fn)
	site := p.Pos(a.fn.Pos())
	if a.temp == nil {
		r.Violation(rule, fk+"#rename-source", site, fmt.Sprintf("ReceiveBlob has %d VFS.TempFile calls (want exactly 1): the blob is not staged in one temp file, so a crash can leave a torn file under its final name", a.nTemp))
		return
	}
	if len(a.renames) != 1 {
		r.Violation(rule, fk+"#rename-source", site, fmt.Sprintf("ReceiveBlob has %d VFS.Rename calls (want exactly 1): the blob must become visible by one atomic rename of the temp file", len(a.renames)))
		return
	}
	rc := a.renames[0]
	ren := rc.Value()
	rsite := p.Pos(rc.Pos())
	args := rc.Args() // receiver, old, new

	// (i) source and destination
	r.Check(a.isTmpName(args[1]), rule, fk+"#rename-source", rsite,
		"Rename's source is Name() of the file returned by the TempFile call",
		"Rename's source is not Name() of the file returned by the TempFile call: the synced bytes and the renamed file may differ")
	refParam := c03ParamOfType(a.fn, "perkeep.org/pkg/blob", "Ref")
	destRef, isBP := c03BlobPathOf(p, args[2])
	okDest := isBP && refParam != nil && sameOrigin(destRef, refParam)
	r.Check(okDest, rule, fk+"#rename-dest", rsite,
		"Rename's destination is blobPath(<the received ref>), the function every reader opens",
		"Rename's destination is not blobPath(<the received ref parameter>): readers (fetch/stat/remove) would look elsewhere or the blob lands under another ref's name")

	// (ii) writes -> Sync -> Close -> Rename, each on the success edge
	syncs := a.tmpMethod("Sync")
	var sync *ssa.Call
	why := "no Sync() call on the temp file"
	for _, s := range syncs {
		ok, w := SuccessDominates(s, ren)
		if ok {
			sync = s
			break
		}
		why = "Sync() at line " + fmt.Sprint(c03Line(p, s.Pos())) + ": " + w
	}
	r.Check(sync != nil, rule, fk+"#sync-before-rename", rsite,
		"the Rename is on the err==nil edge of Sync() on the temp file",
		"the Rename is not dominated by a successful Sync() of the temp file ("+why+"): after a crash the renamed .dat may be empty or torn")

	writes, wrappers := a.writeSites()
	switch {
	case len(wrappers) > 0:
		r.Undecided(rule, fk+"#write-before-sync", p.Pos(wrappers[0].Pos()),
			"the temp file is wrapped into another io.Writer ("+(CallSite{a.fn, wrappers[0]}).CalleeKey()+"); writes through the wrapper are not followed")
	case len(writes) == 0:
		r.Violation(rule, fk+"#write-before-sync", site, "no call writes into the temp file")
	case sync == nil:
		r.Violation(rule, fk+"#write-before-sync", site, "no successful Sync() dominates the Rename, so no write is known to be synced")
	default:
		bad := ""
		for _, w := range writes {
			if ok, wy := SuccessDominates(w, sync); !ok {
				bad = fmt.Sprintf("write %s at line %d is not known to have succeeded before Sync() (%s): bytes written after or without the sync can be lost while the rename survives",
					(CallSite{a.fn, w}).CalleeKey(), c03Line(p, w.Pos()), wy)
			}
		}
		r.Check(bad == "", rule, fk+"#write-before-sync", p.Pos(sync.Pos()),
			fmt.Sprintf("all %d write site(s) into the temp file succeeded (err==nil edge) before Sync()", len(writes)), bad)
	}

	closes := a.tmpMethod("Close")
	var cls *ssa.Call
	why = "no Close() call on the temp file"
	for _, c := range closes {
		ok, w := SuccessDominates(c, ren)
		if ok {
			cls = c
			break
		}
		why = "Close() at line " + fmt.Sprint(c03Line(p, c.Pos())) + ": " + w
	}
	r.Check(cls != nil, rule, fk+"#close-before-rename", rsite,
		"the Rename is on the err==nil edge of Close() on the temp file",
		"the Rename is not dominated by a successful Close() of the temp file ("+why+"): a failed close (delayed write error) would still be published")
	okSC := sync != nil && cls != nil && Precedes(sync, cls)
	r.Check(okSC, rule, fk+"#sync-before-close", rsite,
		"Sync() precedes Close()", "Sync() does not precede Close() on the temp file: the data is closed unsynced (or Sync runs on a closed file)")

	// (iv) acknowledgement only after the rename
	bad := ""
	n := 0
	for _, nr := range MaybeNilErrorReturns(a.fn) {
		n++
		at := ssa.Instruction(nr.Ret)
		if nr.From != nil && nr.From != nr.Ret.Block() {
			at = c03Last(nr.From)
		}
		if !a.renameOK(at) {
			bad = fmt.Sprintf("the return at line %d may return a nil error without the Rename having succeeded: a receive is acknowledged for a blob that is not in place", c03Line(p, nr.Ret.Pos()))
		}
	}
	if n == 0 {
		bad = "ReceiveBlob has no return whose error may be nil"
	}
	r.Check(bad == "", rule, fk+"#ack-after-rename", rsite,
		fmt.Sprintf("all %d maybe-nil-error return(s) are on the err==nil edge of the Rename", n), bad)
}

// c03BlobPathOf recognises the path of a blob's .dat file: a call of
// (*Storage).blobPath, or its body inlined — filepath.Join(blobDirectory(ref),
// blobFileBaseName(ref)). It returns the ref argument.
func c03BlobPathOf(p *Program, v ssa.Value) (ref ssa.Value, ok bool) {
	if c := c03StaticCall(v, p.Func(c03PkgFiles, "Storage", "blobPath")); c != nil && len(c.Call.Args) == 2 {
		return c.Call.Args[1], true
	}
	j := c03CallIs(v, "path/filepath", "", "Join")
	if j == nil || len(j.Call.Args) != 1 {
		return nil, false
	}
	el := c03VarargElems(j.Call.Args[0])
	if len(el) != 2 {
		return nil, false
	}
	dir := c03StaticCall(el[0], p.Func(c03PkgFiles, "Storage", "blobDirectory"))
	base := c03StaticCall(el[1], p.Func(c03PkgFiles, "", "blobFileBaseName"))
	if dir == nil || base == nil || len(dir.Call.Args) != 2 || !sameOrigin(dir.Call.Args[1], base.Call.Args[0]) {
		return nil, false
	}
	return base.Call.Args[0], true
}

func c03ParamOfType(fn *ssa.Function, pkgPath, name string) *ssa.Parameter {
	var out *ssa.Parameter
	for _, prm := range fn.Params {
		if IsNamed(prm.Type(), pkgPath, name) {
			if _, isPtr := prm.Type().(*types.Pointer); isPtr {
				continue
			}
			if out != nil {
				return nil
			}
			out = prm
		}
	}
	return out
}

// ---------------------------------------------------------------------------
// F-order(iii) = C13 G-tmp

// ruleGTmpImpl emits, under rule name `as`, the temp-file cleanup obligations
// of files.(*Storage).ReceiveBlob (3 obligations).
func ruleGTmpImpl(p *Program, r *Reporter, as string) {
	r.Floor(as, 3)
	a := c03FilesAnchors(p)
	fk := FuncKey(a.fn)
	cReg, cRem, cFlag := fk+"#cleanup-registered", fk+"#cleanup-removes-temp", fk+"#success-flag"
	if a.temp == nil {
		msg := fmt.Sprintf("ReceiveBlob has %d VFS.TempFile calls (want exactly 1); the temp-file cleanup cannot be located", a.nTemp)
		for _, c := range []string{cReg, cRem, cFlag} {
			r.Undecided(as, c, p.Pos(a.fn.Pos()), msg)
		}
		return
	}
	isRemove := func(c CallSite) bool {
		if !c.IsMethod("Remove", a.vfs) {
			return false
		}
		args := c.Args()
		return len(args) == 2 && a.isTmpName(args[1])
	}
	cleanupClosure := func(in ssa.Instruction) *ssa.Function {
		d, ok := in.(*ssa.Defer)
		if !ok {
			return nil
		}
		cl := ClosureOf(CallSite{d.Parent(), d})
		if cl == nil || len(FindCalls(cl, false, isRemove)) == 0 {
			return nil
		}
		return cl
	}
	errVal, _, _ := ErrValue(a.temp)
	// (a) registered before any later return
	leaks := LeakingExits(PathQuery{
		Start: a.temp,
		Stop: func(in ssa.Instruction) bool {
			if ci, ok := in.(ssa.CallInstruction); ok && isRemove(CallSite{in.Parent(), ci}) {
				return true
			}
			return cleanupClosure(in) != nil
		},
		Assume: func(cond ssa.Value) (bool, bool) {
			// follow only the TempFile-succeeded edge
			if errVal == nil {
				return false, false
			}
			if k, nilWhenTrue := condSaysNil(cond, true, errVal); k {
				return true, nilWhenTrue
			}
			return false, false
		},
		ExitOK:       func(exit ssa.Instruction) bool { return a.renameOK(exit) },
		IgnorePanics: true,
	})
	if len(leaks) > 0 {
		var lines []string
		for _, l := range leaks {
			lines = append(lines, fmt.Sprint(c03Line(p, l.Exit.Pos())))
		}
		r.Violation(as, cReg, p.Pos(a.temp.Pos()),
			"after TempFile succeeded, the return(s) at line "+strings.Join(lines, ", ")+" are reached without the temp file's cleanup (deferred or explicit VFS.Remove(tmp.Name())) having been registered and without the Rename having succeeded: a failing receive leaves a *.tmp file behind")
	} else {
		r.OK(as, cReg, p.Pos(a.temp.Pos()), "every path from a successful TempFile to a return passes the registration of the temp file's cleanup (or a successful Rename)")
	}

	// (b) the deferred cleanup removes the file whenever the success flag is false
	var closures []*ssa.Function
	for _, d := range DeferredCalls(a.fn) {
		if cl := cleanupClosure(d.Instr); cl != nil {
			closures = append(closures, cl)
		}
	}
	if len(closures) == 0 {
		r.OKTable(as, cRem, p.Pos(a.temp.Pos()), "no deferred cleanup closure: removal is explicit on each path (decided by #cleanup-registered)")
		r.OKTable(as, cFlag, p.Pos(a.temp.Pos()), "no success flag")
		return
	}
	// flag cell: a bool variable of ReceiveBlob loaded by the closure's branch conditions
	flagOf := func(cond ssa.Value) (cell *ssa.Alloc, negated bool) {
		for {
			if u, ok := cond.(*ssa.UnOp); ok && u.Op == token.NOT {
				cond, negated = u.X, !negated
				continue
			}
			break
		}
		ld, ok := cond.(*ssa.UnOp)
		if !ok || ld.Op != token.MUL {
			return nil, false
		}
		c, ok := varOf(ld.X)
		if !ok {
			return nil, false
		}
		al, ok := c.(*ssa.Alloc)
		if !ok || al.Parent() != a.fn || !plainVariable(al) {
			return nil, false
		}
		if b, ok := al.Type().Underlying().(*types.Pointer).Elem().Underlying().(*types.Basic); !ok || b.Kind() != types.Bool {
			return nil, false
		}
		return al, negated
	}
	flags := map[*ssa.Alloc]bool{}
	badRem := ""
	for _, cl := range closures {
		for _, rm := range FindCalls(cl, false, isRemove) {
			for _, f := range FactsAt(rm.Block()) {
				cell, neg := flagOf(f.Cond)
				if cell == nil {
					badRem = fmt.Sprintf("the cleanup's Remove at line %d is additionally conditional on something other than a success flag of ReceiveBlob", c03Line(p, rm.Pos()))
					continue
				}
				flagVal := f.Val != neg // value of the flag on this edge
				if flagVal {
					badRem = fmt.Sprintf("the cleanup's Remove at line %d runs when the flag is TRUE (inverted test): failures keep the temp file and successes log a spurious removal", c03Line(p, rm.Pos()))
				}
				flags[cell] = true
			}
		}
		if len(cl.Blocks) == 0 || len(cl.Blocks[0].Instrs) == 0 {
			continue
		}
		lk := LeakingExits(PathQuery{
			Start: c03EntryMarker(cl),
			Stop: func(in ssa.Instruction) bool {
				ci, ok := in.(ssa.CallInstruction)
				return ok && isRemove(CallSite{in.Parent(), ci})
			},
			Assume: func(cond ssa.Value) (bool, bool) {
				if cell, neg := flagOf(cond); cell != nil {
					return true, neg // flag is false: cond == (false != neg)
				}
				return false, false
			},
			IgnorePanics: true,
		})
		if len(lk) > 0 && badRem == "" {
			badRem = fmt.Sprintf("the deferred cleanup can return (line %d) without VFS.Remove(tmp.Name()) although the success flag is false", c03Line(p, lk[0].Exit.Pos()))
		}
	}
	r.Check(badRem == "", as, cRem, p.Pos(closures[0].Pos()),
		"the deferred cleanup calls VFS.Remove(tmp.Name()) on every path on which the success flag is false", badRem)

	// (c) the flag becomes true only after the Rename succeeded
	badFlag := ""
	nStores := 0
	for cell := range flags {
		for _, st := range storesTo(cell) {
			nStores++
			if c, ok := st.Val.(*ssa.Const); ok && c.Value != nil {
				if c.Value.String() == "false" {
					continue
				}
				if st.Parent() == a.fn && a.renameOK(st) {
					continue
				}
				badFlag = fmt.Sprintf("the success flag is set at line %d where the Rename is not known to have succeeded: a later failure would keep the temp file", c03Line(p, st.Pos()))
			} else {
				badFlag = fmt.Sprintf("the success flag is assigned a non-constant value at line %d", c03Line(p, st.Pos()))
			}
		}
	}
	if len(flags) == 0 {
		r.OKTable(as, cFlag, p.Pos(closures[0].Pos()), "the deferred cleanup removes unconditionally (no success flag)")
	} else {
		r.Check(badFlag == "", as, cFlag, p.Pos(closures[0].Pos()),
			fmt.Sprintf("all %d store(s) to the success flag are `false` or lie on the err==nil edge of the Rename", nStores), badFlag)
	}
}

// c03EntryMarker returns an instruction of the entry block to start a path
// query "from function entry": LeakingExits starts after Start, so this must be
// an instruction that is never itself a stop (the first one is a load/alloc).
func c03EntryMarker(fn *ssa.Function) ssa.Instruction { return fn.Blocks[0].Instrs[0] }

// ---------------------------------------------------------------------------
// F-visible

func c03RuleFVisible(p *Program, r *Reporter) {
	const rule = "F-visible"
	r.Floor(rule, 13)
	a := c03FilesAnchors(p)
	blobPath := p.Func(c03PkgFiles, "Storage", "blobPath")
	baseName := p.Func(c03PkgFiles, "", "blobFileBaseName")
	readBlobs := p.Func(c03PkgFiles, "Storage", "readBlobs")

	// (a) every path handed to the VFS by package files
	n := 0
	for _, fn := range p.FuncsIn(c03PkgFiles) {
		for _, c := range CallsIn(fn, false) {
			if !c.Common().IsInvoke() {
				continue
			}
			m := c.MethodName()
			switch m {
			case "Open", "Stat", "Lstat", "Remove":
			default:
				continue
			}
			if !c.IsMethod(m, a.vfs) {
				continue
			}
			n++
			arg := c.Args()[1]
			construct := FuncKey(fn) + "#VFS." + m
			site := p.Pos(c.Pos())
			switch {
			case c03IsBlobPath(p, arg):
				r.OK(rule, construct, site, "path is blobPath(ref): only a renamed-into-place .dat file is ever touched")
			case TopFunc(fn) == a.fn && a.isTmpName(arg):
				r.OK(rule, construct, site, "receive path touching its own temp file (tmp.Name())")
			case TopFunc(fn) == readBlobs && m == "Stat":
				r.OKTable(rule, construct, site, "enumeration stat of a directory entry; entries are reported only behind the suffix test (see #send)")
			default:
				r.Violation(rule, construct, site, "VFS."+m+" on a path that is neither blobPath(ref) nor the receive path's own temp file: a read path could present a partially written (*.tmp) file as a blob")
			}
		}
	}
	r.Analysed("vfs_path_sites", n)

	// (b) blobPath ends in blobFileBaseName(b); its format ends in the extension
	ext := ""
	{
		okB := false
		detail := "blobPath does not return filepath.Join(..., blobFileBaseName(b))"
		rets := Returns(blobPath)
		if len(rets) == 1 && len(rets[0].Results) == 1 {
			if j := c03CallIs(rets[0].Results[0], "path/filepath", "", "Join"); j != nil && len(j.Call.Args) == 1 {
				el := c03VarargElems(j.Call.Args[0])
				if len(el) > 0 {
					if bn := c03StaticCall(el[len(el)-1], baseName); bn != nil && len(blobPath.Params) == 2 && sameOrigin(bn.Call.Args[0], blobPath.Params[1]) {
						okB = true
					}
				}
			}
		}
		r.Check(okB, rule, FuncKey(blobPath)+"#last-element", p.Pos(blobPath.Pos()), "blobPath(b) = Join(..., blobFileBaseName(b))", detail)

		okE := false
		detail = "blobFileBaseName does not return fmt.Sprintf(<constant format>, ...)"
		rets = Returns(baseName)
		if len(rets) == 1 && len(rets[0].Results) == 1 {
			if sp := c03CallIs(rets[0].Results[0], "fmt", "", "Sprintf"); sp != nil {
				if f, ok := ConstString(sp.Call.Args[0]); ok {
					lits, _, okf := c03Format(f)
					if okf && len(lits) > 0 {
						ext = lits[len(lits)-1]
					}
					okE = ext != "" && !strings.Contains(f, "*")
					detail = fmt.Sprintf("blobFileBaseName's format %q has no constant, non-empty extension after its last verb (or contains '*')", f)
				}
			}
		}
		r.Check(okE, rule, FuncKey(baseName)+"#extension", p.Pos(baseName.Pos()), fmt.Sprintf("blobFileBaseName's constant format ends in the literal extension %q", ext), detail)
	}

	// (c) readBlobs: every send is behind HasSuffix(name, ext) of the name the ref is computed from
	sizedRef := p.NamedType("pkg/blob", "SizedRef")
	type sendSite struct {
		in  ssa.Instruction
		val ssa.Value
	}
	var sends []sendSite
	var walk func(f *ssa.Function)
	walk = func(f *ssa.Function) {
		for _, b := range f.Blocks {
			for _, in := range b.Instrs {
				switch x := in.(type) {
				case *ssa.Send:
					if c03ChanOf(x.Chan.Type(), sizedRef) {
						sends = append(sends, sendSite{x, x.X})
					}
				case *ssa.Select:
					for _, st := range x.States {
						if st.Dir == types.SendOnly && c03ChanOf(st.Chan.Type(), sizedRef) {
							sends = append(sends, sendSite{x, st.Send})
						}
					}
				}
			}
		}
		for _, an := range f.AnonFuncs {
			walk(an)
		}
	}
	walk(readBlobs)
	isHasSuffix := func(c CallSite) bool { return c.IsStatic("strings", "", "HasSuffix") }
	for _, s := range sends {
		construct := FuncKey(s.in.Parent()) + "#send"
		site := p.Pos(s.in.Pos())
		known, val, hs := BoolCallFact(s.in.Block(), isHasSuffix)
		if !known || !val {
			r.Violation(rule, construct, site, "a blob is sent to the enumeration channel without strings.HasSuffix(name, ext) known true: *.tmp files of in-flight or crashed receives would be enumerated as blobs")
			continue
		}
		hargs := hs.Args()
		sfx, isConst := ConstString(hargs[1])
		name := hargs[0]
		switch {
		case !isConst || sfx != ext:
			r.Violation(rule, construct, site, fmt.Sprintf("the suffix test uses %q but blobFileBaseName writes extension %q", sfx, ext))
		case !c03Depends(s.val, func(v ssa.Value) bool { return v == name }):
			r.Violation(rule, construct, site, "the sent value does not derive from the name that passed the suffix test")
		default:
			r.OK(rule, construct, site, fmt.Sprintf("send is dominated by HasSuffix(name, %q)==true and the sent ref derives from that name", ext))
		}
	}
	// TrimSuffix constants agree
	{
		bad := ""
		nTrim := 0
		for _, c := range CallsIn(readBlobs, true) {
			if c.IsStatic("strings", "", "TrimSuffix") {
				nTrim++
				if s, ok := ConstString(c.Args()[1]); !ok || s != ext {
					bad = fmt.Sprintf("readBlobs trims %q but the extension written is %q", s, ext)
				}
			}
		}
		r.Check(bad == "", rule, FuncKey(readBlobs)+"#trim-agrees", p.Pos(readBlobs.Pos()),
			fmt.Sprintf("%d TrimSuffix constant(s) equal the written extension %q", nTrim, ext), bad)
	}

	// (d) temp names can never satisfy the suffix test
	if a.temp != nil {
		args := (CallSite{a.fn, a.temp}).Args() // recv, dir, prefix
		tail, okT := c03ConstTail(args[2])
		construct := FuncKey(a.fn) + "#temp-prefix-tail"
		site := p.Pos(a.temp.Pos())
		switch {
		case !okT || tail == "":
			r.Undecided(rule, construct, site, "the TempFile prefix does not end in a non-empty constant tail: it cannot be shown that no temp name ends in the blob extension (if the variable part contained a '*', os.CreateTemp would keep what follows it as the name's tail)")
		case strings.Contains(tail, "*"):
			r.Violation(rule, construct, site, fmt.Sprintf("the TempFile prefix tail %q contains '*': os.CreateTemp would substitute the random part there and keep what follows", tail))
		case ext == "" || strings.HasSuffix(tail, ext) || strings.HasSuffix(ext, tail):
			r.Violation(rule, construct, site, fmt.Sprintf("the TempFile prefix tail %q is compatible with extension %q: a temp name may end in the extension and be presented as a blob", tail, ext))
		default:
			r.OK(rule, construct, site, fmt.Sprintf("the TempFile prefix ends in constant %q: no string ending in it (nor in an appended hex/decimal suffix) ends in %q", tail, ext))
		}
	} else {
		r.Violation(rule, FuncKey(a.fn)+"#temp-prefix-tail", p.Pos(a.fn.Pos()), "no single TempFile call in ReceiveBlob")
	}

	// (e) VFS implementations only append to the prefix
	for _, T := range p.Implementers(a.vfs, false) {
		m := p.LookupFunc(RelPkg(T.Obj().Pkg()), T.Obj().Name(), "TempFile") // the declared method, not a pointer-receiver wrapper
		construct := typeKey(T) + ".TempFile#appends-only"
		if m == nil || m.Blocks == nil || len(m.Params) < 2 {
			r.Undecided(rule, construct, "?", "TempFile implementation has no analysable body")
			continue
		}
		ok, detail := c03AppendsOnly(m, ext)
		site := p.Pos(m.Pos())
		if ok {
			r.OK(rule, construct, site, detail)
		} else {
			r.Undecided(rule, construct, site, detail)
		}
	}
}

func c03IsBlobPath(p *Program, v ssa.Value) bool { _, ok := c03BlobPathOf(p, v); return ok }

func c03ChanOf(t types.Type, elem *types.Named) bool {
	ch, ok := t.Underlying().(*types.Chan)
	return ok && types.Identical(ch.Elem(), elem)
}

// c03ConstTail returns the constant tail of a string expression: the constant
// itself, or the constant right operand of a concatenation.
func c03ConstTail(v ssa.Value) (string, bool) {
	if s, ok := ConstString(v); ok {
		return s, true
	}
	if b, ok := originValue(v).(*ssa.BinOp); ok && b.Op == token.ADD {
		if s, ok := ConstString(b.Y); ok {
			return s, true
		}
	}
	return "", false
}

var c03NumVerb = regexp.MustCompile(`^%[0-9]*[xXd]$`)

// c03AppendsOnly checks that a VFS.TempFile implementation uses its prefix
// parameter only as os.CreateTemp's pattern or as the left operand of a
// concatenation with a hex/decimal suffix (and for error formatting).
func c03AppendsOnly(m *ssa.Function, ext string) (bool, string) {
	prm := m.Params[len(m.Params)-1]
	if b, ok := prm.Type().Underlying().(*types.Basic); !ok || b.Kind() != types.String {
		return false, "last parameter of TempFile is not the string prefix"
	}
	refs := prm.Referrers()
	if refs == nil {
		return false, "prefix parameter unused"
	}
	appended := 0
	for _, u := range *refs {
		switch x := u.(type) {
		case *ssa.DebugRef:
		case *ssa.Call:
			if funcIs(x.Call.StaticCallee(), "os", "", "CreateTemp") && len(x.Call.Args) == 2 && x.Call.Args[1] == ssa.Value(prm) {
				appended++
				continue
			}
			return false, "prefix is passed to " + (CallSite{m, x}).CalleeKey() + ", which is not known to append only"
		case *ssa.BinOp:
			if x.Op != token.ADD || x.X != ssa.Value(prm) {
				return false, "prefix is used in an expression other than prefix+suffix"
			}
			sp := c03CallIs(x.Y, "fmt", "", "Sprintf")
			if sp == nil {
				return false, "the suffix appended to the prefix is not a fmt.Sprintf of a number"
			}
			f, ok := ConstString(sp.Call.Args[0])
			if !ok || !c03NumVerb.MatchString(f) {
				return false, fmt.Sprintf("the appended suffix's format %q is not a plain hex/decimal verb", f)
			}
			if ext != "" && strings.ContainsAny(ext[len(ext)-1:], "0123456789abcdefABCDEF-") {
				return false, "the extension's last byte could be produced by a hex/decimal suffix"
			}
			appended++
		case *ssa.MakeInterface:
			if !c03OnlyFormatted(x) {
				return false, "prefix flows into a formatting call other than fmt.Errorf/log"
			}
		default:
			return false, fmt.Sprintf("prefix is used by an unrecognised instruction (%T)", u)
		}
	}
	if appended == 0 {
		return false, "prefix is never used to build the temp name"
	}
	return true, "prefix is used only as os.CreateTemp's pattern / as left operand of prefix+<hex|decimal suffix> (and in error messages): the temp name ends in that random suffix, never in the extension"
}

// c03OnlyFormatted: the interface value is stored into a varargs array whose
// slice is consumed only by fmt.Errorf or package log.
func c03OnlyFormatted(mi *ssa.MakeInterface) bool {
	refs := mi.Referrers()
	if refs == nil {
		return true
	}
	for _, u := range *refs {
		st, ok := u.(*ssa.Store)
		if !ok {
			if _, dbg := u.(*ssa.DebugRef); dbg {
				continue
			}
			return false
		}
		al := c03RootAlloc(st.Addr)
		if al == nil {
			return false
		}
		for _, au := range *al.Referrers() {
			sl, ok := au.(*ssa.Slice)
			if !ok {
				continue
			}
			for _, su := range *sl.Referrers() {
				c, ok := su.(*ssa.Call)
				if !ok {
					return false
				}
				f := c.Call.StaticCallee()
				if f == nil || !(funcIs(f, "fmt", "", "Errorf") || f.Pkg != nil && f.Pkg.Pkg.Path() == "log") {
					return false
				}
			}
		}
	}
	return true
}

// ---------------------------------------------------------------------------
// D-order

type c03DPAnch struct {
	p       *Program
	append  *ssa.Function
	recv    *ssa.Parameter
	kv      *types.Interface
	set     *ssa.Call // index.Set in append (nil unless exactly one)
	nSet    int
	sync    []*ssa.Call // (*os.File).Sync on s.writer
	writes  []*ssa.Call // data writes into s.writer
	header  *ssa.Call   // the fmt.Fprintf header write with constant format
	hdrFmt  string
	hdrArgs []ssa.Value
}

func (d *c03DPAnch) isWriter(v ssa.Value) bool {
	ld, ok := originValue(v).(*ssa.UnOp)
	if !ok || ld.Op != token.MUL {
		return false
	}
	fa, ok := ld.X.(*ssa.FieldAddr)
	return ok && fieldName(fa.X.Type(), fa.Field) == "writer" && originValue(fa.X) == ssa.Value(d.recv)
}

func c03DPAnchors(p *Program) *c03DPAnch {
	d := &c03DPAnch{p: p}
	d.append = p.Func(c03PkgDP, "storage", "append")
	d.recv = d.append.Params[0]
	d.kv = p.Iface("pkg/sorted", "KeyValue")
	st, _ := p.NamedType(c03PkgDP, "storage").Underlying().(*types.Struct)
	hasWriter := false
	for i := 0; st != nil && i < st.NumFields(); i++ {
		if st.Field(i).Name() == "writer" {
			hasWriter = true
		}
	}
	if !hasWriter {
		brokenf("anchor unresolved: field diskpacked.storage.writer")
	}
	for _, c := range CallsIn(d.append, false) {
		v := c.Value()
		if v == nil {
			continue
		}
		if v.Call.IsInvoke() && c.IsMethod("Set", d.kv) {
			d.nSet++
			d.set = v
			continue
		}
		if c.IsStatic("os", "File", "Sync") && d.isWriter(c.Args()[0]) {
			d.sync = append(d.sync, v)
			continue
		}
		// data writes: the writer passed as an io.Writer argument, or Write* methods on it
		if f := c.Callee(); f != nil && funcIs(f, "os", "File", f.Name()) {
			if d.isWriter(c.Args()[0]) && strings.HasPrefix(f.Name(), "Write") {
				d.writes = append(d.writes, v)
			}
			continue
		}
		for _, arg := range v.Call.Args {
			if _, isMI := arg.(*ssa.MakeInterface); isMI && d.isWriter(arg) {
				d.writes = append(d.writes, v)
				if c.IsStatic("fmt", "", "Fprintf") {
					if f, ok := ConstString(v.Call.Args[1]); ok && d.header == nil {
						d.header, d.hdrFmt = v, f
						d.hdrArgs = c03VarargElems(v.Call.Args[2])
					}
				}
				break
			}
		}
	}
	if d.nSet != 1 {
		d.set = nil
	}
	return d
}

func c03RuleDOrder(p *Program, r *Reporter) {
	const rule = "D-order"
	r.Floor(rule, 7)
	d := c03DPAnchors(p)
	fk := FuncKey(d.append)
	site := p.Pos(d.append.Pos())

	if d.set == nil {
		r.Violation(rule, fk+"#sync-before-index", site, fmt.Sprintf("append has %d index Set calls (want exactly 1)", d.nSet))
		return
	}
	ssite := p.Pos(d.set.Pos())
	var sync *ssa.Call
	why := "no (*os.File).Sync on s.writer"
	for _, s := range d.sync {
		ok, w := SuccessDominates(s, d.set)
		if ok {
			sync = s
			break
		}
		why = fmt.Sprintf("Sync at line %d: %s", c03Line(p, s.Pos()), w)
	}
	r.Check(sync != nil, rule, fk+"#sync-before-index", ssite,
		"index.Set is on the err==nil edge of s.writer.Sync()",
		"index.Set is not dominated by a successful s.writer.Sync() ("+why+"): after a crash the index may name bytes that never reached the disk")

	// data writes before the sync
	if len(d.writes) == 0 {
		r.Violation(rule, fk+"#write-before-sync", site, "no data write into s.writer found in append")
	}
	for _, w := range d.writes {
		construct := fk + "#write-before-sync#" + (CallSite{d.append, w}).CalleeKey()
		if sync == nil {
			r.Violation(rule, construct, p.Pos(w.Pos()), "no successful Sync dominates index.Set, so this write is not known to be synced before it is indexed")
			continue
		}
		ok, wy := SuccessDominates(w, sync)
		r.Check(ok, rule, construct, p.Pos(w.Pos()),
			"the write succeeded (err==nil edge) before s.writer.Sync()",
			"the write is not known to have succeeded before s.writer.Sync() ("+wy+"): unsynced or failed bytes would be indexed")
	}

	// size equality check before the sync
	{
		ok := false
		if sync != nil {
			for _, f := range FactsAt(sync.Block()) {
				b, isBin := f.Cond.(*ssa.BinOp)
				if !isBin || !(b.Op == token.NEQ && !f.Val || b.Op == token.EQL && f.Val) {
					continue
				}
				for _, pair := range [][2]ssa.Value{{b.X, b.Y}, {b.Y, b.X}} {
					if c03IsWriteCount(pair[0], d) && c03Depends(pair[1], c03IsSizedRefSize) {
						ok = true
					}
				}
			}
		}
		at := site
		if sync != nil {
			at = p.Pos(sync.Pos())
		}
		r.Check(ok, rule, fk+"#size-check-before-sync", at,
			"Sync (hence index.Set) is behind `bytes written == br.Size` for the body write",
			"no `written == br.Size` fact dominates the Sync: a short body would be indexed under a header and index row claiming br.Size bytes (the next header would be read from inside the blob)")
	}

	// ack only after the index row is written
	{
		bad := ""
		n := 0
		setErr, _, _ := ErrValue(d.set)
		for _, nr := range MaybeNilErrorReturns(d.append) {
			n++
			if setErr != nil && sameOrigin(nr.Val, setErr) {
				continue
			}
			at := ssa.Instruction(nr.Ret)
			if nr.From != nil && nr.From != nr.Ret.Block() {
				at = c03Last(nr.From)
			}
			if ok, _ := SuccessDominates(d.set, at); !ok {
				bad = fmt.Sprintf("the return at line %d may return nil without index.Set having succeeded: an acknowledged blob would be missing from the index", c03Line(p, nr.Ret.Pos()))
			}
		}
		if n == 0 {
			bad = "append has no maybe-nil return"
		}
		r.Check(bad == "", rule, fk+"#ack-after-index", ssite, fmt.Sprintf("all %d maybe-nil return(s) are on the err==nil edge of index.Set (or return its error)", n), bad)
	}

	// ReceiveBlob: duplicate acknowledgement
	rb := p.Func(c03PkgDP, "storage", "ReceiveBlob")
	metaFn := p.Func(c03PkgDP, "storage", "meta")
	filenameFn := p.Func(c03PkgDP, "storage", "filename")
	rk := FuncKey(rb)
	var appendCalls []*ssa.Call
	for _, c := range CallsIn(rb, false) {
		if c.Callee() == d.append && c.Value() != nil {
			appendCalls = append(appendCalls, c.Value())
		}
	}
	nAck := 0
	for _, nr := range MaybeNilErrorReturns(rb) {
		fromAppend := false
		for _, ac := range appendCalls {
			if sameOrigin(nr.Val, ac) {
				fromAppend = true
			}
		}
		at := ssa.Instruction(nr.Ret)
		if nr.From != nil && nr.From != nr.Ret.Block() {
			at = c03Last(nr.From)
		}
		rsite := p.Pos(nr.Ret.Pos())
		if fromAppend {
			r.OK(rule, rk+"#ack-is-append-verdict", rsite, "the returned error is append's own result")
			continue
		}
		nAck++
		ok, detail := c03DupAck(p, rb, at, metaFn, filenameFn)
		r.Check(ok, rule, rk+"#dup-ack", rsite,
			"the duplicate-ack return is behind {meta(br) found, os.Stat(filename(m.file)) ok, fi.Size() >= m.offset+m.size}", detail)
	}
	if len(appendCalls) == 0 {
		r.Violation(rule, rk+"#ack-is-append-verdict", p.Pos(rb.Pos()), "ReceiveBlob no longer calls append")
	}
}

func c03IsSizedRefSize(v ssa.Value) bool {
	switch x := v.(type) {
	case *ssa.FieldAddr:
		return fieldName(x.X.Type(), x.Field) == "Size" && IsNamed(x.X.Type().Underlying().(*types.Pointer).Elem(), "perkeep.org/pkg/blob", "SizedRef")
	case *ssa.Field:
		return fieldName(x.X.Type(), x.Field) == "Size" && IsNamed(x.X.Type(), "perkeep.org/pkg/blob", "SizedRef")
	}
	return false
}

// c03IsWriteCount: v is the byte-count result of one of append's data writes
// other than the header.
func c03IsWriteCount(v ssa.Value, d *c03DPAnch) bool {
	ex, ok := originValue(v).(*ssa.Extract)
	if !ok || ex.Index != 0 {
		return false
	}
	for _, w := range d.writes {
		if ex.Tuple == ssa.Value(w) && w != d.header {
			return true
		}
	}
	return false
}

// c03DupAck checks the facts dominating the duplicate-ack return of
// diskpacked.ReceiveBlob.
func c03DupAck(p *Program, rb *ssa.Function, at ssa.Instruction, metaFn, filenameFn *ssa.Function) (bool, string) {
	var meta, stat *ssa.Call
	for _, c := range CallsIn(rb, false) {
		v := c.Value()
		if v == nil {
			continue
		}
		if c.Callee() == metaFn {
			if ok, _ := SuccessDominates(v, at); ok {
				meta = v
			}
		}
		if c.IsStatic("os", "", "Stat") || c.IsStatic("os", "", "Lstat") {
			if ok, _ := SuccessDominates(v, at); ok {
				stat = v
			}
		}
	}
	if meta == nil {
		return false, "a nil-error return that is not append's verdict is not behind a successful meta(br) lookup: a blob absent from the index would be acknowledged without being stored"
	}
	m := ResultValue(meta, 0)
	if stat == nil {
		return false, "the duplicate-ack return is not behind a successful os.Stat of the pack file: a duplicate would be acknowledged although its pack file is gone"
	}
	// stat'ed file is filename(m.file)
	fnc := c03StaticCall(stat.Call.Args[0], filenameFn)
	okFile := false
	if fnc != nil {
		if name, base, ok := c03FieldRead(originValue(fnc.Call.Args[1])); ok && name == "file" && c03Holds(base, m) {
			okFile = true
		}
	}
	if !okFile {
		return false, "the stat'ed path is not filename(m.file) of the looked-up row"
	}
	fi := ResultValue(stat, 0)
	isSize := func(v ssa.Value) bool {
		c, ok := originValue(v).(*ssa.Call)
		return ok && c.Call.IsInvoke() && c.Call.Method.Name() == "Size" && fi != nil && sameOrigin(c.Call.Value, fi)
	}
	// Every dominating ordering comparison that mentions fi.Size(), as a linear
	// form F >= 0 (so that `fi.Size()-m.offset >= int64(m.size)`, an extent kept
	// in a local, a negated `<` … are all the same fact). Required:
	// F = fi.Size() - m.offset - m.size + k with k <= 0 and nothing else.
	forms, unfollowed := c03OrderFacts(at.Block())
	var bad []string
	for _, f := range forms {
		var cSize, cOff, cLen int64
		var other []string
		for i, x := range f.leaf {
			c := f.coef[i]
			if c == 0 {
				continue
			}
			if isSize(x) {
				cSize += c
				continue
			}
			if name, base, ok := c03FieldRead(x); ok && c03Holds(base, m) && (name == "offset" || name == "size") {
				if name == "offset" {
					cOff += c
				} else {
					cLen += c
				}
				continue
			}
			other = append(other, c03LeafName(x))
		}
		if cSize == 0 {
			continue
		}
		if cSize == 1 && cOff == -1 && cLen == -1 && len(other) == 0 && f.k <= 0 {
			return true, ""
		}
		switch {
		case cSize < 0:
			bad = append(bad, fmt.Sprintf("the comparison between the pack file's size and the indexed extent does not imply size >= offset+size (known here: %s >= 0)", f))
		case len(other) > 0 || cSize != 1 || cOff > 0 || cLen > 0 || cOff < -1 || cLen < -1:
			bad = append(bad, fmt.Sprintf("the quantity compared with the pack file's size is not the row's extent m.offset+m.size (known here: %s >= 0)", f))
		case cOff == 0 || cLen == 0:
			bad = append(bad, fmt.Sprintf("the extent compared with the pack file's size omits the row's %s (known here: %s >= 0): a duplicate whose body was cut by a crash is acknowledged without being re-appended", map[bool]string{true: "offset", false: "size"}[cOff == 0], f))
		default:
			bad = append(bad, fmt.Sprintf("the comparison admits a pack file %d byte(s) shorter than the indexed extent (known here: %s >= 0)", f.k, f))
		}
	}
	if len(bad) > 0 {
		return false, strings.Join(bad, "; ")
	}
	if len(unfollowed) > 0 {
		return false, "the duplicate-ack return is guarded by a call the rule cannot follow (" + strings.Join(unfollowed, ", ") + "); `fi.Size() >= m.offset+m.size` is not established"
	}
	return false, "the duplicate-ack return is not behind `fi.Size() >= m.offset+m.size`: after a crash that lost the tail of the pack, a re-upload of the lost blob would be acknowledged without re-appending it"
}

// ---------------------------------------------------------------------------
// D-reindex-agreement

func c03RuleDAgreement(p *Program, r *Reporter) {
	const rule = "D-reindex-agreement"
	r.Floor(rule, 18)
	d := c03DPAnchors(p)
	fk := FuncKey(d.append)

	// writer side
	var open, sep, cls int64 = -1, -1, -1
	bits := 0
	nLit := 0
	okW := false
	detail := "append has no fmt.Fprintf(s.writer, <constant format>, ...) header write"
	if d.header != nil {
		lits, verbs, ok := c03Format(d.hdrFmt)
		detail = fmt.Sprintf("header format %q is not <1 byte><verb><1 byte><verb><1 byte>", d.hdrFmt)
		if ok && len(verbs) == 2 && len(lits) == 3 && len(lits[0]) == 1 && len(lits[1]) == 1 && len(lits[2]) == 1 && len(d.hdrArgs) == 2 {
			open, sep, cls = int64(lits[0][0]), int64(lits[1][0]), int64(lits[2][0])
			nLit = 3
			a0, a1 := originValue(d.hdrArgs[0]), originValue(d.hdrArgs[1])
			detail = "header arguments are not (blob.Ref.String(), <unsigned integer size>) printed with %v/%s and %v/%d"
			if c03CallIs(a0, "perkeep.org/pkg/blob", "Ref", "String") != nil && (verbs[0] == "v" || verbs[0] == "s") && (verbs[1] == "v" || verbs[1] == "d") {
				if b, ok := a1.Type().Underlying().(*types.Basic); ok && b.Info()&types.IsUnsigned != 0 && c03Depends(a1, c03IsSizedRefSize) {
					switch b.Kind() {
					case types.Uint8:
						bits = 8
					case types.Uint16:
						bits = 16
					case types.Uint32:
						bits = 32
					case types.Uint64:
						bits = 64
					}
					okW = bits != 0 && open != sep && sep != cls && open != cls
				}
			}
		}
	}
	hsite := p.Pos(d.append.Pos())
	if d.header != nil {
		hsite = p.Pos(d.header.Pos())
	}
	r.Check(okW, rule, fk+"#header-writer", hsite,
		fmt.Sprintf("header = %q ref %q size(base 10, %d-bit unsigned, = br.Size) %q", string(rune(open)), string(rune(sep)), bits, string(rune(cls))), detail)
	if !okW {
		return
	}

	// reader side
	type reader struct {
		fn       *ssa.Function
		useSlice bool // close delimiter is a ReadSlice argument
	}
	readers := []reader{
		{p.Func(c03PkgDP, "storage", "walkPack"), true},
		{p.Func(c03PkgDP, "", "readHeader"), true},
		{p.Func(c03PkgDP, "storage", "delete"), false},
	}
	for _, rd := range readers {
		k := FuncKey(rd.fn)
		site := p.Pos(rd.fn.Pos())
		byteCmp := map[int64]bool{}
		for _, b := range rd.fn.Blocks {
			for _, in := range b.Instrs {
				if bo, ok := in.(*ssa.BinOp); ok && (bo.Op == token.EQL || bo.Op == token.NEQ) {
					for _, pair := range [][2]ssa.Value{{bo.X, bo.Y}, {bo.Y, bo.X}} {
						if bt, ok := pair[0].Type().Underlying().(*types.Basic); ok && bt.Kind() == types.Uint8 {
							if c, ok := ConstInt(pair[1]); ok {
								byteCmp[c] = true
							}
						}
					}
				}
			}
		}
		var slices, indexBytes []int64
		okSize, sizeDetail, nSize := true, "", 0
		for _, c := range CallsIn(rd.fn, false) {
			switch {
			case c.IsStatic("bufio", "Reader", "ReadSlice"):
				if v, ok := ConstInt(c.Args()[1]); ok {
					slices = append(slices, v)
				}
			case c.IsStatic("bytes", "", "IndexByte"):
				if v, ok := ConstInt(c.Args()[1]); ok {
					indexBytes = append(indexBytes, v)
				}
			case c.IsStatic("strconv", "", "ParseUint") || c.IsStatic("go4.org/strutil", "", "ParseUintBytes"):
				nSize++
				base, ok1 := ConstInt(c.Args()[1])
				bs, ok2 := ConstInt(c.Args()[2])
				if !ok1 || !ok2 || base != 10 || int(bs) != bits {
					okSize, sizeDetail = false, fmt.Sprintf("parses the size with base %d / %d bits but the writer prints base 10 from a %d-bit unsigned", base, bs, bits)
				}
			case c.IsStatic("strconv", "", "ParseInt") || c.IsStatic("strconv", "", "Atoi"):
				nSize++
				okSize, sizeDetail = false, "parses the size as a signed integer; the writer prints an unsigned one"
			case c.IsStatic("strconv", "", "FormatUint"):
				nSize++
				if base, ok := ConstInt(c.Args()[1]); !ok || base != 10 {
					okSize, sizeDetail = false, "formats the size in a base other than 10"
				}
			}
		}
		r.Check(byteCmp[open], rule, k+"#open-delimiter", site,
			fmt.Sprintf("compares a header byte with %q, the writer's opening delimiter", string(rune(open))),
			fmt.Sprintf("no byte comparison with the writer's opening delimiter %q", string(rune(open))))
		okClose := byteCmp[cls]
		if rd.useSlice {
			okClose = len(slices) > 0
			for _, s := range slices {
				if s != cls {
					okClose = false
				}
			}
		}
		r.Check(okClose, rule, k+"#close-delimiter", site,
			fmt.Sprintf("reads up to / compares with %q, the writer's closing delimiter", string(rune(cls))),
			fmt.Sprintf("does not delimit the header with the writer's closing delimiter %q", string(rune(cls))))
		okSep := false
		for _, v := range indexBytes {
			if v == sep {
				okSep = true
			}
		}
		r.Check(okSep, rule, k+"#separator", site,
			fmt.Sprintf("splits ref and size at %q, the writer's separator", string(rune(sep))),
			fmt.Sprintf("does not split the header at the writer's separator %q", string(rune(sep))))
		if nSize == 0 {
			okSize, sizeDetail = false, "no size parse/format call found"
		}
		r.Check(okSize, rule, k+"#size-codec", site,
			fmt.Sprintf("size is read as base-10 %d-bit unsigned, as written", bits), sizeDetail)
	}

	// delete's walk-back length counts the literal bytes of the format
	del := readers[2].fn
	{
		ok := false
		detail := "delete's header length is not <consts> + len(ref.String()) + len(FormatUint(size, 10))"
		for _, c := range CallsIn(del, false) {
			if !c.IsStatic("strconv", "", "FormatUint") || c.Value() == nil {
				continue
			}
			// len(FormatUint(...)) and the root of the addition tree it is a leaf of
			for _, u := range *c.Value().Referrers() {
				ln, isLen := u.(*ssa.Call)
				if !isLen {
					continue
				}
				if b, isB := ln.Call.Value.(*ssa.Builtin); !isB || b.Name() != "len" {
					continue
				}
				root := ssa.Value(ln)
				for {
					var up ssa.Value
					for _, uu := range *root.Referrers() {
						if bo, ok := uu.(*ssa.BinOp); ok && bo.Op == token.ADD {
							up = bo
						}
					}
					if up == nil {
						break
					}
					root = up
				}
				var consts int64
				nRef, nNum, other := 0, 0, 0
				for _, l := range c03AddLeaves(root) {
					if v, ok := ConstInt(l); ok {
						consts += v
						continue
					}
					lc, ok := l.(*ssa.Call)
					if ok {
						if b, isB := lc.Call.Value.(*ssa.Builtin); isB && b.Name() == "len" {
							if c03CallIs(lc.Call.Args[0], "perkeep.org/pkg/blob", "Ref", "String") != nil {
								nRef++
								continue
							}
							if c03CallIs(lc.Call.Args[0], "strconv", "", "FormatUint") != nil {
								nNum++
								continue
							}
						}
					}
					other++
				}
				if nRef == 1 && nNum == 1 && other == 0 {
					ok = consts == int64(nLit)
					detail = fmt.Sprintf("delete walks back %d literal bytes + len(ref) + len(size) but the header format has %d literal bytes", consts, nLit)
				}
			}
		}
		r.Check(ok, rule, FuncKey(del)+"#walk-back-length", p.Pos(del.Pos()),
			fmt.Sprintf("delete walks back %d delimiter bytes + len(ref.String()) + len(decimal size): exactly the header append writes", nLit), detail)
	}

	// deleted marker
	c03DeletedMarker(p, r, rule, del)

	// index row codec
	c03RowCodec(p, r, rule, d)
}

func c03DeletedMarker(p *Program, r *Reporter, rule string, del *ssa.Function) {
	// the regexp
	var pat string
	havePat := false
	var global *ssa.Global
	for _, fn := range p.FuncsIn(c03PkgDP) {
		if fn.Name() != "init" || fn.Parent() != nil {
			continue
		}
		for _, b := range fn.Blocks {
			for _, in := range b.Instrs {
				st, ok := in.(*ssa.Store)
				if !ok {
					continue
				}
				g, ok := st.Addr.(*ssa.Global)
				if !ok || g.Name() != "deletedBlobRef" {
					continue
				}
				global = g
				if mc := c03CallIs(st.Val, "regexp", "", "MustCompile"); mc != nil {
					pat, havePat = ConstString(mc.Call.Args[0])
				}
			}
		}
	}
	if global == nil {
		brokenf("anchor unresolved: diskpacked.deletedBlobRef")
	}
	k := FuncKey(del)
	// what delete writes
	var hashByte, digestByte, dash int64 = -1, -1, -1
	for _, b := range del.Blocks {
		for _, in := range b.Instrs {
			st, ok := in.(*ssa.Store)
			if !ok {
				continue
			}
			ia, ok := st.Addr.(*ssa.IndexAddr)
			if !ok {
				continue
			}
			v, ok := ConstInt(st.Val)
			if !ok {
				continue
			}
			ph, ok := ia.Index.(*ssa.Phi)
			if !ok {
				continue
			}
			fromZero := false
			for _, e := range ph.Edges {
				if c, ok := ConstInt(e); ok && c == 0 {
					fromZero = true
				}
			}
			if fromZero {
				hashByte = v
			} else {
				digestByte = v
			}
		}
	}
	var seps []int64
	for _, c := range CallsIn(del, false) {
		if c.IsStatic("bytes", "", "IndexByte") {
			if v, ok := ConstInt(c.Args()[1]); ok {
				seps = append(seps, v)
			}
		}
	}
	if len(seps) >= 1 {
		dash = seps[0] // the first IndexByte finds the hash-name/digest separator
	}
	site := p.Pos(del.Pos())
	if !havePat || hashByte < 0 || digestByte < 0 || dash < 0 {
		r.Undecided(rule, k+"#deleted-marker", site, fmt.Sprintf("could not extract the marker: regexp const=%v hash fill=%d digest fill=%d separator=%d", havePat, hashByte, digestByte, dash))
	} else {
		re, err := regexp.Compile(pat)
		bad := ""
		if err != nil {
			bad = "deletedBlobRef pattern does not compile: " + err.Error()
		} else {
			for _, hn := range []int{1, 4, 6, 8} {
				for _, dn := range []int{1, 40, 56, 64} {
					s := strings.Repeat(string(rune(hashByte)), hn) + string(rune(dash)) + strings.Repeat(string(rune(digestByte)), dn)
					if !re.MatchString(s) {
						bad = fmt.Sprintf("deletedBlobRef %q does not match %q, which is what delete writes over a header: walkers would report/parse deleted entries as blobs", pat, s)
					}
				}
			}
			for _, live := range []string{"sha1-" + strings.Repeat("0", 40), "sha224-" + strings.Repeat("0", 56), "sha224-" + strings.Repeat("a", 56), "sha1-" + strings.Repeat("f", 40)} {
				if re.MatchString(live) {
					bad = fmt.Sprintf("deletedBlobRef %q matches the live blobref %q: walkers would skip a present blob", pat, live)
				}
			}
		}
		r.Check(bad == "", rule, k+"#deleted-marker", site,
			fmt.Sprintf("delete overwrites the ref with %q*%q%q*; deletedBlobRef %q matches that for all sampled lengths and no live ref", string(rune(hashByte)), string(rune(dash)), string(rune(digestByte)), pat), bad)
	}
	// both pack walkers consult the marker
	for _, w := range []*ssa.Function{p.Func(c03PkgDP, "storage", "walkPack"), p.Func(c03PkgDP, "storage", "StreamBlobs")} {
		ok := false
		for _, c := range CallsIn(w, false) {
			if c.IsStatic("regexp", "Regexp", "Match") || c.IsStatic("regexp", "Regexp", "MatchString") {
				if ld, isLd := c.Args()[0].(*ssa.UnOp); isLd && ld.Op == token.MUL && ld.X == ssa.Value(global) {
					ok = true
				}
			}
		}
		r.Check(ok, rule, FuncKey(w)+"#honours-deleted-marker", p.Pos(w.Pos()),
			"the pack walker tests each header's ref against deletedBlobRef",
			"the pack walker no longer tests headers against deletedBlobRef: after any removal the pack can no longer be walked (reindex/stream fail on the marker)")
	}
}

func c03RowCodec(p *Program, r *Reporter, rule string, d *c03DPAnch) {
	str := p.Func(c03PkgDP, "blobMeta", "String")
	parse := p.Func(c03PkgDP, "", "parseBlobMeta")
	// field order written
	var wrote, read []string
	wfmt := ""
	if rets := Returns(str); len(rets) == 1 {
		if sp := c03CallIs(rets[0].Results[0], "fmt", "", "Sprintf"); sp != nil {
			wfmt, _ = ConstString(sp.Call.Args[0])
			for _, e := range c03VarargElems(sp.Call.Args[1]) {
				if name, _, ok := c03FieldRead(originValue(e)); ok {
					wrote = append(wrote, name)
				} else {
					wrote = append(wrote, "?")
				}
			}
		}
	}
	var nConst int64 = -1
	for _, c := range CallsIn(parse, false) {
		if c.IsStatic("fmt", "", "Sscan") && c.Value() != nil {
			for _, e := range c03VarargElems(c.Args()[1]) {
				if fa, ok := originValue(e).(*ssa.FieldAddr); ok {
					read = append(read, fieldName(fa.X.Type(), fa.Field))
				} else {
					read = append(read, "?")
				}
			}
			// the count compared with Sscan's n
			if n := ResultValue(c.Value(), 0); n != nil && n.Referrers() != nil {
				for _, u := range *n.Referrers() {
					if bo, ok := u.(*ssa.BinOp); ok && bo.Op == token.EQL {
						if v, ok := ConstInt(bo.Y); ok {
							nConst = v
						}
					}
				}
			}
		}
	}
	lits, verbs, okf := c03Format(wfmt)
	okc := okf && len(verbs) == len(wrote) && len(wrote) > 0 && strings.Join(wrote, ",") == strings.Join(read, ",") && nConst == int64(len(read)) && !strings.Contains(strings.Join(wrote, ","), "?")
	if okc {
		for i, l := range lits {
			if i > 0 && i < len(lits)-1 && strings.TrimSpace(l) != "" || (i == 0 || i == len(lits)-1) && l != "" {
				okc = false // Sscan splits on white space only
			}
			if i > 0 && i < len(lits)-1 && l == "" {
				okc = false
			}
		}
	}
	r.Check(okc, rule, FuncKey(parse)+"#row-fields", p.Pos(parse.Pos()),
		fmt.Sprintf("blobMeta.String writes %v space-separated (%q); parseBlobMeta scans the same fields in the same order and requires n == %d", wrote, wfmt, nConst),
		fmt.Sprintf("index row codec disagrees: String writes %v with format %q, parseBlobMeta scans %v and requires n == %d", wrote, wfmt, read, nConst))

	// both row writers use the codec
	reindex := p.Func(c03PkgDP, "storage", "reindexOne")
	batch := p.Iface("pkg/sorted", "BatchMutation")
	type rowSite struct {
		c    CallSite
		what string
	}
	var sites []rowSite
	if d.set != nil {
		sites = append(sites, rowSite{CallSite{d.append, d.set}, FuncKey(d.append)})
	}
	for _, c := range CallsIn(reindex, true) {
		if c.Common().IsInvoke() && c.MethodName() == "Set" && (c.IsMethod("Set", batch) || c.IsMethod("Set", d.kv)) {
			sites = append(sites, rowSite{c, FuncKey(reindex)})
		}
	}
	seen := map[string]bool{}
	for _, s := range sites {
		args := s.c.Args() // recv, key, value
		okKey := c03CallIs(args[1], "perkeep.org/pkg/blob", "Ref", "String") != nil
		okVal := c03StaticCall(args[2], str) != nil
		seen[s.what] = true
		r.Check(okKey && okVal, rule, s.what+"#row-writer", p.Pos(s.c.Pos()),
			"index row = (blob.Ref.String(), blobMeta.String())",
			"an index row is written with a key/value not produced by blob.Ref.String()/blobMeta.String(): the live index and a reindexed one would differ, or parseBlobMeta cannot read it")
	}
	for _, fk := range []string{FuncKey(d.append), FuncKey(reindex)} {
		if !seen[fk] {
			r.Violation(rule, fk+"#row-writer", "?", "no index row writer found in this function")
		}
	}
}

// ---------------------------------------------------------------------------
// D-dele-order

func c03RuleDDeleOrder(p *Program, r *Reporter) {
	const rule = "D-dele-order"
	r.Floor(rule, 3)
	del := p.Func(c03PkgDP, "storage", "delete")
	k := FuncKey(del)
	// the file handle: result of os.OpenFile
	var fh ssa.Value
	for _, c := range CallsIn(del, false) {
		if c.IsStatic("os", "", "OpenFile") && c.Value() != nil {
			fh = ResultValue(c.Value(), 0)
		}
	}
	if fh == nil {
		r.Undecided(rule, k+"#header-before-body", p.Pos(del.Pos()), "delete no longer opens the pack with os.OpenFile; cannot follow the file handle")
		return
	}
	isFh := func(v ssa.Value) bool { return sameOrigin(v, fh) }
	var hdr []*ssa.Call     // WriteAt on fh
	var destroy []*ssa.Call // punchHole(fh, ...), io.Copy*(fh, ...), fh.Write
	for _, c := range CallsIn(del, false) {
		v := c.Value()
		if v == nil {
			continue
		}
		if c.IsStatic("os", "File", "WriteAt") && isFh(c.Args()[0]) {
			hdr = append(hdr, v)
			continue
		}
		if c.IsStatic("os", "File", "Write") || c.IsStatic("os", "File", "WriteString") || c.IsStatic("os", "File", "Truncate") {
			if isFh(c.Args()[0]) {
				destroy = append(destroy, v)
			}
			continue
		}
		if c.Callee() != nil && funcIs(c.Callee(), "os", "File", c.Callee().Name()) {
			continue // ReadAt, Seek, Close, Name ...
		}
		for _, arg := range v.Call.Args {
			if !isFh(arg) {
				continue
			}
			// the handle handed to something that writes: an io.Writer argument, or the punchHole hook
			// (or to a function of this module: an extracted zero-fill helper)
			_, asWriter := arg.(*ssa.MakeInterface)
			dyn := c.Callee() == nil && !v.Call.IsInvoke()
			helper := c.Callee() != nil && InModule(c.Callee()) && c03IsOSFile(arg.Type())
			if asWriter || dyn || helper {
				destroy = append(destroy, v)
			}
			break
		}
	}
	if len(destroy) == 0 {
		r.Violation(rule, k+"#header-before-body", p.Pos(del.Pos()), "delete has no body-destroying call (punch hole / zero fill) on the pack file handle")
	}
	for _, dcall := range destroy {
		ok := false
		why := "no WriteAt on the pack file handle"
		for _, h := range hdr {
			o, w := SuccessDominates(h, dcall)
			if o {
				ok = true
			} else {
				why = w
			}
		}
		r.Check(ok, rule, k+"#header-before-body#"+(CallSite{del, dcall}).CalleeKey(), p.Pos(dcall.Pos()),
			"the body is destroyed only on the err==nil edge of the header rewrite (WriteAt of the deleted marker)",
			"the body is destroyed without the header having been rewritten to the deleted marker first ("+why+"): a crash in between leaves a live header over a zeroed/punched body, which a pack walk or reindex presents as a blob")
	}

	// RemoveBlobs: join before the index commit
	rm := p.Func(c03PkgDP, "storage", "RemoveBlobs")
	kv := p.Iface("pkg/sorted", "KeyValue")
	var commit, join ssa.Instruction
	spawns := 0
	for _, c := range CallsIn(rm, false) {
		if c.Common().IsInvoke() && c.IsMethod("CommitBatch", kv) {
			commit = c.Instr
		}
		if isJoin(c) {
			if join == nil || Precedes(c.Instr, join) {
				join = c.Instr
			}
		}
		for _, cl := range spawnedClosures(c) {
			for _, cc := range CallsIn(cl, true) {
				if cc.Callee() == del {
					spawns++
				}
			}
		}
	}
	rk := FuncKey(rm)
	switch {
	case commit == nil:
		r.Violation(rule, rk+"#join-before-commit", p.Pos(rm.Pos()), "RemoveBlobs no longer commits the index deletions with CommitBatch")
	case spawns == 0:
		// synchronous deletes: every delete call must precede the commit
		ok := true
		n := 0
		for _, c := range CallsIn(rm, false) {
			if c.Callee() == del {
				n++
				if ReachableFrom(commit, nil)[c.Instr] {
					ok = false
				}
			}
		}
		r.Check(ok && n > 0, rule, rk+"#join-before-commit", p.Pos(commit.Pos()),
			"deletes run synchronously and none is reachable after the index commit",
			"a delete can run after the index rows were committed away (delete looks the row up first and would silently skip the blob)")
	default:
		r.Check(join != nil && Precedes(join, commit), rule, rk+"#join-before-commit", p.Pos(commit.Pos()),
			"the delete workers are joined (Group.Err/Wait) before the index deletions are committed",
			"the index deletions are committed before the delete workers are joined: a worker that has not yet looked up its row finds it gone, skips the blob (ErrNotExist is ignored) and the blob stays in the pack, to be resurrected by the next reindex")
	}
}

// ---------------------------------------------------------------------------
// Linear forms over integer SSA values (H7, value dependence up to + and -)
//
// An integer expression is flattened through +, -, unary minus, multiplication
// by a constant, integer conversions and loads of local variables with a
// single reaching store into sum(coef*leaf) + k. Two comparisons that are
// rearrangements of each other (`a+b > f`, `a > f-b`, `e := a+b; !(e <= f)`)
// have the same form, so a rule stated on forms does not depend on how the
// arithmetic is spelled. Overflow and the truncation of narrowing conversions
// are ignored (stated in the Explanation).

type c03Lin struct {
	leaf []ssa.Value
	coef []int64
	k    int64
}

func (l *c03Lin) add(v ssa.Value, c int64) {
	if c == 0 {
		return
	}
	for i, x := range l.leaf {
		if c03SameLeaf(x, v) {
			l.coef[i] += c
			return
		}
	}
	l.leaf = append(l.leaf, v)
	l.coef = append(l.coef, c)
}

func (l *c03Lin) addLin(o *c03Lin, f int64) {
	for i, x := range o.leaf {
		l.add(x, f*o.coef[i])
	}
	l.k += f * o.k
}

// isZero: every coefficient and the constant are zero.
func (l *c03Lin) isZero() bool {
	for _, c := range l.coef {
		if c != 0 {
			return false
		}
	}
	return l.k == 0
}

// unrelatedReads names a local variable of which the form contains two loads
// that could not be shown to see the same value ("" if none): the residue of a
// difference then says nothing about the arithmetic.
func (l *c03Lin) unrelatedReads() string {
	for i, x := range l.leaf {
		lx, ok := x.(*ssa.UnOp)
		if !ok || lx.Op != token.MUL || l.coef[i] == 0 {
			continue
		}
		for j := i + 1; j < len(l.leaf); j++ {
			ly, ok := l.leaf[j].(*ssa.UnOp)
			if ok && ly.Op == token.MUL && l.coef[j] != 0 && ly.X == lx.X {
				return c03LeafName(x)
			}
		}
	}
	return ""
}

// onlyConst: no leaf is left, whatever the constant.
func (l *c03Lin) onlyConst() bool {
	for _, c := range l.coef {
		if c != 0 {
			return false
		}
	}
	return true
}

func (l *c03Lin) String() string {
	var sb strings.Builder
	for i, x := range l.leaf {
		c := l.coef[i]
		switch {
		case c == 0:
			continue
		case c == 1:
			sb.WriteString(" + ")
		case c == -1:
			sb.WriteString(" - ")
		case c > 0:
			fmt.Fprintf(&sb, " + %d*", c)
		default:
			fmt.Fprintf(&sb, " - %d*", -c)
		}
		sb.WriteString(c03LeafName(x))
	}
	if l.k != 0 || sb.Len() == 0 {
		if l.k < 0 {
			fmt.Fprintf(&sb, " - %d", -l.k)
		} else {
			fmt.Fprintf(&sb, " + %d", l.k)
		}
	}
	return strings.TrimPrefix(strings.TrimPrefix(sb.String(), " + "), " ")
}

func c03IsInt(t types.Type) bool {
	b, ok := t.Underlying().(*types.Basic)
	return ok && b.Info()&types.IsInteger != 0
}

// c03LocalVar: addr is a plain local variable of its function (address never
// taken other than by loads, stores and captures) all of whose stores are
// direct stores in the declaring function itself.
func c03LocalVar(addr ssa.Value) (*ssa.Alloc, []*ssa.Store, bool) {
	al, ok := addr.(*ssa.Alloc)
	if !ok || !plainVariable(al) {
		return nil, nil, false
	}
	stores := storesTo(al)
	for _, st := range stores {
		if st.Parent() != al.Parent() || st.Addr != ssa.Value(al) {
			return nil, nil, false
		}
	}
	return al, stores, true
}

// c03ReachingStore returns the store whose value the load observes on every
// execution, or nil when more than one definition (counting the zero value of
// the fresh variable) may reach the load. A sole reaching definition is on
// every path from the entry to the load, i.e. it dominates the load, hence its
// stored SSA value still denotes at the load what it denoted at the store.
func c03ReachingStore(load *ssa.UnOp) *ssa.Store {
	al, _, ok := c03LocalVar(load.X)
	if !ok || load.Parent() != al.Parent() {
		return nil
	}
	zero := false
	// lastDef scans b.Instrs[:n] backwards for a definition of the variable.
	lastDef := func(b *ssa.BasicBlock, n int) (st *ssa.Store, found bool) {
		for i := n - 1; i >= 0; i-- {
			switch x := b.Instrs[i].(type) {
			case *ssa.Store:
				if x.Addr == ssa.Value(al) {
					return x, true
				}
			case *ssa.Alloc:
				if x == al {
					zero = true
					return nil, true
				}
			}
		}
		return nil, false
	}
	if st, found := lastDef(load.Block(), instrIndex(load)); found {
		if zero {
			return nil
		}
		return st
	}
	defs := map[*ssa.Store]bool{}
	seen := map[*ssa.BasicBlock]bool{}
	var walk func(b *ssa.BasicBlock)
	walk = func(b *ssa.BasicBlock) {
		if len(b.Preds) == 0 {
			zero = true
			return
		}
		for _, p := range b.Preds {
			if seen[p] {
				continue
			}
			seen[p] = true
			if st, found := lastDef(p, len(p.Instrs)); found {
				if st != nil {
					defs[st] = true
				}
				continue
			}
			walk(p)
		}
	}
	walk(load.Block())
	if zero || len(defs) != 1 {
		return nil
	}
	for st := range defs {
		return st
	}
	return nil
}

// c03StoreBetween: some store of the variable may execute after `first` and
// before the next execution of `second` without `first` executing again.
func c03StoreBetween(first, second ssa.Instruction, stores []*ssa.Store) bool {
	isFirst := func(in ssa.Instruction) bool { return in == first }
	r1 := ReachableFrom(first, isFirst)
	for _, st := range stores {
		if !r1[st] {
			continue
		}
		if ReachableFrom(st, isFirst)[second] {
			return true
		}
	}
	return false
}

func c03BuiltinLen(v ssa.Value) (arg ssa.Value, ok bool) {
	c, isCall := v.(*ssa.Call)
	if !isCall || len(c.Call.Args) != 1 {
		return nil, false
	}
	b, isB := c.Call.Value.(*ssa.Builtin)
	if !isB || b.Name() != "len" {
		return nil, false
	}
	switch t := c.Call.Args[0].Type().Underlying().(type) {
	case *types.Slice:
		return c.Call.Args[0], true
	case *types.Basic:
		if t.Info()&types.IsString != 0 {
			return c.Call.Args[0], true
		}
	}
	return nil, false
}

// c03SameLeaf: the two SSA values denote the same number wherever both are
// live: the same value; two loads of one local variable with no store between
// them; len of the same slice/string value; the same field of the same struct
// value.
func c03SameLeaf(a, b ssa.Value) bool {
	if a == b {
		return true
	}
	la, ok1 := a.(*ssa.UnOp)
	lb, ok2 := b.(*ssa.UnOp)
	if ok1 && ok2 && la.Op == token.MUL && lb.Op == token.MUL && la.X == lb.X && la.Parent() == lb.Parent() {
		al, stores, ok := c03LocalVar(la.X)
		if !ok || al.Parent() != la.Parent() {
			return false
		}
		first, second := la, lb
		if !Precedes(first, second) {
			first, second = lb, la
			if !Precedes(first, second) {
				return false
			}
		}
		return !c03StoreBetween(first, second, stores)
	}
	if x, ok := c03BuiltinLen(a); ok {
		if y, ok := c03BuiltinLen(b); ok {
			return x == y
		}
		return false
	}
	fa, ok1 := a.(*ssa.Field)
	fb, ok2 := b.(*ssa.Field)
	if ok1 && ok2 {
		return fa.Field == fb.Field && fa.X == fb.X
	}
	return false
}

func c03LeafName(v ssa.Value) string {
	switch x := v.(type) {
	case *ssa.UnOp:
		if x.Op == token.MUL {
			if al, ok := x.X.(*ssa.Alloc); ok && al.Comment != "" {
				return al.Comment
			}
			if name, _, ok := c03FieldRead(v); ok {
				return "." + name
			}
		}
	case *ssa.Field:
		return "." + fieldName(x.X.Type(), x.Field)
	case *ssa.Parameter:
		return x.Name()
	case *ssa.Call:
		if a, ok := c03BuiltinLen(v); ok {
			return "len(" + c03LeafName(a) + ")"
		}
		if x.Call.IsInvoke() {
			return types.TypeString(x.Call.Value.Type(), func(*types.Package) string { return "" }) + "." + x.Call.Method.Name() + "()"
		}
		if f := x.Call.StaticCallee(); f != nil {
			return f.Name() + "(…)"
		}
	case *ssa.Extract:
		if c, ok := x.Tuple.(*ssa.Call); ok {
			if c.Call.IsInvoke() {
				return fmt.Sprintf("result %d of %s()", x.Index, c.Call.Method.Name())
			}
			if f := c.Call.StaticCallee(); f != nil {
				return fmt.Sprintf("result %d of %s(…)", x.Index, f.Name())
			}
		}
	case *ssa.Convert:
		return c03LeafName(x.X)
	}
	return v.Name()
}

// c03Env maps the parameters of a helper whose body is being followed to the
// arguments of the call; up is the environment the arguments live in.
type c03Env struct {
	m  map[*ssa.Parameter]ssa.Value
	up *c03Env
}

// c03CallEnv binds the parameters of a static callee to the call's arguments.
func c03CallEnv(c *ssa.Call, up *c03Env) (*ssa.Function, *c03Env) {
	callee := c.Call.StaticCallee()
	if callee == nil || len(callee.Blocks) == 0 || len(callee.Params) != len(c.Call.Args) || callee.Pkg == nil || !strings.HasPrefix(callee.Pkg.Pkg.Path(), "perkeep.org/") {
		return nil, nil
	}
	env := &c03Env{m: map[*ssa.Parameter]ssa.Value{}, up: up}
	for i, prm := range callee.Params {
		env.m[prm] = c.Call.Args[i]
	}
	return callee, env
}

// c03Foreign: the form mentions a value that lives in another function than
// home (a followed helper reads something other than its parameters).
func (l *c03Lin) foreign(home *ssa.Function) bool {
	for i, x := range l.leaf {
		if l.coef[i] != 0 && x.Parent() != nil && x.Parent() != home {
			return true
		}
	}
	return false
}

// c03LinInto adds f*v to l.
func c03LinInto(l *c03Lin, v ssa.Value, f int64, env *c03Env, d int) {
	if d < 48 && c03IsInt(v.Type()) {
		switch x := v.(type) {
		case *ssa.Const:
			if x.Value != nil && x.Value.Kind() == constant.Int {
				if n, ok := constant.Int64Val(x.Value); ok {
					l.k += f * n
					return
				}
			}
		case *ssa.BinOp:
			switch x.Op {
			case token.ADD:
				c03LinInto(l, x.X, f, env, d+1)
				c03LinInto(l, x.Y, f, env, d+1)
				return
			case token.SUB:
				c03LinInto(l, x.X, f, env, d+1)
				c03LinInto(l, x.Y, -f, env, d+1)
				return
			case token.MUL:
				if c, ok := x.X.(*ssa.Const); ok && c.Value != nil && c.Value.Kind() == constant.Int {
					if n, ok := constant.Int64Val(c.Value); ok {
						c03LinInto(l, x.Y, f*n, env, d+1)
						return
					}
				}
				if c, ok := x.Y.(*ssa.Const); ok && c.Value != nil && c.Value.Kind() == constant.Int {
					if n, ok := constant.Int64Val(c.Value); ok {
						c03LinInto(l, x.X, f*n, env, d+1)
						return
					}
				}
			}
		case *ssa.Convert:
			if c03IsInt(x.X.Type()) {
				c03LinInto(l, x.X, f, env, d+1)
				return
			}
		case *ssa.ChangeType:
			c03LinInto(l, x.X, f, env, d+1)
			return
		case *ssa.UnOp:
			switch x.Op {
			case token.SUB:
				c03LinInto(l, x.X, -f, env, d+1)
				return
			case token.MUL:
				if st := c03ReachingStore(x); st != nil {
					c03LinInto(l, st.Val, f, env, d+1)
					return
				}
			}
		case *ssa.Parameter:
			if env != nil {
				if a, ok := env.m[x]; ok {
					c03LinInto(l, a, f, env.up, d+1)
					return
				}
			}
		case *ssa.Call:
			// len of a slice made with a known length
			if a, ok := c03BuiltinLen(x); ok {
				if mk, ok := originValue(a).(*ssa.MakeSlice); ok {
					c03LinInto(l, mk.Len, f, env, d+1)
					return
				}
			}
			// a helper that returns one linear expression of its parameters
			if callee, cenv := c03CallEnv(x, env); callee != nil {
				if rets := Returns(callee); len(rets) == 1 && len(rets[0].Results) == 1 {
					t := &c03Lin{}
					c03LinInto(t, rets[0].Results[0], 1, cenv, d+1)
					inner := false
					for i, y := range t.leaf {
						if t.coef[i] != 0 && y.Parent() == callee {
							inner = true
						}
					}
					if !inner {
						l.addLin(t, f)
						return
					}
				}
			}
		}
	}
	l.add(v, f)
}

func c03LinOf(v ssa.Value) *c03Lin {
	l := &c03Lin{}
	c03LinInto(l, v, 1, nil, 0)
	return l
}

// c03OrderFact turns "the comparison X op Y has truth value val" over integers
// into a form F with the meaning F >= 0.
func c03OrderFact(b *ssa.BinOp, val bool, env *c03Env) (*c03Lin, bool) {
	if !c03IsInt(b.X.Type()) || !c03IsInt(b.Y.Type()) {
		return nil, false
	}
	op := b.Op
	if !val {
		switch op {
		case token.GTR:
			op = token.LEQ
		case token.GEQ:
			op = token.LSS
		case token.LSS:
			op = token.GEQ
		case token.LEQ:
			op = token.GTR
		}
	}
	l := &c03Lin{}
	switch op {
	case token.GTR: // X - Y - 1 >= 0
		c03LinInto(l, b.X, 1, env, 0)
		c03LinInto(l, b.Y, -1, env, 0)
		l.k--
	case token.GEQ: // X - Y >= 0
		c03LinInto(l, b.X, 1, env, 0)
		c03LinInto(l, b.Y, -1, env, 0)
	case token.LSS: // Y - X - 1 >= 0
		c03LinInto(l, b.Y, 1, env, 0)
		c03LinInto(l, b.X, -1, env, 0)
		l.k--
	case token.LEQ: // Y - X >= 0
		c03LinInto(l, b.Y, 1, env, 0)
		c03LinInto(l, b.X, -1, env, 0)
	default:
		return nil, false
	}
	return l, true
}

// c03OrderFacts lists, as forms F (meaning F >= 0), the integer ordering
// comparisons known at block blk. A condition that is a static call of a
// module function whose only return yields one ordering comparison of its
// parameters (an extracted predicate) is followed with the arguments
// substituted. unfollowed names the conditions that are calls the rule could
// not follow.
func c03OrderFacts(blk *ssa.BasicBlock) (forms []*c03Lin, unfollowed []string) {
	for _, f := range FactsAt(blk) {
		switch c := f.Cond.(type) {
		case *ssa.BinOp:
			if l, ok := c03OrderFact(c, f.Val, nil); ok {
				forms = append(forms, l)
			}
		case *ssa.Call:
			callee, env := c03CallEnv(c, nil)
			if callee == nil {
				continue
			}
			followed := false
			if rets := Returns(callee); len(rets) == 1 && len(rets[0].Results) == 1 {
				if b, ok := rets[0].Results[0].(*ssa.BinOp); ok {
					// nothing of the callee's own state may be left in the form
					if l, ok := c03OrderFact(b, f.Val, env); ok && !l.foreign(blk.Parent()) {
						forms = append(forms, l)
						followed = true
					}
				}
			}
			if !followed {
				unfollowed = append(unfollowed, FuncKey(callee))
			}
		}
	}
	return forms, unfollowed
}

// ---------------------------------------------------------------------------
// D-walk-extent

// c03ParsedSize: v is the size field parsed from a pack header (result of
// ParseUint/ParseUintBytes, or the size result of readHeader).
func c03ParsedSize(p *Program) func(ssa.Value) bool {
	readHeader := p.Func(c03PkgDP, "", "readHeader")
	return func(v ssa.Value) bool {
		ex, ok := v.(*ssa.Extract)
		if !ok {
			return false
		}
		c, ok := ex.Tuple.(*ssa.Call)
		if !ok {
			return false
		}
		f := c.Call.StaticCallee()
		if f == readHeader {
			return ex.Index == 2
		}
		return ex.Index == 0 && (funcIs(f, "strconv", "", "ParseUint") || funcIs(f, "go4.org/strutil", "", "ParseUintBytes"))
	}
}

// c03IsFileSize: v is the length of a file: FileInfo.Size(), or the position
// returned by Seek(_, io.SeekEnd) (the call or its first result).
func c03IsFileSize(v ssa.Value) bool {
	if ex, ok := v.(*ssa.Extract); ok && ex.Index == 0 {
		v = ex.Tuple
	}
	c, ok := v.(*ssa.Call)
	if !ok {
		return false
	}
	if c.Call.IsInvoke() {
		return c.Call.Method.Name() == "Size" && IsNamed(types.Unalias(c.Call.Value.Type()), "io/fs", "FileInfo") // os.FileInfo is an alias
	}
	f := c.Call.StaticCallee()
	if funcIs(f, "os", "File", "Seek") && len(c.Call.Args) == 3 {
		w, ok := ConstInt(c.Call.Args[2])
		return ok && w == 2 // io.SeekEnd
	}
	return false
}

// c03ReadLength returns the number of bytes a successful call of one of the
// exact-length read primitives has consumed, as an SSA value; nil when the
// buffer's length cannot be named.
func c03ReadLength(c CallSite) ssa.Value {
	bufLen := func(buf ssa.Value) ssa.Value {
		switch x := originValue(buf).(type) {
		case *ssa.MakeSlice:
			return x.Len
		case *ssa.Slice:
			if x.High != nil && (x.Low == nil || c03ConstIs(x.Low, 0)) {
				return x.High
			}
		}
		return nil
	}
	a := c.Common().Args
	switch {
	case c.IsStatic("io", "", "ReadFull") && len(a) == 2:
		return bufLen(a[1])
	case c.IsStatic("io", "", "ReadAtLeast") && len(a) == 3:
		return a[2]
	case c.IsStatic("io", "", "CopyN") && len(a) == 3:
		return a[2]
	case c.IsStatic("bufio", "Reader", "Discard") && len(a) == 2:
		return a[1]
	case c.IsStatic("os", "File", "ReadAt") && len(a) == 3:
		return bufLen(a[1])
	}
	return nil
}

// c03Extent is what is known about the completeness of the entry whose header
// was just parsed, at one reporting site.
type c03Extent struct {
	reads      []CallSite // exact-length reads of the declared size whose success dominates the site
	compared   bool       // a dominating comparison relates the declared size to the size of the file
	forms      []*c03Lin  // the dominating ordering comparisons that mention a file size, as F >= 0
	unfollowed []string
}

func (e *c03Extent) known() (bool, string) {
	if len(e.reads) > 0 {
		return true, "behind a successful " + e.reads[0].CalleeKey() + " of the header's declared size"
	}
	if e.compared {
		return true, "behind a comparison of the entry's extent with the pack file's size"
	}
	return false, ""
}

// c03ExtentAt collects the reads and comparisons that establish, at
// instruction at of fn, that the entry whose header was just parsed is complete.
func c03ExtentAt(p *Program, fn *ssa.Function, at ssa.Instruction) *c03Extent {
	e := &c03Extent{}
	parsed := c03ParsedSize(p)
	for _, c := range CallsIn(fn, false) {
		v := c.Value()
		if v == nil {
			continue
		}
		if !(c.IsStatic("io", "", "ReadFull") || c.IsStatic("io", "", "ReadAtLeast") || c.IsStatic("io", "", "CopyN") || c.IsStatic("bufio", "Reader", "Discard") || c.IsStatic("os", "File", "ReadAt")) {
			continue
		}
		dep := false
		for _, a := range v.Call.Args {
			if c03Depends(a, parsed) {
				dep = true
			}
		}
		if !dep {
			continue
		}
		if ok, _ := SuccessDominates(v, at); ok {
			e.reads = append(e.reads, c)
		}
	}
	isFileSize := func(v ssa.Value) bool { _, isCall := v.(*ssa.Call); return isCall && c03IsFileSize(v) }
	for _, f := range FactsAt(at.Block()) {
		b, ok := f.Cond.(*ssa.BinOp)
		if !ok {
			if c, isCall := f.Cond.(*ssa.Call); isCall {
				fs, ps := false, false
				for _, a := range c.Call.Args {
					fs = fs || c03Depends(a, isFileSize)
					ps = ps || c03Depends(a, parsed)
				}
				if fs && ps {
					e.compared = true
				}
			}
			continue
		}
		switch b.Op {
		case token.LSS, token.LEQ, token.GTR, token.GEQ:
		default:
			continue
		}
		if c03Depends(b.X, isFileSize) && c03Depends(b.Y, parsed) || c03Depends(b.Y, isFileSize) && c03Depends(b.X, parsed) {
			e.compared = true
		}
	}
	forms, unfollowed := c03OrderFacts(at.Block())
	for _, l := range forms {
		for i, x := range l.leaf {
			if l.coef[i] != 0 && c03IsFileSize(x) {
				e.forms = append(e.forms, l)
				break
			}
		}
	}
	e.unfollowed = unfollowed
	return e
}

// c03ExtentValue decides the value clause of D-walk-extent at one reporting
// site: what was read, or what was compared with the file size, is exactly the
// end of the body that is reported (offset+size; offset nil for a sequential
// reader, where only the length read matters).
//
//	status 0 = holds, 1 = violated, 2 = undecided
func c03ExtentValue(e *c03Extent, offset, size ssa.Value) (status int, detail string) {
	sizeForm := c03LinOf(size)
	var bad []string
	undecided := ""
	for _, rd := range e.reads {
		n := c03ReadLength(rd)
		if n == nil {
			undecided = "the length of the buffer handed to " + rd.CalleeKey() + " could not be named"
			continue
		}
		d := c03LinOf(n)
		d.addLin(sizeForm, -1)
		if d.isZero() {
			return 0, fmt.Sprintf("the successful %s consumed exactly the reported size (%s)", rd.CalleeKey(), sizeForm)
		}
		bad = append(bad, fmt.Sprintf("%s reads %s bytes, the entry is reported with size %s (difference %s): the body is not known to be complete", rd.CalleeKey(), c03LinOf(n), sizeForm, d))
	}
	if offset != nil {
		for _, f := range e.forms {
			// the file-size leaf of this fact
			var fs ssa.Value
			nfs := 0
			for i, x := range f.leaf {
				if f.coef[i] != 0 && c03IsFileSize(x) {
					fs = x
					nfs++
				}
			}
			if nfs != 1 {
				continue
			}
			// want: F == fileSize - offset - size
			d := &c03Lin{}
			d.addLin(f, 1)
			d.add(fs, -1)
			d.addLin(c03LinOf(offset), 1)
			d.addLin(sizeForm, 1)
			if d.isZero() {
				return 0, fmt.Sprintf("on this edge %s >= 0 is known, which is fileSize - (offset handed on) - (size handed on) with offset = %s, size = %s", f, c03LinOf(offset), sizeForm)
			}
			if d.onlyConst() {
				bad = append(bad, fmt.Sprintf("the extent compared with the file size is off by %+d from (offset handed on)+(size handed on): known here is %s >= 0, the reported body ends at %s + %s; an off-by-%d either reports a body torn by that many bytes or drops an intact entry that ends the pack", -d.k, f, c03LinOf(offset), sizeForm, c03Abs(d.k)))
				continue
			}
			if v := d.unrelatedReads(); v != "" {
				undecided = fmt.Sprintf("the compared extent (%s >= 0) and the reported body [%s, +%s) read variable %s at points between which it may be stored to (through a closure, or more than one definition reaches): cannot tell whether they see the same value", f, c03LinOf(offset), sizeForm, v)
				continue
			}
			bad = append(bad, fmt.Sprintf("extent computed from a stale position: known here is %s >= 0, but the reported body is [%s, +%s); the compared extent and the reported one differ by %s, so an append torn within that many bytes of its end is reported as a present blob (or an intact last entry is dropped)", f, c03LinOf(offset), sizeForm, d))
		}
	}
	if len(bad) > 0 {
		return 1, strings.Join(bad, "; ")
	}
	if undecided != "" {
		return 2, undecided
	}
	if len(e.unfollowed) > 0 {
		return 2, "the condition guarding the report is a call the rule cannot follow (not a single ordering comparison of its parameters): " + strings.Join(e.unfollowed, ", ")
	}
	return 2, "a comparison involving the file size guards the report, but not one that is linear (+,-) in the file size, the offset and the size handed on"
}

func c03Abs(n int64) int64 {
	if n < 0 {
		return -n
	}
	return n
}

func c03ReportExtentValue(r *Reporter, rule, construct, site string, e *c03Extent, offset, size ssa.Value) {
	st, detail := c03ExtentValue(e, offset, size)
	switch st {
	case 0:
		r.OK(rule, construct, site, detail)
	case 1:
		r.Violation(rule, construct, site, detail)
	default:
		r.Undecided(rule, construct, site, detail)
	}
}

func c03RuleDWalkExtent(p *Program, r *Reporter) {
	const rule = "D-walk-extent"
	r.Floor(rule, 4)
	const bad = "the entry is reported without its body having been read and without comparing its extent with the file size: after a crash that tore the last append, the torn blob is reported with its declared size (Reindex then writes an index row for it: stat/fetch present a partial blob), and the blind skip over the declared size jumps over entries appended after a restart (Reindex silently omits acknowledged blobs)"
	// walkPack: calls of its walker parameter
	wp := p.Func(c03PkgDP, "storage", "walkPack")
	var walker *ssa.Parameter
	offIdx, sizeIdx := -1, -1
	for _, prm := range wp.Params {
		if sig, ok := prm.Type().Underlying().(*types.Signature); ok {
			walker = prm
			for i := 0; i < sig.Params().Len(); i++ {
				if b, ok := sig.Params().At(i).Type().Underlying().(*types.Basic); ok {
					switch b.Kind() {
					case types.Int64:
						if offIdx >= 0 {
							brokenf("anchor unresolved: the walker of diskpacked.(*storage).walkPack has two int64 parameters")
						}
						offIdx = i
					case types.Uint32:
						if sizeIdx >= 0 {
							brokenf("anchor unresolved: the walker of diskpacked.(*storage).walkPack has two uint32 parameters")
						}
						sizeIdx = i
					}
				}
			}
		}
	}
	if walker == nil || offIdx < 0 || sizeIdx < 0 {
		brokenf("anchor unresolved: walker parameter (…, offset int64, size uint32) of diskpacked.(*storage).walkPack")
	}
	n := 0
	for _, c := range CallsIn(wp, false) {
		if c.Common().IsInvoke() || originValue(c.Common().Value) != ssa.Value(walker) {
			continue
		}
		n++
		e := c03ExtentAt(p, wp, c.Instr)
		ok, how := e.known()
		r.Check(ok, rule, FuncKey(wp)+"#walker-call", p.Pos(c.Pos()), "the walker is called "+how, bad)
		if ok {
			a := c.Common().Args
			c03ReportExtentValue(r, rule, FuncKey(wp)+"#walker-call#extent-is-body-end", p.Pos(c.Pos()), e, a[offIdx], a[sizeIdx])
		}
	}
	if n == 0 {
		r.Violation(rule, FuncKey(wp)+"#walker-call", p.Pos(wp.Pos()), "walkPack never calls its walker")
	}
	// StreamBlobs: sends on the destination channel
	sb := p.Func(c03PkgDP, "storage", "StreamBlobs")
	n = 0
	for _, b := range sb.Blocks {
		for _, in := range b.Instrs {
			var sent []ssa.Value
			switch x := in.(type) {
			case *ssa.Send:
				sent = append(sent, x.X)
			case *ssa.Select:
				for _, st := range x.States {
					if st.Dir == types.SendOnly {
						sent = append(sent, st.Send)
					}
				}
			}
			if len(sent) == 0 {
				continue
			}
			n++
			e := c03ExtentAt(p, sb, in)
			ok, how := e.known()
			r.Check(ok, rule, FuncKey(sb)+"#send", p.Pos(in.Pos()), "the blob is sent "+how, bad)
			if !ok {
				continue
			}
			// the size the sent blob is declared with: the uint32 argument of the
			// pkg/blob constructor the sent value is built from
			var sizes []ssa.Value
			for _, c := range CallsIn(sb, false) {
				v := c.Value()
				f := c.Callee()
				if v == nil || f == nil || f.Pkg == nil || f.Pkg.Pkg.Path() != "perkeep.org/pkg/blob" || !IsNamed(v.Type(), "perkeep.org/pkg/blob", "Blob") {
					continue
				}
				used := false
				for _, s := range sent {
					if c03Depends(s, func(x ssa.Value) bool { return x == ssa.Value(v) }) {
						used = true
					}
				}
				if !used {
					continue
				}
				for _, a := range v.Call.Args {
					if b, ok := a.Type().Underlying().(*types.Basic); ok && b.Kind() == types.Uint32 {
						sizes = append(sizes, a)
					}
				}
			}
			ck := FuncKey(sb) + "#send#read-is-declared-size"
			if len(sizes) != 1 {
				r.Undecided(rule, ck, p.Pos(in.Pos()), fmt.Sprintf("found %d candidate(s) for the size the sent blob is declared with (the uint32 argument of the pkg/blob constructor the sent value is built from); cannot relate what was read to what is reported", len(sizes)))
				continue
			}
			c03ReportExtentValue(r, rule, ck, p.Pos(in.Pos()), e, nil, sizes[0])
		}
	}
	if n == 0 {
		r.Violation(rule, FuncKey(sb)+"#send", p.Pos(sb.Pos()), "StreamBlobs never sends")
	}
}

// ---------------------------------------------------------------------------
// Who may destroy (F-destroy, D-destroy)
//
// A model of the calls that can make bytes under a path disappear: a table of
// primitives (os, syscall, pkg/sftp) plus every module function that hands one
// of its own parameters to such a call ("pass-through destroyers", computed to
// a fixpoint through static calls and through the files.VFS interface). The
// sites at which the destroyed path is *computed* (not merely forwarded) are
// the roots; they are classified by what the path value is and by who can
// reach the site.

type c03Kind int

const (
	c03KUnlink    c03Kind = iota // removes a file or an EMPTY directory
	c03KRmdir                    // removes an empty directory only
	c03KRmtree                   // removes recursively
	c03KRenameSrc                // the path stops naming the file
	c03KRenameDst                // the file under the path is replaced
	c03KTrunc                    // content destroyed in place (Create, WriteFile, Truncate, O_TRUNC)
	c03KWriteOpen                // an existing file is opened writable
)

func (k c03Kind) String() string {
	return [...]string{"unlink", "rmdir", "remove-recursively", "rename-away", "rename-over", "truncate/overwrite", "open-writable"}[k]
}

type c03Effect struct {
	arg  int // index into CallSite.Args() (receiver first)
	kind c03Kind
	via  string // the primitive that finally acts, for diagnostics
}

const c03Sftp = "github.com/pkg/sftp"

// c03Prims: the path-destroying primitives. One line of reason each: what the
// call does to the path argument.
var c03Prims = map[string][]c03Effect{
	"os||Remove":                        {{0, c03KUnlink, "os.Remove"}},    // unlink, or rmdir of an empty directory
	"os||RemoveAll":                     {{0, c03KRmtree, "os.RemoveAll"}}, // recursive
	"os||Rename":                        {{0, c03KRenameSrc, "os.Rename"}, {1, c03KRenameDst, "os.Rename"}},
	"os||Truncate":                      {{0, c03KTrunc, "os.Truncate"}},      // cuts the file
	"os||Create":                        {{0, c03KTrunc, "os.Create"}},        // O_TRUNC
	"os||WriteFile":                     {{0, c03KTrunc, "os.WriteFile"}},     // O_TRUNC
	"io/ioutil||WriteFile":              {{0, c03KTrunc, "ioutil.WriteFile"}}, // O_TRUNC
	"syscall||Unlink":                   {{0, c03KUnlink, "syscall.Unlink"}},
	"syscall||Rmdir":                    {{0, c03KRmdir, "syscall.Rmdir"}}, // ENOTEMPTY on a populated directory
	"syscall||Rename":                   {{0, c03KRenameSrc, "syscall.Rename"}, {1, c03KRenameDst, "syscall.Rename"}},
	"syscall||Truncate":                 {{0, c03KTrunc, "syscall.Truncate"}},
	c03Sftp + "|Client|Remove":          {{1, c03KUnlink, "sftp.Client.Remove"}},         // file or empty directory
	c03Sftp + "|Client|RemoveDirectory": {{1, c03KRmdir, "sftp.Client.RemoveDirectory"}}, // SSH_FXP_RMDIR
	c03Sftp + "|Client|RemoveAll":       {{1, c03KRmtree, "sftp.Client.RemoveAll"}},
	c03Sftp + "|Client|Rename":          {{1, c03KRenameSrc, "sftp.Client.Rename"}, {2, c03KRenameDst, "sftp.Client.Rename"}},
	c03Sftp + "|Client|PosixRename":     {{1, c03KRenameSrc, "sftp.Client.PosixRename"}, {2, c03KRenameDst, "sftp.Client.PosixRename"}},
	c03Sftp + "|Client|Truncate":        {{1, c03KTrunc, "sftp.Client.Truncate"}},
	c03Sftp + "|Client|Create":          {{1, c03KTrunc, "sftp.Client.Create"}}, // O_TRUNC
}

func c03PrimKey(f *ssa.Function) string {
	if f == nil {
		return ""
	}
	if o := f.Origin(); o != nil {
		f = o
	}
	var pkg *types.Package
	if f.Pkg != nil {
		pkg = f.Pkg.Pkg
	} else if f.Object() != nil {
		pkg = f.Object().Pkg()
	}
	if pkg == nil {
		return ""
	}
	recv := ""
	if r := f.Signature.Recv(); r != nil {
		if n := NamedOf(r.Type()); n != nil {
			recv = n.Obj().Name()
		}
	}
	return pkg.Path() + "|" + recv + "|" + f.Name()
}

// c03OpenEffects: what an OpenFile call does to its path, from its flag
// argument. Exclusive creation never touches an existing file.
func c03OpenEffects(prog *ssa.Program, pathArg int, flag ssa.Value, via string) []c03Effect {
	// The flag values are those of the build configuration being analysed
	// (O_CREATE/O_EXCL/O_TRUNC differ between linux, darwin and windows), so
	// they are read from the loaded os package, never hard-coded.
	osFlag := func(name string) int64 {
		op := prog.ImportedPackage("os")
		if op == nil {
			brokenf("anchor unresolved: package os is not loaded")
		}
		c, _ := op.Pkg.Scope().Lookup(name).(*types.Const)
		if c == nil {
			brokenf("anchor unresolved: os.%s is not a constant", name)
		}
		v, ok := constant.Int64Val(c.Val())
		if !ok {
			brokenf("anchor unresolved: os.%s has no int64 value", name)
		}
		return v
	}
	oWRONLY, oRDWR, oCREATE, oEXCL, oTRUNC := osFlag("O_WRONLY"), osFlag("O_RDWR"), osFlag("O_CREATE"), osFlag("O_EXCL"), osFlag("O_TRUNC")
	fl, ok := ConstInt(flag)
	if !ok {
		return []c03Effect{{pathArg, c03KWriteOpen, via + "(non-constant flags)"}}
	}
	switch {
	case fl&oCREATE != 0 && fl&oEXCL != 0:
		return nil
	case fl&oTRUNC != 0:
		return []c03Effect{{pathArg, c03KTrunc, via + "(O_TRUNC)"}}
	case fl&(oWRONLY|oRDWR) != 0:
		return []c03Effect{{pathArg, c03KWriteOpen, via}}
	}
	return nil
}

type c03Root struct {
	c    CallSite
	arg  int
	effs []c03Effect
}

type c03DestroyModel struct {
	p       *Program
	vfs     *types.Interface
	derived map[*ssa.Function][]c03Effect // pass-through destroyers: arg = index into fn.Params
	order   []*ssa.Function               // derived, in discovery order
	implFn  map[*ssa.Function]string      // declared methods of VFS implementers -> VFS method name
	vfsEff  map[string][]c03Effect        // VFS method -> union of the implementers' effects
	invokes map[string][]CallSite         // VFS method -> interface invoke sites in the module
	roots   []*c03Root
	rootIdx map[ssa.Instruction]map[int]*c03Root
}

// c03PathParam: the parameter a path value is, looking through
// representation-only transforms (ToSlash, Clean).
func c03PathParam(v ssa.Value) *ssa.Parameter {
	for i := 0; i < 8; i++ {
		v = originValue(v)
		if prm, ok := v.(*ssa.Parameter); ok {
			return prm
		}
		c, ok := v.(*ssa.Call)
		if !ok || len(c.Call.Args) != 1 {
			return nil
		}
		f := c.Call.StaticCallee()
		if !(funcIs(f, "path/filepath", "", "ToSlash") || funcIs(f, "path/filepath", "", "FromSlash") || funcIs(f, "path/filepath", "", "Clean") || funcIs(f, "path", "", "Clean")) {
			return nil
		}
		v = c.Call.Args[0]
	}
	return nil
}

func c03ParamIndex(prm *ssa.Parameter) int {
	for i, q := range prm.Parent().Params {
		if q == prm {
			return i
		}
	}
	return -1
}

func c03GetDestroyModel(p *Program) *c03DestroyModel {
	m := &c03DestroyModel{p: p, vfs: p.Iface(c03PkgFiles, "VFS"),
		derived: map[*ssa.Function][]c03Effect{}, implFn: map[*ssa.Function]string{},
		vfsEff: map[string][]c03Effect{}, invokes: map[string][]CallSite{},
		rootIdx: map[ssa.Instruction]map[int]*c03Root{}}
	for _, T := range p.Implementers(m.vfs, false) {
		for i := 0; i < m.vfs.NumMethods(); i++ {
			name := m.vfs.Method(i).Name()
			if f := p.LookupFunc(RelPkg(T.Obj().Pkg()), T.Obj().Name(), name); f != nil {
				m.implFn[f] = name
			} else if f, _ := p.MethodOf(T, name); f != nil {
				m.implFn[f] = name // promoted method: the wrapper forwards its parameters
			}
		}
	}
	// pass 1: primitive sites and VFS invoke sites
	type work struct {
		c    CallSite
		effs []c03Effect
	}
	var queue []work
	memo := map[*ssa.Function][]c03Effect{}
	for _, fn := range p.AllFuncs {
		for _, c := range CallsIn(fn, false) {
			if c.Common().IsInvoke() {
				if name := c.MethodName(); m.vfs.NumMethods() > 0 && c.IsMethod(name, m.vfs) {
					for i := 0; i < m.vfs.NumMethods(); i++ {
						if m.vfs.Method(i).Name() == name {
							m.invokes[name] = append(m.invokes[name], c)
						}
					}
				}
				continue
			}
			f := c.Common().StaticCallee()
			if f == nil {
				continue
			}
			effs, seen := memo[f]
			if !seen {
				effs = c03Prims[c03PrimKey(f)]
				memo[f] = effs
			}
			switch {
			case funcIs(f, "os", "", "OpenFile") && len(c.Args()) == 3:
				effs = c03OpenEffects(f.Prog, 0, c.Args()[1], "os.OpenFile")
			case funcIs(f, c03Sftp, "Client", "OpenFile") && len(c.Args()) == 3:
				effs = c03OpenEffects(f.Prog, 1, c.Args()[2], "sftp.Client.OpenFile")
			}
			if len(effs) > 0 {
				queue = append(queue, work{c, effs})
			}
		}
	}
	addRoot := func(c CallSite, e c03Effect) {
		byArg := m.rootIdx[c.Instr]
		if byArg == nil {
			byArg = map[int]*c03Root{}
			m.rootIdx[c.Instr] = byArg
		}
		rt := byArg[e.arg]
		if rt == nil {
			rt = &c03Root{c: c, arg: e.arg}
			byArg[e.arg] = rt
			m.roots = append(m.roots, rt)
		}
		for _, x := range rt.effs {
			if x.kind == e.kind && x.via == e.via {
				return
			}
		}
		rt.effs = append(rt.effs, e)
	}
	for n := 0; len(queue) > 0 && n < 200000; n++ {
		w := queue[0]
		queue = queue[1:]
		args := w.c.Args()
		for _, e := range w.effs {
			if e.arg >= len(args) {
				continue
			}
			prm := c03PathParam(args[e.arg])
			if prm == nil {
				addRoot(w.c, e)
				continue
			}
			owner := prm.Parent()
			ne := c03Effect{c03ParamIndex(prm), e.kind, e.via}
			dup := false
			for _, x := range m.derived[owner] {
				if x == ne {
					dup = true
				}
			}
			if dup || ne.arg < 0 {
				continue
			}
			if _, known := m.derived[owner]; !known {
				m.order = append(m.order, owner)
			}
			m.derived[owner] = append(m.derived[owner], ne)
			for _, caller := range p.StaticCallers(owner) {
				queue = append(queue, work{caller, []c03Effect{ne}})
			}
			if name, isImpl := m.implFn[owner]; isImpl {
				m.vfsEff[name] = append(m.vfsEff[name], ne)
				for _, iv := range m.invokes[name] {
					queue = append(queue, work{iv, []c03Effect{ne}})
				}
			}
		}
	}
	return m
}

func (m *c03DestroyModel) isTempName(v ssa.Value, top *ssa.Function) bool {
	c, ok := originValue(v).(*ssa.Call)
	if !ok || !c.Call.IsInvoke() || c.Call.Method.Name() != "Name" {
		return false
	}
	ex, ok := originValue(c.Call.Value).(*ssa.Extract)
	if !ok || ex.Index != 0 {
		return false
	}
	tc, ok := ex.Tuple.(*ssa.Call)
	if !ok {
		return false
	}
	return (CallSite{tc.Parent(), tc}).IsMethod("TempFile", m.vfs) && TopFunc(tc.Parent()) == top
}

// c03UnderFreshDir: the path is the directory os.MkdirTemp just created, or a
// Join of it with constant elements that cannot climb out of it.
func c03UnderFreshDir(v ssa.Value, depth int) bool {
	v = originValue(v)
	if ex, ok := v.(*ssa.Extract); ok && ex.Index == 0 {
		if c, ok := ex.Tuple.(*ssa.Call); ok && funcIs(c.Call.StaticCallee(), "os", "", "MkdirTemp") {
			return true
		}
	}
	if depth > 4 {
		return false
	}
	j, ok := v.(*ssa.Call)
	if !ok || !funcIs(j.Call.StaticCallee(), "path/filepath", "", "Join") || len(j.Call.Args) != 1 {
		return false
	}
	el := c03VarargElems(j.Call.Args[0])
	if len(el) < 2 || !c03UnderFreshDir(el[0], depth+1) {
		return false
	}
	for _, e := range el[1:] {
		s, ok := ConstString(e)
		if !ok || strings.Contains(s, "..") {
			return false
		}
	}
	return true
}

// c03ImplMethodOf: top is the method the named interface's single method
// dispatches to for some module type (e.g. the RemoveBlobs of a BlobRemover).
func c03ImplMethodOf(top *ssa.Function, iface *types.Interface) bool {
	recv := top.Signature.Recv()
	if recv == nil || iface.NumMethods() != 1 || top.Name() != iface.Method(0).Name() {
		return false
	}
	return types.Implements(recv.Type(), iface) || types.Implements(types.NewPointer(recv.Type()), iface)
}

// c03OnlyReachedFrom: every way of running fn starts in a function satisfying
// pred: fn's top-level function satisfies it, or that function is only ever
// called statically (never used as a value, not reachable through an
// interface) from functions for which the same holds.
func c03OnlyReachedFrom(p *Program, fn *ssa.Function, pred func(*ssa.Function) bool, depth int) bool {
	top := TopFunc(fn)
	if pred(top) {
		return true
	}
	if depth > 4 {
		return false
	}
	callers := p.StaticCallers(top)
	if len(callers) == 0 || len(p.FuncValueUses(top)) > 0 || len(p.InvokeSites(top)) > 0 {
		return false
	}
	for _, c := range callers {
		if TopFunc(c.Fn) == top {
			continue // recursion
		}
		if !c03OnlyReachedFrom(p, c.Fn, pred, depth+1) {
			return false
		}
	}
	return true
}

// c03CreationSite: the MakeClosure instruction that creates function literal
// lit in its parent (nil for declared functions or when not unique).
func c03CreationSite(lit *ssa.Function) ssa.Instruction {
	par := lit.Parent()
	if par == nil {
		return nil
	}
	var found ssa.Instruction
	for _, b := range par.Blocks {
		for _, in := range b.Instrs {
			if mc, ok := in.(*ssa.MakeClosure); ok && mc.Fn == ssa.Value(lit) {
				if found != nil {
					return nil
				}
				found = mc
			}
		}
	}
	return found
}

func c03KindsOf(effs []c03Effect) string {
	var s []string
	for _, e := range effs {
		s = append(s, e.kind.String()+" via "+e.via)
	}
	return strings.Join(s, "; ")
}

func c03SiteName(c CallSite, arg int) string {
	how := ""
	if c.IsGo() {
		how = "go "
	} else if c.IsDefer() {
		how = "defer "
	}
	return FuncKey(TopFunc(c.Fn)) + "#" + how + c.CalleeKey() + "(arg" + fmt.Sprint(arg) + ")"
}

// ---------------------------------------------------------------------------
// F-destroy

func c03RuleFDestroy(p *Program, r *Reporter, m *c03DestroyModel) {
	const rule = "F-destroy"
	r.Floor(rule, 14)
	remover := p.Iface("pkg/blobserver", "BlobRemover")
	receiver := p.Iface("pkg/blobserver", "BlobReceiver")
	isRemoval := func(top *ssa.Function) bool { return c03ImplMethodOf(top, remover) }
	scope := map[string]bool{c03PkgFiles: true, "pkg/blobserver/localdisk": true}
	for f := range m.implFn {
		if f.Pkg != nil {
			scope[RelPkg(f.Pkg.Pkg)] = true
		}
	}
	inScope := func(fn *ssa.Function) bool {
		top := TopFunc(fn)
		return top.Pkg != nil && scope[RelPkg(top.Pkg.Pkg)]
	}
	blobTree := func(v ssa.Value) bool {
		switch x := v.(type) {
		case *ssa.Call:
			if x.Call.IsInvoke() {
				return x.Call.Method.Name() == "ReadDirNames"
			}
			f := x.Call.StaticCallee()
			return f != nil && (f == p.Func(c03PkgFiles, "Storage", "blobPath") || f == p.Func(c03PkgFiles, "Storage", "blobDirectory") || f == p.Func(c03PkgFiles, "", "blobFileBaseName"))
		case *ssa.FieldAddr:
			return fieldName(x.X.Type(), x.Field) == "root"
		case *ssa.Field:
			return fieldName(x.X.Type(), x.Field) == "root"
		case *ssa.Parameter:
			return x != x.Parent().Params[0] || x.Parent().Signature.Recv() == nil // caller-provided path material (not the receiver itself)
		}
		return false
	}

	// (a) the root sites
	n := 0
	for _, rt := range m.roots {
		c := rt.c
		isVFSSite := c.Common().IsInvoke() || m.implFn[c.Callee()] != ""
		if !inScope(c.Fn) && !isVFSSite {
			continue
		}
		n++
		top := TopFunc(c.Fn)
		P := c.Args()[rt.arg]
		construct := c03SiteName(c, rt.arg)
		site := p.Pos(c.Pos())
		kinds := c03KindsOf(rt.effs)
		if !inScope(c.Fn) {
			r.Violation(rule, construct, site, "a path-destroying method of a files.VFS is called outside the file-per-blob store ("+kinds+"): blob files are destroyed behind the store's back")
			continue
		}
		if _, isImpl := m.implFn[top]; isImpl {
			r.Undecided(rule, construct, site, "a files.VFS implementation destroys a path that is not the argument it was given ("+kinds+"); callers of the VFS method cannot be held responsible for it")
			continue
		}
		switch {
		case m.isTempName(P, top):
			r.OK(rule, construct, site, "the path is Name() of the file this very call obtained from VFS.TempFile: only the receive's own temp file is affected ("+kinds+")")
			continue
		case c03UnderFreshDir(P, 0):
			r.OK(rule, construct, site, "the path lies in the directory os.MkdirTemp created in this call: nothing acknowledged lives there ("+kinds+")")
			continue
		case c03OnlyReachedFrom(p, c.Fn, isRemoval, 0):
			r.OK(rule, construct, site, "reached only from "+remover.Method(0).Name()+" of a blobserver.BlobRemover: destroying the blob is what was asked for ("+kinds+")")
			continue
		}
		// not the own temp file, not in the removal entry point: only harmless kinds may remain
		bad, undec := "", ""
		listed, recursive := false, false
		// the site itself, or (for a site inside function literals) the points at
		// which the enclosing literals are created: a literal runs after its creation
		for at := ssa.Instruction(c.Instr); at != nil && !listed; at = c03CreationSite(at.Parent()) {
			for _, lc := range CallsIn(at.Parent(), false) {
				if lc.Value() != nil && lc.IsMethod("ReadDirNames", m.vfs) && sameOrigin(lc.Args()[1], P) {
					if ok, _ := SuccessDominates(lc.Value(), at); ok {
						listed = true
					}
				}
			}
		}
		for _, e := range rt.effs {
			switch e.kind {
			case c03KRmdir:
				// removes an empty directory or nothing
			case c03KUnlink:
				if !listed {
					bad = e.kind.String() + " via " + e.via + " of a path that is not known to be a directory (no successful VFS.ReadDirNames of the same path dominates the call)"
				}
			case c03KRenameDst:
				if c03ImplMethodOf(top, receiver) && c.Fn == top {
					continue // the atomic publish; source, destination and order are F-order's
				}
				bad = e.kind.String() + " via " + e.via + " outside the receive path"
			default:
				bad = e.kind.String() + " via " + e.via
				recursive = recursive || e.kind == c03KRmtree
			}
		}
		if bad != "" && !c03Depends(P, blobTree) {
			undec = "the destroyed path is not related to the blob tree by the analysis (" + bad + ")"
		}
		switch {
		case undec != "":
			r.Undecided(rule, construct, site, undec)
		case bad != "":
			consequence := "a blob acknowledged earlier under this path (the same ref re-uploaded) is gone if the process dies, or the next call fails, right after this one"
			if recursive && !c03IsBlobPath(p, P) {
				consequence = "the removal takes along everything below the path, including the blob of a receive that was acknowledged after the path was last inspected"
			}
			r.Violation(rule, construct, site, "a path in the blob tree that is neither the receive's own temp file nor being removed through RemoveBlobs can be destroyed here: "+bad+"; "+consequence)
		case listed:
			r.OK(rule, construct, site, "only an EMPTY directory can disappear: the path was listed by a successful VFS.ReadDirNames and every implementation reaches a non-recursive primitive ("+kinds+")")
		default:
			r.OK(rule, construct, site, "only harmless effects on a final path: "+kinds+" (rename-over in the receive path is the atomic publish decided by F-order)")
		}
	}
	r.Analysed("path_destroy_sites", n)

	// (b) the pass-through destroyers in scope: all their callers must be visible
	for _, f := range m.order {
		if !inScope(f) {
			continue
		}
		construct := FuncKey(f) + "#forwards-path"
		site := p.Pos(f.Pos())
		kinds := c03KindsOf(m.derived[f])
		_, isImpl := m.implFn[f]
		exported := f.Object() != nil && f.Object().Exported() && (f.Signature.Recv() == nil || NamedOf(f.Signature.Recv().Type()) != nil && NamedOf(f.Signature.Recv().Type()).Obj().Exported())
		switch {
		case isImpl:
			r.OKTable(rule, construct, site, "files.VFS method forwarding its own path argument ("+kinds+"); every interface invoke in the module is classified at its site")
		case len(p.FuncValueUses(f)) > 0 || f.Parent() == nil && len(p.InvokeSites(f)) > 0:
			r.Undecided(rule, construct, site, "a function that destroys the path it is given ("+kinds+") is used as a value or through an interface: its callers cannot be enumerated")
		case exported:
			r.Undecided(rule, construct, site, "an exported function destroys the path it is given ("+kinds+"): callers outside the analysed packages cannot be classified")
		default:
			r.OKTable(rule, construct, site, fmt.Sprintf("forwards its path parameter (%s); its %d static call site(s) are classified", kinds, len(p.StaticCallers(f))))
		}
	}
}

// c03DPkg: fn belongs to package diskpacked.
func c03DPkg(fn *ssa.Function) bool {
	top := TopFunc(fn)
	return top.Pkg != nil && RelPkg(top.Pkg.Pkg) == c03PkgDP
}

// ---------------------------------------------------------------------------
// D-destroy

// c03Mut is one call that can change the bytes or the write position of an
// *os.File.
type c03Mut struct {
	c      CallSite
	h      ssa.Value // the handle
	op     string    // write, write-n, writeat, truncate, seek, fd, hook
	off    ssa.Value // writeat/seek/truncate/hook: position
	n      ssa.Value // write-n/hook: length
	whence ssa.Value
}

func c03IsOSFile(t types.Type) bool {
	pt, ok := t.(*types.Pointer)
	return ok && IsNamed(pt.Elem(), "os", "File")
}

// c03FileArg: the value is an *os.File, possibly converted to an interface;
// writable tells whether that interface can write.
func c03FileArg(v ssa.Value) (h ssa.Value, isFile, writable bool) {
	if mi, ok := v.(*ssa.MakeInterface); ok {
		if !c03IsOSFile(mi.X.Type()) {
			return nil, false, false
		}
		for _, name := range []string{"Write", "WriteAt", "WriteString", "ReadFrom", "Truncate"} {
			if c03HasMethod(mi.Type(), name) {
				return mi.X, true, true
			}
		}
		return mi.X, true, false
	}
	if c03IsOSFile(v.Type()) {
		return v, true, true
	}
	return nil, false, false
}

func c03Mutators(fn *ssa.Function) []c03Mut {
	var out []c03Mut
	for _, c := range CallsIn(fn, false) {
		args := c.Args()
		f := c.Common().StaticCallee()
		if f != nil && f.Signature.Recv() != nil && c03IsOSFile(f.Signature.Recv().Type()) && len(args) > 0 {
			mu := c03Mut{c: c, h: args[0]}
			switch f.Name() {
			case "Write", "WriteString", "ReadFrom":
				mu.op = "write"
			case "WriteAt":
				mu.op, mu.off = "writeat", args[2]
			case "Truncate":
				mu.op, mu.off = "truncate", args[1]
			case "Seek":
				mu.op, mu.off, mu.whence = "seek", args[1], args[2]
			case "Fd", "SyscallConn":
				mu.op = "fd"
			default:
				continue
			}
			out = append(out, mu)
			continue
		}
		if _, isBuiltin := c.Common().Value.(*ssa.Builtin); isBuiltin {
			continue
		}
		for i, a := range args {
			h, isFile, writable := c03FileArg(a)
			if !isFile || !writable {
				continue
			}
			mu := c03Mut{c: c, h: h}
			_, asIface := a.(*ssa.MakeInterface)
			switch {
			case asIface && funcIs(f, "io", "", "CopyN") && i == 0:
				mu.op, mu.n = "write-n", args[2]
			case asIface:
				mu.op = "write"
			default:
				// the handle itself is handed on
				mu.op = "hook"
				var ints []ssa.Value
				for j, b := range args {
					if bt, ok := b.Type().Underlying().(*types.Basic); ok && j != i && bt.Info()&types.IsInteger != 0 {
						ints = append(ints, b)
					}
				}
				if len(ints) == 2 {
					mu.off, mu.n = ints[0], ints[1]
				}
			}
			out = append(out, mu)
			break
		}
	}
	return out
}

// c03HandleClass: 'W' the storage's live append handle (field writer), 'L' a
// handle opened writable in this function, 'R' opened read-only, 'T' a fresh
// temp file, 'P' a parameter, 'U' unknown.
func c03HandleClass(h ssa.Value) (class byte, open *ssa.Call, prm *ssa.Parameter) {
	o := originValue(h)
	switch x := o.(type) {
	case *ssa.Parameter:
		return 'P', nil, x
	case *ssa.UnOp:
		if x.Op == token.MUL {
			if fa, ok := x.X.(*ssa.FieldAddr); ok && fieldName(fa.X.Type(), fa.Field) == "writer" && IsNamed(fa.X.Type().Underlying().(*types.Pointer).Elem(), modPrefix+c03PkgDP, "storage") {
				return 'W', nil, nil
			}
		}
	case *ssa.Extract:
		c, ok := x.Tuple.(*ssa.Call)
		if !ok || x.Index != 0 {
			return 'U', nil, nil
		}
		f := c.Call.StaticCallee()
		switch {
		case funcIs(f, "os", "", "Open"):
			return 'R', c, nil
		case funcIs(f, "os", "", "CreateTemp"):
			return 'T', c, nil
		case funcIs(f, "os", "", "Create"):
			return 'L', c, nil
		case funcIs(f, "os", "", "OpenFile"):
			if fl, ok := ConstInt(c.Call.Args[1]); ok && fl&3 == 0 {
				return 'R', c, nil
			}
			return 'L', c, nil
		}
	}
	return 'U', nil, nil
}

func c03ConstIs(v ssa.Value, want int64) bool {
	c, ok := ConstInt(v)
	return ok && c == want
}

// c03LeavesAre: v is exactly the given field of row m (through conversions).
func c03LeafIsField(v ssa.Value, m ssa.Value, field string) bool {
	leaves := c03AddLeaves(originValue(v))
	if len(leaves) != 1 {
		return false
	}
	name, base, ok := c03FieldRead(originValue(leaves[0]))
	return ok && name == field && c03Holds(base, m)
}

func c03RuleDDestroy(p *Program, r *Reporter, m *c03DestroyModel) {
	const rule = "D-destroy"
	r.Floor(rule, 13)
	d := c03DPAnchors(p)
	ap := d.append
	remover := p.Iface("pkg/blobserver", "BlobRemover")
	isRemoval := func(top *ssa.Function) bool { return c03ImplMethodOf(top, remover) }
	metaFn := p.Func(c03PkgDP, "storage", "meta")
	filenameFn := p.Func(c03PkgDP, "storage", "filename")

	// ---- (1) path level: nothing unlinks, renames or truncates a pack by name
	nPath := 0
	for _, rt := range m.roots {
		if !c03DPkg(rt.c.Fn) {
			continue
		}
		c := rt.c
		P := c.Args()[rt.arg]
		construct := c03SiteName(c, rt.arg)
		site := p.Pos(c.Pos())
		onlyOpen := true
		for _, e := range rt.effs {
			if e.kind != c03KWriteOpen {
				onlyOpen = false
			}
		}
		if onlyOpen {
			// a writable handle: where may it go?
			esc := ""
			if v := c.Value(); v != nil {
				esc = c03HandleEscapes(ResultValue(v, 0))
			} else {
				esc = "opened by a go/defer statement"
			}
			if esc != "" {
				r.Undecided(rule, construct, site, "a pack file is opened writable and the handle "+esc+": the calls that write through it cannot be enumerated")
			} else {
				r.OKTable(rule, construct, site, "opened writable without O_TRUNC; the handle stays in this function or becomes storage.writer, and every call that writes, seeks or truncates through either is classified below")
			}
			continue
		}
		nPath++
		kinds := c03KindsOf(rt.effs)
		if c03StaticCall(P, filenameFn) != nil {
			r.Violation(rule, construct, site, "a pack file is destroyed by name ("+kinds+"): every blob acknowledged into it is lost and Reindex cannot bring it back (the pack files are the only source of truth)")
		} else {
			r.Undecided(rule, construct, site, "package diskpacked destroys a path ("+kinds+") that the analysis cannot tell apart from a pack file or the index")
		}
	}
	for _, f := range m.order {
		if c03DPkg(f) {
			nPath++
			if len(p.FuncValueUses(f)) > 0 || f.Object() != nil && f.Object().Exported() {
				r.Undecided(rule, FuncKey(f)+"#forwards-path", p.Pos(f.Pos()), "a function of package diskpacked destroys the path it is given ("+c03KindsOf(m.derived[f])+") and its callers cannot be enumerated")
			}
		}
	}
	r.Check(nPath == 0, rule, c03PkgDP+"#no-path-level-destroyer", p.Pos(ap.Pos()),
		"no function of package diskpacked removes, renames, truncates or re-creates a file by path (the only path-level write access is OpenFile without O_TRUNC)",
		fmt.Sprintf("%d path-level destroyer(s) in package diskpacked, see the individual reports", nPath))

	// ---- (2) handle level
	var wWrites []ssa.Instruction // writes through the live handle in append
	var sizeStores []ssa.Instruction
	isSizeAddr := func(v ssa.Value) bool {
		fa, ok := v.(*ssa.FieldAddr)
		return ok && fieldName(fa.X.Type(), fa.Field) == "size" && originValue(fa.X) == ssa.Value(d.recv)
	}
	for _, mu := range c03Mutators(ap) {
		if cl, _, _ := c03HandleClass(mu.h); cl == 'W' && (mu.op == "write" || mu.op == "write-n" || mu.op == "writeat") {
			wWrites = append(wWrites, mu.c.Instr)
		}
	}
	for _, b := range ap.Blocks {
		for _, in := range b.Instrs {
			if st, ok := in.(*ssa.Store); ok && isSizeAddr(st.Addr) {
				sizeStores = append(sizeStores, st)
			}
		}
	}
	// rollbackOK: x is storage.size as loaded before this call wrote anything,
	// and the call cannot acknowledge once it got to at.
	rollbackOK := func(x ssa.Value, at ssa.Instruction) (bool, string) {
		if at.Parent() != ap {
			return false, "not in append itself (a function literal's paths are not followed)"
		}
		// the end of the acknowledged data: s.size, or the handle's own position, ...
		var captured ssa.Instruction
		switch o := originValue(x).(type) {
		case *ssa.UnOp:
			if o.Op == token.MUL && isSizeAddr(o.X) {
				captured = o
			}
		case *ssa.Extract:
			if sk, ok := o.Tuple.(*ssa.Call); ok && o.Index == 0 && funcIs(sk.Call.StaticCallee(), "os", "File", "Seek") && sk.Parent() == ap {
				if cl, _, _ := c03HandleClass(sk.Call.Args[0]); cl == 'W' && c03ConstIs(sk.Call.Args[1], 0) && (c03ConstIs(sk.Call.Args[2], 1) || c03ConstIs(sk.Call.Args[2], 2)) {
					captured = sk
				}
			}
		}
		if captured == nil {
			return false, "the offset is neither s.size nor the live handle's position (Seek(0, SeekCurrent/SeekEnd)) as read in this call"
		}
		// ... read before this call wrote anything
		for _, w := range append(append([]ssa.Instruction{}, wWrites...), sizeStores...) {
			if !Precedes(captured, w) {
				return false, fmt.Sprintf("the offset is read after (or not before) the write/size update at line %d: it is not the end of the acknowledged data", c03Line(p, w.Pos()))
			}
		}
		reach := ReachableFrom(at, nil)
		for _, nr := range MaybeNilErrorReturns(ap) {
			end := ssa.Instruction(nr.Ret)
			if nr.From != nil && nr.From != nr.Ret.Block() {
				end = c03Last(nr.From)
			}
			if reach[end] || end == at {
				return false, fmt.Sprintf("a return that may report success (line %d) is reachable afterwards: the blob whose bytes are cut off may be acknowledged", c03Line(p, nr.Ret.Pos()))
			}
		}
		return true, ""
	}

	type frame struct {
		at     ssa.Instruction // the instruction, in the function whose facts apply
		h      ssa.Value
		off, n ssa.Value
		whence ssa.Value
		sub    func(ssa.Value) ssa.Value // callee-frame value -> value in at's frame (identity at depth 0)
	}
	ident := func(v ssa.Value) ssa.Value { return v }
	// substFor maps values of owner's frame to the frame of a call site with the given arguments:
	// constants stay, owner's parameters become the arguments, everything else is lost (nil).
	substFor := func(owner *ssa.Function, args []ssa.Value) func(ssa.Value) ssa.Value {
		return func(v ssa.Value) ssa.Value {
			if v == nil {
				return nil
			}
			if _, isC := v.(*ssa.Const); isC {
				return v
			}
			if q, ok := originValue(v).(*ssa.Parameter); ok && q.Parent() == owner {
				if j := c03ParamIndex(q); j >= 0 && j < len(args) {
					return args[j]
				}
			}
			return nil
		}
	}
	var classify func(mu c03Mut, fr frame, depth int) (st Status, table bool, detail string)
	classify = func(mu c03Mut, fr frame, depth int) (Status, bool, string) {
		fn := fr.at.Parent()
		class, open, prm := c03HandleClass(fr.h)
		neutralSeek := mu.op == "seek" && fr.off != nil && c03ConstIs(fr.off, 0) && fr.whence != nil && (c03ConstIs(fr.whence, 1) || c03ConstIs(fr.whence, 2))
		switch class {
		case 'R', 'T':
			return Discharged, true, "handle opened read-only (or a fresh temp file): the call cannot change a pack"
		case 'W':
			switch {
			case neutralSeek:
				return Discharged, true, "position query / seek to the end on the live append handle"
			case TopFunc(fn) != ap:
				if q, isPrm := originValue(fr.off).(*ssa.Parameter); (mu.op == "seek" || mu.op == "truncate") && fr.off != nil && isPrm && q.Parent() == fn && fn.Parent() == nil && depth < 2 {
					callers := p.StaticCallers(fn)
					if len(callers) > 0 && len(p.FuncValueUses(fn)) == 0 && len(p.InvokeSites(fn)) == 0 {
						for _, cs := range callers {
							step := substFor(fn, cs.Args())
							sub := func(v ssa.Value) ssa.Value { return step(fr.sub(v)) }
							st, _, dt := classify(mu, frame{cs.Instr, fr.h, step(fr.off), step(fr.n), step(fr.whence), sub}, depth+1)
							if st != Discharged {
								return st, false, "via the call at line " + fmt.Sprint(c03Line(p, cs.Pos())) + ": " + dt
							}
						}
						return Discharged, false, fmt.Sprintf("roll-back helper: at each of its %d call site(s) the offset passed is s.size as loaded before append's first write and no success return is reachable afterwards", len(callers))
					}
				}
				return Violated, false, "the live append handle (storage.writer) is " + c03OpWord(mu.op) + " outside append: acknowledged extents of the current pack can be overwritten or cut off"
			case mu.op == "write" || mu.op == "write-n":
				return Discharged, true, "append writes at the live handle's position; every call that moves that position is classified (and D-order decides write→sync→index)"
			case mu.op == "seek" && fr.whence != nil && c03ConstIs(fr.whence, 0), mu.op == "truncate":
				if fr.off == nil {
					return Undecided, false, "offset not followed"
				}
				if fr.at.Parent() != ap {
					return Undecided, false, "the live append handle is " + c03OpWord(mu.op) + " inside a function literal of append; whether this is the roll-back of a failed append (no success return afterwards) is not followed there"
				}
				ok, why := rollbackOK(fr.off, fr.at)
				if ok {
					return Discharged, false, "roll-back of the current, failed append: the offset is s.size as loaded before this call's first write and no return that may report success is reachable afterwards"
				}
				return Violated, false, "the live append handle is " + c03OpWord(mu.op) + " and this is not the roll-back of the current failed append (" + why + "): blobs acknowledged earlier are overwritten by the next append or cut off"
			case mu.op == "fd" || mu.op == "hook":
				return Undecided, false, "the live append handle is handed to code that is not followed"
			}
			return Violated, false, "the live append handle is " + c03OpWord(mu.op) + " in append at a position other than its end"
		case 'L':
			if neutralSeek {
				return Discharged, true, "position query / seek to the end on a freshly opened handle"
			}
			if !c03OnlyReachedFrom(p, fn, isRemoval, 0) {
				return Violated, false, "a pack file opened writable is " + c03OpWord(mu.op) + " in a function that is not reached only from RemoveBlobs: acknowledged bytes are destroyed without a removal request"
			}
			// the index row of the blob being removed
			var row ssa.Value
			for _, mc := range CallsIn(fn, false) {
				if mc.Callee() != metaFn || mc.Value() == nil || len(mc.Args()) != 2 {
					continue
				}
				if _, isPrm := originValue(mc.Args()[1]).(*ssa.Parameter); !isPrm {
					continue
				}
				if ok, _ := SuccessDominates(mc.Value(), fr.at); ok {
					row = ResultValue(mc.Value(), 0)
				}
			}
			if row == nil {
				return Violated, false, "the call is not behind a successful meta(<ref parameter>) lookup: the extent it destroys is not the extent of the blob being removed"
			}
			if open != nil {
				fnc := c03StaticCall(open.Call.Args[0], filenameFn)
				okFile := false
				if fnc != nil {
					if name, base, ok := c03FieldRead(originValue(fnc.Call.Args[1])); ok && name == "file" && c03Holds(base, row) {
						okFile = true
					}
				}
				if !okFile {
					return Violated, false, "the file opened writable is not filename(<row>.file) of the looked-up row: another pack's bytes are destroyed"
				}
			}
			isOff := func(v ssa.Value) bool { return v != nil && c03LeafIsField(v, row, "offset") }
			isLen := func(v ssa.Value) bool { return v != nil && c03LeafIsField(v, row, "size") }
			switch mu.op {
			case "writeat":
				dep := fr.off != nil && c03Depends(fr.off, func(v ssa.Value) bool {
					name, base, ok := c03FieldRead(v)
					return ok && name == "offset" && c03Holds(base, row)
				})
				if dep {
					return Discharged, false, "WriteAt at a position computed from the removed blob's row (offset minus the header length; D-reindex-agreement#walk-back-length decides the length)"
				}
				return Violated, false, "WriteAt at a position that does not derive from the removed blob's index row"
			case "seek":
				if c03ConstIs(fr.whence, 0) && isOff(fr.off) {
					return Discharged, false, "Seek(row.offset, SeekStart): the start of the removed blob's body"
				}
				return Violated, false, "the handle is positioned somewhere other than the removed blob's row.offset"
			case "write-n":
				if !isLen(fr.n) {
					return Violated, false, "the number of bytes overwritten is not the removed blob's row.size: the zero fill runs into the next (acknowledged) entry or stops short"
				}
				for _, sk := range c03Mutators(mu.c.Fn) {
					if sk.op == "seek" && sk.c.Value() != nil && sameOrigin(sk.h, mu.h) && c03ConstIs(sk.whence, 0) && isOff(fr.sub(sk.off)) {
						if ok, _ := SuccessDominates(sk.c.Value(), mu.c.Instr); ok {
							return Discharged, false, "exactly row.size bytes are overwritten behind a successful Seek(row.offset, SeekStart) on the same handle"
						}
					}
				}
				return Violated, false, "row.size bytes are overwritten but not behind a successful Seek(row.offset, SeekStart) on the same handle: the wrong extent is zeroed"
			case "hook":
				if isOff(fr.off) && isLen(fr.n) {
					return Discharged, false, "the hook receives exactly (row.offset, row.size) of the removed blob"
				}
				return Violated, false, "the handle is handed on with an extent other than (row.offset, row.size) of the removed blob"
			case "fd":
				return Undecided, false, "raw descriptor of a writable pack handle"
			}
			return Violated, false, "a pack opened writable is " + c03OpWord(mu.op) + " without a bound: bytes of other, acknowledged blobs are destroyed"
		case 'P':
			owner := prm.Parent()
			idx := c03ParamIndex(prm)
			uses := p.FuncValueUses(owner)
			callers := p.StaticCallers(owner)
			if len(uses) > 0 {
				for _, u := range uses {
					st, ok := u.(*ssa.Store)
					if ok {
						_, ok = st.Addr.(*ssa.Global)
					}
					if !ok {
						return Undecided, false, "the handle is a parameter of a function that is used as a value other than by installing it in a package-level hook variable"
					}
				}
				if len(callers) == 0 {
					return Discharged, true, "parameter of a function that is only installed in a package-level hook variable; the calls through that variable are classified with the handle and extent they pass"
				}
			}
			if len(callers) == 0 || depth > 1 {
				return Undecided, false, "the handle is a parameter and the callers are not followed"
			}
			worst, wt, wd := Discharged, true, fmt.Sprintf("classified at the %d call site(s) of %s", len(callers), FuncKey(owner))
			for _, cs := range callers {
				args := cs.Args()
				if idx >= len(args) {
					return Undecided, false, "call site does not pass the handle"
				}
				step := substFor(owner, args)
				sub := func(v ssa.Value) ssa.Value { return step(fr.sub(v)) }
				st, tb, dt := classify(mu, frame{cs.Instr, args[idx], step(fr.off), step(fr.n), step(fr.whence), sub}, depth+1)
				if st != Discharged {
					return st, false, "via the call at line " + fmt.Sprint(c03Line(p, cs.Pos())) + ": " + dt
				}
				if !tb {
					wt, wd = false, "at the call site(s) of "+FuncKey(owner)+": "+dt
				}
			}
			return worst, wt, wd
		}
		if mu.op == "seek" {
			return Discharged, true, "Seek on a handle that is neither storage.writer nor opened writable here"
		}
		return Undecided, false, "the origin of the *os.File that is " + c03OpWord(mu.op) + " cannot be determined"
	}

	nMut := 0
	for _, fn := range p.FuncsIn(c03PkgDP) {
		for _, mu := range c03Mutators(fn) {
			if cl, _, _ := c03HandleClass(mu.h); (cl == 'R' || cl == 'T' || cl == 'U') && mu.op == "seek" {
				continue // reader positioning
			}
			nMut++
			st, table, detail := classify(mu, frame{mu.c.Instr, mu.h, mu.off, mu.n, mu.whence, ident}, 0)
			construct := FuncKey(TopFunc(fn)) + "#" + mu.op + "#" + mu.c.CalleeKey()
			site := p.Pos(mu.c.Pos())
			switch {
			case st == Discharged && table:
				r.OKTable(rule, construct, site, detail)
			case st == Discharged:
				r.OK(rule, construct, site, detail)
			case st == Violated:
				r.Violation(rule, construct, site, detail)
			default:
				r.Undecided(rule, construct, site, detail)
			}
		}
	}
	r.Analysed("file_mutator_sites", nMut)

	// ---- (3) index rows are deleted only for the refs RemoveBlobs was given
	batch := p.Iface("pkg/sorted", "BatchMutation")
	nDel := 0
	for _, fn := range p.FuncsIn(c03PkgDP) {
		for _, c := range CallsIn(fn, false) {
			if !c.Common().IsInvoke() {
				continue
			}
			name := c.MethodName()
			isDel := name == "Delete" && (c.IsMethod(name, d.kv) || c.IsMethod(name, batch))
			isWipe := name == "Wipe" && c03HasMethod(c.Common().Value.Type(), "Wipe") && !isDel
			if !isDel && !isWipe {
				continue
			}
			nDel++
			construct := FuncKey(TopFunc(fn)) + "#index." + name
			site := p.Pos(c.Pos())
			top := TopFunc(fn)
			switch {
			case isWipe:
				r.Violation(rule, construct, site, "the index is wiped by the store itself: every acknowledged blob disappears from stat/fetch/enumerate until someone reindexes")
			case !c03OnlyReachedFrom(p, fn, isRemoval, 0):
				r.Violation(rule, construct, site, "an index row is deleted in a function that is not reached only from RemoveBlobs: an acknowledged, never removed blob disappears from stat/fetch/enumerate")
			default:
				var refs *ssa.Parameter
				if isRemoval(top) {
					for _, prm := range top.Params {
						if sl, ok := prm.Type().Underlying().(*types.Slice); ok && IsNamed(sl.Elem(), "perkeep.org/pkg/blob", "Ref") {
							refs = prm
						}
					}
				}
				key := c03CallIs(c.Args()[1], "perkeep.org/pkg/blob", "Ref", "String")
				ok := false
				switch {
				case key == nil:
				case refs != nil:
					ok = c03Depends(key.Call.Args[0], func(v ssa.Value) bool { return v == ssa.Value(refs) })
				default:
					// a helper below RemoveBlobs: the key must be its own ref parameter's
					_, ok = originValue(key.Call.Args[0]).(*ssa.Parameter)
				}
				r.Check(ok, rule, construct, site,
					"the deleted key is String() of an element of the refs RemoveBlobs was asked to remove",
					"the deleted index key is not String() of one of the refs RemoveBlobs was asked to remove: another blob's row is lost")
			}
		}
	}
	if nDel == 0 {
		r.Violation(rule, c03PkgDP+"#index.Delete", p.Pos(ap.Pos()), "no index row deletion found in package diskpacked (RemoveBlobs must delete the rows of the blobs it removes)")
	}
}

func c03OpWord(op string) string {
	switch op {
	case "write", "write-n":
		return "written to"
	case "writeat":
		return "overwritten in place (WriteAt)"
	case "truncate":
		return "truncated"
	case "seek":
		return "repositioned (Seek)"
	case "fd":
		return "reduced to its raw descriptor"
	}
	return "handed on to code that can write"
}

// c03HandleEscapes: where else than into local calls and storage.writer a
// freshly opened handle goes ("" = nowhere).
func c03HandleEscapes(h ssa.Value) string {
	if h == nil || h.Referrers() == nil {
		return ""
	}
	for _, u := range *h.Referrers() {
		switch x := u.(type) {
		case *ssa.Store:
			if x.Val != h {
				continue
			}
			if fa, ok := x.Addr.(*ssa.FieldAddr); ok && fieldName(fa.X.Type(), fa.Field) == "writer" {
				continue
			}
			if al, ok := x.Addr.(*ssa.Alloc); ok && plainVariable(al) {
				continue // a local variable; loads resolve back to h
			}
			return "is stored somewhere other than storage.writer"
		case *ssa.Return:
			return "is returned"
		case *ssa.MakeClosure:
			return "is captured by a function literal"
		case *ssa.Phi:
			return "merges with other values"
		}
	}
	return ""
}
