package main

import (
	"fmt"
	"go/constant"
	"go/token"
	"go/types"
	"regexp"
	"strconv"
	"strings"

	"golang.org/x/tools/go/ssa"
)

// C03 — disk stores survive a crash at any instant.
//
// What is decided here is the write-ordering discipline the crash argument
// rests on (which call must have succeeded before which), the agreement
// between the writers and the readers of the on-disk formats, and the
// visibility filters of the read paths. No crash state is ever materialised.
//
// Every rule is stated on the effective body of an entry point (see "Effective
// bodies" below) and finds the internal helpers it talks about by role, so
// that extracting, inlining or renaming an unexported helper, turning a
// closure into a method, or reshaping control flow does not change a verdict.

func init() {
	register(&PropSpec{
		ID:    "C03",
		Title: "Disk stores survive a crash at any instant without losing or tearing blobs",
		Explanation: "Decided (structural necessary conditions of the crash argument, over every CFG path). Sites are looked for in the EFFECTIVE BODY of an entry point (the interface method: ReceiveBlob, EnumerateBlobs, StreamBlobs, RemoveBlobs): the function plus, transitively (depth 5), the unexported functions/methods of its package and the function literals it calls statically (call or defer; not go), with a helper's parameters standing for the caller's arguments and a followed call's results for the value every non-zero return yields. 'P succeeded before Q' holds across a call when, at the frame where the two call chains part, the helper call's error is nil on the way to Q and inside the helper every return that may report success (for a boolean predicate: every return that may yield the value known at Q) is behind P's success edge or returns P's own error; branch conditions known at a site are those of its function, of the call sites up its chain, and of every success/true return of a followed helper whose result the site is behind; where a call does not dominate the site because errors are chained through one variable (`err = a(); if err == nil { err = b() }; if err != nil { return }`), all CFG paths to the site are explored with the nil-ness of the call's error (and of the phis it flows into) deciding the feasible branches, and the call must have run and returned nil on each. Internal helpers are identified by role, never by name. " +
			"F-order — in the effective body of files.(*Storage).ReceiveBlob there is exactly one VFS.TempFile and one VFS.Rename; the Rename's source is Name() of the TempFile result and its destination is an expression of the store and the received ref only (helpers of one basic block are inlined into the expression, others are compared by identity); every call that writes into that temp file, then Sync() on it, then Close() on it have all succeeded on every path to the Rename, Sync precedes Close, and every return of ReceiveBlob whose error may be nil is behind the Rename's success (or returns the verdict of the helper that contains it). " +
			"F-cleanup (= C13 G-tmp) — after TempFile succeeds (level by level up its call chain) every path to a return passes the registration of a deferred cleanup (a literal or a method whose body removes tmp.Name()), an explicit VFS.Remove of it, or a helper that always removes it, unless the Rename succeeded; the deferred cleanup removes the file whenever its success flag (a bool of ReceiveBlob it reads as a captured variable or through a pointer parameter) is false; every store to the flag — in ReceiveBlob, in literals, or through the pointer in helpers — is `false` or behind the Rename's success; a flag whose address goes anywhere else is undecided. " +
			"F-visible — every VFS.Open/Stat/Lstat/Remove in package files takes the very path expression ReceiveBlob publishes under, applied to one blob ref (whatever the path helper is called, or spelled out), or Name() of the receive's own temp file in every frame the function runs in (helpers: only if reached only from ReceiveBlob), or is a Stat in the enumeration's effective body; the published file name is fmt.Sprintf of a constant format ending in a literal extension; every send of a blob.SizedRef in the effective body of EnumerateBlobs is behind strings.HasSuffix(name, ext)==true (directly or through a predicate helper) for the very name the sent ref derives from, with the same ext as the writer and TrimSuffix; the TempFile prefix ends in a constant tail that can never complete the extension and contains no '*'; every VFS implementation's TempFile only appends to the prefix. " +
			"D-order — in the effective body of the packed store's ReceiveBlob (append and what it calls) there is exactly one index Set; it is behind the success of Sync() on the live append handle (the store's *os.File field), which is behind the success of every data write into that handle (header and body) and behind `written count == br.Size`; every return of ReceiveBlob that may report success is behind the Set's success, or is the verdict of the followed helper in which that holds, or is the duplicate-ack, which is behind {a successful row lookup ((ref)->(row,error) function of the package) of the received ref, os.Stat(<pack path>(row.<pack>)) ok, a comparison whose linear form is fi.Size() - row.offset - row.size + k >= 0 with k <= 0} — the pack path is the expression the live handle is opened under, the row fields are identified by type. " +
			"D-reindex-agreement — the header writer (constant format: open delimiter, ref, separator, size, close delimiter; size printed base-10 from a 32-bit unsigned) and every header-reading unit of the package (each function that parses/formats a header size, widened to its single caller while it lacks the other roles) use the same three delimiter bytes, base 10 and 32 bits, and the in-place header rewrite's walk-back length counts exactly the literal bytes of the format; the deleted-marker regexp (the package-level regexp the pack walkers match header refs against) matches exactly what the rewrite writes (and no real blobref) and every pack walker (StreamBlobs; every function with a (…, offset int64, size uint32) callback) consults it; every index row written in the package is (blob.Ref.String(), <row>.String()), at least once inside and once outside the receive path, and the row parser (the fmt.Sscan into the row's fields) reads the same fields in the same order. " +
			"D-dele-order — wherever the package opens a pack writable into a local handle (the removal), the header is rewritten (WriteAt succeeded) before the body is destroyed (punch hole / zero fill) in the effective body of that unit; RemoveBlobs commits the index deletions only after all delete workers were joined. " +
			"D-walk-extent — a pack walker reports an entry only where a read of the header's declared size succeeded or the extent was compared with the pack file's size; value clause on linear forms (integer expressions flattened through +, -, multiplication by a constant, conversions, locals with one reaching store, len of a made slice, helper parameters and one-expression helpers): (a) the pack walk — F = fileSize - OFF - SIZE exactly for the offset and size handed to the walker; (b) StreamBlobs — the successful exact-length read has as length exactly the uint32 size the sent blob is constructed with. " +
			"F-destroy — who may destroy a path of the file-per-blob store: a table of path-destroying primitives closed under parameter forwarding (static calls, files.VFS dispatch); every root site must destroy Name() of a file the call (or, for a helper's file parameter, every caller) obtained from VFS.TempFile, a path inside a fresh os.MkdirTemp dir, be reached only from RemoveBlobs, be the rename-over of the publish (in ReceiveBlob or a helper only it calls), rmdir, or a non-recursive unlink of a directory a successful VFS.ReadDirNames of the same value dominates (in the effective body). " +
			"D-destroy — who may destroy bytes of a pack: no path-level destroyer in package diskpacked; the live append handle is written only in the receive path's effective body, sought only neutrally, and moved back/truncated only as the roll-back of the current failed receive: the offset resolves (through helper parameters) to the store's byte counter (the int64 field the receive path advances by written counts) or the handle's position, read before every data write and every update of that counter, and no success return of ReceiveBlob is reachable afterwards (followed up the call chain on the helper's failure edge); a handle opened writable locally may be modified only below RemoveBlobs, behind a successful row lookup of the ref parameter, on the pack path of row.<pack>, within the row's extent (checked in the effective body of the opening function, so helpers may compute the extent from a row parameter); index rows are deleted only below RemoveBlobs with key String() of a ref that comes from the refs passed in (through helper parameters). " +
			"NOT decided: helpers that are exported, live in another package, are called through values/interfaces or run as goroutines (their bodies are not part of an effective body: a site moved there is reported missing); helpers that signal success other than by a nil error or a boolean predicate; roll-backs placed in deferred calls (undecided); marker fills not written as index loops starting at a constant; that a blob path is not aliased by another spelling; destroyers outside these packages; whether Name() of a VFS.TempFile result is the created path; that the byte counter equals the pack's length between calls; torn writes and what a particular crash image looks like; fsync/rename semantics of the OS or of a remote VFS; directory fsync; durability of the KV index file; what HashName()/Digest() may contain; recovery behaviour other than D-walk-extent; whether the offset handed to the walker is itself the true body offset; that the file size compared with belongs to the pack being walked; integer overflow in the extent arithmetic; removal crash states (index row still present over a zeroed body); equality of fetched bytes with received bytes.",
		RuleDocs: map[string]string{
			"F-order":             "effective body of files.(*Storage).ReceiveBlob: Rename(tmp.Name(), <expression of store and received ref>) is dominated by the success edges of all writes into tmp, tmp.Sync(), tmp.Close() (also when these sit in helpers); nil-error returns are dominated by Rename success",
			"F-cleanup":           "F-order(iii), shared with C13 as G-tmp: temp-file cleanup (deferred literal or method, explicit Remove, or always-removing helper) registered right after TempFile succeeds, removes unless the success flag (captured or passed by pointer) is set, flag set only after Rename succeeded",
			"F-visible":           "every VFS path access in package files is the published path expression of one ref / the receive's own temp / an enumeration stat; enumeration sends only behind HasSuffix(name, ext) (directly or via a predicate helper); temp names cannot end in ext; VFS.TempFile implementations append only",
			"D-order":             "effective body of the packed store's ReceiveBlob: data writes → size check → Sync → index.Set → success return, each on the success edge of the previous, across helpers; duplicate-ack behind {row lookup of the ref, Stat of the row's pack path, a comparison whose linear form is fi.Size() - row.offset - row.size + k >= 0, k <= 0}",
			"D-reindex-agreement": "pack header writer vs. every header-reading unit (delimiters, base, bit size, walk-back length), deleted-marker regexp vs. what the header rewrite writes, index row codec shared by every row writer and the row parser; all found by role",
			"D-dele-order":        "the unit that opens a pack writable locally: header rewrite succeeded before body destruction; RemoveBlobs: join of delete workers precedes the index CommitBatch (across helpers)",
			"F-destroy":           "files/localdisk/VFS implementers: every computed path handed (directly, through forwarding helpers or through files.VFS dispatch) to a removing/renaming/truncating primitive is the receive's own TempFile name (also as a helper's file parameter, for all callers), inside a fresh MkdirTemp dir, reached only from RemoveBlobs, the publishing Rename's destination, or a non-recursive removal of a directory just listed by ReadDirNames",
			"D-destroy":           "diskpacked: no path-level destroyer; the live append handle written only in the receive path, rewound/truncated only as roll-back of the current failed receive to the offset captured before its first write (no success return reachable afterwards, across helpers); locally opened writable packs modified only below RemoveBlobs within the removed blob's row extent; index rows deleted only below RemoveBlobs for the refs passed in",
			"D-walk-extent":       "pack walkers (every function with a (…, offset, size) callback; StreamBlobs' send): an entry is reported only after its body was read in full or its extent was compared with the file size; and (linear forms) what was compared with the file size is exactly offset+size of the arguments handed to the walker, resp. the length read is exactly the size the sent blob is declared with",
		},
		Run:       runC03,
		DesignRef: "DESIGN.md §4 C03",
		Technique: "static analysis over go/ssa on effective bodies (entry point + statically called unexported same-package helpers and literals, parameters bound to arguments, per-call-chain frames): dominance on err==nil edges carried across calls by helper summaries (every success return behind the event), with a path-sensitive fallback for chained errors, branch facts carried across calls (call chain, success/true returns of followed helpers), value dependence across frames, CFG path exploration for the cleanup pairing and for 'no success exit reachable after a roll-back', constant/format-string table agreement between writers and readers, structural equality of path expressions (one-block helpers inlined), linear-form equality between the extent a guard compares with the file size and the extent that is reported/indexed; who-may-destroy: a table of path/handle-destroying primitives closed under parameter forwarding, classification of each root site by value dependence (for helper parameters: at every static call site) and by who-may-reach; anchors resolved by role (interface implementer, field type, signature shape, data flow), never by the name of an internal helper",
		LevelText: "Decides structural necessary conditions only: the write ordering (write→sync→close→rename→ack; write→sync→index→ack; header-marked-deleted→body destroyed), the visibility filters (.dat only, same path expression for writer and readers), the agreement of the on-disk codecs between writers and readers, that a pack walk reports an entry only behind a guard on exactly the extent it reports, and that no code of the two stores other than the requested removal (and the roll-back of a failed, unacknowledged append) can destroy a final blob file, bytes of a pack or an index row. The conditions are stated on effective bodies, so they are insensitive to extracting/inlining/renaming unexported helpers, closure↔method, if↔switch, early returns and hoisted locals; code moved into exported functions, other packages, goroutines or function values is not followed (reported as a missing site). Does not decide the behaviour on any concrete crash image, OS/VFS durability semantics, or recovery.",
	})
}

const (
	c03PkgFiles = "pkg/blobserver/files"
	c03PkgDP    = "pkg/blobserver/diskpacked"
)

func runC03(p *Program, r *Reporter) {
	r.Analysed("functions", len(p.FuncsIn(c03PkgFiles))+len(p.FuncsIn(c03PkgDP)))
	c03RuleFOrder(p, r)
	ruleGTmpImpl(p, r, "F-cleanup")
	c03RuleFVisible(p, r)
	c03RuleDOrder(p, r)
	c03RuleDAgreement(p, r)
	c03RuleDDeleOrder(p, r)
	c03RuleDWalkExtent(p, r)
	dm := c03GetDestroyModel(p)
	c03RuleFDestroy(p, r, dm)
	c03RuleDDestroy(p, r, dm)
}

// ---------------------------------------------------------------------------
// small general helpers (candidates for helpers.go)

func c03Last(b *ssa.BasicBlock) ssa.Instruction { return b.Instrs[len(b.Instrs)-1] }

// c03RootAlloc strips FieldAddr/IndexAddr down to the Alloc an address is inside of.
func c03RootAlloc(addr ssa.Value) *ssa.Alloc {
	for i := 0; i < 16; i++ {
		switch x := addr.(type) {
		case *ssa.Alloc:
			return x
		case *ssa.FieldAddr:
			addr = x.X
		case *ssa.IndexAddr:
			addr = x.X
		default:
			return nil
		}
	}
	return nil
}

// c03StoresInto lists the stores to al or to any field/element address inside it.
func c03StoresInto(al *ssa.Alloc) []*ssa.Store {
	var out []*ssa.Store
	var walk func(addr ssa.Value, d int)
	walk = func(addr ssa.Value, d int) {
		refs := addr.Referrers()
		if refs == nil || d > 6 {
			return
		}
		for _, u := range *refs {
			switch x := u.(type) {
			case *ssa.Store:
				if x.Addr == addr {
					out = append(out, x)
				}
			case *ssa.FieldAddr:
				walk(x, d+1)
			case *ssa.IndexAddr:
				walk(x, d+1)
			}
		}
	}
	walk(al, 0)
	return out
}

// c03Depends is DependsOn extended with stores into fields/elements of local
// composite values (struct literals, varargs arrays).
func c03Depends(v ssa.Value, target func(ssa.Value) bool) bool {
	seen := map[ssa.Value]bool{}
	var walk func(v ssa.Value, d int) bool
	walk = func(v ssa.Value, d int) bool {
		if v == nil || seen[v] || d > 80 {
			return false
		}
		seen[v] = true
		if target(v) {
			return true
		}
		if x, ok := v.(*ssa.UnOp); ok && x.Op == token.MUL {
			if al := c03RootAlloc(x.X); al != nil {
				for _, st := range c03StoresInto(al) {
					if walk(st.Val, d+1) {
						return true
					}
				}
			}
			if cell, ok := varOf(x.X); ok {
				for _, st := range storesTo(cell) {
					if walk(st.Val, d+1) {
						return true
					}
				}
			}
		}
		if sl, ok := v.(*ssa.Slice); ok {
			if al := c03RootAlloc(sl.X); al != nil {
				for _, st := range c03StoresInto(al) {
					if walk(st.Val, d+1) {
						return true
					}
				}
			}
		}
		if in, ok := v.(ssa.Instruction); ok {
			for _, op := range in.Operands(nil) {
				if *op != nil && walk(*op, d+1) {
					return true
				}
			}
		}
		return false
	}
	return walk(v, 0)
}

// c03VarargElems returns the elements of a variadic argument built by go/ssa as
// `slice (new [N]T)[:]` with one store per constant index. nil when not of that shape.
func c03VarargElems(v ssa.Value) []ssa.Value {
	sl, ok := v.(*ssa.Slice)
	if !ok {
		return nil
	}
	al, ok := sl.X.(*ssa.Alloc)
	if !ok {
		return nil
	}
	arr, ok := al.Type().Underlying().(*types.Pointer).Elem().Underlying().(*types.Array)
	if !ok {
		return nil
	}
	out := make([]ssa.Value, arr.Len())
	for _, st := range c03StoresInto(al) {
		ia, ok := st.Addr.(*ssa.IndexAddr)
		if !ok {
			return nil
		}
		i, ok := ConstInt(ia.Index)
		if !ok || i < 0 || i >= arr.Len() || out[i] != nil {
			return nil
		}
		out[i] = st.Val
	}
	for _, e := range out {
		if e == nil {
			return nil
		}
	}
	return out
}

// c03Format splits a fmt format string into literal segments and verbs:
// "[%v %v]" -> lits ["[", " ", "]"], verbs ["v","v"]. ok=false for "%%",
// flags/width or a trailing '%'.
func c03Format(f string) (lits, verbs []string, ok bool) {
	cur := ""
	for i := 0; i < len(f); i++ {
		if f[i] != '%' {
			cur += string(f[i])
			continue
		}
		if i+1 >= len(f) {
			return nil, nil, false
		}
		c := f[i+1]
		if !(c >= 'a' && c <= 'z' || c >= 'A' && c <= 'Z') {
			return nil, nil, false
		}
		lits = append(lits, cur)
		cur = ""
		verbs = append(verbs, string(c))
		i++
	}
	lits = append(lits, cur)
	return lits, verbs, true
}

func c03CallIs(v ssa.Value, pkgPath, recv, name string) *ssa.Call {
	c, ok := originValue(v).(*ssa.Call)
	if !ok || !funcIs(c.Call.StaticCallee(), pkgPath, recv, name) {
		return nil
	}
	return c
}

// c03AddLeaves flattens a tree of integer/string additions (through
// conversions) into its leaves.
func c03AddLeaves(v ssa.Value) []ssa.Value {
	switch x := v.(type) {
	case *ssa.BinOp:
		if x.Op == token.ADD {
			return append(c03AddLeaves(x.X), c03AddLeaves(x.Y)...)
		}
	case *ssa.Convert:
		return c03AddLeaves(x.X)
	case *ssa.ChangeType:
		return c03AddLeaves(x.X)
	}
	return []ssa.Value{v}
}

// c03FieldRead interprets v as a read of a struct field: returns the field
// name and the struct value/variable it is read from (the Alloc holding the
// struct, or the struct value itself for ssa.Field).
func c03FieldRead(v ssa.Value) (name string, base ssa.Value, ok bool) {
	switch x := v.(type) {
	case *ssa.Field:
		return fieldName(x.X.Type(), x.Field), x.X, true
	case *ssa.UnOp:
		if x.Op == token.MUL {
			if fa, ok := x.X.(*ssa.FieldAddr); ok {
				return fieldName(fa.X.Type(), fa.Field), fa.X, true
			}
		}
	}
	return "", nil, false
}

func c03Line(p *Program, pos token.Pos) int { return p.Fset.Position(pos).Line }

// ---------------------------------------------------------------------------
// anchors of files.(*Storage).ReceiveBlob (in its effective body)

type c03Recv struct {
	p       *Program
	fn      *ssa.Function
	vfs     *types.Interface
	e       *c03Eff
	temps   []c03Site // the VFS.TempFile sites
	temp    c03Site   // valid iff exactly one
	tmp     c03Val    // its file result
	renames []c03Site
}

var c03RecvCache = map[*ssa.Function]*c03Recv{}

func c03FilesAnchors(p *Program) *c03Recv {
	c03CacheGuard(p)
	fn := p.Func(c03PkgFiles, "Storage", "ReceiveBlob")
	if a, ok := c03RecvCache[fn]; ok {
		return a
	}
	a := &c03Recv{p: p, fn: fn}
	c03RecvCache[fn] = a
	a.vfs = p.Iface(c03PkgFiles, "VFS")
	a.e = c03EffOf(p, fn)
	for _, s := range a.e.calls(false) {
		if s.value() == nil {
			continue
		}
		c := s.call()
		if c.IsMethod("TempFile", a.vfs) {
			a.temps = append(a.temps, s)
		}
		if c.IsMethod("Rename", a.vfs) {
			a.renames = append(a.renames, s)
		}
	}
	if len(a.temps) == 1 {
		a.temp = a.temps[0]
		a.tmp = c03Val{a.temp.fr, ResultValue(a.temp.value(), 0)}
	}
	return a
}

func (a *c03Recv) isTmp(v c03Val) bool { return a.tmp.v != nil && v.v != nil && a.e.same(v, a.tmp) }

// isTmpName: v is tmp.Name().
func (a *c03Recv) isTmpName(v c03Val) bool {
	o := a.e.origin(v, false)
	c, ok := o.v.(*ssa.Call)
	if !ok || !c.Call.IsInvoke() || c.Call.Method.Name() != "Name" {
		return false
	}
	return a.isTmp(c03Val{o.fr, c.Call.Value})
}

// tmpMethod lists the invokes of method name on the temp file in the effective body.
func (a *c03Recv) tmpMethod(name string) []c03Site {
	var out []c03Site
	for _, s := range a.e.calls(false) {
		if v := s.value(); v != nil && v.Call.IsInvoke() && v.Call.Method.Name() == name && a.isTmp(c03Val{s.fr, v.Call.Value}) {
			out = append(out, s)
		}
	}
	return out
}

// renameOK: the Rename succeeded on every path to the site.
func (a *c03Recv) renameOK(at c03Site) bool {
	for _, rc := range a.renames {
		if ok, _ := a.e.succDom(rc, at); ok {
			return true
		}
	}
	return false
}

// writeSites lists the calls of the effective body that hand the temp file to
// a writer (io.Copy(tmp, ...), tmp.Write(...)); wrappers lists calls that take
// the temp file and return another io.Writer (not followed). Calls of helpers
// that are part of the effective body are not sites: their bodies are.
func (a *c03Recv) writeSites() (writes []c03Site, wrappers []c03Site) {
	for _, s := range a.e.calls(false) {
		v := s.value()
		if v == nil || s == a.temp || a.e.kid(s) != nil {
			continue
		}
		if v.Call.IsInvoke() && a.isTmp(c03Val{s.fr, v.Call.Value}) {
			switch v.Call.Method.Name() {
			case "Name", "Sync", "Close":
				continue
			}
			writes = append(writes, s)
			continue
		}
		uses := false
		for _, arg := range v.Call.Args {
			if a.isTmp(c03Val{s.fr, arg}) {
				uses = true
			}
		}
		if !uses {
			continue
		}
		res := v.Call.Signature().Results()
		if res.Len() >= 1 && !isErrorType(res.At(0).Type()) {
			if _, isIface := res.At(0).Type().Underlying().(*types.Interface); isIface && c03HasMethod(res.At(0).Type(), "Write") {
				wrappers = append(wrappers, s)
				continue
			}
		}
		writes = append(writes, s)
	}
	return
}

func c03HasMethod(t types.Type, name string) bool {
	ms := types.NewMethodSet(t)
	for i := 0; i < ms.Len(); i++ {
		if ms.At(i).Obj().Name() == name {
			return true
		}
	}
	return false
}

// c03BlobRefLeaf is the leaf function of blob-path expressions: the receiver
// and any value of type blob.Ref.
func c03BlobRefLeaf(v ssa.Value) string {
	if c03IsReceiverParam(v) {
		return "RECV"
	}
	if IsNamed(v.Type(), "perkeep.org/pkg/blob", "Ref") {
		if _, isPtr := v.Type().(*types.Pointer); !isPtr {
			return "REF"
		}
	}
	return ""
}

// c03Publish is the path function of the file-per-blob store, by role: the
// expression (of the receiver and the received ref) that ReceiveBlob's Rename
// publishes to.
type c03Publish struct {
	ok     bool
	detail string
	expr   *c03Expr
	str    string
	funcs  map[*ssa.Function]bool
	fields map[string]bool
}

var c03PublishCache = map[*ssa.Function]*c03Publish{}

func c03PublishPath(p *Program) *c03Publish {
	a := c03FilesAnchors(p)
	if pb, ok := c03PublishCache[a.fn]; ok {
		return pb
	}
	pb := &c03Publish{detail: "ReceiveBlob has no single VFS.Rename"}
	c03PublishCache[a.fn] = pb
	if len(a.renames) != 1 {
		return pb
	}
	rc := a.renames[0]
	dest := a.e.origin(c03Val{rc.fr, rc.call().Args()[2]}, false)
	refParam := c03ParamOfType(a.fn, "perkeep.org/pkg/blob", "Ref")
	rd := c03NewRender(p, c03BlobRefLeaf)
	x := rd.expr(dest.v, nil, 0)
	pb.expr, pb.str, pb.funcs, pb.fields = x, x.String(), rd.funcs, rd.fields
	switch {
	case !x.pure():
		pb.detail = "Rename's destination is not an expression of the store and the received ref only (" + pb.str + "): readers (fetch/stat/remove) cannot compute it from the ref"
	case refParam == nil:
		pb.detail = "ReceiveBlob has no single blob.Ref parameter"
	default:
		vs := rd.leaves["REF"]
		if len(vs) == 0 {
			pb.detail = "Rename's destination does not depend on the received ref (" + pb.str + ")"
			break
		}
		pb.ok = true
		for _, v := range vs {
			if !a.e.same(c03Val{a.e.frameOf(dest.fr, v), v}, c03Val{a.e.root, refParam}) {
				pb.ok = false
				pb.detail = "Rename's destination is computed from a ref other than the received ref parameter: the blob lands under another ref's name"
			}
		}
	}
	return pb
}

// c03IsBlobPath: v is the publishing path function applied to one blob ref.
func c03IsBlobPath(p *Program, v ssa.Value) bool {
	pb := c03PublishPath(p)
	if !pb.ok {
		return false
	}
	rd := c03NewRender(p, c03BlobRefLeaf)
	x := rd.expr(v, nil, 0)
	if x.String() != pb.str {
		return false
	}
	_, one := rd.oneLeaf("REF")
	return one
}

// ---------------------------------------------------------------------------
// F-order

func c03RuleFOrder(p *Program, r *Reporter) {
	const rule = "F-order"
	r.Floor(rule, 7)
	a := c03FilesAnchors(p)
	e := a.e
	fk := FuncKey(a.fn)
	site := p.Pos(a.fn.Pos())
	if len(a.temps) != 1 {
		r.Violation(rule, fk+"#rename-source", site, fmt.Sprintf("ReceiveBlob has %d VFS.TempFile calls (want exactly 1): the blob is not staged in one temp file, so a crash can leave a torn file under its final name", len(a.temps)))
		return
	}
	if len(a.renames) != 1 {
		r.Violation(rule, fk+"#rename-source", site, fmt.Sprintf("ReceiveBlob has %d VFS.Rename calls (want exactly 1): the blob must become visible by one atomic rename of the temp file", len(a.renames)))
		return
	}
	rc := a.renames[0]
	rsite := p.Pos(rc.call().Pos())
	args := rc.call().Args() // receiver, old, new

	// (i) source and destination
	r.Check(a.isTmpName(c03Val{rc.fr, args[1]}), rule, fk+"#rename-source", rsite,
		"Rename's source is Name() of the file returned by the TempFile call",
		"Rename's source is not Name() of the file returned by the TempFile call: the synced bytes and the renamed file may differ")
	pb := c03PublishPath(p)
	r.Check(pb.ok, rule, fk+"#rename-dest", rsite,
		"Rename's destination is an expression of the store and the received ref only ("+pb.str+"); F-visible decides that every reader opens the same expression of its ref",
		pb.detail)

	// (ii) writes -> Sync -> Close -> Rename, each on the success edge
	var sync c03Site
	why := "no Sync() call on the temp file"
	for _, s := range a.tmpMethod("Sync") {
		ok, w := e.succDom(s, rc)
		if ok {
			sync = s
			break
		}
		why = "Sync() at line " + fmt.Sprint(c03Line(p, s.in.Pos())) + ": " + w
	}
	r.Check(sync.valid(), rule, fk+"#sync-before-rename", rsite,
		"the Rename is on the err==nil edge of Sync() on the temp file",
		"the Rename is not dominated by a successful Sync() of the temp file ("+why+"): after a crash the renamed .dat may be empty or torn")

	writes, wrappers := a.writeSites()
	switch {
	case len(wrappers) > 0:
		r.Undecided(rule, fk+"#write-before-sync", p.Pos(wrappers[0].in.Pos()),
			"the temp file is wrapped into another io.Writer ("+wrappers[0].call().CalleeKey()+"); writes through the wrapper are not followed")
	case len(writes) == 0:
		r.Violation(rule, fk+"#write-before-sync", site, "no call writes into the temp file")
	case !sync.valid():
		r.Violation(rule, fk+"#write-before-sync", site, "no successful Sync() dominates the Rename, so no write is known to be synced")
	default:
		bad := ""
		for _, w := range writes {
			if ok, wy := e.succDom(w, sync); !ok {
				bad = fmt.Sprintf("write %s at line %d is not known to have succeeded before Sync() (%s): bytes written after or without the sync can be lost while the rename survives",
					w.call().CalleeKey(), c03Line(p, w.in.Pos()), wy)
			}
		}
		r.Check(bad == "", rule, fk+"#write-before-sync", p.Pos(sync.in.Pos()),
			fmt.Sprintf("all %d write site(s) into the temp file succeeded (err==nil edge) before Sync()", len(writes)), bad)
	}

	var cls c03Site
	why = "no Close() call on the temp file"
	for _, c := range a.tmpMethod("Close") {
		ok, w := e.succDom(c, rc)
		if ok {
			cls = c
			break
		}
		why = "Close() at line " + fmt.Sprint(c03Line(p, c.in.Pos())) + ": " + w
	}
	r.Check(cls.valid(), rule, fk+"#close-before-rename", rsite,
		"the Rename is on the err==nil edge of Close() on the temp file",
		"the Rename is not dominated by a successful Close() of the temp file ("+why+"): a failed close (delayed write error) would still be published")
	okSC := sync.valid() && cls.valid() && e.precedes(sync, cls)
	r.Check(okSC, rule, fk+"#sync-before-close", rsite,
		"Sync() precedes Close()", "Sync() does not precede Close() on the temp file: the data is closed unsynced (or Sync runs on a closed file)")

	// (iv) acknowledgement only after the rename
	bad := ""
	n := 0
	for _, nr := range e.maybeNilReturns(e.root) {
		n++
		at := ssa.Instruction(nr.Ret)
		if nr.From != nil && nr.From != nr.Ret.Block() {
			at = c03Last(nr.From)
		}
		if a.renameOK(c03Site{e.root, at}) || c03ReturnsVerdictOf(e, rc, nr) {
			continue
		}
		bad = fmt.Sprintf("the return at line %d may return a nil error without the Rename having succeeded: a receive is acknowledged for a blob that is not in place", c03Line(p, nr.Ret.Pos()))
	}
	if n == 0 {
		bad = "ReceiveBlob has no return whose error may be nil"
	}
	r.Check(bad == "", rule, fk+"#ack-after-rename", rsite,
		fmt.Sprintf("all %d maybe-nil-error return(s) are on the err==nil edge of the Rename", n), bad)
}

// c03ReturnsVerdictOf: the maybe-nil return nr of the root returns the error
// of the call a itself, or of the followed helper call that leads to a and
// whose success implies a's.
func c03ReturnsVerdictOf(e *c03Eff, a c03Site, nr NilReturn) bool {
	ch := a.chain()
	xc, ok := ch[0].in.(*ssa.Call)
	if !ok {
		return false
	}
	ev, has, _ := ErrValue(xc)
	if !has || ev == nil || originValue(nr.Val) != originValue(ev) {
		return false
	}
	if len(ch) == 1 {
		return true
	}
	ok2, _ := e.summary(ch[1:], true)
	return ok2
}

func c03ParamOfType(fn *ssa.Function, pkgPath, name string) *ssa.Parameter {
	var out *ssa.Parameter
	for _, prm := range fn.Params {
		if IsNamed(prm.Type(), pkgPath, name) {
			if _, isPtr := prm.Type().(*types.Pointer); isPtr {
				continue
			}
			if out != nil {
				return nil
			}
			out = prm
		}
	}
	return out
}

// ---------------------------------------------------------------------------
// F-order(iii) = C13 G-tmp

// ruleGTmpImpl emits, under rule name `as`, the temp-file cleanup obligations
// of files.(*Storage).ReceiveBlob (3 obligations).
func ruleGTmpImpl(p *Program, r *Reporter, as string) {
	r.Floor(as, 3)
	a := c03FilesAnchors(p)
	e := a.e
	fk := FuncKey(a.fn)
	cReg, cRem, cFlag := fk+"#cleanup-registered", fk+"#cleanup-removes-temp", fk+"#success-flag"
	if !a.temp.valid() {
		msg := fmt.Sprintf("ReceiveBlob has %d VFS.TempFile calls (want exactly 1); the temp-file cleanup cannot be located", len(a.temps))
		for _, c := range []string{cReg, cRem, cFlag} {
			r.Undecided(as, c, p.Pos(a.fn.Pos()), msg)
		}
		return
	}
	tsite := p.Pos(a.temp.in.Pos())
	isRemove := func(s c03Site) bool {
		ci, ok := s.in.(ssa.CallInstruction)
		if !ok {
			return false
		}
		c := CallSite{s.fr.fn, ci}
		if !c.IsMethod("Remove", a.vfs) {
			return false
		}
		args := c.Args()
		return len(args) == 2 && a.isTmpName(c03Val{s.fr, args[1]})
	}
	// removesOn: the frame's subtree contains a Remove of the temp file
	var hasRemove func(fr *c03Frame) bool
	hasRemove = func(fr *c03Frame) bool {
		for _, c := range CallsIn(fr.fn, false) {
			if isRemove(c03Site{fr, c.Instr}) {
				return true
			}
		}
		for _, k := range fr.kids {
			if hasRemove(k) {
				return true
			}
		}
		return false
	}
	// alwaysRemoves: every path through the helper entered by frame k passes a Remove of the temp file
	var stopIn func(fr *c03Frame) func(ssa.Instruction) bool
	var alwaysRemoves func(k *c03Frame, assume func(*c03Frame) func(ssa.Value) (bool, bool)) (bool, int)
	alwaysRemoves = func(k *c03Frame, assume func(*c03Frame) func(ssa.Value) (bool, bool)) (bool, int) {
		if len(k.fn.Blocks) == 0 || len(k.fn.Blocks[0].Instrs) == 0 {
			return false, 0
		}
		q := PathQuery{Start: c03EntryMarker(k.fn), IgnorePanics: true}
		q.Stop = func(in ssa.Instruction) bool {
			s := c03Site{k, in}
			if isRemove(s) {
				return true
			}
			if _, isCall := in.(*ssa.Call); isCall {
				if kk := e.kid(s); kk != nil {
					ok, _ := alwaysRemoves(kk, assume)
					return ok
				}
			}
			return false
		}
		if assume != nil {
			q.Assume = assume(k)
		}
		lk := LeakingExits(q)
		if len(lk) > 0 {
			return false, c03Line(p, lk[0].Exit.Pos())
		}
		return true, 0
	}
	// cleanupDefer: a defer statement of the root whose target removes the temp file
	cleanupDefer := func(s c03Site) *c03Frame {
		if _, ok := s.in.(*ssa.Defer); !ok || s.fr != e.root {
			return nil
		}
		k := e.kid(s)
		if k == nil || !hasRemove(k) {
			return nil
		}
		return k
	}
	stopIn = func(fr *c03Frame) func(ssa.Instruction) bool {
		return func(in ssa.Instruction) bool {
			s := c03Site{fr, in}
			if isRemove(s) || cleanupDefer(s) != nil {
				return true
			}
			if _, isCall := in.(*ssa.Call); isCall {
				if k := e.kid(s); k != nil {
					ok, _ := alwaysRemoves(k, nil)
					return ok
				}
			}
			return false
		}
	}
	// (a) registered before any later return: level by level up the call chain of the TempFile call
	var lines []string
	ch := a.temp.chain()
	for i := len(ch) - 1; i >= 0; i-- {
		lv := ch[i]
		start, ok := lv.in.(*ssa.Call)
		if !ok {
			lines = append(lines, fmt.Sprint(c03Line(p, lv.in.Pos()))+" (TempFile is reached through a defer/go statement)")
			break
		}
		errVal, _, _ := ErrValue(start)
		fr := lv.fr
		maybe := map[*ssa.Return]bool{}
		for _, nr := range e.maybeNilReturns(fr) {
			maybe[nr.Ret] = true
		}
		leaks := LeakingExits(PathQuery{
			Start: start,
			Stop:  stopIn(fr),
			Assume: func(cond ssa.Value) (bool, bool) {
				// follow only the succeeded edge
				if errVal == nil {
					return false, false
				}
				if k, nilWhenTrue := condSaysNil(cond, true, errVal); k {
					return true, nilWhenTrue
				}
				return false, false
			},
			ExitOK: func(exit ssa.Instruction) bool {
				if a.renameOK(c03Site{fr, exit}) {
					return true
				}
				// a helper's success return hands the temp file to its caller (checked one level up)
				ret, isRet := exit.(*ssa.Return)
				return isRet && fr != e.root && (maybe[ret] || ErrResultIndex(fr.fn) < 0)
			},
			IgnorePanics: true,
		})
		for _, l := range leaks {
			lines = append(lines, fmt.Sprint(c03Line(p, l.Exit.Pos())))
		}
	}
	if len(lines) > 0 {
		r.Violation(as, cReg, tsite,
			"after TempFile succeeded, the return(s) at line "+strings.Join(lines, ", ")+" are reached without the temp file's cleanup (deferred or explicit VFS.Remove(tmp.Name())) having been registered and without the Rename having succeeded: a failing receive leaves a *.tmp file behind")
	} else {
		r.OK(as, cReg, tsite, "every path from a successful TempFile to a return passes the registration of the temp file's cleanup (or a successful Rename)")
	}

	// (b) the deferred cleanup removes the file whenever the success flag is false
	var cleanups []*c03Frame
	for _, d := range DeferredCalls(a.fn) {
		if k := cleanupDefer(c03Site{e.root, d.Instr}); k != nil {
			cleanups = append(cleanups, k)
		}
	}
	if len(cleanups) == 0 {
		r.OKTable(as, cRem, tsite, "no deferred cleanup: removal is explicit on each path (decided by #cleanup-registered)")
		r.OKTable(as, cFlag, tsite, "no success flag")
		return
	}
	// flag cell: a bool variable of ReceiveBlob read by the cleanup's branch conditions (captured, or through a
	// pointer parameter bound to its address)
	flagOf := func(fr *c03Frame, cond ssa.Value) (cell *ssa.Alloc, negated bool) {
		for {
			if u, ok := cond.(*ssa.UnOp); ok && u.Op == token.NOT {
				cond, negated = u.X, !negated
				continue
			}
			break
		}
		ld, ok := cond.(*ssa.UnOp)
		if !ok || ld.Op != token.MUL {
			return nil, false
		}
		var al *ssa.Alloc
		if c, ok := varOf(ld.X); ok {
			al, _ = c.(*ssa.Alloc)
		}
		if al == nil {
			al, _ = e.origin(c03Val{fr, ld.X}, false).v.(*ssa.Alloc)
		}
		if al == nil || al.Parent() != a.fn {
			return nil, false
		}
		if b, ok := al.Type().Underlying().(*types.Pointer).Elem().Underlying().(*types.Basic); !ok || b.Kind() != types.Bool {
			return nil, false
		}
		return al, negated
	}
	flags := map[*ssa.Alloc]bool{}
	badRem := ""
	var inSubtree func(k *c03Frame, visit func(fr *c03Frame))
	inSubtree = func(k *c03Frame, visit func(fr *c03Frame)) {
		visit(k)
		for _, kk := range k.kids {
			inSubtree(kk, visit)
		}
	}
	for _, k := range cleanups {
		inSubtree(k, func(fr *c03Frame) {
			for _, c := range CallsIn(fr.fn, false) {
				rm := c03Site{fr, c.Instr}
				if !isRemove(rm) {
					continue
				}
				// the conditions the Remove is under, inside the cleanup
				for lv := rm; lv.fr != k.parent; lv = (c03Site{lv.fr.parent, lv.fr.call}) {
					for _, f := range FactsAt(lv.in.Block()) {
						cell, neg := flagOf(lv.fr, f.Cond)
						if cell == nil {
							badRem = fmt.Sprintf("the cleanup's Remove at line %d is additionally conditional on something other than a success flag of ReceiveBlob", c03Line(p, rm.in.Pos()))
							continue
						}
						if f.Val != neg { // value of the flag on this edge
							badRem = fmt.Sprintf("the cleanup's Remove at line %d runs when the flag is TRUE (inverted test): failures keep the temp file and successes log a spurious removal", c03Line(p, rm.in.Pos()))
						}
						flags[cell] = true
					}
					if lv.fr == k {
						break
					}
				}
			}
		})
		ok, line := alwaysRemoves(k, func(fr *c03Frame) func(ssa.Value) (bool, bool) {
			return func(cond ssa.Value) (bool, bool) {
				if cell, neg := flagOf(fr, cond); cell != nil {
					return true, neg // flag is false: cond == (false != neg)
				}
				return false, false
			}
		})
		if !ok && badRem == "" {
			badRem = fmt.Sprintf("the deferred cleanup can return (line %d) without VFS.Remove(tmp.Name()) although the success flag is false", line)
		}
	}
	csite := p.Pos(cleanups[0].fn.Pos())
	r.Check(badRem == "", as, cRem, csite,
		"the deferred cleanup calls VFS.Remove(tmp.Name()) on every path on which the success flag is false", badRem)

	// (c) the flag becomes true only after the Rename succeeded
	badFlag, undecFlag := "", ""
	nStores := 0
	for cell := range flags {
		_, stores, esc := c03CellUses(p, cell)
		if esc != "" {
			undecFlag = "the address of the success flag " + esc + ": its stores cannot be enumerated"
		}
		for _, st := range stores {
			nStores++
			c, ok := st.Val.(*ssa.Const)
			if !ok || c.Value == nil {
				badFlag = fmt.Sprintf("the success flag is assigned a non-constant value at line %d", c03Line(p, st.Pos()))
				continue
			}
			if c.Value.String() == "false" {
				continue
			}
			sites := e.sitesOf(st)
			okAll := len(sites) > 0 && c03OnlyReachedFrom(p, st.Parent(), func(f *ssa.Function) bool { return f == a.fn }, 0)
			for _, s := range sites {
				if !a.renameOK(s) {
					okAll = false
				}
			}
			if !okAll {
				badFlag = fmt.Sprintf("the success flag is set at line %d where the Rename is not known to have succeeded: a later failure would keep the temp file", c03Line(p, st.Pos()))
			}
		}
	}
	switch {
	case len(flags) == 0:
		r.OKTable(as, cFlag, csite, "the deferred cleanup removes unconditionally (no success flag)")
	case badFlag != "":
		r.Violation(as, cFlag, csite, badFlag)
	case undecFlag != "":
		r.Undecided(as, cFlag, csite, undecFlag)
	default:
		r.OK(as, cFlag, csite, fmt.Sprintf("all %d store(s) to the success flag are `false` or lie on the err==nil edge of the Rename", nStores))
	}
}

// c03EntryMarker returns an instruction of the entry block to start a path
// query "from function entry": LeakingExits starts after Start, so this must be
// an instruction that is never itself a stop (the first one is a load/alloc).
func c03EntryMarker(fn *ssa.Function) ssa.Instruction { return fn.Blocks[0].Instrs[0] }

// ---------------------------------------------------------------------------
// F-visible

func c03RuleFVisible(p *Program, r *Reporter) {
	const rule = "F-visible"
	r.Floor(rule, 13)
	a := c03FilesAnchors(p)
	pb := c03PublishPath(p)
	// the enumeration's effective body, from the interface method
	enumFn := p.Func(c03PkgFiles, "Storage", "EnumerateBlobs")
	ee := c03EffOf(p, enumFn)
	isRecvRoot := func(f *ssa.Function) bool { return f == a.fn }
	isEnumRoot := func(f *ssa.Function) bool { return f == enumFn }

	// (a) every path handed to the VFS by package files
	n := 0
	for _, fn := range p.FuncsIn(c03PkgFiles) {
		for _, c := range CallsIn(fn, false) {
			if !c.Common().IsInvoke() {
				continue
			}
			m := c.MethodName()
			switch m {
			case "Open", "Stat", "Lstat", "Remove":
			default:
				continue
			}
			if !c.IsMethod(m, a.vfs) {
				continue
			}
			n++
			arg := c.Args()[1]
			construct := FuncKey(fn) + "#VFS." + m
			site := p.Pos(c.Pos())
			// own temp file: in every frame of the receive path's effective body this function runs in
			ownTemp := false
			if a.e.has(fn) && c03OnlyReachedFrom(p, fn, isRecvRoot, 0) {
				frames := a.e.byFn[fn]
				if len(frames) == 0 {
					// a function literal that is not called statically: its captured values are resolved lexically
					for f := fn; f != nil && len(frames) == 0; f = f.Parent() {
						frames = a.e.byFn[f]
					}
				}
				ownTemp = len(frames) > 0
				for _, fr := range frames {
					if !a.isTmpName(c03Val{fr, arg}) {
						ownTemp = false
					}
				}
			}
			switch {
			case c03IsBlobPath(p, arg):
				r.OK(rule, construct, site, "path is the publishing path expression of a blob ref ("+pb.str+"): only a renamed-into-place .dat file is ever touched")
			case ownTemp:
				r.OK(rule, construct, site, "receive path touching its own temp file (tmp.Name())")
			case m == "Stat" && ee.has(fn) && c03OnlyReachedFrom(p, fn, isEnumRoot, 0):
				r.OKTable(rule, construct, site, "enumeration stat of a directory entry; entries are reported only behind the suffix test (see #send)")
			default:
				r.Violation(rule, construct, site, "VFS."+m+" on a path that is neither the path ReceiveBlob publishes a blob under (applied to one ref) nor the receive path's own temp file: a read path could present a partially written (*.tmp) file as a blob")
			}
		}
	}
	r.Analysed("vfs_path_sites", n)

	// (b) the published path's last element has a constant format that ends in the extension
	ext := ""
	{
		okE := false
		detail := "the path ReceiveBlob publishes under could not be rendered (" + pb.detail + ")"
		if pb.expr != nil {
			last := c03LastPathElem(pb.expr)
			detail = "the last element of the published path (" + last.String() + ") does not end in a constant: neither fmt.Sprintf(<constant format>, ...) nor ... + <constant>"
			if tail, ok := c03TrailingConst(last); ok {
				ext = tail
				okE = ext != "" && !strings.Contains(ext, "*") && !strings.Contains(ext, "%")
				detail = fmt.Sprintf("the published file name ends in the constant %q, which is not a usable extension", tail)
			}
		}
		r.Check(okE, rule, FuncKey(a.fn)+"#published-extension", p.Pos(a.fn.Pos()), fmt.Sprintf("the file name ReceiveBlob publishes under has a constant format ending in the literal extension %q", ext), detail)
	}

	// (c) enumeration: every send is behind HasSuffix(name, ext) of the name the ref is computed from
	sizedRef := p.NamedType("pkg/blob", "SizedRef")
	type sendSite struct {
		in  ssa.Instruction
		val ssa.Value
	}
	var sends []sendSite
	efuncs := ee.funcs(true)
	for _, f := range efuncs {
		for _, b := range f.Blocks {
			for _, in := range b.Instrs {
				switch x := in.(type) {
				case *ssa.Send:
					if c03ChanOf(x.Chan.Type(), sizedRef) {
						sends = append(sends, sendSite{x, x.X})
					}
				case *ssa.Select:
					for _, st := range x.States {
						if st.Dir == types.SendOnly && c03ChanOf(st.Chan.Type(), sizedRef) {
							sends = append(sends, sendSite{x, st.Send})
						}
					}
				}
			}
		}
	}
	isHasSuffix := func(c CallSite) bool { return c.IsStatic("strings", "", "HasSuffix") }
	if len(sends) == 0 {
		r.Violation(rule, FuncKey(enumFn)+"#send", p.Pos(enumFn.Pos()), "EnumerateBlobs never sends a blob.SizedRef (the enumeration could not be located)")
	}
	for _, s := range sends {
		construct := FuncKey(s.in.Parent()) + "#send"
		site := p.Pos(s.in.Pos())
		sites := ee.sitesOf(s.in)
		if len(sites) == 0 {
			sites = []c03Site{{nil, s.in}} // in a literal that is not called statically: its own facts only
		}
		bad := ""
		for _, ss := range sites {
			var known, val bool
			var hs c03Site
			if ss.fr != nil {
				known, val, hs = ee.boolCallFact(ss, isHasSuffix)
			} else {
				var c CallSite
				known, val, c = BoolCallFact(s.in.Block(), isHasSuffix)
				hs = c03Site{nil, c.Instr}
			}
			if !known || !val {
				bad = "a blob is sent to the enumeration channel without strings.HasSuffix(name, ext) known true: *.tmp files of in-flight or crashed receives would be enumerated as blobs"
				break
			}
			hargs := hs.in.(*ssa.Call).Call.Args
			sfx, isConst := ConstString(ee.origin(c03Val{hs.fr, hargs[1]}, false).v)
			name := c03Val{hs.fr, hargs[0]}
			derives := false
			if ss.fr != nil {
				on := ee.origin(name, true)
				derives = ee.depends(c03Val{ss.fr, s.val}, func(x c03Val) bool {
					return x.v == name.v && x.fr == name.fr || x.v == on.v && x.fr == on.fr
				})
			} else {
				derives = c03Depends(s.val, func(v ssa.Value) bool { return v == name.v })
			}
			switch {
			case !isConst || sfx != ext:
				bad = fmt.Sprintf("the suffix test uses %q but the published file name has extension %q", sfx, ext)
			case !derives:
				bad = "the sent value does not derive from the name that passed the suffix test"
			}
		}
		r.Check(bad == "", rule, construct, site, fmt.Sprintf("send is dominated by HasSuffix(name, %q)==true and the sent ref derives from that name", ext), bad)
	}
	// TrimSuffix constants agree
	{
		bad := ""
		nTrim := 0
		for _, f := range efuncs {
			for _, c := range CallsIn(f, false) {
				if c.IsStatic("strings", "", "TrimSuffix") {
					nTrim++
					if s, ok := ConstString(c.Args()[1]); !ok || s != ext {
						bad = fmt.Sprintf("the enumeration trims %q but the extension written is %q", s, ext)
					}
				}
			}
		}
		r.Check(bad == "", rule, FuncKey(enumFn)+"#trim-agrees", p.Pos(enumFn.Pos()),
			fmt.Sprintf("%d TrimSuffix constant(s) equal the written extension %q", nTrim, ext), bad)
	}

	// (d) temp names can never satisfy the suffix test
	if a.temp.valid() {
		args := a.temp.call().Args() // recv, dir, prefix
		tail, okT := c03TrailingConst(c03NewRender(p, c03BlobRefLeaf).expr(a.e.origin(c03Val{a.temp.fr, args[2]}, false).v, nil, 0))
		construct := FuncKey(a.fn) + "#temp-prefix-tail"
		site := p.Pos(a.temp.in.Pos())
		switch {
		case !okT || tail == "":
			r.Undecided(rule, construct, site, "the TempFile prefix does not end in a non-empty constant tail: it cannot be shown that no temp name ends in the blob extension (if the variable part contained a '*', os.CreateTemp would keep what follows it as the name's tail)")
		case strings.Contains(tail, "*"):
			r.Violation(rule, construct, site, fmt.Sprintf("the TempFile prefix tail %q contains '*': os.CreateTemp would substitute the random part there and keep what follows", tail))
		case ext == "" || strings.HasSuffix(tail, ext) || strings.HasSuffix(ext, tail):
			r.Violation(rule, construct, site, fmt.Sprintf("the TempFile prefix tail %q is compatible with extension %q: a temp name may end in the extension and be presented as a blob", tail, ext))
		default:
			r.OK(rule, construct, site, fmt.Sprintf("the TempFile prefix ends in constant %q: no string ending in it (nor in an appended hex/decimal suffix) ends in %q", tail, ext))
		}
	} else {
		r.Violation(rule, FuncKey(a.fn)+"#temp-prefix-tail", p.Pos(a.fn.Pos()), "no single TempFile call in ReceiveBlob")
	}

	// (e) VFS implementations only append to the prefix
	for _, T := range p.Implementers(a.vfs, false) {
		m := p.LookupFunc(RelPkg(T.Obj().Pkg()), T.Obj().Name(), "TempFile") // the declared method, not a pointer-receiver wrapper
		construct := typeKey(T) + ".TempFile#appends-only"
		if m == nil || m.Blocks == nil || len(m.Params) < 2 {
			r.Undecided(rule, construct, "?", "TempFile implementation has no analysable body")
			continue
		}
		ok, detail := c03AppendsOnly(m, ext)
		site := p.Pos(m.Pos())
		if ok {
			r.OK(rule, construct, site, detail)
		} else {
			r.Undecided(rule, construct, site, detail)
		}
	}
}

func c03ChanOf(t types.Type, elem *types.Named) bool {
	ch, ok := t.Underlying().(*types.Chan)
	return ok && types.Identical(ch.Elem(), elem)
}

var c03NumVerb = regexp.MustCompile(`^%[0-9]*[xXd]$`)

// c03AppendsOnly checks that a VFS.TempFile implementation uses its prefix
// parameter only as os.CreateTemp's pattern or as the left operand of a
// concatenation with a hex/decimal suffix (and for error formatting).
func c03AppendsOnly(m *ssa.Function, ext string) (bool, string) {
	prm := m.Params[len(m.Params)-1]
	if b, ok := prm.Type().Underlying().(*types.Basic); !ok || b.Kind() != types.String {
		return false, "last parameter of TempFile is not the string prefix"
	}
	refs := prm.Referrers()
	if refs == nil {
		return false, "prefix parameter unused"
	}
	appended := 0
	for _, u := range *refs {
		switch x := u.(type) {
		case *ssa.DebugRef:
		case *ssa.Call:
			if funcIs(x.Call.StaticCallee(), "os", "", "CreateTemp") && len(x.Call.Args) == 2 && x.Call.Args[1] == ssa.Value(prm) {
				appended++
				continue
			}
			return false, "prefix is passed to " + (CallSite{m, x}).CalleeKey() + ", which is not known to append only"
		case *ssa.BinOp:
			if x.Op != token.ADD || x.X != ssa.Value(prm) {
				return false, "prefix is used in an expression other than prefix+suffix"
			}
			sp := c03CallIs(x.Y, "fmt", "", "Sprintf")
			if sp == nil {
				return false, "the suffix appended to the prefix is not a fmt.Sprintf of a number"
			}
			f, ok := ConstString(sp.Call.Args[0])
			if !ok || !c03NumVerb.MatchString(f) {
				return false, fmt.Sprintf("the appended suffix's format %q is not a plain hex/decimal verb", f)
			}
			if ext != "" && strings.ContainsAny(ext[len(ext)-1:], "0123456789abcdefABCDEF-") {
				return false, "the extension's last byte could be produced by a hex/decimal suffix"
			}
			appended++
		case *ssa.MakeInterface:
			if !c03OnlyFormatted(x) {
				return false, "prefix flows into a formatting call other than fmt.Errorf/log"
			}
		default:
			return false, fmt.Sprintf("prefix is used by an unrecognised instruction (%T)", u)
		}
	}
	if appended == 0 {
		return false, "prefix is never used to build the temp name"
	}
	return true, "prefix is used only as os.CreateTemp's pattern / as left operand of prefix+<hex|decimal suffix> (and in error messages): the temp name ends in that random suffix, never in the extension"
}

// c03OnlyFormatted: the interface value is stored into a varargs array whose
// slice is consumed only by fmt.Errorf or package log.
func c03OnlyFormatted(mi *ssa.MakeInterface) bool {
	refs := mi.Referrers()
	if refs == nil {
		return true
	}
	for _, u := range *refs {
		st, ok := u.(*ssa.Store)
		if !ok {
			if _, dbg := u.(*ssa.DebugRef); dbg {
				continue
			}
			return false
		}
		al := c03RootAlloc(st.Addr)
		if al == nil {
			return false
		}
		for _, au := range *al.Referrers() {
			sl, ok := au.(*ssa.Slice)
			if !ok {
				continue
			}
			for _, su := range *sl.Referrers() {
				c, ok := su.(*ssa.Call)
				if !ok {
					return false
				}
				f := c.Call.StaticCallee()
				if f == nil || !(funcIs(f, "fmt", "", "Errorf") || f.Pkg != nil && f.Pkg.Pkg.Path() == "log") {
					return false
				}
			}
		}
	}
	return true
}

// ---------------------------------------------------------------------------
// anchors of the packed store, by role (no internal helper is looked up by name)

type c03DPAnch struct {
	p       *Program
	recvFn  *ssa.Function // ReceiveBlob of the package's blobserver.BlobReceiver: the entry point
	e       *c03Eff       // its effective body (contains append and what append calls)
	storeT  *types.Named  // the store type
	kv      *types.Interface
	writerF string // the *os.File field holding the live append handle
	sizeF   string // the int64 field the receive path advances by the written counts ("" if none)
	sets    []c03Site
	set     c03Site   // the index Set (valid iff exactly one)
	sync    []c03Site // (*os.File).Sync on the live handle
	writes  []c03Site // data writes into the live handle
	header  c03Site   // the fmt.Fprintf header write with constant format
	hdrFmt  string
	hdrArgs []ssa.Value
	// index rows
	rowT                        *types.Named           // the row type
	rowFile, rowOffset, rowSize string                 // its fields, by type: int, int64, uint32
	lookups                     map[*ssa.Function]bool // functions (ref) -> (row, error) of the package
	packPath                    string                 // rendering of the path the live handle is opened under, as a function of the pack number
}

var c03DPCache = map[*ssa.Program]*c03DPAnch{}

// isWriter: v is a load of the live append handle of the store the receive runs on.
func (d *c03DPAnch) isWriter(v c03Val) bool {
	o := d.e.origin(v, false)
	ld, ok := o.v.(*ssa.UnOp)
	if !ok || ld.Op != token.MUL {
		return false
	}
	fa, ok := ld.X.(*ssa.FieldAddr)
	if !ok || fieldName(fa.X.Type(), fa.Field) != d.writerF || NamedOf(fa.X.Type().Underlying().(*types.Pointer).Elem()) != d.storeT {
		return false
	}
	return d.e.same(c03Val{o.fr, fa.X}, c03Val{d.e.root, d.recvFn.Params[0]})
}

// isStoreField: addr is &s.<name> of the store the receive runs on.
func (d *c03DPAnch) isStoreField(addr c03Val, name string) bool {
	fa, ok := addr.v.(*ssa.FieldAddr)
	if !ok || name == "" || fieldName(fa.X.Type(), fa.Field) != name || NamedOf(fa.X.Type().Underlying().(*types.Pointer).Elem()) != d.storeT {
		return false
	}
	return d.e.same(c03Val{addr.fr, fa.X}, c03Val{d.e.root, d.recvFn.Params[0]})
}

func c03IsWriterType(t types.Type) bool {
	if _, ok := t.Underlying().(*types.Interface); ok {
		return c03HasMethod(t, "Write")
	}
	return false
}

func c03PackLeaf(v ssa.Value) string {
	if c03IsReceiverParam(v) {
		return "RECV"
	}
	if b, ok := v.Type().Underlying().(*types.Basic); ok && b.Kind() == types.Int {
		if _, isConst := v.(*ssa.Const); !isConst {
			return "N"
		}
	}
	return ""
}

func c03DPAnchors(p *Program) *c03DPAnch {
	c03CacheGuard(p)
	if d, ok := c03DPCache[p.SSA]; ok {
		return d
	}
	d := &c03DPAnch{p: p, lookups: map[*ssa.Function]bool{}}
	c03DPCache[p.SSA] = d
	d.kv = p.Iface("pkg/sorted", "KeyValue")
	recvI := p.Iface("pkg/blobserver", "BlobReceiver")
	for _, T := range p.Implementers(recvI, false) {
		if T.Obj().Pkg() == nil || RelPkg(T.Obj().Pkg()) != c03PkgDP {
			continue
		}
		if fn, _ := p.MethodOf(T, recvI.Method(0).Name()); fn != nil && len(fn.Blocks) > 0 {
			if d.recvFn != nil {
				brokenf("anchor unresolved: package diskpacked has more than one blobserver.BlobReceiver")
			}
			d.recvFn, d.storeT = fn, T
		}
	}
	if d.recvFn == nil {
		brokenf("anchor unresolved: the blobserver.BlobReceiver of package diskpacked")
	}
	d.e = c03EffOf(p, d.recvFn)
	e := d.e
	// the live handle: the store's *os.File field (the one that is Sync'ed, when there are several)
	st, _ := d.storeT.Underlying().(*types.Struct)
	var fileFields []string
	for i := 0; st != nil && i < st.NumFields(); i++ {
		if c03IsOSFile(st.Field(i).Type()) {
			fileFields = append(fileFields, st.Field(i).Name())
		}
	}
	switch len(fileFields) {
	case 0:
		brokenf("anchor unresolved: the packed store has no *os.File field (live append handle)")
	case 1:
		d.writerF = fileFields[0]
	default:
		synced := map[string]bool{}
		for _, s := range e.calls(false) {
			if c := s.call(); s.value() != nil && c.IsStatic("os", "File", "Sync") {
				if ld, ok := e.origin(c03Val{s.fr, c.Args()[0]}, false).v.(*ssa.UnOp); ok && ld.Op == token.MUL {
					if fa, ok := ld.X.(*ssa.FieldAddr); ok && NamedOf(fa.X.Type().Underlying().(*types.Pointer).Elem()) == d.storeT {
						synced[fieldName(fa.X.Type(), fa.Field)] = true
					}
				}
			}
		}
		if len(synced) != 1 {
			brokenf("anchor unresolved: the packed store has %d *os.File fields and %d of them are synced by ReceiveBlob", len(fileFields), len(synced))
		}
		for k := range synced {
			d.writerF = k
		}
	}
	for _, s := range e.calls(false) {
		v := s.value()
		if v == nil || e.kid(s) != nil {
			continue
		}
		c := s.call()
		if v.Call.IsInvoke() {
			if c.IsMethod("Set", d.kv) {
				d.sets = append(d.sets, s)
			}
			continue
		}
		if f := c.Callee(); f != nil && funcIs(f, "os", "File", f.Name()) {
			if !d.isWriter(c03Val{s.fr, c.Args()[0]}) {
				continue
			}
			switch {
			case f.Name() == "Sync":
				d.sync = append(d.sync, s)
			case strings.HasPrefix(f.Name(), "Write") || f.Name() == "ReadFrom":
				d.writes = append(d.writes, s)
			}
			continue
		}
		// the live handle passed as an io.Writer argument
		for _, arg := range v.Call.Args {
			_, isMI := arg.(*ssa.MakeInterface)
			if !(isMI || c03IsWriterType(arg.Type())) || !d.isWriter(c03Val{s.fr, arg}) {
				continue
			}
			d.writes = append(d.writes, s)
			if c.IsStatic("fmt", "", "Fprintf") && !d.header.valid() {
				if f, ok := ConstString(v.Call.Args[1]); ok {
					d.header, d.hdrFmt = s, f
					d.hdrArgs = c03VarargElems(v.Call.Args[2])
				}
			}
			break
		}
	}
	if len(d.sets) == 1 {
		d.set = d.sets[0]
	}
	// the byte counter: an int64 field of the store that the receive path stores a written count into
	for _, fr := range e.frames {
		if fr.deferred {
			continue
		}
		for _, b := range fr.fn.Blocks {
			for _, in := range b.Instrs {
				stI, ok := in.(*ssa.Store)
				if !ok {
					continue
				}
				fa, ok := stI.Addr.(*ssa.FieldAddr)
				if !ok || !d.isStoreField(c03Val{fr, fa}, fieldName(fa.X.Type(), fa.Field)) {
					continue
				}
				if bt, ok := fa.Type().Underlying().(*types.Pointer).Elem().Underlying().(*types.Basic); !ok || bt.Kind() != types.Int64 {
					continue
				}
				if e.depends(c03Val{fr, stI.Val}, func(x c03Val) bool { return d.isWriteCount(x, true) }) {
					name := fieldName(fa.X.Type(), fa.Field)
					if d.sizeF != "" && d.sizeF != name {
						brokenf("anchor unresolved: two int64 fields of the packed store (%s, %s) are advanced by written counts", d.sizeF, name)
					}
					d.sizeF = name
				}
			}
		}
	}
	// index rows: the package's (ref) -> (row, error) functions and the row type
	for _, fn := range p.FuncsIn(c03PkgDP) {
		if fn.Parent() != nil || len(fn.Blocks) == 0 {
			continue
		}
		sig := fn.Signature
		if sig.Results().Len() != 2 || !isErrorType(sig.Results().At(1).Type()) || sig.Params().Len() != 1 || !IsNamed(sig.Params().At(0).Type(), "perkeep.org/pkg/blob", "Ref") {
			continue
		}
		T, ok := sig.Results().At(0).Type().(*types.Named)
		if !ok || T.Obj().Pkg() == nil || RelPkg(T.Obj().Pkg()) != c03PkgDP {
			continue
		}
		if _, isStruct := T.Underlying().(*types.Struct); !isStruct {
			continue
		}
		if d.rowT != nil && d.rowT != T {
			brokenf("anchor unresolved: package diskpacked has row lookup functions with different row types")
		}
		d.rowT = T
		d.lookups[fn] = true
	}
	if d.rowT == nil {
		brokenf("anchor unresolved: no function (blob.Ref) (row, error) in package diskpacked (the index row lookup)")
	}
	rst := d.rowT.Underlying().(*types.Struct)
	for i := 0; i < rst.NumFields(); i++ {
		b, ok := rst.Field(i).Type().Underlying().(*types.Basic)
		if !ok {
			continue
		}
		set := func(dst *string) {
			if *dst != "" {
				brokenf("anchor unresolved: the index row type has two fields of type %s", b.Name())
			}
			*dst = rst.Field(i).Name()
		}
		switch b.Kind() {
		case types.Int:
			set(&d.rowFile)
		case types.Int64:
			set(&d.rowOffset)
		case types.Uint32:
			set(&d.rowSize)
		}
	}
	if d.rowFile == "" || d.rowOffset == "" || d.rowSize == "" {
		brokenf("anchor unresolved: the index row type does not have one int (pack), one int64 (offset) and one uint32 (size) field")
	}
	// the path the live handle is opened under
	for _, fn := range p.FuncsIn(c03PkgDP) {
		for _, b := range fn.Blocks {
			for _, in := range b.Instrs {
				stI, ok := in.(*ssa.Store)
				if !ok {
					continue
				}
				fa, ok := stI.Addr.(*ssa.FieldAddr)
				if !ok || fieldName(fa.X.Type(), fa.Field) != d.writerF || NamedOf(fa.X.Type().Underlying().(*types.Pointer).Elem()) != d.storeT {
					continue
				}
				ex, ok := originValue(stI.Val).(*ssa.Extract)
				if !ok || ex.Index != 0 {
					continue
				}
				oc, ok := ex.Tuple.(*ssa.Call)
				if !ok || !funcIs(oc.Call.StaticCallee(), "os", "", "OpenFile") {
					continue
				}
				rd := c03NewRender(p, c03PackLeaf)
				x := rd.expr(oc.Call.Args[0], nil, 0)
				if _, one := rd.oneLeaf("N"); one && x.pure() {
					d.packPath = x.String()
				}
			}
		}
	}
	if d.packPath == "" {
		brokenf("anchor unresolved: the os.OpenFile whose handle becomes the store's live append handle (the pack path as a function of the pack number)")
	}
	return d
}

// isPackPath: v renders as the pack path function; n is its pack-number leaf.
func (d *c03DPAnch) isPackPath(v ssa.Value) (n ssa.Value, ok bool) {
	rd := c03NewRender(d.p, c03PackLeaf)
	if rd.expr(v, nil, 0).String() != d.packPath {
		return nil, false
	}
	return rd.oneLeaf("N")
}

// isWriteCount: v is the byte-count result of one of the data writes into the
// live handle (with header=false: other than the header).
func (d *c03DPAnch) isWriteCount(v c03Val, header bool) bool {
	o := d.e.origin(v, true)
	ex, ok := o.v.(*ssa.Extract)
	if !ok || ex.Index != 0 {
		return false
	}
	for _, w := range d.writes {
		if ex.Tuple == ssa.Value(w.value()) && w.fr == o.fr && (header || w != d.header) {
			return true
		}
	}
	return false
}

// rowField: v reads field name of a row value; base is the row (value or variable).
func (d *c03DPAnch) rowField(v ssa.Value, name string) (base ssa.Value, ok bool) {
	n, b, ok := c03FieldRead(originValue(v))
	if !ok || n != name || NamedOf(c03Deref(b.Type())) != d.rowT {
		return nil, false
	}
	return b, true
}

func c03Deref(t types.Type) types.Type {
	if pt, ok := t.Underlying().(*types.Pointer); ok {
		return pt.Elem()
	}
	return t
}

// holds: struct base (a variable whose only whole-value store is val, or val
// itself) holds the value val, across frames.
func (e *c03Eff) holds(base, val c03Val) bool {
	if base.v == nil || val.v == nil {
		return false
	}
	if e.same(base, val) {
		return true
	}
	o := e.origin(base, false)
	al, ok := o.v.(*ssa.Alloc)
	if !ok {
		return false
	}
	n := 0
	okv := false
	for _, st := range c03StoresInto(al) {
		if st.Addr == ssa.Value(al) {
			n++
			okv = e.same(c03Val{o.fr, st.Val}, val)
		}
	}
	return n == 1 && okv
}

// frameFor: the frame in which leaf value x of a fact known at site s lives.
func (e *c03Eff) frameFor(s c03Site, x ssa.Value) *c03Frame {
	fn := c03ValueFn(x)
	if fn == nil {
		return s.fr
	}
	for fr := s.fr; fr != nil; fr = fr.parent {
		if fr.fn == fn {
			return fr
		}
	}
	if fs := e.byFn[fn]; len(fs) > 0 {
		return fs[0]
	}
	return s.fr
}

// orderFacts lists, as forms F (meaning F >= 0), the integer ordering
// comparisons known at site s (own function, call chain, followed boolean
// helpers), each over the values of the callers (parameters substituted). A
// condition that is a call of a module function that is not part of the
// effective body is followed when its only return is one ordering comparison
// of its parameters; unfollowed names the calls that could not be followed.
func (e *c03Eff) orderFacts(s c03Site, keepForeign bool) (forms []*c03Lin, unfollowed []string) {
	home := map[*ssa.Function]bool{}
	for fr := s.fr; fr != nil; fr = fr.parent {
		home[fr.fn] = true
		for f := fr.fn.Parent(); f != nil; f = f.Parent() {
			home[f] = true
		}
	}
	foreign := func(l *c03Lin) bool {
		if keepForeign {
			return false
		}
		for i, x := range l.leaf {
			if l.coef[i] != 0 {
				if f := c03ValueFn(x); f != nil && !home[f] {
					return true
				}
			}
		}
		return false
	}
	followedCall := map[*ssa.Call]bool{}
	facts := e.factsAt(s)
	for _, f := range facts {
		if b, ok := f.cond.(*ssa.BinOp); ok {
			if l, ok := c03OrderFact(b, f.val, e.envOf(f.fr)); ok && !foreign(l) {
				forms = append(forms, l)
				if f.fr != nil && f.fr.call != nil {
					if c, ok := f.fr.call.(*ssa.Call); ok {
						followedCall[c] = true
					}
				}
			}
		}
	}
	for _, f := range facts {
		c, ok := f.cond.(*ssa.Call)
		if !ok || followedCall[c] {
			continue
		}
		if f.fr != nil && f.fr.kids[c] != nil {
			// a followed helper none of whose conditions gave a usable form
			if res := c.Call.Signature().Results(); res.Len() == 1 {
				if b, ok := res.At(0).Type().Underlying().(*types.Basic); ok && b.Kind() == types.Bool {
					unfollowed = append(unfollowed, FuncKey(f.fr.kids[c].fn))
				}
			}
			continue
		}
		callee, env := c03CallEnv(c, e.envOf(f.fr))
		if callee == nil {
			continue
		}
		followed := false
		if rets := Returns(callee); len(rets) == 1 && len(rets[0].Results) == 1 {
			if b, ok := rets[0].Results[0].(*ssa.BinOp); ok {
				if l, ok := c03OrderFact(b, f.val, env); ok && !foreign(l) {
					forms = append(forms, l)
					followed = true
				}
			}
		}
		if !followed {
			unfollowed = append(unfollowed, FuncKey(callee))
		}
	}
	return forms, unfollowed
}

// ---------------------------------------------------------------------------
// D-order

func c03RuleDOrder(p *Program, r *Reporter) {
	const rule = "D-order"
	r.Floor(rule, 7)
	d := c03DPAnchors(p)
	e := d.e
	rk := FuncKey(d.recvFn)
	if !d.set.valid() {
		r.Violation(rule, rk+"#sync-before-index", p.Pos(d.recvFn.Pos()), fmt.Sprintf("the receive path has %d index Set calls (want exactly 1)", len(d.sets)))
		return
	}
	fk := FuncKey(d.set.fr.fn)
	site := p.Pos(d.set.fr.fn.Pos())
	ssite := p.Pos(d.set.in.Pos())
	var sync c03Site
	why := "no (*os.File).Sync on the live append handle"
	for _, s := range d.sync {
		ok, w := e.succDom(s, d.set)
		if ok {
			sync = s
			break
		}
		why = fmt.Sprintf("Sync at line %d: %s", c03Line(p, s.in.Pos()), w)
	}
	r.Check(sync.valid(), rule, fk+"#sync-before-index", ssite,
		"index.Set is on the err==nil edge of s.writer.Sync()",
		"index.Set is not dominated by a successful s.writer.Sync() ("+why+"): after a crash the index may name bytes that never reached the disk")

	// data writes before the sync
	if len(d.writes) == 0 {
		r.Violation(rule, fk+"#write-before-sync", site, "no data write into the live append handle found in the receive path")
	}
	for _, w := range d.writes {
		construct := FuncKey(w.fr.fn) + "#write-before-sync#" + w.call().CalleeKey()
		if !sync.valid() {
			r.Violation(rule, construct, p.Pos(w.in.Pos()), "no successful Sync dominates index.Set, so this write is not known to be synced before it is indexed")
			continue
		}
		ok, wy := e.succDom(w, sync)
		r.Check(ok, rule, construct, p.Pos(w.in.Pos()),
			"the write succeeded (err==nil edge) before s.writer.Sync()",
			"the write is not known to have succeeded before s.writer.Sync() ("+wy+"): unsynced or failed bytes would be indexed")
	}

	// size equality check before the sync
	{
		ok := false
		if sync.valid() {
			for _, f := range e.factsAt(sync) {
				b, isBin := f.cond.(*ssa.BinOp)
				if !isBin || !(b.Op == token.NEQ && !f.val || b.Op == token.EQL && f.val) {
					continue
				}
				for _, pair := range [][2]ssa.Value{{b.X, b.Y}, {b.Y, b.X}} {
					if d.isWriteCount(c03Val{f.fr, pair[0]}, false) && e.depends(c03Val{f.fr, pair[1]}, func(x c03Val) bool { return c03IsSizedRefSize(x.v) }) {
						ok = true
					}
				}
			}
		}
		at := site
		if sync.valid() {
			at = p.Pos(sync.in.Pos())
		}
		r.Check(ok, rule, fk+"#size-check-before-sync", at,
			"Sync (hence index.Set) is behind `bytes written == br.Size` for the body write",
			"no `written == br.Size` fact dominates the Sync: a short body would be indexed under a header and index row claiming br.Size bytes (the next header would be read from inside the blob)")
	}

	// acknowledgement: every return of the entry point that may report success is behind the Set's success
	// edge (directly, or as the verdict of the followed helper that contains the Set), or is the duplicate-ack
	setErr, _, _ := ErrValue(d.set.value())
	walked := map[*c03Frame]bool{}
	nVerdict, nBehindAll := 0, 0
	var walk func(fr *c03Frame)
	walk = func(fr *c03Frame) {
		if walked[fr] {
			return
		}
		walked[fr] = true
		nBehind, nDelegated := 0, 0
		bad := ""
		for _, nr := range e.maybeNilReturns(fr) {
			at := ssa.Instruction(nr.Ret)
			if nr.From != nil && nr.From != nr.Ret.Block() {
				at = c03Last(nr.From)
			}
			as := c03Site{fr, at}
			rsite := p.Pos(nr.Ret.Pos())
			if ok, _ := e.succDom(d.set, as); ok {
				nBehind++
				continue
			}
			if fr == d.set.fr && setErr != nil && sameOrigin(nr.Val, setErr) {
				nBehind++
				continue
			}
			// the verdict of a followed helper
			verdict := false
			for ci, kid := range fr.kids {
				c, ok := ci.(*ssa.Call)
				if !ok || kid.deferred {
					continue
				}
				if ev, has, _ := ErrValue(c); has && ev != nil && originValue(nr.Val) == originValue(ev) {
					verdict = true
					nVerdict++
					r.OK(rule, FuncKey(fr.fn)+"#ack-is-helper-verdict", rsite, "the returned error is the result of "+FuncKey(kid.fn)+", whose success returns are decided there")
					walk(kid)
				}
			}
			if verdict {
				nDelegated++
				continue
			}
			ok, detail := c03DupAck(d, as)
			if fr == e.root {
				r.Check(ok, rule, FuncKey(fr.fn)+"#dup-ack", rsite,
					"the duplicate-ack return is behind {row lookup of the received ref found, os.Stat(<pack path>(row.file)) ok, fi.Size() >= row.offset+row.size}", detail)
			} else if !ok {
				bad = fmt.Sprintf("the return at line %d may return nil without index.Set having succeeded (and it is not a duplicate acknowledgement: %s): an acknowledged blob would be missing from the index", c03Line(p, nr.Ret.Pos()), detail)
			} else {
				nBehind++
			}
		}
		nBehindAll += nBehind
		if fr != e.root || nBehind > 0 || bad != "" {
			if nBehind == 0 && nDelegated == 0 && bad == "" && fr != e.root {
				bad = FuncKey(fr.fn) + " has no return that may report success"
			}
			r.Check(bad == "", rule, FuncKey(fr.fn)+"#ack-after-index", ssite, fmt.Sprintf("all %d maybe-nil return(s) are on the err==nil edge of index.Set (or return its error); %d more return the verdict of a followed helper", nBehind, nDelegated), bad)
		}
	}
	walk(e.root)
	if nBehindAll == 0 {
		r.Violation(rule, fk+"#ack-after-index", ssite, "no return of the receive path that may report success is behind the success of the index Set: its failures are not reported")
	}
	_ = nVerdict
}

func c03IsSizedRefSize(v ssa.Value) bool {
	switch x := v.(type) {
	case *ssa.FieldAddr:
		return fieldName(x.X.Type(), x.Field) == "Size" && IsNamed(x.X.Type().Underlying().(*types.Pointer).Elem(), "perkeep.org/pkg/blob", "SizedRef")
	case *ssa.Field:
		return fieldName(x.X.Type(), x.Field) == "Size" && IsNamed(x.X.Type(), "perkeep.org/pkg/blob", "SizedRef")
	}
	return false
}

// c03DupAck checks the facts dominating a duplicate-ack return of the packed
// store's receive path.
func c03DupAck(d *c03DPAnch, at c03Site) (bool, string) {
	e := d.e
	refParam := c03ParamOfType(d.recvFn, "perkeep.org/pkg/blob", "Ref")
	var meta, stat c03Site
	for _, s := range e.calls(false) {
		v := s.value()
		if v == nil {
			continue
		}
		c := s.call()
		if f := c.Callee(); f != nil && d.lookups[f] {
			if ok, _ := e.succDom(s, at); ok && refParam != nil && e.same(c03Val{s.fr, v.Call.Args[len(v.Call.Args)-1]}, c03Val{e.root, refParam}) {
				meta = s
			}
		}
		if c.IsStatic("os", "", "Stat") || c.IsStatic("os", "", "Lstat") {
			if ok, _ := e.succDom(s, at); ok {
				stat = s
			}
		}
	}
	if !meta.valid() {
		return false, "a nil-error return that is not the index writer's verdict is not behind a successful index row lookup of the received ref: a blob absent from the index would be acknowledged without being stored"
	}
	m := c03Val{meta.fr, ResultValue(meta.value(), 0)}
	if !stat.valid() {
		return false, "the duplicate-ack return is not behind a successful os.Stat of the pack file: a duplicate would be acknowledged although its pack file is gone"
	}
	// stat'ed file is <pack path>(m.file)
	okFile := false
	sp := e.origin(c03Val{stat.fr, stat.value().Call.Args[0]}, false)
	if n, ok := d.isPackPath(sp.v); ok {
		if base, ok := d.rowField(n, d.rowFile); ok && e.holds(c03Val{e.frameOf(sp.fr, base), base}, m) {
			okFile = true
		}
	}
	if !okFile {
		return false, "the stat'ed path is not the pack path of the looked-up row's pack number (row." + d.rowFile + ")"
	}
	fi := c03Val{stat.fr, ResultValue(stat.value(), 0)}
	isSize := func(x ssa.Value) bool {
		c, ok := originValue(x).(*ssa.Call)
		return ok && c.Call.IsInvoke() && c.Call.Method.Name() == "Size" && fi.v != nil && e.same(c03Val{e.frameFor(at, c), c.Call.Value}, fi)
	}
	// Every dominating ordering comparison that mentions fi.Size(), as a linear
	// form F >= 0 (so that `fi.Size()-m.offset >= int64(m.size)`, an extent kept
	// in a local, a negated `<` … are all the same fact). Required:
	// F = fi.Size() - m.offset - m.size + k with k <= 0 and nothing else.
	forms, unfollowed := e.orderFacts(at, true)
	var bad []string
	for _, f := range forms {
		var cSize, cOff, cLen int64
		var other []string
		for i, x := range f.leaf {
			c := f.coef[i]
			if c == 0 {
				continue
			}
			if isSize(x) {
				cSize += c
				continue
			}
			if base, ok := d.rowField(x, d.rowOffset); ok && e.holds(c03Val{e.frameFor(at, x), base}, m) {
				cOff += c
				continue
			}
			if base, ok := d.rowField(x, d.rowSize); ok && e.holds(c03Val{e.frameFor(at, x), base}, m) {
				cLen += c
				continue
			}
			other = append(other, c03LeafName(x))
		}
		if cSize == 0 {
			continue
		}
		if cSize == 1 && cOff == -1 && cLen == -1 && len(other) == 0 && f.k <= 0 {
			return true, ""
		}
		switch {
		case cSize < 0:
			bad = append(bad, fmt.Sprintf("the comparison between the pack file's size and the indexed extent does not imply size >= offset+size (known here: %s >= 0)", f))
		case len(other) > 0 || cSize != 1 || cOff > 0 || cLen > 0 || cOff < -1 || cLen < -1:
			bad = append(bad, fmt.Sprintf("the quantity compared with the pack file's size is not the row's extent offset+size (known here: %s >= 0)", f))
		case cOff == 0 || cLen == 0:
			bad = append(bad, fmt.Sprintf("the extent compared with the pack file's size omits the row's %s (known here: %s >= 0): a duplicate whose body was cut by a crash is acknowledged without being re-appended", map[bool]string{true: "offset", false: "size"}[cOff == 0], f))
		default:
			bad = append(bad, fmt.Sprintf("the comparison admits a pack file %d byte(s) shorter than the indexed extent (known here: %s >= 0)", f.k, f))
		}
	}
	if len(bad) > 0 {
		return false, strings.Join(bad, "; ")
	}
	if len(unfollowed) > 0 {
		return false, "the duplicate-ack return is guarded by a call the rule cannot follow (" + strings.Join(unfollowed, ", ") + "); `fi.Size() >= row.offset+row.size` is not established"
	}
	return false, "the duplicate-ack return is not behind `fi.Size() >= row.offset+row.size`: after a crash that lost the tail of the pack, a re-upload of the lost blob would be acknowledged without re-appending it"
}

// ---------------------------------------------------------------------------
// D-reindex-agreement

// c03ClimbUnit returns the effective body of the smallest "unit" around f0 that
// satisfies complete: f0 itself, or — while it does not — the one function that
// statically calls it (a block of f0's former caller may have been extracted
// into f0). At most 3 steps; when no unit is complete, f0's own body.
func c03ClimbUnit(p *Program, f0 *ssa.Function, complete func(e *c03Eff) bool) *c03Eff {
	u := TopFunc(f0)
	first := c03EffOf(p, u)
	e := first
	for i := 0; i < 3 && !complete(e); i++ {
		if len(p.FuncValueUses(u)) > 0 || c03InvokeCount(p, u) > 0 {
			return first
		}
		var up *ssa.Function
		for _, cs := range p.StaticCallers(u) {
			t := TopFunc(cs.Fn)
			if t == u {
				continue
			}
			if up != nil && up != t {
				return first
			}
			up = t
		}
		if up == nil {
			return first
		}
		u = up
		e = c03EffOf(p, u)
	}
	if !complete(e) {
		return first
	}
	return e
}

// c03HeaderRoles is what a header-reading unit does with the header's bytes.
type c03HeaderRoles struct {
	byteCmp    map[int64]bool
	slices     []int64
	indexBytes []int64
	okSize     bool
	sizeDetail string
	nSize      int
}

func c03HeaderRolesOf(e *c03Eff, bits int) *c03HeaderRoles {
	h := &c03HeaderRoles{byteCmp: map[int64]bool{}, okSize: true}
	for _, fn := range e.funcs(true) {
		for _, b := range fn.Blocks {
			for _, in := range b.Instrs {
				if bo, ok := in.(*ssa.BinOp); ok && (bo.Op == token.EQL || bo.Op == token.NEQ) {
					for _, pair := range [][2]ssa.Value{{bo.X, bo.Y}, {bo.Y, bo.X}} {
						if bt, ok := pair[0].Type().Underlying().(*types.Basic); ok && bt.Kind() == types.Uint8 {
							if c, ok := ConstInt(pair[1]); ok {
								h.byteCmp[c] = true
							}
						}
					}
				}
			}
		}
		for _, c := range CallsIn(fn, false) {
			switch {
			case c.IsStatic("bufio", "Reader", "ReadSlice"):
				if v, ok := ConstInt(c.Args()[1]); ok {
					h.slices = append(h.slices, v)
				}
			case c.IsStatic("bytes", "", "IndexByte"):
				if v, ok := ConstInt(c.Args()[1]); ok {
					h.indexBytes = append(h.indexBytes, v)
				}
			case c.IsStatic("strconv", "", "ParseUint") || c.IsStatic("go4.org/strutil", "", "ParseUintBytes"):
				h.nSize++
				base, ok1 := ConstInt(c.Args()[1])
				bs, ok2 := ConstInt(c.Args()[2])
				if !ok1 || !ok2 || base != 10 || int(bs) != bits {
					h.okSize, h.sizeDetail = false, fmt.Sprintf("parses the size with base %d / %d bits but the writer prints base 10 from a %d-bit unsigned", base, bs, bits)
				}
			case c.IsStatic("strconv", "", "ParseInt") || c.IsStatic("strconv", "", "Atoi"):
				h.nSize++
				h.okSize, h.sizeDetail = false, "parses the size as a signed integer; the writer prints an unsigned one"
			case c.IsStatic("strconv", "", "FormatUint"):
				h.nSize++
				if base, ok := ConstInt(c.Args()[1]); !ok || base != 10 {
					h.okSize, h.sizeDetail = false, "formats the size in a base other than 10"
				}
			}
		}
	}
	return h
}

func c03IsSizeCodecCall(c CallSite) bool {
	return c.IsStatic("strconv", "", "ParseUint") || c.IsStatic("go4.org/strutil", "", "ParseUintBytes") ||
		c.IsStatic("strconv", "", "ParseInt") || c.IsStatic("strconv", "", "Atoi") || c.IsStatic("strconv", "", "FormatUint")
}

func c03RuleDAgreement(p *Program, r *Reporter) {
	const rule = "D-reindex-agreement"
	r.Floor(rule, 18)
	d := c03DPAnchors(p)
	e := d.e
	fk := FuncKey(d.recvFn)
	if d.header.valid() {
		fk = FuncKey(d.header.fr.fn)
	}

	// writer side
	var open, sep, cls int64 = -1, -1, -1
	bits := 0
	nLit := 0
	okW := false
	detail := "the receive path has no fmt.Fprintf(<live handle>, <constant format>, ...) header write"
	if d.header.valid() {
		lits, verbs, ok := c03Format(d.hdrFmt)
		detail = fmt.Sprintf("header format %q is not <1 byte><verb><1 byte><verb><1 byte>", d.hdrFmt)
		if ok && len(verbs) == 2 && len(lits) == 3 && len(lits[0]) == 1 && len(lits[1]) == 1 && len(lits[2]) == 1 && len(d.hdrArgs) == 2 {
			open, sep, cls = int64(lits[0][0]), int64(lits[1][0]), int64(lits[2][0])
			nLit = 3
			a0 := e.origin(c03Val{d.header.fr, d.hdrArgs[0]}, false).v
			a1 := originValue(d.hdrArgs[1])
			detail = "header arguments are not (blob.Ref.String(), <unsigned integer size>) printed with %v/%s and %v/%d"
			if c03CallIs(a0, "perkeep.org/pkg/blob", "Ref", "String") != nil && (verbs[0] == "v" || verbs[0] == "s") && (verbs[1] == "v" || verbs[1] == "d") {
				if b, ok := a1.Type().Underlying().(*types.Basic); ok && b.Info()&types.IsUnsigned != 0 && e.depends(c03Val{d.header.fr, a1}, func(x c03Val) bool { return c03IsSizedRefSize(x.v) }) {
					switch b.Kind() {
					case types.Uint8:
						bits = 8
					case types.Uint16:
						bits = 16
					case types.Uint32:
						bits = 32
					case types.Uint64:
						bits = 64
					}
					okW = bits != 0 && open != sep && sep != cls && open != cls
				}
			}
		}
	}
	hsite := p.Pos(d.recvFn.Pos())
	if d.header.valid() {
		hsite = p.Pos(d.header.in.Pos())
	}
	r.Check(okW, rule, fk+"#header-writer", hsite,
		fmt.Sprintf("header = %q ref %q size(base 10, %d-bit unsigned, = br.Size) %q", string(rune(open)), string(rune(sep)), bits, string(rune(cls))), detail)
	if !okW {
		return
	}

	// reader side: every unit of the package that parses or formats a header size
	complete := func(u *c03Eff) bool {
		h := c03HeaderRolesOf(u, bits)
		okSep := false
		for _, v := range h.indexBytes {
			if v == sep {
				okSep = true
			}
		}
		return h.byteCmp[open] && (len(h.slices) > 0 || h.byteCmp[cls]) && okSep
	}
	var units []*c03Eff
	seenUnit := map[*ssa.Function]bool{}
	for _, fn := range p.FuncsIn(c03PkgDP) {
		for _, c := range CallsIn(fn, false) {
			if !c03IsSizeCodecCall(c) {
				continue
			}
			u := c03ClimbUnit(p, fn, complete)
			if !seenUnit[u.root.fn] {
				seenUnit[u.root.fn] = true
				units = append(units, u)
			}
		}
	}
	for _, u := range units {
		k := FuncKey(u.root.fn)
		site := p.Pos(u.root.fn.Pos())
		h := c03HeaderRolesOf(u, bits)
		r.Check(h.byteCmp[open], rule, k+"#open-delimiter", site,
			fmt.Sprintf("compares a header byte with %q, the writer's opening delimiter", string(rune(open))),
			fmt.Sprintf("no byte comparison with the writer's opening delimiter %q", string(rune(open))))
		okClose := h.byteCmp[cls]
		if len(h.slices) > 0 {
			okClose = true
			for _, s := range h.slices {
				if s != cls {
					okClose = false
				}
			}
		}
		r.Check(okClose, rule, k+"#close-delimiter", site,
			fmt.Sprintf("reads up to / compares with %q, the writer's closing delimiter", string(rune(cls))),
			fmt.Sprintf("does not delimit the header with the writer's closing delimiter %q", string(rune(cls))))
		okSep := false
		for _, v := range h.indexBytes {
			if v == sep {
				okSep = true
			}
		}
		r.Check(okSep, rule, k+"#separator", site,
			fmt.Sprintf("splits ref and size at %q, the writer's separator", string(rune(sep))),
			fmt.Sprintf("does not split the header at the writer's separator %q", string(rune(sep))))
		okSize, sizeDetail := h.okSize, h.sizeDetail
		if h.nSize == 0 {
			okSize, sizeDetail = false, "no size parse/format call found"
		}
		r.Check(okSize, rule, k+"#size-codec", site,
			fmt.Sprintf("size is read as base-10 %d-bit unsigned, as written", bits), sizeDetail)
	}
	if len(units) == 0 {
		r.Violation(rule, c03PkgDP+"#size-codec", p.Pos(d.recvFn.Pos()), "no function of package diskpacked parses a pack header's size")
	}

	// the walk-back length of the in-place header rewrite counts the literal bytes of the format
	var del *c03Eff
	{
		ok := false
		detail := "no header length of the form <consts> + len(ref.String()) + len(FormatUint(size, 10)) found in package diskpacked"
		var at *ssa.Function
		for _, fn := range p.FuncsIn(c03PkgDP) {
			for _, c := range CallsIn(fn, false) {
				if !c.IsStatic("strconv", "", "FormatUint") || c.Value() == nil || c.Value().Referrers() == nil {
					continue
				}
				// len(FormatUint(...)) and the root of the addition tree it is a leaf of
				for _, u := range *c.Value().Referrers() {
					ln, isLen := u.(*ssa.Call)
					if !isLen {
						continue
					}
					if b, isB := ln.Call.Value.(*ssa.Builtin); !isB || b.Name() != "len" {
						continue
					}
					root := ssa.Value(ln)
					for {
						var up ssa.Value
						for _, uu := range *root.Referrers() {
							if bo, ok := uu.(*ssa.BinOp); ok && bo.Op == token.ADD {
								up = bo
							}
						}
						if up == nil {
							break
						}
						root = up
					}
					var consts int64
					nRef, nNum, other := 0, 0, 0
					for _, l := range c03AddLeaves(root) {
						if v, ok := ConstInt(l); ok {
							consts += v
							continue
						}
						if lc, ok := l.(*ssa.Call); ok {
							if b, isB := lc.Call.Value.(*ssa.Builtin); isB && b.Name() == "len" {
								if c03CallIs(lc.Call.Args[0], "perkeep.org/pkg/blob", "Ref", "String") != nil {
									nRef++
									continue
								}
								if c03CallIs(lc.Call.Args[0], "strconv", "", "FormatUint") != nil {
									nNum++
									continue
								}
							}
						}
						other++
					}
					if nRef == 1 && nNum == 1 && other == 0 {
						at = fn
						ok = consts == int64(nLit)
						detail = fmt.Sprintf("the header rewrite walks back %d literal bytes + len(ref) + len(size) but the header format has %d literal bytes", consts, nLit)
					}
				}
			}
		}
		construct, site := c03PkgDP+"#walk-back-length", p.Pos(d.recvFn.Pos())
		if at != nil {
			del = c03ClimbUnit(p, at, complete)
			construct, site = FuncKey(del.root.fn)+"#walk-back-length", p.Pos(del.root.fn.Pos())
		}
		r.Check(ok, rule, construct, site,
			fmt.Sprintf("the header rewrite walks back %d delimiter bytes + len(ref.String()) + len(decimal size): exactly the header the receive path writes", nLit), detail)
	}

	// deleted marker
	c03DeletedMarker(p, r, rule, d, del, sep)

	// index row codec
	c03RowCodec(p, r, rule, d)
}

// c03IndexStart: the first value an index variable takes in its loop: a phi
// with one constant incoming edge, possibly plus a constant (range over a slice
// counts from -1 and adds 1).
func c03IndexStart(idx ssa.Value) (int64, bool) {
	switch x := idx.(type) {
	case *ssa.Phi:
		var start int64
		n := 0
		for _, e := range x.Edges {
			if c, ok := ConstInt(e); ok {
				start = c
				n++
			}
		}
		return start, n == 1
	case *ssa.BinOp:
		if x.Op == token.ADD {
			if k, ok := ConstInt(x.Y); ok {
				if s, ok := c03IndexStart(x.X); ok {
					return s + k, true
				}
			}
			if k, ok := ConstInt(x.X); ok {
				if s, ok := c03IndexStart(x.Y); ok {
					return s + k, true
				}
			}
		}
	case *ssa.Convert:
		return c03IndexStart(x.X)
	}
	return 0, false
}

// c03SliceBase: the slice value v is a window into, and the constant offset of
// that window (ok=false when a non-constant low bound intervenes).
func c03SliceBase(v ssa.Value) (root ssa.Value, off int64, ok bool) {
	ok = true
	for i := 0; i < 16; i++ {
		v = originValue(v)
		sl, isSl := v.(*ssa.Slice)
		if !isSl {
			return v, off, ok
		}
		if _, isSlice := sl.X.Type().Underlying().(*types.Slice); !isSlice {
			return v, off, ok
		}
		if sl.Low != nil {
			if c, isC := ConstInt(sl.Low); isC {
				off += c
			} else {
				ok = false
			}
		}
		v = sl.X
	}
	return v, off, false
}

// c03PackWalkers: the functions of the package that take a walker callback
// (…, offset int64, size uint32) — the pack walk used by reindexing — with the
// callback's parameter and the positions of offset and size in its signature.
type c03Walker struct {
	fn              *ssa.Function
	walker          *ssa.Parameter
	offIdx, sizeIdx int
}

func c03PackWalkers(p *Program) []c03Walker {
	// candidates: a callback parameter of that shape that is called in the function's effective body,
	// which also parses a header's size (so it is the walk, not a helper that only reports an entry)
	var cand []c03Walker
	for _, fn := range p.FuncsIn(c03PkgDP) {
		if fn.Parent() != nil || len(fn.Blocks) == 0 {
			continue
		}
		for _, prm := range fn.Params {
			sig, ok := prm.Type().Underlying().(*types.Signature)
			if !ok {
				continue
			}
			offIdx, sizeIdx, nOff, nSize, hasRef := -1, -1, 0, 0, false
			for i := 0; i < sig.Params().Len(); i++ {
				t := sig.Params().At(i).Type()
				if IsNamed(t, "perkeep.org/pkg/blob", "Ref") {
					hasRef = true
				}
				if b, ok := t.Underlying().(*types.Basic); ok {
					switch b.Kind() {
					case types.Int64:
						offIdx = i
						nOff++
					case types.Uint32:
						sizeIdx = i
						nSize++
					}
				}
			}
			if !hasRef || nOff != 1 || nSize != 1 {
				continue
			}
			e := c03EffOf(p, fn)
			calls, parses := false, false
			for _, s := range e.calls(false) {
				c := s.call()
				if !c.Common().IsInvoke() && e.kid(s) == nil && e.origin(c03Val{s.fr, c.Common().Value}, false).v == ssa.Value(prm) {
					calls = true
				}
				if c.IsStatic("strconv", "", "ParseUint") || c.IsStatic("go4.org/strutil", "", "ParseUintBytes") || c.IsStatic("strconv", "", "ParseInt") || c.IsStatic("strconv", "", "Atoi") {
					parses = true
				}
			}
			if calls && parses {
				cand = append(cand, c03Walker{fn, prm, offIdx, sizeIdx})
			}
		}
	}
	// the innermost ones: a function that merely forwards its callback to another candidate is not the walk
	var out []c03Walker
	for _, w := range cand {
		inner := false
		for _, v := range cand {
			if v.fn != w.fn && len(c03EffOf(p, w.fn).byFn[v.fn]) > 0 {
				inner = true
			}
		}
		if !inner {
			out = append(out, w)
		}
	}
	return out
}

// c03Streamer: StreamBlobs of the packed store (blobserver.BlobStreamer).
func c03Streamer(p *Program, d *c03DPAnch) *ssa.Function {
	si := p.Iface("pkg/blobserver", "BlobStreamer")
	fn, _ := p.MethodOf(d.storeT, si.Method(0).Name())
	if fn == nil || len(fn.Blocks) == 0 {
		brokenf("anchor unresolved: %s of the packed store", si.Method(0).Name())
	}
	return fn
}

func c03DeletedMarker(p *Program, r *Reporter, rule string, d *c03DPAnch, del *c03Eff, sep int64) {
	// the marker regexp, by role: the package-level *regexp.Regexp the pack streamer matches header refs against
	type reGlobal struct {
		g       *ssa.Global
		pat     string
		havePat bool
	}
	globals := map[*ssa.Global]*reGlobal{}
	for _, fn := range p.FuncsIn(c03PkgDP) {
		if fn.Name() != "init" || fn.Parent() != nil {
			continue
		}
		for _, b := range fn.Blocks {
			for _, in := range b.Instrs {
				st, ok := in.(*ssa.Store)
				if !ok {
					continue
				}
				g, ok := st.Addr.(*ssa.Global)
				if !ok || !IsNamed(c03Deref(g.Type()), "regexp", "Regexp") {
					continue
				}
				rg := &reGlobal{g: g}
				if mc := c03CallIs(st.Val, "regexp", "", "MustCompile"); mc != nil {
					rg.pat, rg.havePat = ConstString(mc.Call.Args[0])
				}
				globals[g] = rg
			}
		}
	}
	matched := func(fn *ssa.Function) map[*ssa.Global]bool {
		out := map[*ssa.Global]bool{}
		for _, f := range c03EffOf(p, fn).funcs(true) {
			for _, c := range CallsIn(f, false) {
				if c.IsStatic("regexp", "Regexp", "Match") || c.IsStatic("regexp", "Regexp", "MatchString") {
					if ld, isLd := c.Args()[0].(*ssa.UnOp); isLd && ld.Op == token.MUL {
						if g, ok := ld.X.(*ssa.Global); ok && globals[g] != nil {
							out[g] = true
						}
					}
				}
			}
		}
		return out
	}
	streamer := c03Streamer(p, d)
	walkers := []*ssa.Function{streamer}
	for _, w := range c03PackWalkers(p) {
		walkers = append(walkers, w.fn)
	}
	var marker *reGlobal
	nMarker := 0
	for _, w := range walkers {
		for g := range matched(w) {
			if marker == nil || marker.g != g {
				nMarker++
			}
			marker = globals[g]
		}
	}
	k := c03PkgDP
	site := p.Pos(d.recvFn.Pos())
	if del != nil {
		k, site = FuncKey(del.root.fn), p.Pos(del.root.fn.Pos())
	}
	// what the header rewrite writes
	var hashByte, digestByte, dash int64 = -1, -1, -1
	if del != nil {
		dashes := map[int64]bool{}
		// positions are taken relative to the buffer that is written back over the header
		var wbRoot ssa.Value
		var wbOff int64
		haveWB := false
		for _, fn := range del.funcs(true) {
			for _, c := range CallsIn(fn, false) {
				if c.IsStatic("os", "File", "WriteAt") && !haveWB {
					if root, off, ok := c03SliceBase(c.Args()[1]); ok {
						wbRoot, wbOff, haveWB = root, off, true
					}
				}
			}
		}
		for _, fn := range del.funcs(true) {
			for _, b := range fn.Blocks {
				for _, in := range b.Instrs {
					st, ok := in.(*ssa.Store)
					if !ok {
						continue
					}
					ia, ok := st.Addr.(*ssa.IndexAddr)
					if !ok {
						continue
					}
					v, ok := ConstInt(st.Val)
					if !ok {
						continue
					}
					if _, isConstIdx := ia.Index.(*ssa.Const); isConstIdx {
						continue
					}
					start, known := c03IndexStart(ia.Index)
					if root, off, ok := c03SliceBase(ia.X); known && ok && haveWB && root == wbRoot {
						start += off - wbOff
					} else if haveWB && (!ok || root != wbRoot) {
						known = false
					}
					if known && start == 0 {
						hashByte = v
					} else {
						digestByte = v
					}
				}
			}
			for _, c := range CallsIn(fn, false) {
				if c.IsStatic("bytes", "", "IndexByte") {
					if v, ok := ConstInt(c.Args()[1]); ok && v != sep {
						dashes[v] = true
					}
				}
			}
		}
		if len(dashes) == 1 {
			for v := range dashes {
				dash = v // the IndexByte that is not the header's separator finds the hash-name/digest separator
			}
		}
	}
	switch {
	case marker == nil || nMarker != 1:
		r.Undecided(rule, k+"#deleted-marker", site, fmt.Sprintf("the pack walkers match header refs against %d package-level regexps (want exactly 1): the deleted marker cannot be identified", nMarker))
	case !marker.havePat || hashByte < 0 || digestByte < 0 || dash < 0:
		r.Undecided(rule, k+"#deleted-marker", site, fmt.Sprintf("could not extract the marker: regexp const=%v hash fill=%d digest fill=%d separator=%d", marker.havePat, hashByte, digestByte, dash))
	default:
		pat := marker.pat
		re, err := regexp.Compile(pat)
		bad := ""
		if err != nil {
			bad = "the deleted-marker pattern does not compile: " + err.Error()
		} else {
			for _, hn := range []int{1, 4, 6, 8} {
				for _, dn := range []int{1, 40, 56, 64} {
					s := strings.Repeat(string(rune(hashByte)), hn) + string(rune(dash)) + strings.Repeat(string(rune(digestByte)), dn)
					if !re.MatchString(s) {
						bad = fmt.Sprintf("the deleted-marker regexp %q does not match %q, which is what the header rewrite writes over a header: walkers would report/parse deleted entries as blobs", pat, s)
					}
				}
			}
			for _, live := range []string{"sha1-" + strings.Repeat("0", 40), "sha224-" + strings.Repeat("0", 56), "sha224-" + strings.Repeat("a", 56), "sha1-" + strings.Repeat("f", 40)} {
				if re.MatchString(live) {
					bad = fmt.Sprintf("the deleted-marker regexp %q matches the live blobref %q: walkers would skip a present blob", pat, live)
				}
			}
		}
		r.Check(bad == "", rule, k+"#deleted-marker", site,
			fmt.Sprintf("the header rewrite overwrites the ref with %q*%q%q*; the marker regexp %q matches that for all sampled lengths and no live ref", string(rune(hashByte)), string(rune(dash)), string(rune(digestByte)), pat), bad)
	}
	// every pack walker consults the marker
	for _, w := range walkers {
		ok := marker != nil && matched(w)[marker.g]
		r.Check(ok, rule, FuncKey(w)+"#honours-deleted-marker", p.Pos(w.Pos()),
			"the pack walker tests each header's ref against the deleted-marker regexp",
			"the pack walker no longer tests headers against the deleted-marker regexp: after any removal the pack can no longer be walked (reindex/stream fail on the marker)")
	}
	if len(walkers) < 2 {
		r.Violation(rule, c03PkgDP+"#honours-deleted-marker", p.Pos(d.recvFn.Pos()), "no pack walk with a (…, offset int64, size uint32) callback found in package diskpacked")
	}
}

func c03RowCodec(p *Program, r *Reporter, rule string, d *c03DPAnch) {
	str := p.LookupFunc(RelPkg(d.rowT.Obj().Pkg()), d.rowT.Obj().Name(), "String") // the declared method, not a pointer-receiver wrapper
	if str == nil || len(str.Blocks) == 0 {
		brokenf("anchor unresolved: String method of the index row type")
	}
	// the parser: the function that scans into the fields of a row
	var parse *ssa.Function
	var read []string
	var nConst int64 = -1
	for _, fn := range p.FuncsIn(c03PkgDP) {
		for _, c := range CallsIn(fn, false) {
			if !c.IsStatic("fmt", "", "Sscan") || c.Value() == nil {
				continue
			}
			var fields []string
			isRow := false
			for _, e := range c03VarargElems(c.Args()[1]) {
				if fa, ok := originValue(e).(*ssa.FieldAddr); ok {
					fields = append(fields, fieldName(fa.X.Type(), fa.Field))
					if NamedOf(c03Deref(fa.X.Type())) == d.rowT {
						isRow = true
					}
				} else {
					fields = append(fields, "?")
				}
			}
			if !isRow {
				continue
			}
			parse, read = fn, fields
			// the count compared with Sscan's n
			if n := ResultValue(c.Value(), 0); n != nil && n.Referrers() != nil {
				for _, u := range *n.Referrers() {
					if bo, ok := u.(*ssa.BinOp); ok && bo.Op == token.EQL {
						if v, ok := ConstInt(bo.Y); ok {
							nConst = v
						}
					}
				}
			}
		}
	}
	// field order written
	var wrote []string
	wfmt := ""
	if rets := Returns(str); len(rets) == 1 {
		if sp := c03CallIs(rets[0].Results[0], "fmt", "", "Sprintf"); sp != nil {
			wfmt, _ = ConstString(sp.Call.Args[0])
			for _, e := range c03VarargElems(sp.Call.Args[1]) {
				if name, _, ok := c03FieldRead(originValue(e)); ok {
					wrote = append(wrote, name)
				} else {
					wrote = append(wrote, "?")
				}
			}
		}
	}
	lits, verbs, okf := c03Format(wfmt)
	okc := parse != nil && okf && len(verbs) == len(wrote) && len(wrote) > 0 && strings.Join(wrote, ",") == strings.Join(read, ",") && nConst == int64(len(read)) && !strings.Contains(strings.Join(wrote, ","), "?")
	if okc {
		for i, l := range lits {
			if i > 0 && i < len(lits)-1 && strings.TrimSpace(l) != "" || (i == 0 || i == len(lits)-1) && l != "" {
				okc = false // Sscan splits on white space only
			}
			if i > 0 && i < len(lits)-1 && l == "" {
				okc = false
			}
		}
	}
	pk, psite := FuncKey(str), p.Pos(str.Pos())
	if parse != nil {
		pk, psite = FuncKey(parse), p.Pos(parse.Pos())
	}
	r.Check(okc, rule, pk+"#row-fields", psite,
		fmt.Sprintf("the row's String writes %v space-separated (%q); the row parser scans the same fields in the same order and requires n == %d", wrote, wfmt, nConst),
		fmt.Sprintf("index row codec disagrees: String writes %v with format %q, the row parser scans %v and requires n == %d", wrote, wfmt, read, nConst))

	// every row writer of the package uses the codec: the receive path's and the reindexer's
	batch := p.Iface("pkg/sorted", "BatchMutation")
	isKey := func(o ssa.Value) bool {
		c, ok := o.(*ssa.Call)
		return ok && funcIs(c.Call.StaticCallee(), "perkeep.org/pkg/blob", "Ref", "String")
	}
	isVal := func(o ssa.Value) bool {
		c, ok := o.(*ssa.Call)
		return ok && c.Call.StaticCallee() == str
	}
	inRecv, outside := 0, 0
	for _, fn := range p.FuncsIn(c03PkgDP) {
		for _, c := range CallsIn(fn, false) {
			if !c.Common().IsInvoke() || c.MethodName() != "Set" || !(c.IsMethod("Set", batch) || c.IsMethod("Set", d.kv)) {
				continue
			}
			args := c.Args() // recv, key, value
			okKey := c03ForAllCallers(p, args[1], 0, isKey)
			okVal := c03ForAllCallers(p, args[2], 0, isVal)
			if d.e.has(fn) {
				inRecv++
			} else {
				outside++
			}
			r.Check(okKey && okVal, rule, FuncKey(TopFunc(fn))+"#row-writer", p.Pos(c.Pos()),
				"index row = (blob.Ref.String(), <row>.String())",
				"an index row is written with a key/value not produced by blob.Ref.String()/<row>.String(): the live index and a reindexed one would differ, or the row parser cannot read it")
		}
	}
	if inRecv == 0 {
		r.Violation(rule, FuncKey(d.recvFn)+"#row-writer", p.Pos(d.recvFn.Pos()), "no index row writer found in the receive path")
	}
	if outside == 0 {
		r.Violation(rule, c03PkgDP+"#row-writer", p.Pos(d.recvFn.Pos()), "no index row writer found outside the receive path (the reindexer must write rows)")
	}
}

// ---------------------------------------------------------------------------
// D-dele-order

// c03LocalPackOpens: the os.OpenFile calls of the package that open a file
// writable into a handle that stays local (it does not become the live handle).
func c03LocalPackOpens(p *Program, d *c03DPAnch) []CallSite {
	var out []CallSite
	for _, fn := range p.FuncsIn(c03PkgDP) {
		for _, c := range CallsIn(fn, false) {
			v := c.Value()
			if v == nil || !c.IsStatic("os", "", "OpenFile") {
				continue
			}
			h := ResultValue(v, 0)
			if h == nil {
				continue
			}
			if cl, _, _ := c03HandleClass(d, h); cl != 'L' {
				continue
			}
			toWriter := false
			if h.Referrers() != nil {
				for _, u := range *h.Referrers() {
					if st, ok := u.(*ssa.Store); ok && st.Val == h {
						if fa, ok := st.Addr.(*ssa.FieldAddr); ok && fieldName(fa.X.Type(), fa.Field) == d.writerF {
							toWriter = true
						}
					}
				}
			}
			if !toWriter {
				out = append(out, c)
			}
		}
	}
	return out
}

// mayFollow: b can execute after a (at the frame where their call chains part,
// b's side is reachable from a's side).
func (e *c03Eff) mayFollow(a, b c03Site) bool {
	ca, cb := a.chain(), b.chain()
	i := 0
	for i < len(ca)-1 && i < len(cb)-1 && ca[i].in == cb[i].in {
		i++
	}
	if ca[i].fr != cb[i].fr {
		return true
	}
	if ca[i].in == cb[i].in {
		return true
	}
	return ReachableFrom(ca[i].in, nil)[cb[i].in]
}

func c03RuleDDeleOrder(p *Program, r *Reporter) {
	const rule = "D-dele-order"
	r.Floor(rule, 3)
	d := c03DPAnchors(p)
	opens := c03LocalPackOpens(p, d)
	delFns := map[*ssa.Function]bool{}
	for _, o := range opens {
		delFns[o.Fn] = true
	}
	// destroy sites on a handle, in the effective body e
	type sites struct{ hdr, destroy []c03Site }
	collect := func(e *c03Eff, fh c03Val) sites {
		var out sites
		isFh := func(fr *c03Frame, v ssa.Value) bool { return e.same(c03Val{fr, v}, fh) }
		for _, s := range e.calls(false) {
			v := s.value()
			if v == nil || e.kid(s) != nil {
				continue
			}
			c := s.call()
			if c.IsStatic("os", "File", "WriteAt") {
				if isFh(s.fr, c.Args()[0]) {
					out.hdr = append(out.hdr, s)
				}
				continue
			}
			if c.IsStatic("os", "File", "Write") || c.IsStatic("os", "File", "WriteString") || c.IsStatic("os", "File", "Truncate") || c.IsStatic("os", "File", "ReadFrom") {
				if isFh(s.fr, c.Args()[0]) {
					out.destroy = append(out.destroy, s)
				}
				continue
			}
			if c.Callee() != nil && funcIs(c.Callee(), "os", "File", c.Callee().Name()) {
				continue // ReadAt, Seek, Close, Name ...
			}
			for _, arg := range v.Call.Args {
				if !isFh(s.fr, arg) {
					continue
				}
				// the handle handed to something that writes: an io.Writer argument, or the punchHole hook
				// (or to a function of this module that is not followed)
				_, asWriter := arg.(*ssa.MakeInterface)
				asWriter = asWriter || c03IsWriterType(arg.Type())
				dyn := c.Callee() == nil && !v.Call.IsInvoke()
				helper := c.Callee() != nil && InModule(c.Callee()) && c03IsOSFile(arg.Type())
				if asWriter || dyn || helper {
					out.destroy = append(out.destroy, s)
				}
				break
			}
		}
		return out
	}
	if len(opens) == 0 {
		r.Undecided(rule, c03PkgDP+"#header-before-body", p.Pos(d.recvFn.Pos()), "no function of package diskpacked opens a pack writable into a local handle (the removal's in-place rewrite could not be located)")
	}
	seenOpen := map[c03Site]bool{}
	for _, o := range opens {
		var fhOf func(e *c03Eff) []c03Val
		fhOf = func(e *c03Eff) []c03Val {
			var out []c03Val
			for _, s := range e.sitesOf(o.Instr) {
				out = append(out, c03Val{s.fr, ResultValue(o.Value(), 0)})
			}
			return out
		}
		e := c03ClimbUnit(p, o.Fn, func(e *c03Eff) bool {
			for _, fh := range fhOf(e) {
				if st := collect(e, fh); len(st.destroy) > 0 {
					return true
				}
			}
			return false
		})
		k := FuncKey(e.root.fn)
		fhs := fhOf(e)
		if len(fhs) == 0 {
			fhs = []c03Val{{e.root, ResultValue(o.Value(), 0)}}
		}
		for _, fh := range fhs {
			osite := c03Site{fh.fr, o.Instr}
			if seenOpen[osite] {
				continue
			}
			seenOpen[osite] = true
			st := collect(e, fh)
			if len(st.destroy) == 0 {
				r.Violation(rule, k+"#header-before-body", p.Pos(o.Pos()), "a pack is opened writable but no body-destroying call (punch hole / zero fill) on the handle was found")
			}
			for _, dcall := range st.destroy {
				ok := false
				why := "no WriteAt on the pack file handle"
				for _, h := range st.hdr {
					o2, w := e.succDom(h, dcall)
					if o2 {
						ok = true
					} else {
						why = w
					}
				}
				r.Check(ok, rule, FuncKey(dcall.fr.fn)+"#header-before-body#"+dcall.call().CalleeKey(), p.Pos(dcall.in.Pos()),
					"the body is destroyed only on the err==nil edge of the header rewrite (WriteAt of the deleted marker)",
					"the body is destroyed without the header having been rewritten to the deleted marker first ("+why+"): a crash in between leaves a live header over a zeroed/punched body, which a pack walk or reindex presents as a blob")
			}
		}
	}

	// RemoveBlobs: join before the index commit
	ri := p.Iface("pkg/blobserver", "BlobRemover")
	rm, _ := p.MethodOf(d.storeT, ri.Method(0).Name())
	if rm == nil || len(rm.Blocks) == 0 {
		brokenf("anchor unresolved: %s of the packed store", ri.Method(0).Name())
	}
	e := c03EffOf(p, rm)
	reachesDel := func(fn *ssa.Function) bool {
		for _, f := range c03EffOf(p, fn).funcs(true) {
			if delFns[f] {
				return true
			}
		}
		return false
	}
	var commit c03Site
	var joins, deletes []c03Site
	spawns := 0
	for _, s := range e.calls(false) {
		c := s.call()
		if c.Common().IsInvoke() && c.IsMethod("CommitBatch", d.kv) {
			commit = s
		}
		if isJoin(c) {
			joins = append(joins, s)
		}
		for _, cl := range spawnedClosures(c) {
			if reachesDel(cl) {
				spawns++
			}
		}
		if isSpawner(c) {
			continue
		}
		if c.IsStatic("os", "", "OpenFile") && delFns[s.fr.fn] {
			deletes = append(deletes, s)
		}
	}
	rk := FuncKey(rm)
	switch {
	case !commit.valid():
		r.Violation(rule, rk+"#join-before-commit", p.Pos(rm.Pos()), "RemoveBlobs no longer commits the index deletions with CommitBatch")
	case spawns == 0:
		// synchronous deletes: none may run after the commit
		ok := true
		for _, dl := range deletes {
			if e.mayFollow(commit, dl) {
				ok = false
			}
		}
		r.Check(ok && len(deletes) > 0, rule, rk+"#join-before-commit", p.Pos(commit.in.Pos()),
			"deletes run synchronously and none is reachable after the index commit",
			"a delete can run after the index rows were committed away (delete looks the row up first and would silently skip the blob)")
	default:
		ok := false
		for _, j := range joins {
			if e.precedes(j, commit) {
				ok = true
			}
		}
		r.Check(ok, rule, rk+"#join-before-commit", p.Pos(commit.in.Pos()),
			"the delete workers are joined (Group.Err/Wait) before the index deletions are committed",
			"the index deletions are committed before the delete workers are joined: a worker that has not yet looked up its row finds it gone, skips the blob (ErrNotExist is ignored) and the blob stays in the pack, to be resurrected by the next reindex")
	}
}

// ---------------------------------------------------------------------------
// Linear forms over integer SSA values (H7, value dependence up to + and -)
//
// An integer expression is flattened through +, -, unary minus, multiplication
// by a constant, integer conversions and loads of local variables with a
// single reaching store into sum(coef*leaf) + k. Two comparisons that are
// rearrangements of each other (`a+b > f`, `a > f-b`, `e := a+b; !(e <= f)`)
// have the same form, so a rule stated on forms does not depend on how the
// arithmetic is spelled. Overflow and the truncation of narrowing conversions
// are ignored (stated in the Explanation).

type c03Lin struct {
	leaf []ssa.Value
	coef []int64
	k    int64
}

func (l *c03Lin) add(v ssa.Value, c int64) {
	if c == 0 {
		return
	}
	for i, x := range l.leaf {
		if c03SameLeaf(x, v) {
			l.coef[i] += c
			return
		}
	}
	l.leaf = append(l.leaf, v)
	l.coef = append(l.coef, c)
}

func (l *c03Lin) addLin(o *c03Lin, f int64) {
	for i, x := range o.leaf {
		l.add(x, f*o.coef[i])
	}
	l.k += f * o.k
}

// isZero: every coefficient and the constant are zero.
func (l *c03Lin) isZero() bool {
	for _, c := range l.coef {
		if c != 0 {
			return false
		}
	}
	return l.k == 0
}

// unrelatedReads names a local variable of which the form contains two loads
// that could not be shown to see the same value ("" if none): the residue of a
// difference then says nothing about the arithmetic.
func (l *c03Lin) unrelatedReads() string {
	for i, x := range l.leaf {
		lx, ok := x.(*ssa.UnOp)
		if !ok || lx.Op != token.MUL || l.coef[i] == 0 {
			continue
		}
		for j := i + 1; j < len(l.leaf); j++ {
			ly, ok := l.leaf[j].(*ssa.UnOp)
			if ok && ly.Op == token.MUL && l.coef[j] != 0 && ly.X == lx.X {
				return c03LeafName(x)
			}
		}
	}
	return ""
}

// onlyConst: no leaf is left, whatever the constant.
func (l *c03Lin) onlyConst() bool {
	for _, c := range l.coef {
		if c != 0 {
			return false
		}
	}
	return true
}

func (l *c03Lin) String() string {
	var sb strings.Builder
	for i, x := range l.leaf {
		c := l.coef[i]
		switch {
		case c == 0:
			continue
		case c == 1:
			sb.WriteString(" + ")
		case c == -1:
			sb.WriteString(" - ")
		case c > 0:
			fmt.Fprintf(&sb, " + %d*", c)
		default:
			fmt.Fprintf(&sb, " - %d*", -c)
		}
		sb.WriteString(c03LeafName(x))
	}
	if l.k != 0 || sb.Len() == 0 {
		if l.k < 0 {
			fmt.Fprintf(&sb, " - %d", -l.k)
		} else {
			fmt.Fprintf(&sb, " + %d", l.k)
		}
	}
	return strings.TrimPrefix(strings.TrimPrefix(sb.String(), " + "), " ")
}

func c03IsInt(t types.Type) bool {
	b, ok := t.Underlying().(*types.Basic)
	return ok && b.Info()&types.IsInteger != 0
}

// c03LocalVar: addr is a plain local variable of its function (address never
// taken other than by loads, stores and captures) all of whose stores are
// direct stores in the declaring function itself.
func c03LocalVar(addr ssa.Value) (*ssa.Alloc, []*ssa.Store, bool) {
	al, ok := addr.(*ssa.Alloc)
	if !ok || !plainVariable(al) {
		return nil, nil, false
	}
	stores := storesTo(al)
	for _, st := range stores {
		if st.Parent() != al.Parent() || st.Addr != ssa.Value(al) {
			return nil, nil, false
		}
	}
	return al, stores, true
}

// c03ReachingStore returns the store whose value the load observes on every
// execution, or nil when more than one definition (counting the zero value of
// the fresh variable) may reach the load. A sole reaching definition is on
// every path from the entry to the load, i.e. it dominates the load, hence its
// stored SSA value still denotes at the load what it denoted at the store.
func c03ReachingStore(load *ssa.UnOp) *ssa.Store {
	al, _, ok := c03LocalVar(load.X)
	if !ok || load.Parent() != al.Parent() {
		return nil
	}
	zero := false
	// lastDef scans b.Instrs[:n] backwards for a definition of the variable.
	lastDef := func(b *ssa.BasicBlock, n int) (st *ssa.Store, found bool) {
		for i := n - 1; i >= 0; i-- {
			switch x := b.Instrs[i].(type) {
			case *ssa.Store:
				if x.Addr == ssa.Value(al) {
					return x, true
				}
			case *ssa.Alloc:
				if x == al {
					zero = true
					return nil, true
				}
			}
		}
		return nil, false
	}
	if st, found := lastDef(load.Block(), instrIndex(load)); found {
		if zero {
			return nil
		}
		return st
	}
	defs := map[*ssa.Store]bool{}
	seen := map[*ssa.BasicBlock]bool{}
	var walk func(b *ssa.BasicBlock)
	walk = func(b *ssa.BasicBlock) {
		if len(b.Preds) == 0 {
			zero = true
			return
		}
		for _, p := range b.Preds {
			if seen[p] {
				continue
			}
			seen[p] = true
			if st, found := lastDef(p, len(p.Instrs)); found {
				if st != nil {
					defs[st] = true
				}
				continue
			}
			walk(p)
		}
	}
	walk(load.Block())
	if zero || len(defs) != 1 {
		return nil
	}
	for st := range defs {
		return st
	}
	return nil
}

// c03StoreBetween: some store of the variable may execute after `first` and
// before the next execution of `second` without `first` executing again.
func c03StoreBetween(first, second ssa.Instruction, stores []*ssa.Store) bool {
	isFirst := func(in ssa.Instruction) bool { return in == first }
	r1 := ReachableFrom(first, isFirst)
	for _, st := range stores {
		if !r1[st] {
			continue
		}
		if ReachableFrom(st, isFirst)[second] {
			return true
		}
	}
	return false
}

func c03BuiltinLen(v ssa.Value) (arg ssa.Value, ok bool) {
	c, isCall := v.(*ssa.Call)
	if !isCall || len(c.Call.Args) != 1 {
		return nil, false
	}
	b, isB := c.Call.Value.(*ssa.Builtin)
	if !isB || b.Name() != "len" {
		return nil, false
	}
	switch t := c.Call.Args[0].Type().Underlying().(type) {
	case *types.Slice:
		return c.Call.Args[0], true
	case *types.Basic:
		if t.Info()&types.IsString != 0 {
			return c.Call.Args[0], true
		}
	}
	return nil, false
}

// c03SameLeaf: the two SSA values denote the same number wherever both are
// live: the same value; two loads of one local variable with no store between
// them; len of the same slice/string value; the same field of the same struct
// value.
func c03SameLeaf(a, b ssa.Value) bool {
	if a == b {
		return true
	}
	la, ok1 := a.(*ssa.UnOp)
	lb, ok2 := b.(*ssa.UnOp)
	if ok1 && ok2 && la.Op == token.MUL && lb.Op == token.MUL && la.X == lb.X && la.Parent() == lb.Parent() {
		al, stores, ok := c03LocalVar(la.X)
		if !ok || al.Parent() != la.Parent() {
			return false
		}
		first, second := la, lb
		if !Precedes(first, second) {
			first, second = lb, la
			if !Precedes(first, second) {
				return false
			}
		}
		return !c03StoreBetween(first, second, stores)
	}
	if x, ok := c03BuiltinLen(a); ok {
		if y, ok := c03BuiltinLen(b); ok {
			return x == y
		}
		return false
	}
	fa, ok1 := a.(*ssa.Field)
	fb, ok2 := b.(*ssa.Field)
	if ok1 && ok2 {
		return fa.Field == fb.Field && fa.X == fb.X
	}
	return false
}

func c03LeafName(v ssa.Value) string {
	switch x := v.(type) {
	case *ssa.UnOp:
		if x.Op == token.MUL {
			if al, ok := x.X.(*ssa.Alloc); ok && al.Comment != "" {
				return al.Comment
			}
			if name, _, ok := c03FieldRead(v); ok {
				return "." + name
			}
		}
	case *ssa.Field:
		return "." + fieldName(x.X.Type(), x.Field)
	case *ssa.Parameter:
		return x.Name()
	case *ssa.Call:
		if a, ok := c03BuiltinLen(v); ok {
			return "len(" + c03LeafName(a) + ")"
		}
		if x.Call.IsInvoke() {
			return types.TypeString(x.Call.Value.Type(), func(*types.Package) string { return "" }) + "." + x.Call.Method.Name() + "()"
		}
		if f := x.Call.StaticCallee(); f != nil {
			return f.Name() + "(…)"
		}
	case *ssa.Extract:
		if c, ok := x.Tuple.(*ssa.Call); ok {
			if c.Call.IsInvoke() {
				return fmt.Sprintf("result %d of %s()", x.Index, c.Call.Method.Name())
			}
			if f := c.Call.StaticCallee(); f != nil {
				return fmt.Sprintf("result %d of %s(…)", x.Index, f.Name())
			}
		}
	case *ssa.Convert:
		return c03LeafName(x.X)
	}
	return v.Name()
}

// c03Env maps the parameters of a helper whose body is being followed to the
// arguments of the call; up is the environment the arguments live in.
type c03Env struct {
	m  map[*ssa.Parameter]ssa.Value
	up *c03Env
}

// c03CallEnv binds the parameters of a static callee to the call's arguments.
func c03CallEnv(c *ssa.Call, up *c03Env) (*ssa.Function, *c03Env) {
	callee := c.Call.StaticCallee()
	if callee == nil || len(callee.Blocks) == 0 || len(callee.Params) != len(c.Call.Args) || callee.Pkg == nil || !strings.HasPrefix(callee.Pkg.Pkg.Path(), "perkeep.org/") {
		return nil, nil
	}
	env := &c03Env{m: map[*ssa.Parameter]ssa.Value{}, up: up}
	for i, prm := range callee.Params {
		env.m[prm] = c.Call.Args[i]
	}
	return callee, env
}

// c03Foreign: the form mentions a value that lives in another function than
// home (a followed helper reads something other than its parameters).
func (l *c03Lin) foreign(home *ssa.Function) bool {
	for i, x := range l.leaf {
		if l.coef[i] != 0 && x.Parent() != nil && x.Parent() != home {
			return true
		}
	}
	return false
}

// c03LinInto adds f*v to l.
func c03LinInto(l *c03Lin, v ssa.Value, f int64, env *c03Env, d int) {
	if d < 48 && c03IsInt(v.Type()) {
		switch x := v.(type) {
		case *ssa.Const:
			if x.Value != nil && x.Value.Kind() == constant.Int {
				if n, ok := constant.Int64Val(x.Value); ok {
					l.k += f * n
					return
				}
			}
		case *ssa.BinOp:
			switch x.Op {
			case token.ADD:
				c03LinInto(l, x.X, f, env, d+1)
				c03LinInto(l, x.Y, f, env, d+1)
				return
			case token.SUB:
				c03LinInto(l, x.X, f, env, d+1)
				c03LinInto(l, x.Y, -f, env, d+1)
				return
			case token.MUL:
				if c, ok := x.X.(*ssa.Const); ok && c.Value != nil && c.Value.Kind() == constant.Int {
					if n, ok := constant.Int64Val(c.Value); ok {
						c03LinInto(l, x.Y, f*n, env, d+1)
						return
					}
				}
				if c, ok := x.Y.(*ssa.Const); ok && c.Value != nil && c.Value.Kind() == constant.Int {
					if n, ok := constant.Int64Val(c.Value); ok {
						c03LinInto(l, x.X, f*n, env, d+1)
						return
					}
				}
			}
		case *ssa.Convert:
			if c03IsInt(x.X.Type()) {
				c03LinInto(l, x.X, f, env, d+1)
				return
			}
		case *ssa.ChangeType:
			c03LinInto(l, x.X, f, env, d+1)
			return
		case *ssa.UnOp:
			switch x.Op {
			case token.SUB:
				c03LinInto(l, x.X, -f, env, d+1)
				return
			case token.MUL:
				if st := c03ReachingStore(x); st != nil {
					c03LinInto(l, st.Val, f, env, d+1)
					return
				}
			}
		case *ssa.Parameter:
			if env != nil {
				if a, ok := env.m[x]; ok {
					c03LinInto(l, a, f, env.up, d+1)
					return
				}
			}
		case *ssa.Call:
			// len of a slice made with a known length
			if a, ok := c03BuiltinLen(x); ok {
				if mk, ok := originValue(a).(*ssa.MakeSlice); ok {
					c03LinInto(l, mk.Len, f, env, d+1)
					return
				}
			}
			// a helper that returns one linear expression of its parameters
			if callee, cenv := c03CallEnv(x, env); callee != nil {
				if rets := Returns(callee); len(rets) == 1 && len(rets[0].Results) == 1 {
					t := &c03Lin{}
					c03LinInto(t, rets[0].Results[0], 1, cenv, d+1)
					inner := false
					for i, y := range t.leaf {
						if t.coef[i] != 0 && y.Parent() == callee {
							inner = true
						}
					}
					if !inner {
						l.addLin(t, f)
						return
					}
				}
			}
		}
	}
	l.add(v, f)
}

// c03OrderFact turns "the comparison X op Y has truth value val" over integers
// into a form F with the meaning F >= 0.
func c03OrderFact(b *ssa.BinOp, val bool, env *c03Env) (*c03Lin, bool) {
	if !c03IsInt(b.X.Type()) || !c03IsInt(b.Y.Type()) {
		return nil, false
	}
	op := b.Op
	if !val {
		switch op {
		case token.GTR:
			op = token.LEQ
		case token.GEQ:
			op = token.LSS
		case token.LSS:
			op = token.GEQ
		case token.LEQ:
			op = token.GTR
		}
	}
	l := &c03Lin{}
	switch op {
	case token.GTR: // X - Y - 1 >= 0
		c03LinInto(l, b.X, 1, env, 0)
		c03LinInto(l, b.Y, -1, env, 0)
		l.k--
	case token.GEQ: // X - Y >= 0
		c03LinInto(l, b.X, 1, env, 0)
		c03LinInto(l, b.Y, -1, env, 0)
	case token.LSS: // Y - X - 1 >= 0
		c03LinInto(l, b.Y, 1, env, 0)
		c03LinInto(l, b.X, -1, env, 0)
		l.k--
	case token.LEQ: // Y - X >= 0
		c03LinInto(l, b.Y, 1, env, 0)
		c03LinInto(l, b.X, -1, env, 0)
	default:
		return nil, false
	}
	return l, true
}

// ---------------------------------------------------------------------------
// D-walk-extent

// c03IsParsedSize: v is the size field parsed from a pack header (first result
// of ParseUint/ParseUintBytes). Header readers that are helpers of the walker
// are part of its effective body, so their size result is followed to this.
func c03IsParsedSize(v ssa.Value) bool {
	ex, ok := v.(*ssa.Extract)
	if !ok || ex.Index != 0 {
		return false
	}
	c, ok := ex.Tuple.(*ssa.Call)
	if !ok {
		return false
	}
	f := c.Call.StaticCallee()
	return funcIs(f, "strconv", "", "ParseUint") || funcIs(f, "go4.org/strutil", "", "ParseUintBytes")
}

// c03IsFileSize: v is the length of a file: FileInfo.Size(), or the position
// returned by Seek(_, io.SeekEnd) (the call or its first result).
func c03IsFileSize(v ssa.Value) bool {
	if ex, ok := v.(*ssa.Extract); ok && ex.Index == 0 {
		v = ex.Tuple
	}
	c, ok := v.(*ssa.Call)
	if !ok {
		return false
	}
	if c.Call.IsInvoke() {
		return c.Call.Method.Name() == "Size" && IsNamed(types.Unalias(c.Call.Value.Type()), "io/fs", "FileInfo") // os.FileInfo is an alias
	}
	f := c.Call.StaticCallee()
	if funcIs(f, "os", "File", "Seek") && len(c.Call.Args) == 3 {
		w, ok := ConstInt(c.Call.Args[2])
		return ok && w == 2 // io.SeekEnd
	}
	return false
}

func c03IsExactRead(c CallSite) bool {
	return c.IsStatic("io", "", "ReadFull") || c.IsStatic("io", "", "ReadAtLeast") || c.IsStatic("io", "", "CopyN") || c.IsStatic("bufio", "Reader", "Discard") || c.IsStatic("os", "File", "ReadAt")
}

// c03ReadLength returns the number of bytes a successful call of one of the
// exact-length read primitives has consumed, as an SSA value; nil when the
// buffer's length cannot be named.
func c03ReadLength(c CallSite) ssa.Value {
	bufLen := func(buf ssa.Value) ssa.Value {
		switch x := originValue(buf).(type) {
		case *ssa.MakeSlice:
			return x.Len
		case *ssa.Slice:
			if x.High != nil && (x.Low == nil || c03ConstIs(x.Low, 0)) {
				return x.High
			}
		}
		return nil
	}
	a := c.Common().Args
	switch {
	case c.IsStatic("io", "", "ReadFull") && len(a) == 2:
		return bufLen(a[1])
	case c.IsStatic("io", "", "ReadAtLeast") && len(a) == 3:
		return a[2]
	case c.IsStatic("io", "", "CopyN") && len(a) == 3:
		return a[2]
	case c.IsStatic("bufio", "Reader", "Discard") && len(a) == 2:
		return a[1]
	case c.IsStatic("os", "File", "ReadAt") && len(a) == 3:
		return bufLen(a[1])
	}
	return nil
}

// c03Extent is what is known about the completeness of the entry whose header
// was just parsed, at one reporting site.
type c03Extent struct {
	e          *c03Eff
	at         c03Site
	reads      []c03Site // exact-length reads of the declared size whose success dominates the site
	compared   bool      // a dominating comparison relates the declared size to the size of the file
	forms      []*c03Lin // the dominating ordering comparisons that mention a file size, as F >= 0
	unfollowed []string
}

func (x *c03Extent) known() (bool, string) {
	if len(x.reads) > 0 {
		return true, "behind a successful " + x.reads[0].call().CalleeKey() + " of the header's declared size"
	}
	if x.compared {
		return true, "behind a comparison of the entry's extent with the pack file's size"
	}
	return false, ""
}

// lin is the linear form of a value of frame fr, over the callers' values.
func (x *c03Extent) lin(fr *c03Frame, v ssa.Value) *c03Lin {
	l := &c03Lin{}
	c03LinInto(l, v, 1, x.e.envOf(fr), 0)
	return l
}

// c03ExtentAt collects the reads and comparisons that establish, at site at of
// effective body e, that the entry whose header was just parsed is complete.
func c03ExtentAt(e *c03Eff, at c03Site) *c03Extent {
	x := &c03Extent{e: e, at: at}
	parsed := func(v c03Val) bool { return c03IsParsedSize(v.v) }
	fileSize := func(v c03Val) bool { _, isCall := v.v.(*ssa.Call); return isCall && c03IsFileSize(v.v) }
	for _, s := range e.calls(false) {
		v := s.value()
		if v == nil || !c03IsExactRead(s.call()) {
			continue
		}
		dep := false
		for _, a := range v.Call.Args {
			if e.depends(c03Val{s.fr, a}, parsed) {
				dep = true
			}
		}
		if !dep {
			continue
		}
		if ok, _ := e.succDom(s, at); ok {
			x.reads = append(x.reads, s)
		}
	}
	for _, f := range e.factsAt(at) {
		b, ok := f.cond.(*ssa.BinOp)
		if !ok {
			if c, isCall := f.cond.(*ssa.Call); isCall {
				fs, ps := false, false
				for _, a := range c.Call.Args {
					fs = fs || e.depends(c03Val{f.fr, a}, fileSize)
					ps = ps || e.depends(c03Val{f.fr, a}, parsed)
				}
				if fs && ps {
					x.compared = true
				}
			}
			continue
		}
		switch b.Op {
		case token.LSS, token.LEQ, token.GTR, token.GEQ:
		default:
			continue
		}
		bx, by := c03Val{f.fr, b.X}, c03Val{f.fr, b.Y}
		if e.depends(bx, fileSize) && e.depends(by, parsed) || e.depends(by, fileSize) && e.depends(bx, parsed) {
			x.compared = true
		}
	}
	forms, unfollowed := e.orderFacts(at, false)
	for _, l := range forms {
		for i, y := range l.leaf {
			if l.coef[i] != 0 && c03IsFileSize(y) {
				x.forms = append(x.forms, l)
				break
			}
		}
	}
	x.unfollowed = unfollowed
	return x
}

// c03ExtentValue decides the value clause of D-walk-extent at one reporting
// site: what was read, or what was compared with the file size, is exactly the
// end of the body that is reported (offset+size, values of the reporting
// site's frame; offset nil for a sequential reader, where only the length read
// matters).
//
//	status 0 = holds, 1 = violated, 2 = undecided
func c03ExtentValue(x *c03Extent, offset, size ssa.Value) (status int, detail string) {
	sizeForm := x.lin(x.at.fr, size)
	var bad []string
	undecided := ""
	for _, rd := range x.reads {
		n := c03ReadLength(rd.call())
		if n == nil {
			undecided = "the length of the buffer handed to " + rd.call().CalleeKey() + " could not be named"
			continue
		}
		d := x.lin(rd.fr, n)
		d.addLin(sizeForm, -1)
		if d.isZero() {
			return 0, fmt.Sprintf("the successful %s consumed exactly the reported size (%s)", rd.call().CalleeKey(), sizeForm)
		}
		bad = append(bad, fmt.Sprintf("%s reads %s bytes, the entry is reported with size %s (difference %s): the body is not known to be complete", rd.call().CalleeKey(), x.lin(rd.fr, n), sizeForm, d))
	}
	if offset != nil {
		offForm := x.lin(x.at.fr, offset)
		for _, f := range x.forms {
			// the file-size leaf of this fact
			var fs ssa.Value
			nfs := 0
			for i, y := range f.leaf {
				if f.coef[i] != 0 && c03IsFileSize(y) {
					fs = y
					nfs++
				}
			}
			if nfs != 1 {
				continue
			}
			// want: F == fileSize - offset - size
			d := &c03Lin{}
			d.addLin(f, 1)
			d.add(fs, -1)
			d.addLin(offForm, 1)
			d.addLin(sizeForm, 1)
			if d.isZero() {
				return 0, fmt.Sprintf("on this edge %s >= 0 is known, which is fileSize - (offset handed on) - (size handed on) with offset = %s, size = %s", f, offForm, sizeForm)
			}
			if d.onlyConst() {
				bad = append(bad, fmt.Sprintf("the extent compared with the file size is off by %+d from (offset handed on)+(size handed on): known here is %s >= 0, the reported body ends at %s + %s; an off-by-%d either reports a body torn by that many bytes or drops an intact entry that ends the pack", -d.k, f, offForm, sizeForm, c03Abs(d.k)))
				continue
			}
			if v := d.unrelatedReads(); v != "" {
				undecided = fmt.Sprintf("the compared extent (%s >= 0) and the reported body [%s, +%s) read variable %s at points between which it may be stored to (through a closure, or more than one definition reaches): cannot tell whether they see the same value", f, offForm, sizeForm, v)
				continue
			}
			bad = append(bad, fmt.Sprintf("extent computed from a stale position: known here is %s >= 0, but the reported body is [%s, +%s); the compared extent and the reported one differ by %s, so an append torn within that many bytes of its end is reported as a present blob (or an intact last entry is dropped)", f, offForm, sizeForm, d))
		}
	}
	if len(bad) > 0 {
		return 1, strings.Join(bad, "; ")
	}
	if undecided != "" {
		return 2, undecided
	}
	if len(x.unfollowed) > 0 {
		return 2, "the condition guarding the report is a call the rule cannot follow (not a single ordering comparison of its parameters): " + strings.Join(x.unfollowed, ", ")
	}
	return 2, "a comparison involving the file size guards the report, but not one that is linear (+,-) in the file size, the offset and the size handed on"
}

func c03Abs(n int64) int64 {
	if n < 0 {
		return -n
	}
	return n
}

func c03ReportExtentValue(r *Reporter, rule, construct, site string, x *c03Extent, offset, size ssa.Value) {
	st, detail := c03ExtentValue(x, offset, size)
	switch st {
	case 0:
		r.OK(rule, construct, site, detail)
	case 1:
		r.Violation(rule, construct, site, detail)
	default:
		r.Undecided(rule, construct, site, detail)
	}
}

func c03RuleDWalkExtent(p *Program, r *Reporter) {
	const rule = "D-walk-extent"
	r.Floor(rule, 4)
	const bad = "the entry is reported without its body having been read and without comparing its extent with the file size: after a crash that tore the last append, the torn blob is reported with its declared size (Reindex then writes an index row for it: stat/fetch present a partial blob), and the blind skip over the declared size jumps over entries appended after a restart (Reindex silently omits acknowledged blobs)"
	d := c03DPAnchors(p)
	// the pack walk(s): calls of the walker callback
	walkers := c03PackWalkers(p)
	if len(walkers) == 0 {
		r.Violation(rule, c03PkgDP+"#walker-call", p.Pos(d.recvFn.Pos()), "no pack walk with a (…, offset int64, size uint32) callback found in package diskpacked")
	}
	for _, w := range walkers {
		e := c03EffOf(p, w.fn)
		n := 0
		for _, s := range e.calls(false) {
			c := s.call()
			if c.Common().IsInvoke() || e.kid(s) != nil || e.origin(c03Val{s.fr, c.Common().Value}, false).v != ssa.Value(w.walker) {
				continue
			}
			n++
			x := c03ExtentAt(e, s)
			ok, how := x.known()
			k := FuncKey(s.fr.fn)
			r.Check(ok, rule, k+"#walker-call", p.Pos(c.Pos()), "the walker is called "+how, bad)
			if ok {
				a := c.Common().Args
				c03ReportExtentValue(r, rule, k+"#walker-call#extent-is-body-end", p.Pos(c.Pos()), x, a[w.offIdx], a[w.sizeIdx])
			}
		}
		if n == 0 {
			r.Violation(rule, FuncKey(w.fn)+"#walker-call", p.Pos(w.fn.Pos()), "the pack walk never calls its walker outside function literals")
		}
	}
	// StreamBlobs: sends on the destination channel
	sb := c03Streamer(p, d)
	e := c03EffOf(p, sb)
	n := 0
	for _, fr := range e.frames {
		if fr.deferred {
			continue
		}
		for _, b := range fr.fn.Blocks {
			for _, in := range b.Instrs {
				var sent []ssa.Value
				switch x := in.(type) {
				case *ssa.Send:
					sent = append(sent, x.X)
				case *ssa.Select:
					for _, st := range x.States {
						if st.Dir == types.SendOnly {
							sent = append(sent, st.Send)
						}
					}
				}
				if len(sent) == 0 {
					continue
				}
				n++
				at := c03Site{fr, in}
				x := c03ExtentAt(e, at)
				ok, how := x.known()
				k := FuncKey(fr.fn)
				r.Check(ok, rule, k+"#send", p.Pos(in.Pos()), "the blob is sent "+how, bad)
				if !ok {
					continue
				}
				// the size the sent blob is declared with: the uint32 argument of the
				// pkg/blob constructor the sent value is built from
				type sized struct {
					fr *c03Frame
					v  ssa.Value
				}
				var sizes []sized
				for _, cs := range e.calls(false) {
					v := cs.value()
					f := cs.call().Callee()
					if v == nil || f == nil || f.Pkg == nil || f.Pkg.Pkg.Path() != "perkeep.org/pkg/blob" || !IsNamed(v.Type(), "perkeep.org/pkg/blob", "Blob") {
						continue
					}
					used := false
					for _, s := range sent {
						if e.depends(c03Val{fr, s}, func(y c03Val) bool { return y.v == ssa.Value(v) && y.fr == cs.fr }) {
							used = true
						}
					}
					if !used {
						continue
					}
					for _, a := range v.Call.Args {
						if b, ok := a.Type().Underlying().(*types.Basic); ok && b.Kind() == types.Uint32 {
							sizes = append(sizes, sized{cs.fr, a})
						}
					}
				}
				ck := k + "#send#read-is-declared-size"
				if len(sizes) != 1 {
					r.Undecided(rule, ck, p.Pos(in.Pos()), fmt.Sprintf("found %d candidate(s) for the size the sent blob is declared with (the uint32 argument of the pkg/blob constructor the sent value is built from); cannot relate what was read to what is reported", len(sizes)))
					continue
				}
				x.at = c03Site{sizes[0].fr, in} // the declared size is a value of the constructor call's frame
				c03ReportExtentValue(r, rule, ck, p.Pos(in.Pos()), x, nil, sizes[0].v)
			}
		}
	}
	if n == 0 {
		r.Violation(rule, FuncKey(sb)+"#send", p.Pos(sb.Pos()), "StreamBlobs never sends")
	}
}

// ---------------------------------------------------------------------------
// Who may destroy (F-destroy, D-destroy)
//
// A model of the calls that can make bytes under a path disappear: a table of
// primitives (os, syscall, pkg/sftp) plus every module function that hands one
// of its own parameters to such a call ("pass-through destroyers", computed to
// a fixpoint through static calls and through the files.VFS interface). The
// sites at which the destroyed path is *computed* (not merely forwarded) are
// the roots; they are classified by what the path value is and by who can
// reach the site.

type c03Kind int

const (
	c03KUnlink    c03Kind = iota // removes a file or an EMPTY directory
	c03KRmdir                    // removes an empty directory only
	c03KRmtree                   // removes recursively
	c03KRenameSrc                // the path stops naming the file
	c03KRenameDst                // the file under the path is replaced
	c03KTrunc                    // content destroyed in place (Create, WriteFile, Truncate, O_TRUNC)
	c03KWriteOpen                // an existing file is opened writable
)

func (k c03Kind) String() string {
	return [...]string{"unlink", "rmdir", "remove-recursively", "rename-away", "rename-over", "truncate/overwrite", "open-writable"}[k]
}

type c03Effect struct {
	arg  int // index into CallSite.Args() (receiver first)
	kind c03Kind
	via  string // the primitive that finally acts, for diagnostics
}

const c03Sftp = "github.com/pkg/sftp"

// c03Prims: the path-destroying primitives. One line of reason each: what the
// call does to the path argument.
var c03Prims = map[string][]c03Effect{
	"os||Remove":                        {{0, c03KUnlink, "os.Remove"}},    // unlink, or rmdir of an empty directory
	"os||RemoveAll":                     {{0, c03KRmtree, "os.RemoveAll"}}, // recursive
	"os||Rename":                        {{0, c03KRenameSrc, "os.Rename"}, {1, c03KRenameDst, "os.Rename"}},
	"os||Truncate":                      {{0, c03KTrunc, "os.Truncate"}},      // cuts the file
	"os||Create":                        {{0, c03KTrunc, "os.Create"}},        // O_TRUNC
	"os||WriteFile":                     {{0, c03KTrunc, "os.WriteFile"}},     // O_TRUNC
	"io/ioutil||WriteFile":              {{0, c03KTrunc, "ioutil.WriteFile"}}, // O_TRUNC
	"syscall||Unlink":                   {{0, c03KUnlink, "syscall.Unlink"}},
	"syscall||Rmdir":                    {{0, c03KRmdir, "syscall.Rmdir"}}, // ENOTEMPTY on a populated directory
	"syscall||Rename":                   {{0, c03KRenameSrc, "syscall.Rename"}, {1, c03KRenameDst, "syscall.Rename"}},
	"syscall||Truncate":                 {{0, c03KTrunc, "syscall.Truncate"}},
	c03Sftp + "|Client|Remove":          {{1, c03KUnlink, "sftp.Client.Remove"}},         // file or empty directory
	c03Sftp + "|Client|RemoveDirectory": {{1, c03KRmdir, "sftp.Client.RemoveDirectory"}}, // SSH_FXP_RMDIR
	c03Sftp + "|Client|RemoveAll":       {{1, c03KRmtree, "sftp.Client.RemoveAll"}},
	c03Sftp + "|Client|Rename":          {{1, c03KRenameSrc, "sftp.Client.Rename"}, {2, c03KRenameDst, "sftp.Client.Rename"}},
	c03Sftp + "|Client|PosixRename":     {{1, c03KRenameSrc, "sftp.Client.PosixRename"}, {2, c03KRenameDst, "sftp.Client.PosixRename"}},
	c03Sftp + "|Client|Truncate":        {{1, c03KTrunc, "sftp.Client.Truncate"}},
	c03Sftp + "|Client|Create":          {{1, c03KTrunc, "sftp.Client.Create"}}, // O_TRUNC
}

func c03PrimKey(f *ssa.Function) string {
	if f == nil {
		return ""
	}
	if o := f.Origin(); o != nil {
		f = o
	}
	var pkg *types.Package
	if f.Pkg != nil {
		pkg = f.Pkg.Pkg
	} else if f.Object() != nil {
		pkg = f.Object().Pkg()
	}
	if pkg == nil {
		return ""
	}
	recv := ""
	if r := f.Signature.Recv(); r != nil {
		if n := NamedOf(r.Type()); n != nil {
			recv = n.Obj().Name()
		}
	}
	return pkg.Path() + "|" + recv + "|" + f.Name()
}

// c03OpenEffects: what an OpenFile call does to its path, from its flag
// argument. Exclusive creation never touches an existing file.
func c03OpenEffects(prog *ssa.Program, pathArg int, flag ssa.Value, via string) []c03Effect {
	// The flag values are those of the build configuration being analysed
	// (O_CREATE/O_EXCL/O_TRUNC differ between linux, darwin and windows), so
	// they are read from the loaded os package, never hard-coded.
	osFlag := func(name string) int64 {
		op := prog.ImportedPackage("os")
		if op == nil {
			brokenf("anchor unresolved: package os is not loaded")
		}
		c, _ := op.Pkg.Scope().Lookup(name).(*types.Const)
		if c == nil {
			brokenf("anchor unresolved: os.%s is not a constant", name)
		}
		v, ok := constant.Int64Val(c.Val())
		if !ok {
			brokenf("anchor unresolved: os.%s has no int64 value", name)
		}
		return v
	}
	oWRONLY, oRDWR, oCREATE, oEXCL, oTRUNC := osFlag("O_WRONLY"), osFlag("O_RDWR"), osFlag("O_CREATE"), osFlag("O_EXCL"), osFlag("O_TRUNC")
	fl, ok := ConstInt(flag)
	if !ok {
		return []c03Effect{{pathArg, c03KWriteOpen, via + "(non-constant flags)"}}
	}
	switch {
	case fl&oCREATE != 0 && fl&oEXCL != 0:
		return nil
	case fl&oTRUNC != 0:
		return []c03Effect{{pathArg, c03KTrunc, via + "(O_TRUNC)"}}
	case fl&(oWRONLY|oRDWR) != 0:
		return []c03Effect{{pathArg, c03KWriteOpen, via}}
	}
	return nil
}

type c03Root struct {
	c    CallSite
	arg  int
	effs []c03Effect
}

type c03DestroyModel struct {
	p       *Program
	vfs     *types.Interface
	derived map[*ssa.Function][]c03Effect // pass-through destroyers: arg = index into fn.Params
	order   []*ssa.Function               // derived, in discovery order
	implFn  map[*ssa.Function]string      // declared methods of VFS implementers -> VFS method name
	vfsEff  map[string][]c03Effect        // VFS method -> union of the implementers' effects
	invokes map[string][]CallSite         // VFS method -> interface invoke sites in the module
	roots   []*c03Root
	rootIdx map[ssa.Instruction]map[int]*c03Root
}

// c03PathParam: the parameter a path value is, looking through
// representation-only transforms (ToSlash, Clean).
func c03PathParam(v ssa.Value) *ssa.Parameter {
	for i := 0; i < 8; i++ {
		v = originValue(v)
		if prm, ok := v.(*ssa.Parameter); ok {
			return prm
		}
		c, ok := v.(*ssa.Call)
		if !ok || len(c.Call.Args) != 1 {
			return nil
		}
		f := c.Call.StaticCallee()
		if !(funcIs(f, "path/filepath", "", "ToSlash") || funcIs(f, "path/filepath", "", "FromSlash") || funcIs(f, "path/filepath", "", "Clean") || funcIs(f, "path", "", "Clean")) {
			return nil
		}
		v = c.Call.Args[0]
	}
	return nil
}

func c03ParamIndex(prm *ssa.Parameter) int {
	for i, q := range prm.Parent().Params {
		if q == prm {
			return i
		}
	}
	return -1
}

func c03GetDestroyModel(p *Program) *c03DestroyModel {
	m := &c03DestroyModel{p: p, vfs: p.Iface(c03PkgFiles, "VFS"),
		derived: map[*ssa.Function][]c03Effect{}, implFn: map[*ssa.Function]string{},
		vfsEff: map[string][]c03Effect{}, invokes: map[string][]CallSite{},
		rootIdx: map[ssa.Instruction]map[int]*c03Root{}}
	for _, T := range p.Implementers(m.vfs, false) {
		for i := 0; i < m.vfs.NumMethods(); i++ {
			name := m.vfs.Method(i).Name()
			if f := p.LookupFunc(RelPkg(T.Obj().Pkg()), T.Obj().Name(), name); f != nil {
				m.implFn[f] = name
			} else if f, _ := p.MethodOf(T, name); f != nil {
				m.implFn[f] = name // promoted method: the wrapper forwards its parameters
			}
		}
	}
	// pass 1: primitive sites and VFS invoke sites
	type work struct {
		c    CallSite
		effs []c03Effect
	}
	var queue []work
	memo := map[*ssa.Function][]c03Effect{}
	for _, fn := range p.AllFuncs {
		for _, c := range CallsIn(fn, false) {
			if c.Common().IsInvoke() {
				if name := c.MethodName(); m.vfs.NumMethods() > 0 && c.IsMethod(name, m.vfs) {
					for i := 0; i < m.vfs.NumMethods(); i++ {
						if m.vfs.Method(i).Name() == name {
							m.invokes[name] = append(m.invokes[name], c)
						}
					}
				}
				continue
			}
			f := c.Common().StaticCallee()
			if f == nil {
				continue
			}
			effs, seen := memo[f]
			if !seen {
				effs = c03Prims[c03PrimKey(f)]
				memo[f] = effs
			}
			switch {
			case funcIs(f, "os", "", "OpenFile") && len(c.Args()) == 3:
				effs = c03OpenEffects(f.Prog, 0, c.Args()[1], "os.OpenFile")
			case funcIs(f, c03Sftp, "Client", "OpenFile") && len(c.Args()) == 3:
				effs = c03OpenEffects(f.Prog, 1, c.Args()[2], "sftp.Client.OpenFile")
			}
			if len(effs) > 0 {
				queue = append(queue, work{c, effs})
			}
		}
	}
	addRoot := func(c CallSite, e c03Effect) {
		byArg := m.rootIdx[c.Instr]
		if byArg == nil {
			byArg = map[int]*c03Root{}
			m.rootIdx[c.Instr] = byArg
		}
		rt := byArg[e.arg]
		if rt == nil {
			rt = &c03Root{c: c, arg: e.arg}
			byArg[e.arg] = rt
			m.roots = append(m.roots, rt)
		}
		for _, x := range rt.effs {
			if x.kind == e.kind && x.via == e.via {
				return
			}
		}
		rt.effs = append(rt.effs, e)
	}
	for n := 0; len(queue) > 0 && n < 200000; n++ {
		w := queue[0]
		queue = queue[1:]
		args := w.c.Args()
		for _, e := range w.effs {
			if e.arg >= len(args) {
				continue
			}
			prm := c03PathParam(args[e.arg])
			if prm == nil {
				addRoot(w.c, e)
				continue
			}
			owner := prm.Parent()
			ne := c03Effect{c03ParamIndex(prm), e.kind, e.via}
			dup := false
			for _, x := range m.derived[owner] {
				if x == ne {
					dup = true
				}
			}
			if dup || ne.arg < 0 {
				continue
			}
			if _, known := m.derived[owner]; !known {
				m.order = append(m.order, owner)
			}
			m.derived[owner] = append(m.derived[owner], ne)
			for _, caller := range p.StaticCallers(owner) {
				queue = append(queue, work{caller, []c03Effect{ne}})
			}
			if name, isImpl := m.implFn[owner]; isImpl {
				m.vfsEff[name] = append(m.vfsEff[name], ne)
				for _, iv := range m.invokes[name] {
					queue = append(queue, work{iv, []c03Effect{ne}})
				}
			}
		}
	}
	return m
}

// isTempName: v is Name() of a file obtained from VFS.TempFile by this very
// call: in the same function, or — when the file is a parameter of a helper all
// of whose callers can be enumerated — at every call site (transitively).
func (m *c03DestroyModel) isTempName(v ssa.Value) bool {
	c, ok := originValue(v).(*ssa.Call)
	if !ok || !c.Call.IsInvoke() || c.Call.Method.Name() != "Name" {
		return false
	}
	return c03ForAllCallers(m.p, c.Call.Value, 0, func(o ssa.Value) bool {
		ex, ok := o.(*ssa.Extract)
		if !ok || ex.Index != 0 {
			return false
		}
		tc, ok := ex.Tuple.(*ssa.Call)
		return ok && (CallSite{tc.Parent(), tc}).IsMethod("TempFile", m.vfs)
	})
}

// c03UnderFreshDir: the path is the directory os.MkdirTemp just created, or a
// Join of it with constant elements that cannot climb out of it.
func c03UnderFreshDir(v ssa.Value, depth int) bool {
	v = originValue(v)
	if ex, ok := v.(*ssa.Extract); ok && ex.Index == 0 {
		if c, ok := ex.Tuple.(*ssa.Call); ok && funcIs(c.Call.StaticCallee(), "os", "", "MkdirTemp") {
			return true
		}
	}
	if depth > 4 {
		return false
	}
	j, ok := v.(*ssa.Call)
	if !ok || !funcIs(j.Call.StaticCallee(), "path/filepath", "", "Join") || len(j.Call.Args) != 1 {
		return false
	}
	el := c03VarargElems(j.Call.Args[0])
	if len(el) < 2 || !c03UnderFreshDir(el[0], depth+1) {
		return false
	}
	for _, e := range el[1:] {
		s, ok := ConstString(e)
		if !ok || strings.Contains(s, "..") {
			return false
		}
	}
	return true
}

// c03ImplMethodOf: top is the method the named interface's single method
// dispatches to for some module type (e.g. the RemoveBlobs of a BlobRemover).
func c03ImplMethodOf(top *ssa.Function, iface *types.Interface) bool {
	recv := top.Signature.Recv()
	if recv == nil || iface.NumMethods() != 1 || top.Name() != iface.Method(0).Name() {
		return false
	}
	return types.Implements(recv.Type(), iface) || types.Implements(types.NewPointer(recv.Type()), iface)
}

// c03OnlyReachedFrom: every way of running fn starts in a function satisfying
// pred: fn's top-level function satisfies it, or that function is only ever
// called statically (never used as a value, not reachable through an
// interface) from functions for which the same holds.
func c03OnlyReachedFrom(p *Program, fn *ssa.Function, pred func(*ssa.Function) bool, depth int) bool {
	top := TopFunc(fn)
	if pred(top) {
		return true
	}
	if depth > 4 {
		return false
	}
	callers := p.StaticCallers(top)
	if len(callers) == 0 || len(p.FuncValueUses(top)) > 0 || len(p.InvokeSites(top)) > 0 {
		return false
	}
	for _, c := range callers {
		if TopFunc(c.Fn) == top {
			continue // recursion
		}
		if !c03OnlyReachedFrom(p, c.Fn, pred, depth+1) {
			return false
		}
	}
	return true
}

// c03CreationSite: the MakeClosure instruction that creates function literal
// lit in its parent (nil for declared functions or when not unique).
func c03CreationSite(lit *ssa.Function) ssa.Instruction {
	par := lit.Parent()
	if par == nil {
		return nil
	}
	var found ssa.Instruction
	for _, b := range par.Blocks {
		for _, in := range b.Instrs {
			if mc, ok := in.(*ssa.MakeClosure); ok && mc.Fn == ssa.Value(lit) {
				if found != nil {
					return nil
				}
				found = mc
			}
		}
	}
	return found
}

func c03KindsOf(effs []c03Effect) string {
	var s []string
	for _, e := range effs {
		s = append(s, e.kind.String()+" via "+e.via)
	}
	return strings.Join(s, "; ")
}

func c03SiteName(c CallSite, arg int) string {
	how := ""
	if c.IsGo() {
		how = "go "
	} else if c.IsDefer() {
		how = "defer "
	}
	return FuncKey(TopFunc(c.Fn)) + "#" + how + c.CalleeKey() + "(arg" + fmt.Sprint(arg) + ")"
}

// ---------------------------------------------------------------------------
// F-destroy

func c03RuleFDestroy(p *Program, r *Reporter, m *c03DestroyModel) {
	const rule = "F-destroy"
	r.Floor(rule, 14)
	remover := p.Iface("pkg/blobserver", "BlobRemover")
	receiver := p.Iface("pkg/blobserver", "BlobReceiver")
	isRemoval := func(top *ssa.Function) bool { return c03ImplMethodOf(top, remover) }
	scope := map[string]bool{c03PkgFiles: true, "pkg/blobserver/localdisk": true}
	for f := range m.implFn {
		if f.Pkg != nil {
			scope[RelPkg(f.Pkg.Pkg)] = true
		}
	}
	inScope := func(fn *ssa.Function) bool {
		top := TopFunc(fn)
		return top.Pkg != nil && scope[RelPkg(top.Pkg.Pkg)]
	}
	pub := c03PublishPath(p)
	storeT := NamedOf(c03FilesAnchors(p).fn.Signature.Recv().Type())
	isStoreStringField := func(t types.Type, idx int) bool {
		if NamedOf(t) != storeT {
			return false
		}
		st, ok := storeT.Underlying().(*types.Struct)
		if !ok || idx >= st.NumFields() {
			return false
		}
		b, ok := st.Field(idx).Type().Underlying().(*types.Basic)
		return ok && b.Kind() == types.String
	}
	// blobTree: path material of the blob tree — the functions the published path is built from, the
	// store's own string fields (its root), a directory listing, or caller-provided path material
	blobTree := func(v ssa.Value) bool {
		switch x := v.(type) {
		case *ssa.Call:
			if x.Call.IsInvoke() {
				return x.Call.Method.Name() == "ReadDirNames"
			}
			f := x.Call.StaticCallee()
			return f != nil && pub.funcs[f]
		case *ssa.FieldAddr:
			return isStoreStringField(x.X.Type(), x.Field)
		case *ssa.Field:
			return isStoreStringField(x.X.Type(), x.Field)
		case *ssa.Parameter:
			return x != x.Parent().Params[0] || x.Parent().Signature.Recv() == nil // caller-provided path material (not the receiver itself)
		}
		return false
	}

	// (a) the root sites
	n := 0
	for _, rt := range m.roots {
		c := rt.c
		isVFSSite := c.Common().IsInvoke() || m.implFn[c.Callee()] != ""
		if !inScope(c.Fn) && !isVFSSite {
			continue
		}
		n++
		top := TopFunc(c.Fn)
		P := c.Args()[rt.arg]
		construct := c03SiteName(c, rt.arg)
		site := p.Pos(c.Pos())
		kinds := c03KindsOf(rt.effs)
		if !inScope(c.Fn) {
			r.Violation(rule, construct, site, "a path-destroying method of a files.VFS is called outside the file-per-blob store ("+kinds+"): blob files are destroyed behind the store's back")
			continue
		}
		if _, isImpl := m.implFn[top]; isImpl {
			r.Undecided(rule, construct, site, "a files.VFS implementation destroys a path that is not the argument it was given ("+kinds+"); callers of the VFS method cannot be held responsible for it")
			continue
		}
		switch {
		case m.isTempName(P):
			r.OK(rule, construct, site, "the path is Name() of the file this very call obtained from VFS.TempFile: only the receive's own temp file is affected ("+kinds+")")
			continue
		case c03UnderFreshDir(P, 0):
			r.OK(rule, construct, site, "the path lies in the directory os.MkdirTemp created in this call: nothing acknowledged lives there ("+kinds+")")
			continue
		case c03OnlyReachedFrom(p, c.Fn, isRemoval, 0):
			r.OK(rule, construct, site, "reached only from "+remover.Method(0).Name()+" of a blobserver.BlobRemover: destroying the blob is what was asked for ("+kinds+")")
			continue
		}
		// not the own temp file, not in the removal entry point: only harmless kinds may remain
		bad, undec := "", ""
		listed, recursive := false, false
		// the site itself, or (for a site inside function literals) the points at
		// which the enclosing literals are created: a literal runs after its creation
		for at := ssa.Instruction(c.Instr); at != nil && !listed; at = c03CreationSite(at.Parent()) {
			le := c03EffOf(p, at.Parent())
			for _, ls := range le.calls(false) {
				lc := ls.call()
				if ls.value() != nil && lc.IsMethod("ReadDirNames", m.vfs) && le.same(c03Val{ls.fr, lc.Args()[1]}, c03Val{le.root, P}) {
					if ok, _ := le.succDom(ls, c03Site{le.root, at}); ok {
						listed = true
					}
				}
			}
		}
		for _, e := range rt.effs {
			switch e.kind {
			case c03KRmdir:
				// removes an empty directory or nothing
			case c03KUnlink:
				if !listed {
					bad = e.kind.String() + " via " + e.via + " of a path that is not known to be a directory (no successful VFS.ReadDirNames of the same path dominates the call)"
				}
			case c03KRenameDst:
				if c.Fn.Parent() == nil && c03OnlyReachedFrom(p, c.Fn, func(f *ssa.Function) bool { return c03ImplMethodOf(f, receiver) }, 0) {
					continue // the atomic publish (in ReceiveBlob or a helper only it calls); source, destination and order are F-order's
				}
				bad = e.kind.String() + " via " + e.via + " outside the receive path"
			default:
				bad = e.kind.String() + " via " + e.via
				recursive = recursive || e.kind == c03KRmtree
			}
		}
		if bad != "" && !c03Depends(P, blobTree) {
			undec = "the destroyed path is not related to the blob tree by the analysis (" + bad + ")"
		}
		switch {
		case undec != "":
			r.Undecided(rule, construct, site, undec)
		case bad != "":
			consequence := "a blob acknowledged earlier under this path (the same ref re-uploaded) is gone if the process dies, or the next call fails, right after this one"
			if recursive && !c03IsBlobPath(p, P) {
				consequence = "the removal takes along everything below the path, including the blob of a receive that was acknowledged after the path was last inspected"
			}
			r.Violation(rule, construct, site, "a path in the blob tree that is neither the receive's own temp file nor being removed through RemoveBlobs can be destroyed here: "+bad+"; "+consequence)
		case listed:
			r.OK(rule, construct, site, "only an EMPTY directory can disappear: the path was listed by a successful VFS.ReadDirNames and every implementation reaches a non-recursive primitive ("+kinds+")")
		default:
			r.OK(rule, construct, site, "only harmless effects on a final path: "+kinds+" (rename-over in the receive path is the atomic publish decided by F-order)")
		}
	}
	r.Analysed("path_destroy_sites", n)

	// (b) the pass-through destroyers in scope: all their callers must be visible
	for _, f := range m.order {
		if !inScope(f) {
			continue
		}
		construct := FuncKey(f) + "#forwards-path"
		site := p.Pos(f.Pos())
		kinds := c03KindsOf(m.derived[f])
		_, isImpl := m.implFn[f]
		exported := f.Object() != nil && f.Object().Exported() && (f.Signature.Recv() == nil || NamedOf(f.Signature.Recv().Type()) != nil && NamedOf(f.Signature.Recv().Type()).Obj().Exported())
		switch {
		case isImpl:
			r.OKTable(rule, construct, site, "files.VFS method forwarding its own path argument ("+kinds+"); every interface invoke in the module is classified at its site")
		case len(p.FuncValueUses(f)) > 0 || f.Parent() == nil && len(p.InvokeSites(f)) > 0:
			r.Undecided(rule, construct, site, "a function that destroys the path it is given ("+kinds+") is used as a value or through an interface: its callers cannot be enumerated")
		case exported:
			r.Undecided(rule, construct, site, "an exported function destroys the path it is given ("+kinds+"): callers outside the analysed packages cannot be classified")
		default:
			r.OKTable(rule, construct, site, fmt.Sprintf("forwards its path parameter (%s); its %d static call site(s) are classified", kinds, len(p.StaticCallers(f))))
		}
	}
}

// c03DPkg: fn belongs to package diskpacked.
func c03DPkg(fn *ssa.Function) bool {
	top := TopFunc(fn)
	return top.Pkg != nil && RelPkg(top.Pkg.Pkg) == c03PkgDP
}

// ---------------------------------------------------------------------------
// D-destroy

// c03Mut is one call that can change the bytes or the write position of an
// *os.File.
type c03Mut struct {
	c      CallSite
	h      ssa.Value // the handle
	op     string    // write, write-n, writeat, truncate, seek, fd, hook
	off    ssa.Value // writeat/seek/truncate/hook: position
	n      ssa.Value // write-n/hook: length
	whence ssa.Value
}

func c03IsOSFile(t types.Type) bool {
	pt, ok := t.(*types.Pointer)
	return ok && IsNamed(pt.Elem(), "os", "File")
}

// c03FileArg: the value is an *os.File, possibly converted to an interface;
// writable tells whether that interface can write.
func c03FileArg(v ssa.Value) (h ssa.Value, isFile, writable bool) {
	if mi, ok := v.(*ssa.MakeInterface); ok {
		if !c03IsOSFile(mi.X.Type()) {
			return nil, false, false
		}
		for _, name := range []string{"Write", "WriteAt", "WriteString", "ReadFrom", "Truncate"} {
			if c03HasMethod(mi.Type(), name) {
				return mi.X, true, true
			}
		}
		return mi.X, true, false
	}
	if c03IsOSFile(v.Type()) {
		return v, true, true
	}
	return nil, false, false
}

func c03Mutators(fn *ssa.Function) []c03Mut {
	var out []c03Mut
	for _, c := range CallsIn(fn, false) {
		args := c.Args()
		f := c.Common().StaticCallee()
		if f != nil && f.Signature.Recv() != nil && c03IsOSFile(f.Signature.Recv().Type()) && len(args) > 0 {
			mu := c03Mut{c: c, h: args[0]}
			switch f.Name() {
			case "Write", "WriteString", "ReadFrom":
				mu.op = "write"
			case "WriteAt":
				mu.op, mu.off = "writeat", args[2]
			case "Truncate":
				mu.op, mu.off = "truncate", args[1]
			case "Seek":
				mu.op, mu.off, mu.whence = "seek", args[1], args[2]
			case "Fd", "SyscallConn":
				mu.op = "fd"
			default:
				continue
			}
			out = append(out, mu)
			continue
		}
		if _, isBuiltin := c.Common().Value.(*ssa.Builtin); isBuiltin {
			continue
		}
		for i, a := range args {
			h, isFile, writable := c03FileArg(a)
			if !isFile || !writable {
				continue
			}
			mu := c03Mut{c: c, h: h}
			_, asIface := a.(*ssa.MakeInterface)
			switch {
			case asIface && funcIs(f, "io", "", "CopyN") && i == 0:
				mu.op, mu.n = "write-n", args[2]
			case asIface:
				mu.op = "write"
			default:
				// the handle itself is handed on
				if f != nil && len(f.Blocks) > 0 && c03DPkg(f) && i < len(f.Params) {
					// to a function of this package: what it does with its parameter is classified there, at
					// each of its call sites ('P')
					continue
				}
				mu.op = "hook"
				var ints []ssa.Value
				for j, b := range args {
					if bt, ok := b.Type().Underlying().(*types.Basic); ok && j != i && bt.Info()&types.IsInteger != 0 {
						ints = append(ints, b)
					}
				}
				if len(ints) == 2 {
					mu.off, mu.n = ints[0], ints[1]
				}
			}
			out = append(out, mu)
			break
		}
	}
	return out
}

// c03HandleClass: 'W' the store's live append handle (its *os.File field), 'L' a
// handle opened writable in this function, 'R' opened read-only, 'T' a fresh
// temp file, 'P' a parameter, 'U' unknown.
func c03HandleClass(d *c03DPAnch, h ssa.Value) (class byte, open *ssa.Call, prm *ssa.Parameter) {
	o := originValue(h)
	switch x := o.(type) {
	case *ssa.Parameter:
		return 'P', nil, x
	case *ssa.UnOp:
		if x.Op == token.MUL {
			if fa, ok := x.X.(*ssa.FieldAddr); ok && fieldName(fa.X.Type(), fa.Field) == d.writerF && NamedOf(fa.X.Type().Underlying().(*types.Pointer).Elem()) == d.storeT {
				return 'W', nil, nil
			}
		}
	case *ssa.Extract:
		c, ok := x.Tuple.(*ssa.Call)
		if !ok || x.Index != 0 {
			return 'U', nil, nil
		}
		f := c.Call.StaticCallee()
		switch {
		case funcIs(f, "os", "", "Open"):
			return 'R', c, nil
		case funcIs(f, "os", "", "CreateTemp"):
			return 'T', c, nil
		case funcIs(f, "os", "", "Create"):
			return 'L', c, nil
		case funcIs(f, "os", "", "OpenFile"):
			if fl, ok := ConstInt(c.Call.Args[1]); ok && fl&3 == 0 {
				return 'R', c, nil
			}
			return 'L', c, nil
		case f != nil && len(f.Blocks) > 0 && f.Pkg != nil && RelPkg(f.Pkg.Pkg) == c03PkgDP && !token.IsExported(f.Name()):
			// a helper of the package that opens the file and returns the handle
			var cls byte
			var oc *ssa.Call
			for _, ri := range Returns(f) {
				if x.Index >= len(ri.Results) || c03IsZeroConst(ri.Results[x.Index]) {
					continue
				}
				if _, isPrm := originValue(ri.Results[x.Index]).(*ssa.Parameter); isPrm {
					return 'U', nil, nil
				}
				k, o, _ := c03HandleClass(d, ri.Results[x.Index])
				if (k != 'L' && k != 'R') || cls != 0 && (cls != k || oc != o) {
					return 'U', nil, nil
				}
				cls, oc = k, o
			}
			if cls != 0 {
				return cls, oc, nil
			}
		}
	}
	return 'U', nil, nil
}

func c03IsParam(v ssa.Value) bool { _, ok := v.(*ssa.Parameter); return ok }

func c03ConstIs(v ssa.Value, want int64) bool {
	c, ok := ConstInt(v)
	return ok && c == want
}

func c03RuleDDestroy(p *Program, r *Reporter, m *c03DestroyModel) {
	const rule = "D-destroy"
	r.Floor(rule, 13)
	d := c03DPAnchors(p)
	e := d.e
	remover := p.Iface("pkg/blobserver", "BlobRemover")
	isRemoval := func(top *ssa.Function) bool { return c03ImplMethodOf(top, remover) }
	isRecvEntry := func(top *ssa.Function) bool { return top == d.recvFn }

	// ---- (1) path level: nothing unlinks, renames or truncates a pack by name
	nPath := 0
	for _, rt := range m.roots {
		if !c03DPkg(rt.c.Fn) {
			continue
		}
		c := rt.c
		P := c.Args()[rt.arg]
		construct := c03SiteName(c, rt.arg)
		site := p.Pos(c.Pos())
		onlyOpen := true
		for _, e := range rt.effs {
			if e.kind != c03KWriteOpen {
				onlyOpen = false
			}
		}
		if onlyOpen {
			// a writable handle: where may it go?
			esc := ""
			if v := c.Value(); v != nil {
				esc = c03HandleEscapes(d, ResultValue(v, 0))
			} else {
				esc = "opened by a go/defer statement"
			}
			if esc != "" {
				r.Undecided(rule, construct, site, "a pack file is opened writable and the handle "+esc+": the calls that write through it cannot be enumerated")
			} else {
				r.OKTable(rule, construct, site, "opened writable without O_TRUNC; the handle stays in this function or becomes storage.writer, and every call that writes, seeks or truncates through either is classified below")
			}
			continue
		}
		nPath++
		kinds := c03KindsOf(rt.effs)
		if _, isPack := d.isPackPath(P); isPack {
			r.Violation(rule, construct, site, "a pack file is destroyed by name ("+kinds+"): every blob acknowledged into it is lost and Reindex cannot bring it back (the pack files are the only source of truth)")
		} else {
			r.Undecided(rule, construct, site, "package diskpacked destroys a path ("+kinds+") that the analysis cannot tell apart from a pack file or the index")
		}
	}
	for _, f := range m.order {
		if c03DPkg(f) {
			nPath++
			if len(p.FuncValueUses(f)) > 0 || f.Object() != nil && f.Object().Exported() {
				r.Undecided(rule, FuncKey(f)+"#forwards-path", p.Pos(f.Pos()), "a function of package diskpacked destroys the path it is given ("+c03KindsOf(m.derived[f])+") and its callers cannot be enumerated")
			}
		}
	}
	r.Check(nPath == 0, rule, c03PkgDP+"#no-path-level-destroyer", p.Pos(d.recvFn.Pos()),
		"no function of package diskpacked removes, renames, truncates or re-creates a file by path (the only path-level write access is OpenFile without O_TRUNC)",
		fmt.Sprintf("%d path-level destroyer(s) in package diskpacked, see the individual reports", nPath))

	// ---- (2) handle level
	// the stores of the receive path into the store's byte counter
	var sizeStores []c03Site
	for _, fr := range e.frames {
		if fr.deferred {
			continue
		}
		for _, b := range fr.fn.Blocks {
			for _, in := range b.Instrs {
				if st, ok := in.(*ssa.Store); ok && d.isStoreField(c03Val{fr, st.Addr}, d.sizeF) {
					sizeStores = append(sizeStores, c03Site{fr, st})
				}
			}
		}
	}
	// rollbackOK: x (a value at site at of the receive path) is the store's byte counter — or the live
	// handle's own position — as read before this receive wrote anything, and the receive cannot
	// acknowledge once it got to at.
	rollbackOK := func(at c03Site, x ssa.Value) (bool, string) {
		o := e.origin(c03Val{at.fr, x}, true)
		var captured c03Site
		switch t := o.v.(type) {
		case *ssa.UnOp:
			if t.Op == token.MUL && d.isStoreField(c03Val{o.fr, t.X}, d.sizeF) {
				captured = c03Site{o.fr, t}
			}
		case *ssa.Extract:
			if sk, ok := t.Tuple.(*ssa.Call); ok && t.Index == 0 && funcIs(sk.Call.StaticCallee(), "os", "File", "Seek") {
				if d.isWriter(c03Val{o.fr, sk.Call.Args[0]}) && c03ConstIs(sk.Call.Args[1], 0) && (c03ConstIs(sk.Call.Args[2], 1) || c03ConstIs(sk.Call.Args[2], 2)) {
					captured = c03Site{o.fr, sk}
				}
			}
		}
		if !captured.valid() {
			return false, "the offset is neither the store's byte counter (the int64 field the receive path advances by the written counts) nor the live handle's position (Seek(0, SeekCurrent/SeekEnd)) as read in this call"
		}
		// ... read before this call wrote anything
		for _, w := range append(append([]c03Site{}, d.writes...), sizeStores...) {
			if !e.precedes(captured, w) {
				return false, fmt.Sprintf("the offset is read after (or not before) the write/size update at line %d: it is not the end of the acknowledged data", c03Line(p, w.in.Pos()))
			}
		}
		if ok, line := e.successAfter(at); ok {
			return false, fmt.Sprintf("a return that may report success (line %d) is reachable afterwards: the blob whose bytes are cut off may be acknowledged", line)
		}
		return true, ""
	}

	type frame struct {
		at     ssa.Instruction // the instruction, in the function whose facts apply
		h      ssa.Value
		off, n ssa.Value
		whence ssa.Value
		sub    func(ssa.Value) ssa.Value // callee-frame value -> value in at's frame (identity at depth 0)
	}
	ident := func(v ssa.Value) ssa.Value { return v }
	// substFor maps values of owner's frame to the frame of a call site with the given arguments:
	// constants stay, owner's parameters become the arguments, everything else is lost (nil).
	substFor := func(owner *ssa.Function, args []ssa.Value) func(ssa.Value) ssa.Value {
		return func(v ssa.Value) ssa.Value {
			if v == nil {
				return nil
			}
			if _, isC := v.(*ssa.Const); isC {
				return v
			}
			if q, ok := originValue(v).(*ssa.Parameter); ok && q.Parent() == owner {
				if j := c03ParamIndex(q); j >= 0 && j < len(args) {
					return args[j]
				}
			}
			return nil
		}
	}
	var classify func(mu c03Mut, fr frame, depth int) (st Status, table bool, detail string)
	classify = func(mu c03Mut, fr frame, depth int) (Status, bool, string) {
		fn := fr.at.Parent()
		class, open, prm := c03HandleClass(d, fr.h)
		neutralSeek := mu.op == "seek" && fr.off != nil && c03ConstIs(fr.off, 0) && fr.whence != nil && (c03ConstIs(fr.whence, 1) || c03ConstIs(fr.whence, 2))
		switch class {
		case 'R', 'T':
			return Discharged, true, "handle opened read-only (or a fresh temp file): the call cannot change a pack"
		case 'W':
			if neutralSeek {
				return Discharged, true, "position query / seek to the end on the live append handle"
			}
			sites := e.sitesOf(fr.at)
			if len(sites) == 0 || !c03OnlyReachedFrom(p, fn, isRecvEntry, 0) {
				return Violated, false, "the live append handle is " + c03OpWord(mu.op) + " outside the receive path (ReceiveBlob and the helpers only it calls): acknowledged extents of the current pack can be overwritten or cut off"
			}
			for _, s := range sites {
				if s.fr.deferred {
					return Undecided, false, "the live append handle is " + c03OpWord(mu.op) + " in a deferred call of the receive path; whether this is the roll-back of a failed append (no success return afterwards) is not followed there"
				}
			}
			switch {
			case mu.op == "write" || mu.op == "write-n":
				return Discharged, true, "the receive path writes at the live handle's position; every call that moves that position is classified (and D-order decides write→sync→index)"
			case mu.op == "seek" && fr.whence != nil && c03ConstIs(fr.whence, 0), mu.op == "truncate":
				if fr.off == nil {
					return Undecided, false, "offset not followed"
				}
				for _, s := range sites {
					if ok, why := rollbackOK(s, fr.off); !ok {
						return Violated, false, "the live append handle is " + c03OpWord(mu.op) + " and this is not the roll-back of the current failed append (" + why + "): blobs acknowledged earlier are overwritten by the next append or cut off"
					}
				}
				return Discharged, false, "roll-back of the current, failed append: the offset is the store's byte counter as loaded before this receive's first write and no return that may report success is reachable afterwards"
			case mu.op == "fd" || mu.op == "hook":
				return Undecided, false, "the live append handle is handed to code that is not followed"
			}
			return Violated, false, "the live append handle is " + c03OpWord(mu.op) + " in the receive path at a position other than its end"
		case 'L':
			if neutralSeek {
				return Discharged, true, "position query / seek to the end on a freshly opened handle"
			}
			if !c03OnlyReachedFrom(p, fn, isRemoval, 0) {
				return Violated, false, "a pack file opened writable is " + c03OpWord(mu.op) + " in a function that is not reached only from RemoveBlobs: acknowledged bytes are destroyed without a removal request"
			}
			// the index row of the blob being removed — looked up in fn or in a helper of its effective body
			le := c03EffOf(p, fn)
			at := c03Site{le.root, fr.at}
			var rowV c03Val
			for _, s := range le.calls(false) {
				mc := s.call()
				if s.value() == nil || !d.lookups[mc.Callee()] || len(mc.Args()) != 2 {
					continue
				}
				if o := le.origin(c03Val{s.fr, mc.Args()[1]}, false); o.fr != le.root || !c03IsParam(o.v) {
					continue
				}
				if ok, _ := le.succDom(s, at); ok {
					rowV = c03Val{s.fr, ResultValue(s.value(), 0)}
				}
			}
			if rowV.v == nil {
				return Violated, false, "the call is not behind a successful index row lookup of <ref parameter>: the extent it destroys is not the extent of the blob being removed"
			}
			// fieldOf: v (a value at site s) is exactly row.<name>, through conversions
			fieldOf := func(s c03Site, v ssa.Value, name string) bool {
				if v == nil {
					return false
				}
				o := le.origin(c03Val{s.fr, v}, true)
				leaves := c03AddLeaves(o.v)
				if len(leaves) != 1 {
					return false
				}
				lo := le.origin(c03Val{o.fr, leaves[0]}, true)
				base, ok := d.rowField(lo.v, name)
				return ok && le.holds(c03Val{le.frameOf(lo.fr, base), base}, rowV)
			}
			if open != nil {
				okFile := false
				opFr := le.root
				if ss := le.sitesOf(open); len(ss) > 0 {
					opFr = ss[0].fr
				}
				sp := le.origin(c03Val{opFr, open.Call.Args[0]}, false)
				if n, ok := d.isPackPath(sp.v); ok && fieldOf(c03Site{le.frameOf(sp.fr, n), open}, n, d.rowFile) {
					okFile = true
				}
				if !okFile {
					return Violated, false, "the file opened writable is not the pack path of the looked-up row's pack number: another pack's bytes are destroyed"
				}
			}
			// the mutator's own sites: it may sit in a helper of fn, computing its extent from a row parameter
			msites := le.sitesOf(mu.c.Instr)
			atAll := func(pred func(s c03Site) bool) bool {
				for _, s := range msites {
					if !pred(s) {
						return false
					}
				}
				return len(msites) > 0
			}
			isField := func(sub, orig ssa.Value, name string) bool {
				return fieldOf(at, sub, name) || atAll(func(s c03Site) bool { return fieldOf(s, orig, name) })
			}
			offDep := func(s c03Site, v ssa.Value) bool {
				return v != nil && le.depends(c03Val{s.fr, v}, func(x c03Val) bool {
					base, ok := d.rowField(x.v, d.rowOffset)
					return ok && le.holds(c03Val{le.frameOf(x.fr, base), base}, rowV)
				})
			}
			switch mu.op {
			case "writeat":
				if offDep(at, fr.off) || atAll(func(s c03Site) bool { return offDep(s, mu.off) }) {
					return Discharged, false, "WriteAt at a position computed from the removed blob's row (offset minus the header length; D-reindex-agreement#walk-back-length decides the length)"
				}
				return Violated, false, "WriteAt at a position that does not derive from the removed blob's index row"
			case "seek":
				if (c03ConstIs(fr.whence, 0) || mu.whence != nil && c03ConstIs(mu.whence, 0)) && isField(fr.off, mu.off, d.rowOffset) {
					return Discharged, false, "Seek(row.offset, SeekStart): the start of the removed blob's body"
				}
				return Violated, false, "the handle is positioned somewhere other than the removed blob's row.offset"
			case "write-n":
				if !isField(fr.n, mu.n, d.rowSize) {
					return Violated, false, "the number of bytes overwritten is not the removed blob's row.size: the zero fill runs into the next (acknowledged) entry or stops short"
				}
				behindSeek := atAll(func(ms c03Site) bool {
					for _, f2 := range le.frames {
						if f2.deferred {
							continue
						}
						for _, sk := range c03Mutators(f2.fn) {
							if sk.op != "seek" || sk.c.Value() == nil || !c03ConstIs(sk.whence, 0) || !le.same(c03Val{f2, sk.h}, c03Val{ms.fr, mu.h}) {
								continue
							}
							ss := c03Site{f2, sk.c.Instr}
							if !fieldOf(ss, sk.off, d.rowOffset) {
								continue
							}
							if ok, _ := le.succDom(ss, ms); ok {
								return true
							}
						}
					}
					return false
				})
				if behindSeek {
					return Discharged, false, "exactly row.size bytes are overwritten behind a successful Seek(row.offset, SeekStart) on the same handle"
				}
				return Violated, false, "row.size bytes are overwritten but not behind a successful Seek(row.offset, SeekStart) on the same handle: the wrong extent is zeroed"
			case "hook":
				if isField(fr.off, mu.off, d.rowOffset) && isField(fr.n, mu.n, d.rowSize) {
					return Discharged, false, "the hook receives exactly (row.offset, row.size) of the removed blob"
				}
				return Violated, false, "the handle is handed on with an extent other than (row.offset, row.size) of the removed blob"
			case "fd":
				return Undecided, false, "raw descriptor of a writable pack handle"
			}
			return Violated, false, "a pack opened writable is " + c03OpWord(mu.op) + " without a bound: bytes of other, acknowledged blobs are destroyed"
		case 'P':
			owner := prm.Parent()
			idx := c03ParamIndex(prm)
			uses := p.FuncValueUses(owner)
			callers := p.StaticCallers(owner)
			if len(uses) > 0 {
				for _, u := range uses {
					st, ok := u.(*ssa.Store)
					if ok {
						_, ok = st.Addr.(*ssa.Global)
					}
					if !ok {
						return Undecided, false, "the handle is a parameter of a function that is used as a value other than by installing it in a package-level hook variable"
					}
				}
				if len(callers) == 0 {
					return Discharged, true, "parameter of a function that is only installed in a package-level hook variable; the calls through that variable are classified with the handle and extent they pass"
				}
			}
			if len(callers) == 0 || depth > 1 {
				return Undecided, false, "the handle is a parameter and the callers are not followed"
			}
			worst, wt, wd := Discharged, true, fmt.Sprintf("classified at the %d call site(s) of %s", len(callers), FuncKey(owner))
			for _, cs := range callers {
				args := cs.Args()
				if idx >= len(args) {
					return Undecided, false, "call site does not pass the handle"
				}
				step := substFor(owner, args)
				sub := func(v ssa.Value) ssa.Value { return step(fr.sub(v)) }
				st, tb, dt := classify(mu, frame{cs.Instr, args[idx], step(fr.off), step(fr.n), step(fr.whence), sub}, depth+1)
				if st != Discharged {
					return st, false, "via the call at line " + fmt.Sprint(c03Line(p, cs.Pos())) + ": " + dt
				}
				if !tb {
					wt, wd = false, "at the call site(s) of "+FuncKey(owner)+": "+dt
				}
			}
			return worst, wt, wd
		}
		if mu.op == "seek" {
			return Discharged, true, "Seek on a handle that is neither storage.writer nor opened writable here"
		}
		return Undecided, false, "the origin of the *os.File that is " + c03OpWord(mu.op) + " cannot be determined"
	}

	nMut := 0
	for _, fn := range p.FuncsIn(c03PkgDP) {
		for _, mu := range c03Mutators(fn) {
			if cl, _, _ := c03HandleClass(d, mu.h); (cl == 'R' || cl == 'T' || cl == 'U') && mu.op == "seek" {
				continue // reader positioning
			}
			nMut++
			st, table, detail := classify(mu, frame{mu.c.Instr, mu.h, mu.off, mu.n, mu.whence, ident}, 0)
			construct := FuncKey(TopFunc(fn)) + "#" + mu.op + "#" + mu.c.CalleeKey()
			site := p.Pos(mu.c.Pos())
			switch {
			case st == Discharged && table:
				r.OKTable(rule, construct, site, detail)
			case st == Discharged:
				r.OK(rule, construct, site, detail)
			case st == Violated:
				r.Violation(rule, construct, site, detail)
			default:
				r.Undecided(rule, construct, site, detail)
			}
		}
	}
	r.Analysed("file_mutator_sites", nMut)

	// ---- (3) index rows are deleted only for the refs RemoveBlobs was given
	batch := p.Iface("pkg/sorted", "BatchMutation")
	nDel := 0
	for _, fn := range p.FuncsIn(c03PkgDP) {
		for _, c := range CallsIn(fn, false) {
			if !c.Common().IsInvoke() {
				continue
			}
			name := c.MethodName()
			isDel := name == "Delete" && (c.IsMethod(name, d.kv) || c.IsMethod(name, batch))
			isWipe := name == "Wipe" && c03HasMethod(c.Common().Value.Type(), "Wipe") && !isDel
			if !isDel && !isWipe {
				continue
			}
			nDel++
			construct := FuncKey(TopFunc(fn)) + "#index." + name
			site := p.Pos(c.Pos())
			top := TopFunc(fn)
			switch {
			case isWipe:
				r.Violation(rule, construct, site, "the index is wiped by the store itself: every acknowledged blob disappears from stat/fetch/enumerate until someone reindexes")
			case !c03OnlyReachedFrom(p, fn, isRemoval, 0):
				r.Violation(rule, construct, site, "an index row is deleted in a function that is not reached only from RemoveBlobs: an acknowledged, never removed blob disappears from stat/fetch/enumerate")
			default:
				// the key is String() of a ref that comes from the refs RemoveBlobs was given: directly, or through
				// the ref/refs parameters of helpers all of whose callers pass such refs
				isRefsParam := func(v ssa.Value) bool {
					prm, ok := v.(*ssa.Parameter)
					if !ok || !isRemoval(prm.Parent()) {
						return false
					}
					sl, ok := prm.Type().Underlying().(*types.Slice)
					return ok && IsNamed(sl.Elem(), "perkeep.org/pkg/blob", "Ref")
				}
				var fromRefs func(v ssa.Value, depth int) bool
				fromRefs = func(v ssa.Value, depth int) bool {
					return c03Depends(v, func(x ssa.Value) bool {
						if isRefsParam(x) {
							return true
						}
						prm, ok := x.(*ssa.Parameter)
						if !ok || depth > 2 || isRemoval(prm.Parent()) {
							return false
						}
						t := prm.Type()
						if sl, isSl := t.Underlying().(*types.Slice); isSl {
							t = sl.Elem()
						}
						if !IsNamed(t, "perkeep.org/pkg/blob", "Ref") {
							return false
						}
						return c03ForAllCallers(p, prm, 0, func(o ssa.Value) bool {
							if o == ssa.Value(prm) {
								return false
							}
							return fromRefs(o, depth+1)
						})
					})
				}
				key := c03CallIs(c.Args()[1], "perkeep.org/pkg/blob", "Ref", "String")
				ok := key != nil && fromRefs(key.Call.Args[0], 0)
				_ = top
				r.Check(ok, rule, construct, site,
					"the deleted key is String() of an element of the refs RemoveBlobs was asked to remove",
					"the deleted index key is not String() of one of the refs RemoveBlobs was asked to remove: another blob's row is lost")
			}
		}
	}
	if nDel == 0 {
		r.Violation(rule, c03PkgDP+"#index.Delete", p.Pos(d.recvFn.Pos()), "no index row deletion found in package diskpacked (RemoveBlobs must delete the rows of the blobs it removes)")
	}
}

func c03OpWord(op string) string {
	switch op {
	case "write", "write-n":
		return "written to"
	case "writeat":
		return "overwritten in place (WriteAt)"
	case "truncate":
		return "truncated"
	case "seek":
		return "repositioned (Seek)"
	case "fd":
		return "reduced to its raw descriptor"
	}
	return "handed on to code that can write"
}

// c03HandleEscapes: where else than into local calls and storage.writer a
// freshly opened handle goes ("" = nowhere).
func c03HandleEscapes(d *c03DPAnch, h ssa.Value) string {
	if h == nil || h.Referrers() == nil {
		return ""
	}
	for _, u := range *h.Referrers() {
		switch x := u.(type) {
		case *ssa.Store:
			if x.Val != h {
				continue
			}
			if fa, ok := x.Addr.(*ssa.FieldAddr); ok && fieldName(fa.X.Type(), fa.Field) == d.writerF {
				continue
			}
			if al, ok := x.Addr.(*ssa.Alloc); ok && plainVariable(al) {
				continue // a local variable; loads resolve back to h
			}
			return "is stored somewhere other than storage.writer"
		case *ssa.Return:
			return "is returned"
		case *ssa.MakeClosure:
			return "is captured by a function literal"
		case *ssa.Phi:
			return "merges with other values"
		}
	}
	return ""
}

// ===========================================================================
// Effective bodies
//
// A rule that looks for a site "in function F" looks in F's effective body: F
// plus, transitively, the unexported functions/methods of the same package and
// the function literals that F calls statically (call or defer; a go statement
// starts another thread of control and is not part of the body). Every static
// call that is followed creates a frame; a site is an instruction in a frame,
// so a helper called from two places contributes two sites. Values are
// followed across frames (a helper's parameter stands for the caller's
// argument, a followed call's result for the value every non-zero return
// yields); ordering and success facts are carried across the call:
//
//   - "A precedes B": at the frame where the call chains of A and B part, the
//     instruction leading to A precedes the one leading to B, and (when A lies
//     deeper) every return of the helper entered there is preceded by A;
//   - "A succeeded at B": likewise with success edges — the helper call's error
//     is known nil at B and inside the helper every return that may report
//     success (nil error; any return when it has no error result) is behind
//     the success edge of A (or returns A's own error).
//
// A deferred helper runs at the exit of the function that defers it: sites in
// it follow everything that precedes the defer statement and precede nothing.

type c03Frame struct {
	fn       *ssa.Function
	call     ssa.CallInstruction // the instruction of parent.fn that enters this frame (nil for the root)
	parent   *c03Frame
	depth    int
	deferred bool // this frame or one of its ancestors was entered by a defer statement
	kids     map[ssa.Instruction]*c03Frame
}

type c03Eff struct {
	p      *Program
	root   *c03Frame
	frames []*c03Frame
	byFn   map[*ssa.Function][]*c03Frame
}

const (
	c03EffDepth  = 5
	c03EffFrames = 4000
)

var c03EffCache = map[*ssa.Function]*c03Eff{}

// c03CacheGuard drops every cache of this file when another program is being
// analysed (selftest and the thorough tier load several programs in one
// process; keeping their functions alive would keep the programs alive).
var c03CachedProgram *Program

func c03CacheGuard(p *Program) {
	if c03CachedProgram == p {
		return
	}
	c03CachedProgram = p
	c03EffCache = map[*ssa.Function]*c03Eff{}
	c03RecvCache = map[*ssa.Function]*c03Recv{}
	c03PublishCache = map[*ssa.Function]*c03Publish{}
	c03DPCache = map[*ssa.Program]*c03DPAnch{}
	c03InvokeCache = map[*ssa.Function]int{}
}

// c03EffOf builds (once) the effective body of fn.
func c03EffOf(p *Program, fn *ssa.Function) *c03Eff {
	c03CacheGuard(p)
	if e, ok := c03EffCache[fn]; ok {
		return e
	}
	e := &c03Eff{p: p, byFn: map[*ssa.Function][]*c03Frame{}}
	e.root = &c03Frame{fn: fn, kids: map[ssa.Instruction]*c03Frame{}}
	e.build(e.root)
	c03EffCache[fn] = e
	return e
}

// expandable: the callee of ci that belongs to the effective body (nil if none).
func (e *c03Eff) expandable(fr *c03Frame, ci ssa.CallInstruction) *ssa.Function {
	if _, isGo := ci.(*ssa.Go); isGo {
		return nil
	}
	callee := (CallSite{fr.fn, ci}).Callee()
	if callee == nil || len(callee.Blocks) == 0 {
		return nil
	}
	top, rtop := TopFunc(callee), TopFunc(e.root.fn)
	if top.Pkg == nil || top.Pkg != rtop.Pkg {
		return nil
	}
	if callee.Parent() == nil && (callee.Synthetic != "" || token.IsExported(callee.Name())) {
		return nil
	}
	for a := fr; a != nil; a = a.parent {
		if a.fn == callee {
			return nil // recursion: the body is already there
		}
	}
	return callee
}

func (e *c03Eff) build(fr *c03Frame) {
	e.frames = append(e.frames, fr)
	e.byFn[fr.fn] = append(e.byFn[fr.fn], fr)
	if fr.depth >= c03EffDepth || len(e.frames) > c03EffFrames {
		return
	}
	for _, c := range CallsIn(fr.fn, false) {
		callee := e.expandable(fr, c.Instr)
		if callee == nil {
			continue
		}
		_, isDefer := c.Instr.(*ssa.Defer)
		kid := &c03Frame{fn: callee, call: c.Instr, parent: fr, depth: fr.depth + 1, deferred: fr.deferred || isDefer, kids: map[ssa.Instruction]*c03Frame{}}
		fr.kids[c.Instr] = kid
		e.build(kid)
	}
}

// funcs lists the functions of the effective body; with deep, also the
// function literals nested in them (whether or not they are called).
func (e *c03Eff) funcs(deep bool) []*ssa.Function {
	seen := map[*ssa.Function]bool{}
	var out []*ssa.Function
	var add func(f *ssa.Function)
	add = func(f *ssa.Function) {
		if seen[f] {
			return
		}
		seen[f] = true
		out = append(out, f)
		if deep {
			for _, a := range f.AnonFuncs {
				add(a)
			}
		}
	}
	for _, fr := range e.frames {
		add(fr.fn)
	}
	return out
}

// has: fn (or, lexically, the function it is nested in) is part of the body.
func (e *c03Eff) has(fn *ssa.Function) bool {
	for f := fn; f != nil; f = f.Parent() {
		if len(e.byFn[f]) > 0 {
			return true
		}
	}
	return false
}

// A c03Site is an instruction in one frame of an effective body.
type c03Site struct {
	fr *c03Frame
	in ssa.Instruction
}

func (s c03Site) valid() bool { return s.fr != nil && s.in != nil }

func (s c03Site) call() CallSite {
	ci, _ := s.in.(ssa.CallInstruction)
	return CallSite{s.fr.fn, ci}
}

// value returns the *ssa.Call of a call site (nil for go/defer and non-calls).
func (s c03Site) value() *ssa.Call { v, _ := s.in.(*ssa.Call); return v }

func (s c03Site) chain() []c03Site {
	var rev []c03Site
	rev = append(rev, s)
	for fr := s.fr; fr.parent != nil; fr = fr.parent {
		rev = append(rev, c03Site{fr.parent, fr.call})
	}
	for i, j := 0, len(rev)-1; i < j; i, j = i+1, j-1 {
		rev[i], rev[j] = rev[j], rev[i]
	}
	return rev
}

// calls lists the call instructions of all frames (with deferred, also of the
// frames that run deferred). Calls that are themselves followed are included;
// kid() tells them apart.
func (e *c03Eff) calls(deferred bool) []c03Site {
	var out []c03Site
	for _, fr := range e.frames {
		if fr.deferred && !deferred {
			continue
		}
		for _, c := range CallsIn(fr.fn, false) {
			out = append(out, c03Site{fr, c.Instr})
		}
	}
	return out
}

// kid: the frame entered by the call at s (nil when the call is not followed).
func (e *c03Eff) kid(s c03Site) *c03Frame {
	if s.fr == nil {
		return nil
	}
	return s.fr.kids[s.in]
}

// sitesOf lists the sites of instruction in (one per frame of its function).
func (e *c03Eff) sitesOf(in ssa.Instruction) []c03Site {
	var out []c03Site
	for _, fr := range e.byFn[in.Parent()] {
		out = append(out, c03Site{fr, in})
	}
	return out
}

func c03IsDeferOrGo(in ssa.Instruction) bool {
	switch in.(type) {
	case *ssa.Defer, *ssa.Go:
		return true
	}
	return false
}

// c03SuccDom is SuccessDominates, with a path-sensitive second attempt for
// error chaining (`err = a(); if err == nil { err = b() }; if err != nil {
// return }`): there the call b does not dominate what follows and its error is
// tested through a phi, but on every path on which the test lets control
// through, b has run and returned nil.
func c03SuccDom(c *ssa.Call, s ssa.Instruction) (bool, string) {
	ok, why := SuccessDominates(c, s)
	if c.Parent() != s.Parent() {
		return ok, why
	}
	all, refuted := c03SucceededOnAllPaths(c, s)
	if ok {
		// SuccessDominates accepts a nil test of a phi that merges the call's error with other values; a
		// path on which the error is known non-nil and the site is reached anyway (the error variable was
		// reset) refutes it
		if refuted {
			return false, "the call's error is non-nil on a path that reaches the site (the error variable is overwritten before it is tested)"
		}
		return true, ""
	}
	if all {
		return true, ""
	}
	return false, why
}

// c03SucceededOnAllPaths explores every CFG path from the function's entry to
// instruction s, following only feasible branches as far as the nil-ness of the
// call's error value (and of the phis it flows into) decides them, and reports
// whether on each of them the call has executed and its error is nil at s.
func c03SucceededOnAllPaths(c *ssa.Call, s ssa.Instruction) (all, refuted bool) {
	ev, hasErr, discarded := ErrValue(c)
	if !hasErr || discarded || ev == nil {
		return false, false
	}
	fn := c.Parent()
	if len(fn.Blocks) == 0 || len(fn.Blocks) > 400 {
		return false, false
	}
	// tracked values: the error, the phis it (transitively) flows into, and what else those phis merge
	tracked := map[ssa.Value]int{ev: 0}
	order := []ssa.Value{ev}
	for changed := true; changed; {
		changed = false
		for _, b := range fn.Blocks {
			for _, in := range b.Instrs {
				ph, ok := in.(*ssa.Phi)
				if !ok {
					break
				}
				if _, have := tracked[ph]; have {
					// the other values the phi merges are tracked too: a branch on one of them decides
					// which way the phi's own test can go
					for _, e := range ph.Edges {
						if _, t := tracked[e]; !t {
							if _, isConst := e.(*ssa.Const); !isConst {
								tracked[e] = len(order)
								order = append(order, e)
								changed = true
							}
						}
					}
					continue
				}
				for _, e := range ph.Edges {
					if _, t := tracked[e]; t {
						tracked[ph] = len(order)
						order = append(order, ph)
						changed = true
						break
					}
				}
			}
		}
	}
	if len(order) > 12 {
		return false, false
	}
	const (
		unknown = 0
		isNil   = 1
		nonNil  = 2
	)
	type state struct {
		passed bool
		st     [12]int8 // nil-ness of each tracked value
		alias  [12]int8 // for a phi: index of the tracked value it took on this path (-1: an untracked one)
	}
	// setNil records a refinement and propagates it along the alias chain
	var setNil func(sv *state, i int, v int8)
	setNil = func(sv *state, i int, v int8) {
		for n := 0; n < 12 && i >= 0; n++ {
			sv.st[i] = v
			i = int(sv.alias[i])
		}
	}
	type key struct {
		b    *ssa.BasicBlock
		from int
		s    state
	}
	seen := map[key]bool{}
	okAll, aborted, counter := true, false, false
	steps := 0
	var walk func(b *ssa.BasicBlock, pred *ssa.BasicBlock, sv state)
	walk = func(b *ssa.BasicBlock, pred *ssa.BasicBlock, sv state) {
		if aborted {
			return
		}
		if pred != nil && b.Dominates(pred) {
			// a back edge: what an earlier iteration established does not count for this one
			sv = state{}
			for i := range sv.alias {
				sv.alias[i] = -1
			}
		}
		steps++
		if steps > 20000 {
			okAll, aborted = false, true
			return
		}
		pi := -1
		for i, p := range b.Preds {
			if p == pred {
				pi = i
			}
		}
		k := key{b, pi, sv}
		if seen[k] {
			return
		}
		seen[k] = true
		for _, in := range b.Instrs {
			if in == s {
				if !(sv.passed && sv.st[0] == isNil) {
					okAll = false
				}
				if sv.passed && sv.st[0] == nonNil {
					counter = true
				}
				return
			}
			switch x := in.(type) {
			case *ssa.Phi:
				if i, t := tracked[x]; t && pi >= 0 {
					sv.alias[i], sv.st[i] = -1, unknown
					e := x.Edges[pi]
					if j, tj := tracked[e]; tj {
						sv.alias[i], sv.st[i] = int8(j), sv.st[j]
					} else if IsNilConst(e) {
						sv.st[i] = isNil
					} else if isNonNilErrorExpr(e) {
						sv.st[i] = nonNil
					}
				}
			case *ssa.Call:
				if x == c {
					sv.passed = true
					sv.st[0], sv.alias[0] = unknown, -1
				}
			case *ssa.Return, *ssa.Panic:
				return
			case *ssa.If:
				// a nil test of a tracked value?
				cond, neg := x.Cond, false
				for {
					if u, ok := cond.(*ssa.UnOp); ok && u.Op == token.NOT {
						cond, neg = u.X, !neg
						continue
					}
					break
				}
				ti := -1
				eq := false
				if bo, ok := cond.(*ssa.BinOp); ok && (bo.Op == token.EQL || bo.Op == token.NEQ) {
					var other ssa.Value
					if IsNilConst(bo.Y) {
						other = bo.X
					} else if IsNilConst(bo.X) {
						other = bo.Y
					}
					if other != nil {
						if i, t := tracked[other]; t {
							ti, eq = i, (bo.Op == token.EQL) != neg
						}
					}
				}
				if ti < 0 || len(b.Succs) != 2 {
					for _, sc := range b.Succs {
						walk(sc, b, sv)
					}
					return
				}
				// Succs[0] is taken when cond is true: the value is nil iff eq
				for si, sc := range b.Succs {
					nilHere := (si == 0) == eq
					if sv.st[ti] == isNil && !nilHere || sv.st[ti] == nonNil && nilHere {
						continue // infeasible
					}
					nv := sv
					if nilHere {
						setNil(&nv, ti, isNil)
					} else {
						setNil(&nv, ti, nonNil)
					}
					walk(sc, b, nv)
				}
				return
			}
		}
		for _, sc := range b.Succs {
			walk(sc, b, sv)
		}
	}
	var init state
	for i := range init.alias {
		init.alias[i] = -1
	}
	walk(fn.Blocks[0], nil, init)
	// s must be reachable at all for the claim to mean something
	reached := false
	for k := range seen {
		if k.b == s.Block() {
			reached = true
		}
	}
	return okAll && reached, counter && !aborted
}

// order decides "a precedes b" (success=false) or "a, a call, has succeeded at
// b" (success=true) across frames.
func (e *c03Eff) order(a, b c03Site, success bool) (bool, string) {
	if !a.valid() || !b.valid() {
		return false, "site not in the effective body"
	}
	ca, cb := a.chain(), b.chain()
	i := 0
	for i < len(ca)-1 && i < len(cb)-1 && ca[i].in == cb[i].in {
		i++
	}
	if ca[i].fr != cb[i].fr {
		return false, "sites are not comparable"
	}
	x, y := ca[i].in, cb[i].in
	if x == y {
		return false, "the site is the call itself"
	}
	if c03IsDeferOrGo(x) {
		return false, "the call runs deferred (at function exit) or in another goroutine"
	}
	if i == len(ca)-1 {
		if !success {
			if Precedes(x, y) {
				return true, ""
			}
			return false, "call does not dominate the site"
		}
		xc, ok := x.(*ssa.Call)
		if !ok {
			return false, "not a call"
		}
		return c03SuccDom(xc, y)
	}
	// x enters the helper that contains a
	var yield *bool
	if success {
		xc, ok := x.(*ssa.Call)
		if !ok {
			return false, "not a call"
		}
		if ok, why := c03SuccDom(xc, y); !ok {
			return false, "helper " + FuncKey(ca[i+1].fr.fn) + ": " + why
		}
		// a predicate helper: only the returns that yield the boolean known at the site matter
		if res := xc.Call.Signature().Results(); res.Len() == 1 {
			if b, isB := res.At(0).Type().Underlying().(*types.Basic); isB && b.Kind() == types.Bool {
				for _, f := range FactsAt(y.Block()) {
					c, v := f.Cond, f.Val
					for {
						if u, ok := c.(*ssa.UnOp); ok && u.Op == token.NOT {
							c, v = u.X, !v
							continue
						}
						break
					}
					if originValue(c) == ssa.Value(xc) {
						v := v
						yield = &v
					}
				}
			}
		}
	} else if !Precedes(x, y) {
		return false, "the call of helper " + FuncKey(ca[i+1].fr.fn) + " does not dominate the site"
	}
	return e.summaryY(ca[i+1:], success, yield)
}

// c03YieldingExits: the points (a return, or the end of the predecessor block
// feeding a phi) at which a one-result boolean helper is about to return val.
func c03YieldingExits(fn *ssa.Function, val bool) []ssa.Instruction {
	var out []ssa.Instruction
	var visit func(x ssa.Value, at ssa.Instruction, depth int)
	visit = func(x ssa.Value, at ssa.Instruction, depth int) {
		switch t := x.(type) {
		case *ssa.Const:
			if t.Value != nil && t.Value.Kind() == constant.Bool && constant.BoolVal(t.Value) != val {
				return
			}
		case *ssa.Phi:
			if depth < 6 {
				for j, edge := range t.Edges {
					visit(edge, c03Last(t.Block().Preds[j]), depth+1)
				}
				return
			}
		}
		out = append(out, at)
	}
	for _, ri := range Returns(fn) {
		if len(ri.Results) == 1 {
			visit(ri.Results[0], ri.Ret, 0)
		} else {
			out = append(out, ri.Ret)
		}
	}
	return out
}

func (e *c03Eff) summary(rest []c03Site, success bool) (bool, string) {
	return e.summaryY(rest, success, nil)
}

// summary: every return of the helper rest[0].fr.fn (with success: every return
// that may report success) lies behind rest's target.
func (e *c03Eff) summaryY(rest []c03Site, success bool, yield *bool) (bool, string) {
	fr, x := rest[0].fr, rest[0].in
	if c03IsDeferOrGo(x) {
		return false, "inside helper " + FuncKey(fr.fn) + " the call runs deferred or in another goroutine"
	}
	xc, _ := x.(*ssa.Call)
	deeper := func() (bool, string) {
		if len(rest) > 1 {
			return e.summary(rest[1:], success)
		}
		return true, ""
	}
	local := func(at ssa.Instruction) (bool, string) {
		if success {
			if xc == nil {
				return false, "not a call"
			}
			if ok, why := c03SuccDom(xc, at); !ok {
				return false, why
			}
		} else if !Precedes(x, at) {
			return false, "call does not dominate the return"
		}
		return deeper()
	}
	line := func(pos token.Pos) string { return fmt.Sprint(c03Line(e.p, pos)) }
	if success && ErrResultIndex(fr.fn) >= 0 {
		for _, nr := range e.maybeNilReturns(fr) {
			at := ssa.Instruction(nr.Ret)
			if nr.From != nil && nr.From != nr.Ret.Block() {
				at = c03Last(nr.From)
			}
			ok, why := local(at)
			if ok {
				continue
			}
			// the helper returns the inner call's own error
			if xc != nil {
				if ev, has, _ := ErrValue(xc); has && ev != nil && originValue(nr.Val) == originValue(ev) {
					if ok2, _ := deeper(); ok2 {
						continue
					}
				}
			}
			return false, "helper " + FuncKey(fr.fn) + " may report success at line " + line(nr.Ret.Pos()) + " without it (" + why + ")"
		}
		return true, ""
	}
	if yield != nil {
		for _, at := range c03YieldingExits(fr.fn, *yield) {
			if ok, why := local(at); !ok {
				return false, fmt.Sprintf("helper %s can return %v at line %s without it (%s)", FuncKey(fr.fn), *yield, line(at.Pos()), why)
			}
		}
		return true, ""
	}
	for _, ri := range Returns(fr.fn) {
		if ok, why := local(ri.Ret); !ok {
			return false, "helper " + FuncKey(fr.fn) + " can return at line " + line(ri.Ret.Pos()) + " without it (" + why + ")"
		}
	}
	return true, ""
}

func (e *c03Eff) precedes(a, b c03Site) bool { ok, _ := e.order(a, b, false); return ok }

func (e *c03Eff) succDom(a, b c03Site) (bool, string) { return e.order(a, b, true) }

// maybeNilReturns lists the returns of frame fr's function whose error may be
// nil. Beyond MaybeNilErrorReturns, an error operand that is the result of a
// followed helper is resolved to what the helper returns: a helper that hands
// back its (non-nil) error argument or a freshly made error does not make the
// return a success return.
func (e *c03Eff) maybeNilReturns(fr *c03Frame) []NilReturn {
	var out []NilReturn
	for _, nr := range MaybeNilErrorReturns(fr.fn) {
		blk := nr.Ret.Block()
		if nr.From != nil {
			blk = nr.From
		}
		if e.knownNonNil(c03Val{fr, nr.Val}, blk, 0) {
			continue
		}
		out = append(out, nr)
	}
	return out
}

// knownNonNil: the error value v (of frame v.fr; blk is the block of v.fr.fn at
// which it is used) is known not to be nil.
func (e *c03Eff) knownNonNil(v c03Val, blk *ssa.BasicBlock, depth int) bool {
	if v.v == nil || IsNilConst(v.v) || depth > 4 {
		return false
	}
	if isNonNilErrorExpr(v.v) {
		return true
	}
	if blk != nil && blk.Parent() == c03ValueFn(v.v) || blk != nil && c03ValueFn(v.v) == nil {
		if k, isNil := NilFact(blk, v.v); k && !isNil {
			return true
		}
	}
	o := originValue(v.v)
	var call *ssa.Call
	idx := 0
	switch t := o.(type) {
	case *ssa.Extract:
		call, _ = t.Tuple.(*ssa.Call)
		idx = t.Index
	case *ssa.Call:
		call = t
	case *ssa.Parameter:
		// a helper's error parameter: non-nil if the argument is, at the call
		if v.fr != nil && v.fr.fn == t.Parent() && v.fr.call != nil {
			if i := c03ParamIndex(t); i >= 0 && i < len(v.fr.call.Common().Args) {
				return e.knownNonNil(c03Val{v.fr.parent, v.fr.call.Common().Args[i]}, v.fr.call.Block(), depth+1)
			}
		}
		return false
	}
	if call == nil || v.fr == nil {
		return false
	}
	kid := v.fr.kids[call]
	if kid == nil {
		return false
	}
	for _, ri := range Returns(kid.fn) {
		if idx >= len(ri.Results) || !e.knownNonNil(c03Val{kid, ri.Results[idx]}, ri.Ret.Block(), depth+1) {
			return false
		}
	}
	return true
}

// ---- values across frames

type c03Val struct {
	fr *c03Frame
	v  ssa.Value
}

// c03ValueFn: the function a value lives in (nil for constants, globals, functions).
func c03ValueFn(v ssa.Value) *ssa.Function {
	switch x := v.(type) {
	case *ssa.Parameter:
		return x.Parent()
	case *ssa.FreeVar:
		return x.Parent()
	case ssa.Instruction:
		return x.Parent()
	}
	return nil
}

// frameOf relocates to the enclosing frame that owns v (a value reached through
// a captured variable lives in the function that declares the variable).
func (e *c03Eff) frameOf(fr *c03Frame, v ssa.Value) *c03Frame {
	own := c03ValueFn(v)
	if own == nil || fr == nil || fr.fn == own {
		return fr
	}
	for a := fr.parent; a != nil; a = a.parent {
		if a.fn == own {
			return a
		}
	}
	return fr
}

func c03IsZeroConst(v ssa.Value) bool {
	c, ok := v.(*ssa.Const)
	if !ok {
		return false
	}
	if c.Value == nil {
		return true
	}
	switch c.Value.Kind() {
	case constant.Bool:
		return !constant.BoolVal(c.Value)
	case constant.String:
		return constant.StringVal(c.Value) == ""
	case constant.Int, constant.Float:
		return constant.Sign(c.Value) == 0
	}
	return false
}

// origin resolves a value as far as it can be named: through originValue, from
// a helper's parameter to the caller's argument, and (descend) from the result
// of a followed call to the value all its non-zero returns yield.
func (e *c03Eff) origin(x c03Val, descend bool) c03Val {
	for i := 0; i < 48 && x.v != nil; i++ {
		v := originValue(x.v)
		x = c03Val{e.frameOf(x.fr, v), v}
		switch t := v.(type) {
		case *ssa.Parameter:
			if x.fr != nil && x.fr.fn == t.Parent() && x.fr.call != nil {
				idx := c03ParamIndex(t)
				args := x.fr.call.Common().Args
				if idx >= 0 && idx < len(args) {
					x = c03Val{x.fr.parent, args[idx]}
					continue
				}
			}
			return x
		case *ssa.Extract:
			if descend {
				if y, ok := e.resultOf(x.fr, t.Tuple, t.Index); ok {
					x = y
					continue
				}
			}
			return x
		case *ssa.Call:
			if descend && t.Call.Signature().Results().Len() == 1 {
				if y, ok := e.resultOf(x.fr, t, 0); ok {
					x = y
					continue
				}
			}
			return x
		case *ssa.UnOp:
			// a struct variable whose fields are read in place (so go/ssa keeps it in memory) but which is
			// assigned as a whole exactly once
			if t.Op == token.MUL {
				if al, ok := t.X.(*ssa.Alloc); ok {
					if sv := c03SoleStructStore(al); sv != nil {
						x = c03Val{x.fr, sv}
						continue
					}
				}
			}
			return x
		default:
			return x
		}
	}
	return x
}

// c03SoleStructStore: the value of a local struct variable that is stored as a
// whole exactly once, never through its fields, and whose address is used only
// to load it or its fields. nil otherwise.
func c03SoleStructStore(al *ssa.Alloc) ssa.Value {
	if _, isStruct := al.Type().Underlying().(*types.Pointer).Elem().Underlying().(*types.Struct); !isStruct {
		return nil
	}
	refs := al.Referrers()
	if refs == nil {
		return nil
	}
	var val ssa.Value
	for _, u := range *refs {
		switch x := u.(type) {
		case *ssa.DebugRef:
		case *ssa.UnOp:
			if x.Op != token.MUL {
				return nil
			}
		case *ssa.Store:
			if x.Addr != ssa.Value(al) || val != nil {
				return nil
			}
			val = x.Val
		case *ssa.FieldAddr:
			if fr := x.Referrers(); fr != nil {
				for _, fu := range *fr {
					switch y := fu.(type) {
					case *ssa.DebugRef:
					case *ssa.UnOp:
						if y.Op != token.MUL {
							return nil
						}
					default:
						return nil
					}
				}
			}
		default:
			return nil
		}
	}
	return val
}

// resultOf: the value result idx of the followed call has, when every return of
// the helper that does not yield the zero value yields the same one.
func (e *c03Eff) resultOf(fr *c03Frame, tuple ssa.Value, idx int) (c03Val, bool) {
	call, ok := tuple.(*ssa.Call)
	if !ok || fr == nil {
		return c03Val{}, false
	}
	kid := fr.kids[call]
	if kid == nil {
		return c03Val{}, false
	}
	var got *c03Val
	for _, ri := range Returns(kid.fn) {
		if idx >= len(ri.Results) {
			return c03Val{}, false
		}
		rv := ri.Results[idx]
		if c03IsZeroConst(rv) {
			continue
		}
		o := e.origin(c03Val{kid, rv}, true)
		if got == nil {
			got = &o
		} else if got.v != o.v || got.fr != o.fr {
			return c03Val{}, false
		}
	}
	if got == nil {
		return c03Val{}, false
	}
	return *got, true
}

// same: the two values denote the same run-time value.
func (e *c03Eff) same(a, b c03Val) bool {
	if a.v == nil || b.v == nil {
		return false
	}
	oa, ob := e.origin(a, true), e.origin(b, true)
	if oa.v == ob.v && (oa.fr == ob.fr || c03ValueFn(oa.v) == nil) {
		return true
	}
	return oa.fr == ob.fr && sameOrigin(oa.v, ob.v)
}

// depends is c03Depends across frames: the backward slice of x (operands,
// stores into local variables and composites, caller's arguments for
// parameters, returned values for followed calls) contains a value satisfying target.
func (e *c03Eff) depends(x c03Val, target func(c03Val) bool) bool {
	type key struct {
		fr *c03Frame
		v  ssa.Value
	}
	seen := map[key]bool{}
	var walk func(x c03Val, d int) bool
	walk = func(x c03Val, d int) bool {
		if x.v == nil || d > 90 {
			return false
		}
		x.fr = e.frameOf(x.fr, x.v)
		k := key{x.fr, x.v}
		if seen[k] {
			return false
		}
		seen[k] = true
		if target(x) {
			return true
		}
		switch t := x.v.(type) {
		case *ssa.Parameter:
			if x.fr != nil && x.fr.fn == t.Parent() && x.fr.call != nil {
				idx := c03ParamIndex(t)
				if args := x.fr.call.Common().Args; idx >= 0 && idx < len(args) {
					return walk(c03Val{x.fr.parent, args[idx]}, d+1)
				}
			}
			return false
		case *ssa.UnOp:
			if t.Op == token.MUL {
				if al := c03RootAlloc(t.X); al != nil {
					for _, st := range c03StoresInto(al) {
						if walk(c03Val{x.fr, st.Val}, d+1) {
							return true
						}
					}
				}
				if cell, ok := varOf(t.X); ok {
					for _, st := range storesTo(cell) {
						if walk(c03Val{x.fr, st.Val}, d+1) {
							return true
						}
					}
				}
			}
		case *ssa.Slice:
			if al := c03RootAlloc(t.X); al != nil {
				for _, st := range c03StoresInto(al) {
					if walk(c03Val{x.fr, st.Val}, d+1) {
						return true
					}
				}
			}
		case *ssa.Extract:
			if call, ok := t.Tuple.(*ssa.Call); ok && x.fr != nil {
				if kid := x.fr.kids[call]; kid != nil {
					for _, ri := range Returns(kid.fn) {
						if t.Index < len(ri.Results) && walk(c03Val{kid, ri.Results[t.Index]}, d+1) {
							return true
						}
					}
				}
			}
		case *ssa.Call:
			if x.fr != nil {
				if kid := x.fr.kids[t]; kid != nil && t.Call.Signature().Results().Len() == 1 {
					for _, ri := range Returns(kid.fn) {
						if len(ri.Results) == 1 && walk(c03Val{kid, ri.Results[0]}, d+1) {
							return true
						}
					}
				}
			}
		}
		if in, ok := x.v.(ssa.Instruction); ok {
			for _, op := range in.Operands(nil) {
				if *op != nil && walk(c03Val{x.fr, *op}, d+1) {
					return true
				}
			}
		}
		return false
	}
	return walk(x, 0)
}

// envOf renders a frame chain as the parameter environment of the linear forms.
func (e *c03Eff) envOf(fr *c03Frame) *c03Env {
	if fr == nil || fr.call == nil {
		return nil
	}
	env := &c03Env{m: map[*ssa.Parameter]ssa.Value{}, up: e.envOf(fr.parent)}
	args := fr.call.Common().Args
	for i, prm := range fr.fn.Params {
		if i < len(args) {
			env.m[prm] = args[i]
		}
	}
	return env
}

// ---- facts across frames

type c03Fact struct {
	fr   *c03Frame
	cond ssa.Value
	val  bool
}

// factsAt lists the branch conditions known at a site: those of its own
// function, those known at the call sites up its call chain, and — for a
// condition that is the boolean result of a followed helper — the conditions
// known at every return of the helper that may yield that result.
func (e *c03Eff) factsAt(s c03Site) []c03Fact {
	var out []c03Fact
	for _, lv := range s.chain() {
		for _, f := range FactsAt(lv.in.Block()) {
			out = append(out, e.expandFact(lv.fr, f.Cond, f.Val, 0)...)
		}
	}
	return out
}

func (e *c03Eff) expandFact(fr *c03Frame, cond ssa.Value, val bool, depth int) []c03Fact {
	out := []c03Fact{{fr, cond, val}}
	c := cond
	for {
		if u, ok := c.(*ssa.UnOp); ok && u.Op == token.NOT {
			c, val = u.X, !val
			continue
		}
		break
	}
	if c != cond {
		out = append(out, c03Fact{fr, c, val})
	}
	if depth > 3 || fr == nil {
		return out
	}
	// err == nil for the error result of a followed helper: what is known at every return of the helper
	// that may report success
	if b, ok := c.(*ssa.BinOp); ok && (b.Op == token.EQL || b.Op == token.NEQ) && (IsNilConst(b.X) || IsNilConst(b.Y)) && (b.Op == token.EQL) == val {
		other := b.X
		if IsNilConst(b.X) {
			other = b.Y
		}
		var hc *ssa.Call
		switch t := originValue(other).(type) {
		case *ssa.Call:
			hc = t
		case *ssa.Extract:
			hc, _ = t.Tuple.(*ssa.Call)
		}
		if hc != nil {
			if kid := fr.kids[hc]; kid != nil {
				if ev, has, _ := ErrValue(hc); has && ev != nil && originValue(ev) == originValue(other) {
					var sets [][]c03Fact
					for _, nr := range e.maybeNilReturns(kid) {
						blk := nr.Ret.Block()
						var set []c03Fact
						if nr.From != nil && nr.From != blk {
							blk = nr.From
							if ifi, ok := c03Last(blk).(*ssa.If); ok && len(blk.Succs) == 2 && blk.Succs[0] != blk.Succs[1] {
								for si, s := range blk.Succs {
									if s == nr.Ret.Block() || s.Dominates(nr.Ret.Block()) {
										set = append(set, e.expandFact(kid, ifi.Cond, si == 0, depth+1)...)
										break
									}
								}
							}
						}
						for _, f := range FactsAt(blk) {
							set = append(set, e.expandFact(kid, f.Cond, f.Val, depth+1)...)
						}
						sets = append(sets, set)
					}
					out = append(out, c03CommonFacts(sets)...)
				}
			}
		}
		return out
	}
	call, ok := originValue(c).(*ssa.Call)
	if !ok {
		return out
	}
	kid := fr.kids[call]
	if kid == nil {
		return out
	}
	res := call.Call.Signature().Results()
	if res.Len() != 1 {
		return out
	}
	if b, ok := res.At(0).Type().Underlying().(*types.Basic); !ok || b.Kind() != types.Bool {
		return out
	}
	var sets [][]c03Fact
	for _, ri := range Returns(kid.fn) {
		if len(ri.Results) != 1 {
			return out
		}
		sets = append(sets, e.mayYield(kid, ri.Results[0], ri.Ret.Block(), nil, val, depth)...)
	}
	return append(out, c03CommonFacts(sets)...)
}

// c03CommonFacts: the facts present in every set.
func c03CommonFacts(sets [][]c03Fact) []c03Fact {
	var out []c03Fact
	if len(sets) == 0 {
		return nil
	}
	for _, f := range sets[0] {
		all := true
		for _, s := range sets[1:] {
			found := false
			for _, g := range s {
				if g.fr == f.fr && g.cond == f.cond && g.val == f.val {
					found = true
					break
				}
			}
			if !found {
				all = false
				break
			}
		}
		if all {
			out = append(out, f)
		}
	}
	return out
}

// mayYield: for a helper's returned boolean x (evaluated on the way to block
// blk), the fact sets of the ways in which it may equal val.
func (e *c03Eff) mayYield(kid *c03Frame, x ssa.Value, blk *ssa.BasicBlock, extra []c03Fact, val bool, depth int) [][]c03Fact {
	base := append([]c03Fact{}, extra...)
	for _, f := range FactsAt(blk) {
		base = append(base, e.expandFact(kid, f.Cond, f.Val, depth+1)...)
	}
	switch t := x.(type) {
	case *ssa.Const:
		if t.Value != nil && t.Value.Kind() == constant.Bool && constant.BoolVal(t.Value) == val {
			return [][]c03Fact{base}
		}
		return nil
	case *ssa.Phi:
		if depth > 5 {
			return [][]c03Fact{nil}
		}
		var sets [][]c03Fact
		pb := t.Block()
		for j, edge := range t.Edges {
			pred := pb.Preds[j]
			var ef []c03Fact
			if ifi, ok := c03Last(pred).(*ssa.If); ok && len(pred.Succs) == 2 && pred.Succs[0] != pred.Succs[1] {
				ef = e.expandFact(kid, ifi.Cond, pb == pred.Succs[0], depth+1)
			}
			sets = append(sets, e.mayYield(kid, edge, pred, ef, val, depth+1)...)
		}
		return sets
	}
	return [][]c03Fact{append(base, e.expandFact(kid, x, val, depth+1)...)}
}

// boolCallFact: a call satisfying pred is known to have returned val at s.
func (e *c03Eff) boolCallFact(s c03Site, pred func(CallSite) bool) (known, val bool, call c03Site) {
	for _, f := range e.factsAt(s) {
		if c, ok := originValue(f.cond).(*ssa.Call); ok {
			fr := e.frameOf(f.fr, c)
			cs := CallSite{c.Parent(), c}
			if pred(cs) {
				return true, f.val, c03Site{fr, c}
			}
		}
	}
	return false, false, c03Site{}
}

// ---- success exits reachable after a site

// successAfter: once control has reached s, a return of the root that may
// report success (nil error) can still be reached. line names such a return.
func (e *c03Eff) successAfter(s c03Site) (bool, int) {
	return e.successFrom(s.fr, s.in, nil)
}

func (e *c03Eff) successFrom(fr *c03Frame, at ssa.Instruction, nonNil ssa.Value) (bool, int) {
	hasErr := ErrResultIndex(fr.fn) >= 0
	visited := map[*ssa.BasicBlock]bool{}
	var rets []*ssa.Return
	var walk func(b *ssa.BasicBlock, from int)
	walk = func(b *ssa.BasicBlock, from int) {
		for i := from; i < len(b.Instrs); i++ {
			switch t := b.Instrs[i].(type) {
			case *ssa.Return:
				rets = append(rets, t)
				return
			case *ssa.Panic:
				return
			case *ssa.If:
				if nonNil != nil {
					if k, nilWhenTrue := condSaysNil(t.Cond, true, nonNil); k {
						s := b.Succs[0]
						if nilWhenTrue {
							s = b.Succs[1]
						}
						if !visited[s] {
							visited[s] = true
							walk(s, 0)
						}
						return
					}
				}
			}
		}
		for _, s := range b.Succs {
			if !visited[s] {
				visited[s] = true
				walk(s, 0)
			}
		}
	}
	start := at.Block()
	walk(start, instrIndex(at)+1)
	anySuccess, anyFail := false, false
	line := 0
	var maybe []NilReturn
	if hasErr {
		maybe = e.maybeNilReturns(fr)
	}
	idx := ErrResultIndex(fr.fn)
	for _, ret := range rets {
		if !hasErr {
			anySuccess, line = true, c03Line(e.p, ret.Pos())
			continue
		}
		ok := false
		for _, nr := range maybe {
			if nr.Ret != ret {
				continue
			}
			if nonNil != nil && sameOrigin(nr.Val, nonNil) {
				continue
			}
			if nr.From == nil || nr.From == ret.Block() || visited[nr.From] || nr.From == start {
				ok = true
			}
		}
		_ = idx
		if ok {
			anySuccess, line = true, c03Line(e.p, ret.Pos())
		} else {
			anyFail = true
		}
	}
	if fr.parent == nil {
		return anySuccess, line
	}
	if fr.deferred {
		return true, c03Line(e.p, at.Pos()) // the enclosing function's own exits are not followed from a deferred call
	}
	if anySuccess {
		if ok, ln := e.successFrom(fr.parent, fr.call, nil); ok {
			return true, ln
		}
	}
	if anyFail {
		var ev ssa.Value
		if c, ok := fr.call.(*ssa.Call); ok {
			ev, _, _ = ErrValue(c)
		}
		if ok, ln := e.successFrom(fr.parent, fr.call, ev); ok {
			return true, ln
		}
	}
	return false, 0
}

// ---- callers (context-free): who-may rules

var c03InvokeCache = map[*ssa.Function]int{}

func c03InvokeCount(p *Program, fn *ssa.Function) int {
	c03CacheGuard(p)
	if n, ok := c03InvokeCache[fn]; ok {
		return n
	}
	n := len(p.InvokeSites(fn))
	c03InvokeCache[fn] = n
	return n
}

// c03ForAllCallers: v satisfies pred, or v is a parameter of a function whose
// callers can all be enumerated (never used as a value, not reachable through an
// interface) and the corresponding argument at every static call site does
// (transitively); results of module helpers are followed to the values their
// non-zero returns yield.
func c03ForAllCallers(p *Program, v ssa.Value, depth int, pred func(ssa.Value) bool) bool {
	o := originValue(v)
	if pred(o) {
		return true
	}
	if depth > 3 {
		return false
	}
	switch t := o.(type) {
	case *ssa.Parameter:
		fn := t.Parent()
		if len(p.FuncValueUses(fn)) > 0 || fn.Parent() == nil && c03InvokeCount(p, fn) > 0 {
			return false
		}
		callers := p.StaticCallers(fn)
		if len(callers) == 0 {
			return false
		}
		idx := c03ParamIndex(t)
		for _, cs := range callers {
			args := cs.Common().Args
			if cs.Common().IsInvoke() || idx < 0 || idx >= len(args) {
				return false
			}
			if !c03ForAllCallers(p, args[idx], depth+1, pred) {
				return false
			}
		}
		return true
	case *ssa.Extract:
		if c, ok := t.Tuple.(*ssa.Call); ok {
			return c03HelperYields(p, c, t.Index, depth, pred)
		}
	case *ssa.Call:
		if t.Call.Signature().Results().Len() == 1 {
			return c03HelperYields(p, t, 0, depth, pred)
		}
	}
	return false
}

func c03HelperYields(p *Program, c *ssa.Call, idx, depth int, pred func(ssa.Value) bool) bool {
	callee := c.Call.StaticCallee()
	if callee == nil || len(callee.Blocks) == 0 || !InModule(TopFunc(callee)) {
		return false
	}
	n := 0
	for _, ri := range Returns(callee) {
		if idx >= len(ri.Results) {
			return false
		}
		if c03IsZeroConst(ri.Results[idx]) {
			continue
		}
		n++
		// a value of the helper's own frame: its parameters are not mapped back (context-free), so only
		// values the helper itself produces qualify
		o := originValue(ri.Results[idx])
		if _, isPrm := o.(*ssa.Parameter); isPrm || !c03ForAllCallers(p, o, depth+1, pred) {
			return false
		}
	}
	return n > 0
}

// c03CellUses lists the loads and stores of a local variable, followed through
// function literals that capture it and through module functions that receive
// its address as an argument. escapes != "" when the address goes anywhere else.
func c03CellUses(p *Program, al *ssa.Alloc) (loads []*ssa.UnOp, stores []*ssa.Store, escapes string) {
	seen := map[ssa.Value]bool{}
	var walk func(addr ssa.Value, d int)
	walk = func(addr ssa.Value, d int) {
		if seen[addr] || d > 8 {
			return
		}
		seen[addr] = true
		refs := addr.Referrers()
		if refs == nil {
			return
		}
		for _, u := range *refs {
			switch x := u.(type) {
			case *ssa.DebugRef:
			case *ssa.UnOp:
				if x.Op == token.MUL {
					loads = append(loads, x)
				} else {
					escapes = "is used in an expression"
				}
			case *ssa.Store:
				if x.Addr == addr {
					stores = append(stores, x)
				} else {
					escapes = "is stored"
				}
			case *ssa.MakeClosure:
				fn := x.Fn.(*ssa.Function)
				for i, b := range x.Bindings {
					if b == addr {
						walk(fn.FreeVars[i], d+1)
					}
				}
			case ssa.CallInstruction:
				cs := CallSite{x.Parent(), x}
				callee := cs.Callee()
				if callee == nil || len(callee.Blocks) == 0 || !InModule(TopFunc(callee)) || cs.Common().IsInvoke() {
					escapes = "is passed to " + cs.CalleeKey()
					continue
				}
				for i, a := range cs.Common().Args {
					if a == addr && i < len(callee.Params) {
						walk(callee.Params[i], d+1)
					}
				}
			default:
				escapes = fmt.Sprintf("is used by %T", u)
			}
		}
	}
	walk(al, 0)
	return
}

// ===========================================================================
// Path expressions
//
// A path is rendered as an expression tree over designated leaves (the
// receiver, "the" blob ref / pack number), constants, field reads of the
// receiver and calls. Module helpers that consist of one basic block and one
// return are inlined, so `ds.blobPath(ref)` and its body spelled out at the use
// site render identically; other helpers are opaque calls compared by identity
// of the callee. Two sites "use the same path function" when their renderings
// are equal — whatever the helper is called and whether or not it exists.

type c03Expr struct {
	op   string // "const", "leaf", "field", "call", "invoke", "+", "slice", "conv", "?"
	k    string
	args []*c03Expr
}

func (x *c03Expr) String() string {
	if x == nil {
		return "<nil>"
	}
	var sb strings.Builder
	sb.WriteString(x.op)
	if x.k != "" {
		sb.WriteString(":" + x.k)
	}
	if len(x.args) > 0 {
		sb.WriteString("(")
		for i, a := range x.args {
			if i > 0 {
				sb.WriteString(", ")
			}
			sb.WriteString(a.String())
		}
		sb.WriteString(")")
	}
	return sb.String()
}

// pure: no part of the expression is unknown to the renderer.
func (x *c03Expr) pure() bool {
	if x == nil || x.op == "?" {
		return false
	}
	for _, a := range x.args {
		if !a.pure() {
			return false
		}
	}
	return true
}

type c03Render struct {
	p      *Program
	leafOf func(v ssa.Value) string // "" = not a leaf
	leaves map[string][]ssa.Value   // the values rendered as each leaf
	funcs  map[*ssa.Function]bool   // module functions met (inlined or opaque)
	fields map[string]bool          // receiver fields read
}

func c03NewRender(p *Program, leafOf func(ssa.Value) string) *c03Render {
	return &c03Render{p: p, leafOf: leafOf, leaves: map[string][]ssa.Value{}, funcs: map[*ssa.Function]bool{}, fields: map[string]bool{}}
}

func c03IsReceiverParam(v ssa.Value) bool {
	prm, ok := v.(*ssa.Parameter)
	if !ok {
		return false
	}
	fn := prm.Parent()
	return fn.Signature.Recv() != nil && len(fn.Params) > 0 && fn.Params[0] == prm
}

func (rd *c03Render) expr(v ssa.Value, env map[*ssa.Parameter]*c03Expr, depth int) *c03Expr {
	unknown := func() *c03Expr {
		fn := ""
		if f := c03ValueFn(v); f != nil {
			fn = FuncKey(f)
		}
		return &c03Expr{op: "?", k: v.Name() + "@" + fn}
	}
	if v == nil || depth > 24 {
		return &c03Expr{op: "?", k: "deep"}
	}
	o := originValue(v)
	if prm, ok := o.(*ssa.Parameter); ok && env != nil {
		if x, ok := env[prm]; ok {
			return x
		}
	}
	if name := rd.leafOf(o); name != "" {
		rd.leaves[name] = append(rd.leaves[name], o)
		return &c03Expr{op: "leaf", k: name}
	}
	switch t := o.(type) {
	case *ssa.Const:
		if t.Value == nil {
			return &c03Expr{op: "const", k: "nil"}
		}
		return &c03Expr{op: "const", k: t.Value.ExactString()}
	case *ssa.BinOp:
		if t.Op == token.ADD {
			return &c03Expr{op: "+", args: []*c03Expr{rd.expr(t.X, env, depth+1), rd.expr(t.Y, env, depth+1)}}
		}
	case *ssa.Convert:
		return &c03Expr{op: "conv", k: types.TypeString(t.Type(), nil), args: []*c03Expr{rd.expr(t.X, env, depth+1)}}
	case *ssa.Slice:
		x := &c03Expr{op: "slice", args: []*c03Expr{rd.expr(t.X, env, depth+1)}}
		for _, b := range []ssa.Value{t.Low, t.High} {
			if b == nil {
				x.args = append(x.args, &c03Expr{op: "const", k: "-"})
			} else {
				x.args = append(x.args, rd.expr(b, env, depth+1))
			}
		}
		return x
	case *ssa.UnOp:
		if t.Op == token.MUL {
			if fa, ok := t.X.(*ssa.FieldAddr); ok {
				base := rd.expr(fa.X, env, depth+1)
				name := fieldName(fa.X.Type(), fa.Field)
				if base.op == "leaf" && base.k == "RECV" {
					rd.fields[name] = true
				}
				return &c03Expr{op: "field", k: name, args: []*c03Expr{base}}
			}
		}
	case *ssa.Field:
		return &c03Expr{op: "field", k: fieldName(t.X.Type(), t.Field), args: []*c03Expr{rd.expr(t.X, env, depth+1)}}
	case *ssa.Call:
		var args []*c03Expr
		addArgs := func(vals []ssa.Value, variadic bool) {
			for i, a := range vals {
				if variadic && i == len(vals)-1 {
					if el := c03VarargElems(a); el != nil {
						for _, x := range el {
							args = append(args, rd.expr(x, env, depth+1))
						}
						continue
					}
				}
				args = append(args, rd.expr(a, env, depth+1))
			}
		}
		if t.Call.IsInvoke() {
			addArgs(append([]ssa.Value{t.Call.Value}, t.Call.Args...), false)
			return &c03Expr{op: "invoke", k: t.Call.Method.Name(), args: args}
		}
		f := t.Call.StaticCallee()
		if f == nil {
			return unknown()
		}
		addArgs(t.Call.Args, f.Signature.Variadic())
		if home := c03ValueFn(o); home != nil && TopFunc(f).Pkg != nil && TopFunc(f).Pkg == TopFunc(home).Pkg {
			rd.funcs[f] = true
			// inline one-block, one-result helpers of the same package
			if len(f.Blocks) == 1 && f.Signature.Results().Len() == 1 && !f.Signature.Variadic() && len(f.Params) == len(t.Call.Args) {
				if rets := Returns(f); len(rets) == 1 && len(rets[0].Results) == 1 {
					sub := map[*ssa.Parameter]*c03Expr{}
					for i, prm := range f.Params {
						sub[prm] = args[i]
					}
					return rd.expr(rets[0].Results[0], sub, depth+1)
				}
			}
		}
		return &c03Expr{op: "call", k: FuncKeyAny(f), args: args}
	}
	return unknown()
}

// oneLeaf: all values rendered as leaf name are the same value; returns it.
func (rd *c03Render) oneLeaf(name string) (ssa.Value, bool) {
	vs := rd.leaves[name]
	if len(vs) == 0 {
		return nil, false
	}
	for _, v := range vs[1:] {
		if !sameOrigin(v, vs[0]) {
			return nil, false
		}
	}
	return vs[0], true
}

// c03TrailingConst: the constant text every value of a string expression ends
// in: a constant, the right operand of a concatenation, or what follows the
// last verb of a constant fmt.Sprintf format.
func c03TrailingConst(x *c03Expr) (string, bool) {
	for i := 0; i < 16 && x != nil; i++ {
		switch {
		case x.op == "+" && len(x.args) == 2:
			x = x.args[1]
		case x.op == "const":
			s, err := strconv.Unquote(x.k)
			return s, err == nil
		case x.op == "call" && x.k == "fmt.Sprintf" && len(x.args) > 0 && x.args[0].op == "const":
			f, err := strconv.Unquote(x.args[0].k)
			if err != nil {
				return "", false
			}
			lits, _, ok := c03Format(f)
			if !ok || len(lits) == 0 {
				return "", false
			}
			return lits[len(lits)-1], true
		default:
			return "", false
		}
	}
	return "", false
}

// c03LastPathElem: the last element of a (nested) filepath.Join.
func c03LastPathElem(x *c03Expr) *c03Expr {
	for x != nil && x.op == "call" && (x.k == "path/filepath.Join" || x.k == "path.Join") && len(x.args) > 0 {
		x = x.args[len(x.args)-1]
	}
	return x
}
