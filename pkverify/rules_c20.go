package main

import (
	"fmt"
	"go/constant"
	"go/token"
	"go/types"
	"math"
	"regexp"
	"sort"
	"strings"

	"golang.org/x/tools/go/ssa"
)

// C20 — blobref text, encodings and ordering. Only the agreement of the
// per-hash-family tables and of the sibling digest types is decided here; the
// value-level round trips are left to dynamic checks.
//
// Everything is read from go/ssa of package pkg/blob: the package initializer
// (the tables), the digest types' methods, and the few functions that consult
// the tables. No source text, names of locals or positions are matched.

const c20Pkg = "pkg/blob"

func init() {
	register(&PropSpec{
		ID:    "C20",
		Title: "Blobref text, encodings and ordering are mutually consistent",
		Explanation: "Decided (table and sibling agreement only, by constant values and types): " +
			"B-family — for every entry N→M of blob.metaFromString: M is a digestMeta initialised once with all five fields set; M.ctor, M.ctors and M.ctorb all return the same byte-array digest type T; M.size = len(T); M.newHash is the standard-library constructor of the algorithm N names and M.size is that algorithm's Size constant; T.digestName() returns the constant N; T.bytes() returns the whole array; nothing writes the table or a digestMeta after initialisation. " +
			"B-type — every entry of blob.metaFromType is keyed by (reflect type of F(), n) and maps to a digestMeta M of metaFromString with M.newHash = F and M.size = n; every M of metaFromString has such an entry (else RefFromHash panics for that family). " +
			"B-text — in T.equalString and T.hasPrefix of every fixed-size digest type: every integer constant compared with len(s) is the text length len(N)+1+2·size (or a small lower-bound guard), every constant prefix compared with s is N+separator; every return of equalString that may be true is dominated by len(s)=text length and by a successful prefix match; every constant-true return of hasPrefix is dominated by len(s)≤text length and a successful prefix match, other returns delegate to T.equalString on the same string. " +
			"B-name — every key of metaFromString and testRefType, followed by the separator and a digest of the family's length, is matched in full by the regular expression blob.Pattern (which the get handler, the client and search use to recognise refs) and does not contain the separator. " +
			"B-sep — the separator constant written by appendString and MarshalBinary is the one parse, ParseBytes and UnmarshalBinary split on. " +
			"B-known — IsSupported returns true only as the ok of a metaFromString lookup; in parse every call of parseUnknown is guarded by allowAll or testRefType[name]; ParseKnown passes allowAll=false. " +
			"B-len — every call through digestMeta.ctors/ctorb is dominated by len(hex)=2·meta.size and every call through digestMeta.ctor by len(b)=meta.size of the same meta (or takes h.Sum of the hash whose (type,Size()) selected the meta). " +
			"B-default — blob.NewHash returns the newHash constructor of a supported family. " +
			"NOT decided: that parse∘String, the JSON and the binary encodings round-trip; that Less agrees with byte order of the text forms; that equalString/hasPrefix agree with String() digit by digit; that the hex conversion tables (hexDigit/hexVal) are inverse; the behaviour of otherDigest (unknown families); that the standard-library constructors compute the named algorithm. These are value-level statements over all strings.",
		RuleDocs: map[string]string{
			"B-family":  "every MapUpdate of metaFromString in the package initializer: digestMeta fields vs digest type vs standard-library constants",
			"B-type":    "every MapUpdate of metaFromType: key (reflect.TypeOf(F()), n) agrees with the target digestMeta; every family is reachable",
			"B-text":    "equalString/hasPrefix of every family's digest type: length and prefix constants, and the facts dominating returns that may be true",
			"B-name":    "every key of metaFromString and testRefType is matched by blob.Pattern in a full ref and does not contain the separator",
			"B-sep":     "separator constants of appendString, MarshalBinary, parse, ParseBytes, UnmarshalBinary agree",
			"B-known":   "IsSupported / parse / ParseKnown consult metaFromString (and the test-name table) only",
			"B-len":     "dynamic calls through digestMeta.ctor/ctors/ctorb are dominated by the matching length fact on the same meta",
			"B-default": "NewHash's constructor belongs to a metaFromString family",
		},
		Run:       runC20,
		DesignRef: "DESIGN.md §4 C20",
		Technique: "static analysis: table agreement over the go/ssa package initializer (constants, types, function identities), constant agreement and dominating branch facts in the digest types' methods",
		LevelText: "Decides only that the per-hash-family tables of pkg/blob agree with each other, with the digest types' methods and with the standard-library hash constants, and that the functions consulting them are guarded by the matching length/lookup facts. It does not decide any value-level statement of the property (round trips of text/JSON/binary forms, Less vs text order, digit-by-digit agreement of equalString/hasPrefix with String); those need dynamic checking.",
	})
}

// c20HashTable is the one frozen table of this property: which standard
// library constructor and Size constant a digest name denotes. One line of
// reason per entry; a family missing here is reported Undecided, never passed.
var c20HashTable = map[string]struct{ pkg, ctor, sizeConst, reason string }{
	"sha1":   {"crypto/sha1", "New", "Size", "blobref name sha1 = FIPS 180-4 SHA-1 (camlistore's original hash)"},
	"sha224": {"crypto/sha256", "New224", "Size224", "blobref name sha224 = FIPS 180-4 SHA-224 (perkeep's default since 2018)"},
	"sha256": {"crypto/sha256", "New", "Size", "blobref name sha256 = FIPS 180-4 SHA-256"},
	// not families today; listed so that adding one of the two obvious next
	// families correctly does not need a checker change (exercised by selftest)
	"sha384": {"crypto/sha512", "New384", "Size384", "FIPS 180-4 SHA-384"},
	"sha512": {"crypto/sha512", "New", "Size", "FIPS 180-4 SHA-512"},
}

type c20Fam struct {
	name   string
	pos    token.Pos
	val    ssa.Value             // the map value as written
	meta   *ssa.Alloc            // the digestMeta it resolves to (nil if unresolved)
	field  map[string][]ssa.Value // values stored per field
	T      *types.Named          // digest type (from ctor)
	size   int64
	sizeOK bool
	newFn  *ssa.Function
}

type c20Model struct {
	p      *Program
	r      *Reporter
	pkg    *ssa.Package
	fns    []*ssa.Function
	metaT  *types.Named
	fams   []*c20Fam
	byMeta map[*ssa.Alloc]*c20Fam
	sep    string // separator between name and digits, from appendString ("" if undetermined)
	gStr   *ssa.Global
	gType  *ssa.Global
	gTest  *ssa.Global
}

func (m *c20Fam) key() string { return c20Pkg + ".metaFromString[" + m.name + "]" }

func runC20(p *Program, r *Reporter) {
	m := c20Build(p, r)
	r.Analysed("functions", len(m.fns))
	r.Analysed("families", len(m.fams))
	c20RuleFamily(m)
	c20RuleType(m)
	c20RuleSep(m)
	c20RuleText(m)
	c20RuleName(m)
	c20RuleKnown(m)
	c20RuleLen(m)
	c20RuleDefault(m)
}

// ---------------------------------------------------------------------------
// model: globals and their initial values

func c20GlobalOf(pkg *ssa.Package, name string) *ssa.Global {
	g, _ := pkg.Members[name].(*ssa.Global)
	if g == nil {
		brokenf("anchor unresolved: %s.%s (package-level variable)", c20Pkg, name)
	}
	return g
}

// c20GlobalInit returns the single value stored to g anywhere in the package
// (nil when there is none or more than one).
func (m *c20Model) globalInit(g *ssa.Global) (ssa.Value, int) {
	var val ssa.Value
	n := 0
	for _, fn := range m.fns {
		for _, b := range fn.Blocks {
			for _, in := range b.Instrs {
				if st, ok := in.(*ssa.Store); ok && st.Addr == ssa.Value(g) {
					val = st.Val
					n++
				}
			}
		}
	}
	if n != 1 {
		return nil, n
	}
	return val, 1
}

// resolve follows loads of package-level variables to their single initial
// value and strips value-preserving conversions.
func (m *c20Model) resolve(v ssa.Value) ssa.Value {
	for i := 0; i < 8; i++ {
		switch x := v.(type) {
		case *ssa.ChangeType:
			v = x.X
			continue
		case *ssa.ChangeInterface:
			v = x.X
			continue
		case *ssa.MakeInterface:
			v = x.X
			continue
		case *ssa.UnOp:
			if x.Op == token.MUL {
				if g, ok := x.X.(*ssa.Global); ok {
					if iv, n := m.globalInit(g); n == 1 {
						v = iv
						continue
					}
				}
			}
		}
		break
	}
	return v
}

func c20IsLoadOf(v ssa.Value, g *ssa.Global) bool {
	u, ok := v.(*ssa.UnOp)
	return ok && u.Op == token.MUL && u.X == ssa.Value(g)
}

type c20Entry struct {
	key, val ssa.Value
	pos      token.Pos
}

// mapEntries returns the MapUpdates that build the map stored in g by the
// package initializer, and a reason when the table cannot be read statically.
func (m *c20Model) mapEntries(g *ssa.Global) ([]c20Entry, string) {
	iv, n := m.globalInit(g)
	if n != 1 {
		return nil, fmt.Sprintf("%s is assigned %d times in the package; expected exactly one initialisation", g.Name(), n)
	}
	mk, ok := iv.(*ssa.MakeMap)
	if !ok {
		return nil, fmt.Sprintf("%s is not initialised by a map literal (%T)", g.Name(), iv)
	}
	var out []c20Entry
	for _, u := range nonDebug(*mk.Referrers()) {
		switch x := u.(type) {
		case *ssa.MapUpdate:
			if x.Map == ssa.Value(mk) {
				out = append(out, c20Entry{x.Key, x.Value, x.Pos()})
			}
		case *ssa.Store:
			if x.Val != ssa.Value(mk) || x.Addr != ssa.Value(g) {
				return nil, fmt.Sprintf("the map of %s is stored somewhere else as well; cannot follow", g.Name())
			}
		default:
			return nil, fmt.Sprintf("the map literal of %s is used by %T before being published; cannot follow", g.Name(), u)
		}
	}
	// no later writer of the table
	for _, fn := range m.fns {
		for _, b := range fn.Blocks {
			for _, in := range b.Instrs {
				switch x := in.(type) {
				case *ssa.MapUpdate:
					if c20IsLoadOf(x.Map, g) {
						return nil, fmt.Sprintf("%s writes %s after initialisation; the table is no longer a constant", FuncKey(fn), g.Name())
					}
				case ssa.CallInstruction:
					if bi, ok := x.Common().Value.(*ssa.Builtin); ok && (bi.Name() == "delete" || bi.Name() == "clear") && len(x.Common().Args) > 0 && c20IsLoadOf(x.Common().Args[0], g) {
						return nil, fmt.Sprintf("%s deletes from %s after initialisation", FuncKey(fn), g.Name())
					}
				}
			}
		}
	}
	return out, ""
}

func c20Build(p *Program, r *Reporter) *c20Model {
	m := &c20Model{p: p, r: r, pkg: p.SSAPkg(c20Pkg), byMeta: map[*ssa.Alloc]*c20Fam{}}
	seen := map[*ssa.Function]bool{}
	for _, f := range p.FuncsIn(c20Pkg) {
		if !seen[f] {
			seen[f] = true
			m.fns = append(m.fns, f)
		}
	}
	// the synthetic package initializer holds the tables; generic instances
	// referenced from it are reached through the stored function values.
	if ini := m.pkg.Func("init"); ini != nil && !seen[ini] {
		m.fns = append(m.fns, ini)
	}
	m.metaT = p.NamedType(c20Pkg, "digestMeta")
	m.gStr = c20GlobalOf(m.pkg, "metaFromString")
	m.gType = c20GlobalOf(m.pkg, "metaFromType")
	m.gTest = c20GlobalOf(m.pkg, "testRefType")
	for _, f := range []string{"newHash", "ctor", "ctors", "ctorb", "size"} {
		if c20FieldIndex(m.metaT, f) < 0 {
			brokenf("anchor unresolved: field %s.digestMeta.%s", c20Pkg, f)
		}
	}

	ents, why := m.mapEntries(m.gStr)
	if why != "" {
		r.Undecided("B-family", c20Pkg+".metaFromString#table", "?", why)
		return m
	}
	for _, e := range ents {
		name, ok := ConstString(e.key)
		if !ok {
			r.Undecided("B-family", c20Pkg+".metaFromString#key", p.Pos(e.pos), "a key of metaFromString is not a constant; the set of families cannot be enumerated")
			continue
		}
		f := &c20Fam{name: name, pos: e.pos, val: e.val, field: map[string][]ssa.Value{}}
		if al, ok := m.resolve(e.val).(*ssa.Alloc); ok && NamedOf(al.Type()) == m.metaT {
			f.meta = al
			if prev := m.byMeta[al]; prev == nil {
				m.byMeta[al] = f
			}
		}
		m.fams = append(m.fams, f)
	}
	sort.SliceStable(m.fams, func(i, j int) bool { return m.fams[i].name < m.fams[j].name })
	return m
}

// method returns the declared (non-wrapper) method name of T: the value
// receiver's method set is consulted first, so a value method is not hidden
// behind its synthetic pointer-receiver wrapper.
func (m *c20Model) method(T *types.Named, name string) *ssa.Function {
	for _, t := range []types.Type{T, types.NewPointer(T)} {
		sel := m.p.SSA.MethodSets.MethodSet(t).Lookup(T.Obj().Pkg(), name)
		if sel == nil {
			continue
		}
		if f := m.p.SSA.MethodValue(sel); f != nil && f.Synthetic == "" {
			return f
		}
	}
	return nil
}

func c20FieldIndex(n *types.Named, name string) int {
	st, ok := n.Underlying().(*types.Struct)
	if !ok {
		return -1
	}
	for i := 0; i < st.NumFields(); i++ {
		if st.Field(i).Name() == name {
			return i
		}
	}
	return -1
}

// readMeta collects the stores into the fields of a digestMeta literal.
// It returns a reason when the literal escapes before/without being a plain
// table value.
func (m *c20Model) readMeta(f *c20Fam) string {
	st := m.metaT.Underlying().(*types.Struct)
	for _, u := range nonDebug(*f.meta.Referrers()) {
		switch x := u.(type) {
		case *ssa.FieldAddr:
			fname := st.Field(x.Field).Name()
			for _, uu := range nonDebug(*x.Referrers()) {
				s, ok := uu.(*ssa.Store)
				if !ok || s.Addr != ssa.Value(x) {
					return fmt.Sprintf("the address of field %s of the digestMeta literal is used by %T; cannot follow", fname, uu)
				}
				f.field[fname] = append(f.field[fname], s.Val)
			}
		case *ssa.Store:
			if x.Val != ssa.Value(f.meta) {
				return "the digestMeta literal is overwritten as a whole"
			}
			if _, ok := x.Addr.(*ssa.Global); !ok {
				return "the digestMeta literal is stored into something other than a package-level variable; cannot follow"
			}
		case *ssa.MapUpdate:
			// used directly as a table value
		default:
			return fmt.Sprintf("the digestMeta literal is used by %T during initialisation; cannot follow", u)
		}
	}
	return ""
}

// metaWriters lists functions that store into a digestMeta field through
// anything but the family literals of the initializer.
func (m *c20Model) metaWriters() []string {
	var out []string
	for _, fn := range m.fns {
		for _, b := range fn.Blocks {
			for _, in := range b.Instrs {
				st, ok := in.(*ssa.Store)
				if !ok {
					continue
				}
				fa, ok := st.Addr.(*ssa.FieldAddr)
				if !ok || NamedOf(fa.X.Type()) != m.metaT {
					continue
				}
				if al, ok := fa.X.(*ssa.Alloc); ok && al.Parent() == fn && fn.Synthetic == "package initializer" {
					continue // a composite literal in the initializer
				}
				out = append(out, FuncKey(fn))
			}
		}
	}
	return out
}

func c20FuncValue(v ssa.Value) *ssa.Function {
	for i := 0; i < 4; i++ {
		switch x := v.(type) {
		case *ssa.Function:
			return x
		case *ssa.ChangeType:
			v = x.X
		case *ssa.MakeClosure:
			if len(x.Bindings) == 0 {
				f, _ := x.Fn.(*ssa.Function)
				return f
			}
			return nil
		default:
			return nil
		}
	}
	return nil
}

// c20DigestTypesReturned lists the concrete types a constructor wraps into its
// first (digestType) result; nil constants are skipped.
func c20DigestTypesReturned(fn *ssa.Function, depth int) (ts []types.Type, why string) {
	if fn == nil || fn.Blocks == nil {
		return nil, "constructor has no body to analyse"
	}
	var visit func(v ssa.Value, d int)
	seen := map[ssa.Value]bool{}
	visit = func(v ssa.Value, d int) {
		if seen[v] {
			return
		}
		seen[v] = true
		switch x := v.(type) {
		case *ssa.Const:
			if x.Value != nil {
				why = "constructor returns a non-nil constant"
			}
		case *ssa.MakeInterface:
			ts = append(ts, x.X.Type())
		case *ssa.ChangeInterface:
			visit(x.X, d)
		case *ssa.Phi:
			for _, e := range x.Edges {
				visit(e, d)
			}
		case *ssa.Extract:
			if c, ok := x.Tuple.(*ssa.Call); ok && x.Index == 0 {
				if cal := c.Call.StaticCallee(); cal != nil && d < 2 {
					t2, w2 := c20DigestTypesReturned(cal, d+1)
					ts = append(ts, t2...)
					if w2 != "" {
						why = w2
					}
					return
				}
			}
			why = "constructor returns a value the analysis cannot follow (extract)"
		case *ssa.Call:
			if cal := x.Call.StaticCallee(); cal != nil && d < 2 {
				t2, w2 := c20DigestTypesReturned(cal, d+1)
				ts = append(ts, t2...)
				if w2 != "" {
					why = w2
				}
				return
			}
			why = "constructor returns the result of a dynamic call"
		default:
			why = fmt.Sprintf("constructor returns a value the analysis cannot follow (%T)", v)
		}
	}
	for _, ri := range Returns(fn) {
		if len(ri.Results) == 0 {
			continue
		}
		visit(ri.Results[0], depth)
	}
	return ts, why
}

func c20ByteArray(t types.Type) (*types.Named, int64, bool) {
	n, ok := t.(*types.Named)
	if !ok {
		return nil, 0, false
	}
	a, ok := n.Underlying().(*types.Array)
	if !ok {
		return nil, 0, false
	}
	b, ok := a.Elem().Underlying().(*types.Basic)
	if !ok || b.Kind() != types.Uint8 {
		return nil, 0, false
	}
	return n, a.Len(), true
}

// ---------------------------------------------------------------------------
// B-family

func c20RuleFamily(m *c20Model) {
	p, r := m.p, m.r
	const rule = "B-family"
	r.Floor(rule, 24)
	if w := m.metaWriters(); len(w) > 0 {
		r.Violation(rule, c20Pkg+".digestMeta#written-after-init", "?", "digestMeta fields are assigned outside the composite literals of the package initializer, in "+strings.Join(w, ", ")+": the family tables are no longer constants and none of the agreement checks below means anything")
	}
	seenName := map[string]bool{}
	for _, f := range m.fams {
		site := p.Pos(f.pos)
		if seenName[f.name] {
			r.Violation(rule, f.key()+"#duplicate", site, "digest name "+f.name+" is entered twice in metaFromString")
			continue
		}
		seenName[f.name] = true
		if f.meta == nil {
			r.Undecided(rule, f.key()+"#meta", site, fmt.Sprintf("the value of metaFromString[%q] does not resolve to a digestMeta composite literal of the initializer (%T)", f.name, m.resolve(f.val)))
			continue
		}
		if why := m.readMeta(f); why != "" {
			r.Undecided(rule, f.key()+"#meta", site, why)
			continue
		}
		if owner := m.byMeta[f.meta]; owner != f {
			r.Violation(rule, f.key()+"#meta", site, fmt.Sprintf("metaFromString[%q] and metaFromString[%q] share one digestMeta: refs of one family would be built with the other family's digest type", f.name, owner.name))
			continue
		}
		// every field set exactly once, function fields to a function
		okAll := true
		for _, fld := range []string{"newHash", "ctor", "ctors", "ctorb", "size"} {
			vs := f.field[fld]
			switch {
			case len(vs) == 0:
				okAll = false
				r.Violation(rule, f.key()+"#"+fld, site, fmt.Sprintf("field %s of the digestMeta of %q is never set: %s", fld, f.name, c20UnsetConsequence(fld)))
			case len(vs) > 1:
				okAll = false
				r.Undecided(rule, f.key()+"#"+fld, site, fmt.Sprintf("field %s of the digestMeta of %q is stored %d times", fld, f.name, len(vs)))
			}
		}
		if !okAll {
			continue
		}
		r.OKTable(rule, f.key()+"#meta", site, "digestMeta literal of the initializer, all five fields stored exactly once, not shared with another name")

		// size constant
		if n, ok := ConstInt(f.field["size"][0]); ok {
			f.size, f.sizeOK = n, true
		}
		// ctor / ctors / ctorb return one digest type
		var T *types.Named
		var tlen int64
		ctorOK := true
		for _, fld := range []string{"ctor", "ctors", "ctorb"} {
			fn := c20FuncValue(f.field[fld][0])
			if fn == nil {
				if IsNilConst(f.field[fld][0]) {
					r.Violation(rule, f.key()+"#"+fld, site, fmt.Sprintf("field %s of the digestMeta of %q is nil: %s", fld, f.name, c20UnsetConsequence(fld)))
				} else {
					r.Undecided(rule, f.key()+"#"+fld, site, fmt.Sprintf("field %s of %q is not a plain function value", fld, f.name))
				}
				ctorOK = false
				continue
			}
			ts, why := c20DigestTypesReturned(fn, 0)
			if why != "" || len(ts) == 0 {
				if why == "" {
					why = "constructor never returns a digest"
				}
				r.Undecided(rule, f.key()+"#"+fld, site, FuncKeyAny(fn)+": "+why)
				ctorOK = false
				continue
			}
			bad := ""
			for _, t := range ts {
				n, l, ok := c20ByteArray(t)
				if !ok {
					bad = fmt.Sprintf("%s returns %s, which is not a named byte-array type (digestType values must be comparable fixed-size arrays)", FuncKeyAny(fn), t)
					break
				}
				if T == nil {
					T, tlen = n, l
				} else if n != T {
					bad = fmt.Sprintf("%s (field %s of %q) builds %s but another constructor of the same family builds %s: refs parsed from text, from bytes and from hashes would not compare equal", FuncKeyAny(fn), fld, f.name, n.Obj().Name(), T.Obj().Name())
					break
				}
			}
			if bad != "" {
				ctorOK = false
				r.Violation(rule, f.key()+"#"+fld, site, bad)
				continue
			}
			r.OK(rule, f.key()+"#"+fld, site, fmt.Sprintf("%s returns only %s (len %d)", FuncKeyAny(fn), T.Obj().Name(), tlen))
		}
		if !ctorOK || T == nil {
			continue
		}
		f.T = T
		// size = len(T)
		if !f.sizeOK {
			r.Undecided(rule, f.key()+"#size", site, "size is not a constant")
		} else {
			r.Check(f.size == tlen, rule, f.key()+"#size", site,
				fmt.Sprintf("size %d = len(%s)", f.size, T.Obj().Name()),
				fmt.Sprintf("size %d but the constructors build %s of %d bytes: parse accepts %d hex digits and the FromHex loop then %s", f.size, T.Obj().Name(), tlen, 2*f.size, c20SizeConsequence(f.size, tlen)))
		}
		// newHash per frozen table
		c20CheckNewHash(m, f, site)
		// digestName
		if dn, _ := m.method(T, "digestName"), 0; dn == nil || dn.Blocks == nil {
			brokenf("anchor unresolved: method digestName of %s", T.Obj().Name())
		} else {
			bad := ""
			n := 0
			for _, ri := range Returns(dn) {
				n++
				s, ok := ConstString(ri.Results[0])
				if !ok {
					bad = "digestName does not return a constant"
				} else if s != f.name {
					bad = fmt.Sprintf("%s.digestName() returns %q but the type is the digest type of family %q: String() of a parsed %s ref would print %s-…, Less/IsSupported/Hash would consult the wrong family", T.Obj().Name(), s, f.name, f.name, s)
				}
			}
			if n == 0 {
				bad = "digestName never returns"
			}
			r.Check(bad == "", rule, f.key()+"#digestName", p.Pos(dn.Pos()), fmt.Sprintf("%s.digestName() returns the constant %q", T.Obj().Name(), f.name), bad)
		}
		// bytes
		c20CheckBytes(m, f, T, tlen)
	}
}

func c20UnsetConsequence(fld string) string {
	switch fld {
	case "newHash":
		return "Ref.Hash() calls it unconditionally and would panic on a nil function for this family"
	case "ctor":
		return "RefFromHash and UnmarshalBinary call it unconditionally and would panic for this family"
	case "ctors":
		return "parse (Parse, ParseKnown, MustParse) calls it unconditionally and would panic on any text ref of this family"
	case "ctorb":
		return "ParseBytes (JSON unmarshalling of every ref) calls it unconditionally and would panic for this family"
	case "size":
		return "parse compares the digit count with 2·size and would reject every ref of this family"
	}
	return ""
}

func c20SizeConsequence(size, tlen int64) string {
	if size > tlen {
		return "indexes the array out of range (panic on well-formed input)"
	}
	return "fills only part of the array (short digests accepted, full-length refs rejected)"
}

func c20CheckNewHash(m *c20Model, f *c20Fam, site string) {
	p, r := m.p, m.r
	const rule = "B-family"
	v := f.field["newHash"][0]
	fn := c20FuncValue(v)
	if fn == nil {
		if IsNilConst(v) {
			r.Violation(rule, f.key()+"#newHash", site, "newHash is nil: "+c20UnsetConsequence("newHash"))
		} else {
			r.Undecided(rule, f.key()+"#newHash", site, "newHash is not a plain function value")
		}
		return
	}
	f.newFn = fn
	want, ok := c20HashTable[f.name]
	if !ok {
		r.Undecided(rule, f.key()+"#newHash", site, fmt.Sprintf("digest name %q is not in the checker's table of (name → standard-library constructor, Size constant); add one line to c20HashTable in rules_c20.go", f.name))
		return
	}
	got := ""
	if fn.Pkg != nil {
		got = fn.Pkg.Pkg.Path() + "." + fn.Name()
	} else {
		got = fn.String()
	}
	if got != want.pkg+"."+want.ctor {
		r.Violation(rule, f.key()+"#newHash", site, fmt.Sprintf("newHash of %q is %s, expected %s.%s (%s): Ref.Hash()/NewHashOfType(%q) would verify and name blobs with a different algorithm", f.name, got, want.pkg, want.ctor, want.reason, f.name))
		return
	}
	lp := p.ByPath[want.pkg]
	if lp == nil || lp.Types == nil {
		brokenf("anchor unresolved: package %s not loaded", want.pkg)
	}
	c, _ := lp.Types.Scope().Lookup(want.sizeConst).(*types.Const)
	if c == nil {
		brokenf("anchor unresolved: constant %s.%s", want.pkg, want.sizeConst)
	}
	n, _ := constant.Int64Val(c.Val())
	if !f.sizeOK {
		return // reported under #size
	}
	r.Check(n == f.size, rule, f.key()+"#newHash", site,
		fmt.Sprintf("newHash = %s and size %d = %s.%s", got, f.size, want.pkg, want.sizeConst),
		fmt.Sprintf("size %d differs from %s.%s = %d, the digest length of %s: RefFromHash passes Sum(nil) of %d bytes to a constructor that panics on any other length", f.size, want.pkg, want.sizeConst, n, got, n))
}

// c20CheckBytes: T.bytes() returns the whole array (a slice [0:len] of the receiver).
func c20CheckBytes(m *c20Model, f *c20Fam, T *types.Named, tlen int64) {
	p, r := m.p, m.r
	const rule = "B-family"
	fn := m.method(T, "bytes")
	if fn == nil || fn.Blocks == nil {
		brokenf("anchor unresolved: method bytes of %s", T.Obj().Name())
	}
	bad, und := "", ""
	for _, ri := range Returns(fn) {
		sl, ok := ri.Results[0].(*ssa.Slice)
		if !ok {
			und = fmt.Sprintf("bytes returns %T, not a slice expression of the receiver", ri.Results[0])
			continue
		}
		if !c20IsReceiverArray(fn, sl.X) {
			und = "bytes slices something other than the receiver array"
			continue
		}
		if sl.Low != nil {
			if n, ok := ConstInt(sl.Low); !ok || n != 0 {
				bad = "bytes() does not start at element 0 of the digest"
			}
		}
		if sl.High != nil {
			if n, ok := ConstInt(sl.High); !ok {
				und = "bytes() has a non-constant upper bound"
			} else if n != tlen {
				bad = fmt.Sprintf("bytes() returns only %d of the %d digest bytes: String, Less, HashMatches and the binary encoding would all truncate", n, tlen)
			}
		}
	}
	switch {
	case bad != "":
		r.Violation(rule, f.key()+"#bytes", p.Pos(fn.Pos()), bad)
	case und != "":
		r.Undecided(rule, f.key()+"#bytes", p.Pos(fn.Pos()), und)
	default:
		r.OK(rule, f.key()+"#bytes", p.Pos(fn.Pos()), fmt.Sprintf("%s.bytes() returns all %d bytes of the receiver", T.Obj().Name(), tlen))
	}
}

// c20IsReceiverArray: v is the address of a copy of the (value) receiver, or
// the pointer receiver itself.
func c20IsReceiverArray(fn *ssa.Function, v ssa.Value) bool {
	if len(fn.Params) == 0 {
		return false
	}
	recv := fn.Params[0]
	if v == ssa.Value(recv) {
		return true
	}
	al, ok := v.(*ssa.Alloc)
	if !ok {
		return false
	}
	n := 0
	for _, u := range nonDebug(*al.Referrers()) {
		if st, ok := u.(*ssa.Store); ok && st.Addr == ssa.Value(al) {
			if st.Val != ssa.Value(recv) {
				return false
			}
			n++
		}
	}
	return n == 1
}

// ---------------------------------------------------------------------------
// B-type

func c20RuleType(m *c20Model) {
	p, r := m.p, m.r
	const rule = "B-type"
	r.Floor(rule, 6)
	ents, why := m.mapEntries(m.gType)
	if why != "" {
		r.Undecided(rule, c20Pkg+".metaFromType#table", "?", why)
		return
	}
	reached := map[*c20Fam]bool{}
	for i, e := range ents {
		site := p.Pos(e.pos)
		tgt, _ := m.resolve(e.val).(*ssa.Alloc)
		fam := m.byMeta[tgt]
		label := fmt.Sprintf("#%d", i)
		if fam != nil {
			label = fam.name
		}
		construct := c20Pkg + ".metaFromType[→" + label + "]"
		if fam == nil {
			r.Violation(rule, construct, site, "an entry of metaFromType maps to a digestMeta that is not a value of metaFromString: RefFromHash would build refs of a family that Parse, IsSupported and Hash do not know")
			continue
		}
		// key: struct {reflect.Type; int}
		kal, ok := c20StructLiteral(e.key)
		if !ok {
			r.Undecided(rule, construct, site, "the key is not a composite literal the analysis can read")
			continue
		}
		var fnF *ssa.Function
		var size int64
		haveSize := false
		und := ""
		for fi, vs := range kal {
			if len(vs) != 1 {
				und = "a key field is stored more than once"
				continue
			}
			ft := c20StructFieldType(e.key.Type(), fi)
			if b, ok := ft.Underlying().(*types.Basic); ok && b.Info()&types.IsInteger != 0 {
				if n, ok := ConstInt(vs[0]); ok {
					size, haveSize = n, true
				} else {
					und = "the size component of the key is not a constant"
				}
				continue
			}
			if IsNamed(ft, "reflect", "Type") {
				call, ok := m.resolve(vs[0]).(*ssa.Call)
				if !ok || !(CallSite{call.Parent(), call}).IsStatic("reflect", "", "TypeOf") {
					und = "the type component of the key is not reflect.TypeOf(<constructor>())"
					continue
				}
				inner, ok := m.resolve(call.Call.Args[0]).(*ssa.Call)
				if !ok || inner.Call.StaticCallee() == nil {
					und = "the argument of reflect.TypeOf is not a direct constructor call"
					continue
				}
				fnF = inner.Call.StaticCallee()
			}
		}
		if und == "" && (fnF == nil || !haveSize) {
			und = "the key lacks a (reflect type, size) pair the analysis can read"
		}
		if und != "" {
			r.Undecided(rule, construct, site, und)
			continue
		}
		reached[fam] = true
		switch {
		case fam.newFn == nil || !fam.sizeOK:
			r.Undecided(rule, construct, site, "the target family's newHash/size could not be read (see B-family)")
		case fnF != fam.newFn:
			r.Violation(rule, construct, site, fmt.Sprintf("key type is that of %s() but the entry maps to the digestMeta of %q whose newHash is %s: RefFromHash would name hashes made by %s as %s refs", FuncKeyAny(fnF), fam.name, FuncKeyAny(fam.newFn), FuncKeyAny(fnF), fam.name))
		case size != fam.size:
			r.Violation(rule, construct, site, fmt.Sprintf("key size %d but the entry maps to the digestMeta of %q with size %d: RefFromHash looks up (type, h.Size()); a %d-byte sum reaches a constructor that panics unless it gets %d bytes, and real %s hashes are not found at all", size, fam.name, fam.size, size, fam.size, fam.name))
		default:
			r.OK(rule, construct, site, fmt.Sprintf("(TypeOf(%s()), %d) → digestMeta of %q: same constructor, same size", FuncKeyAny(fnF), size, fam.name))
		}
	}
	for _, f := range m.fams {
		if f.meta == nil || m.byMeta[f.meta] != f {
			continue
		}
		r.Check(reached[f], rule, f.key()+"#reachable-from-hash", p.Pos(f.pos),
			"metaFromType has an entry for this family",
			fmt.Sprintf("no entry of metaFromType maps to the digestMeta of %q: RefFromHash(NewHashOfType(%q)) panics with 'Currently-unsupported hash type'", f.name, f.name))
	}
}

// c20StructLiteral reads `*local` of a composite literal: field index → stored values.
func c20StructLiteral(v ssa.Value) (map[int][]ssa.Value, bool) {
	ld, ok := v.(*ssa.UnOp)
	if !ok || ld.Op != token.MUL {
		return nil, false
	}
	al, ok := ld.X.(*ssa.Alloc)
	if !ok {
		return nil, false
	}
	out := map[int][]ssa.Value{}
	for _, u := range nonDebug(*al.Referrers()) {
		switch x := u.(type) {
		case *ssa.FieldAddr:
			for _, uu := range nonDebug(*x.Referrers()) {
				st, ok := uu.(*ssa.Store)
				if !ok || st.Addr != ssa.Value(x) {
					return nil, false
				}
				out[x.Field] = append(out[x.Field], st.Val)
			}
		case *ssa.UnOp:
			// the load itself
		default:
			return nil, false
		}
	}
	return out, true
}

func c20StructFieldType(t types.Type, i int) types.Type {
	st, ok := t.Underlying().(*types.Struct)
	if !ok || i >= st.NumFields() {
		return types.Typ[types.Invalid]
	}
	return st.Field(i).Type()
}

// ---------------------------------------------------------------------------
// B-sep

// c20ByteConstsWritten: constant bytes / strings appended or stored in fn.
func c20SepWritten(fn *ssa.Function) map[string]bool {
	out := map[string]bool{}
	for _, b := range fn.Blocks {
		for _, in := range b.Instrs {
			switch x := in.(type) {
			case *ssa.Store:
				if c, ok := x.Val.(*ssa.Const); ok && c.Value != nil && c.Value.Kind() == constant.Int {
					if bt, ok := c.Type().Underlying().(*types.Basic); ok && bt.Kind() == types.Uint8 {
						out[string(rune(c.Int64()))] = true
					}
				}
			case *ssa.Call:
				if bi, ok := x.Call.Value.(*ssa.Builtin); ok && bi.Name() == "append" && len(x.Call.Args) == 2 {
					if s, ok := ConstString(x.Call.Args[1]); ok && s != "" {
						out[s] = true
					}
				}
			case *ssa.BinOp:
				if x.Op == token.ADD {
					for _, o := range []ssa.Value{x.X, x.Y} {
						if c, ok := o.(*ssa.Const); ok && c.Value != nil && c.Value.Kind() == constant.String && constant.StringVal(c.Value) != "" {
							out[constant.StringVal(c.Value)] = true
						}
					}
				}
			}
		}
	}
	return out
}

// c20SepSearched: constants that fn searches its first parameter for
// (strings/bytes Index, IndexByte, Cut, IndexRune, LastIndex… on the parameter).
func c20SepSearched(fn *ssa.Function, param ssa.Value) map[string]bool {
	out := map[string]bool{}
	for _, c := range CallsIn(fn, false) {
		cal := c.Common().StaticCallee()
		if cal == nil || cal.Pkg == nil || len(c.Common().Args) < 2 {
			continue
		}
		pp := cal.Pkg.Pkg.Path()
		if pp != "strings" && pp != "bytes" {
			continue
		}
		switch cal.Name() {
		case "Index", "IndexByte", "IndexRune", "Cut", "LastIndex", "LastIndexByte", "SplitN", "Split":
		default:
			continue
		}
		if c.Common().Args[0] != param {
			continue
		}
		a := c.Common().Args[1]
		if s, ok := ConstString(a); ok {
			out[s] = true
		} else if n, ok := ConstInt(a); ok {
			out[string(rune(n))] = true
		} else if cv, ok := a.(*ssa.Convert); ok {
			if s, ok := ConstString(cv.X); ok {
				out[s] = true
			}
		}
	}
	return out
}

func c20Keys(m map[string]bool) []string {
	var out []string
	for k := range m {
		out = append(out, fmt.Sprintf("%q", k))
	}
	sort.Strings(out)
	return out
}

func c20RuleSep(m *c20Model) {
	p, r := m.p, m.r
	const rule = "B-sep"
	r.Floor(rule, 5)
	as := p.Func(c20Pkg, "Ref", "appendString")
	w := c20SepWritten(as)
	if len(w) != 1 {
		r.Undecided(rule, FuncKey(as)+"#separator", p.Pos(as.Pos()), fmt.Sprintf("appendString writes %d distinct constants %v; expected exactly the one separator between digest name and digits", len(w), c20Keys(w)))
	} else {
		for k := range w {
			m.sep = k
		}
		r.OKTable(rule, FuncKey(as)+"#separator", p.Pos(as.Pos()), fmt.Sprintf("text form is name + %q + hex digits", m.sep))
	}
	if m.sep == "" {
		return
	}
	mb := p.Func(c20Pkg, "Ref", "MarshalBinary")
	wb := c20SepWritten(mb)
	switch {
	case len(wb) != 1:
		r.Undecided(rule, FuncKey(mb)+"#separator", p.Pos(mb.Pos()), fmt.Sprintf("MarshalBinary writes %d distinct constants %v", len(wb), c20Keys(wb)))
	default:
		r.Check(wb[m.sep], rule, FuncKey(mb)+"#separator", p.Pos(mb.Pos()),
			"binary form is name + the same separator + raw digest",
			fmt.Sprintf("MarshalBinary writes %v between name and digest; UnmarshalBinary and the text form use %q", c20Keys(wb), m.sep))
	}
	for _, a := range []struct{ recv, name string }{{"", "parse"}, {"", "ParseBytes"}, {"Ref", "UnmarshalBinary"}} {
		fn := p.Func(c20Pkg, a.recv, a.name)
		var param ssa.Value
		if a.recv == "" {
			param = fn.Params[0]
		} else {
			param = fn.Params[1]
		}
		s := c20SepSearched(fn, param)
		switch {
		case len(s) == 0:
			r.Undecided(rule, FuncKey(fn)+"#separator", p.Pos(fn.Pos()), "cannot find the constant this function splits its input on")
		default:
			ok := len(s) == 1 && s[m.sep]
			r.Check(ok, rule, FuncKey(fn)+"#separator", p.Pos(fn.Pos()),
				fmt.Sprintf("splits its input at %q, the separator the writers emit", m.sep),
				fmt.Sprintf("splits its input at %v but appendString/MarshalBinary write %q: nothing this package prints can be read back", c20Keys(s), m.sep))
		}
	}
}

// ---------------------------------------------------------------------------
// B-text

func c20LenOf(v ssa.Value) (ssa.Value, bool) {
	c, ok := v.(*ssa.Call)
	if !ok {
		return nil, false
	}
	b, ok := c.Call.Value.(*ssa.Builtin)
	if !ok || b.Name() != "len" || len(c.Call.Args) != 1 {
		return nil, false
	}
	return c.Call.Args[0], true
}

type c20LenCmp struct {
	op  token.Token // len(s) op c
	c   int64
	pos token.Pos
}

var c20Flip = map[token.Token]token.Token{token.EQL: token.EQL, token.NEQ: token.NEQ, token.LSS: token.GTR, token.GTR: token.LSS, token.LEQ: token.GEQ, token.GEQ: token.LEQ}
var c20Neg = map[token.Token]token.Token{token.EQL: token.NEQ, token.NEQ: token.EQL, token.LSS: token.GEQ, token.GEQ: token.LSS, token.GTR: token.LEQ, token.LEQ: token.GTR}

// c20LenCmpOf recognises `len(s) op const` / `const op len(s)` for the given s.
func c20LenCmpOf(v ssa.Value, s ssa.Value) (c20LenCmp, bool) {
	bo, ok := v.(*ssa.BinOp)
	if !ok {
		return c20LenCmp{}, false
	}
	if _, ok := c20Flip[bo.Op]; !ok {
		return c20LenCmp{}, false
	}
	if x, ok := c20LenOf(bo.X); ok && x == s {
		if c, ok := ConstInt(bo.Y); ok {
			return c20LenCmp{bo.Op, c, bo.Pos()}, true
		}
	}
	if y, ok := c20LenOf(bo.Y); ok && y == s {
		if c, ok := ConstInt(bo.X); ok {
			return c20LenCmp{c20Flip[bo.Op], c, bo.Pos()}, true
		}
	}
	return c20LenCmp{}, false
}

// c20LenInterval: what the dominating branch facts say about len(s) at b.
func c20LenInterval(b *ssa.BasicBlock, s ssa.Value) (lo, hi int64) {
	lo, hi = 0, math.MaxInt64
	for _, f := range FactsAt(b) {
		cmp, ok := c20LenCmpOf(f.Cond, s)
		if !ok {
			continue
		}
		op := cmp.op
		if !f.Val {
			op = c20Neg[op]
		}
		switch op {
		case token.EQL:
			lo, hi = max(lo, cmp.c), min(hi, cmp.c)
		case token.LSS:
			hi = min(hi, cmp.c-1)
		case token.LEQ:
			hi = min(hi, cmp.c)
		case token.GTR:
			lo = max(lo, cmp.c+1)
		case token.GEQ:
			lo = max(lo, cmp.c)
		}
	}
	return
}

var c20PrefixFuncs = map[string]bool{"CutPrefix": true, "HasPrefix": true, "TrimPrefix": true}

// c20PrefixCall: strings.{CutPrefix,HasPrefix,TrimPrefix}(s, const) → const.
func c20PrefixCall(v ssa.Value, s ssa.Value) (string, *ssa.Call, bool) {
	c, ok := v.(*ssa.Call)
	if !ok {
		return "", nil, false
	}
	cal := c.Call.StaticCallee()
	if cal == nil || cal.Pkg == nil || cal.Pkg.Pkg.Path() != "strings" || !c20PrefixFuncs[cal.Name()] || len(c.Call.Args) != 2 {
		return "", nil, false
	}
	if c.Call.Args[0] != s {
		return "", nil, false
	}
	k, ok := ConstString(c.Call.Args[1])
	if !ok {
		return "", nil, false
	}
	return k, c, true
}

// c20PrefixFact: a successful match of the constant prefix want against s dominates b.
func c20PrefixFact(b *ssa.BasicBlock, s ssa.Value, want string) bool {
	for _, f := range FactsAt(b) {
		if !f.Val {
			continue
		}
		cond := f.Cond
		if ex, ok := cond.(*ssa.Extract); ok && ex.Index == 1 {
			cond = ex.Tuple
		}
		k, call, ok := c20PrefixCall(cond, s)
		if !ok || k != want {
			continue
		}
		if n := call.Call.StaticCallee().Name(); n == "CutPrefix" || n == "HasPrefix" {
			return true
		}
	}
	return false
}

func c20RuleText(m *c20Model) {
	p, r := m.p, m.r
	const rule = "B-text"
	r.Floor(rule, 18)
	for _, f := range m.fams {
		if f.T == nil || !f.sizeOK {
			continue
		}
		strLen := int64(len(f.name)) + int64(len(m.sep)) + 2*f.size
		small := int64(len(f.name)) + int64(len(m.sep)) + 1
		prefix := f.name + m.sep
		if m.sep == "" {
			r.Undecided(rule, f.key()+"#text", p.Pos(f.pos), "separator undetermined (see B-sep)")
			continue
		}
		eq := m.method(f.T, "equalString")
		hp := m.method(f.T, "hasPrefix")
		if eq == nil || eq.Blocks == nil || hp == nil || hp.Blocks == nil {
			brokenf("anchor unresolved: equalString/hasPrefix of %s", f.T.Obj().Name())
		}
		for _, fn := range []*ssa.Function{eq, hp} {
			if len(fn.Params) != 2 {
				brokenf("anchor unresolved: %s does not take (receiver, string)", FuncKey(fn))
			}
			s := ssa.Value(fn.Params[1])
			site := p.Pos(fn.Pos())
			// (1) length constants
			var badLen []string
			nLen := 0
			for _, b := range fn.Blocks {
				for _, in := range b.Instrs {
					v, ok := in.(ssa.Value)
					if !ok {
						continue
					}
					cmp, ok := c20LenCmpOf(v, s)
					if !ok {
						continue
					}
					nLen++
					if !c20LenConstOK(cmp, strLen, small) {
						badLen = append(badLen, fmt.Sprintf("len(s) %s %d at line %d", cmp.op, cmp.c, p.Fset.Position(cmp.pos).Line))
					}
				}
			}
			if len(badLen) > 0 {
				r.Violation(rule, FuncKey(fn)+"#len-consts", site, fmt.Sprintf("the text form of a %s ref has len(%q)+2·%d = %d bytes, but the function compares %s: refs of the right length are rejected or ones of the wrong length accepted/indexed out of range", f.name, prefix, f.size, strLen, strings.Join(badLen, "; ")))
			} else {
				r.OK(rule, FuncKey(fn)+"#len-consts", site, fmt.Sprintf("%d comparison(s) of len(s) with a constant, all consistent with text length %d", nLen, strLen))
			}
			// (2) prefix constants
			var badPre []string
			nPre := 0
			for _, b := range fn.Blocks {
				for _, in := range b.Instrs {
					v, ok := in.(ssa.Value)
					if !ok {
						continue
					}
					if k, _, ok := c20PrefixCall(v, s); ok {
						nPre++
						if k != prefix {
							badPre = append(badPre, fmt.Sprintf("%q", k))
						}
					}
					if bo, ok := v.(*ssa.BinOp); ok && (bo.Op == token.EQL || bo.Op == token.NEQ) {
						for _, pr := range [][2]ssa.Value{{bo.X, bo.Y}, {bo.Y, bo.X}} {
							k, ok := ConstString(pr[0])
							if !ok || k == "" {
								continue
							}
							if sl, ok := pr[1].(*ssa.Slice); ok && sl.X == s {
								nPre++
								if k != prefix {
									badPre = append(badPre, fmt.Sprintf("%q", k))
								}
							}
						}
					}
				}
			}
			if len(badPre) > 0 {
				r.Violation(rule, FuncKey(fn)+"#prefix-consts", site, fmt.Sprintf("%s.digestName() is %q so the text form starts with %q, but the function matches the prefix %s: it answers false for the ref's own String()", f.T.Obj().Name(), f.name, prefix, strings.Join(badPre, ", ")))
			} else {
				r.OK(rule, FuncKey(fn)+"#prefix-consts", site, fmt.Sprintf("%d constant prefix match(es), all %q", nPre, prefix))
			}
			// (3) returns that may be true
			bad, und := "", ""
			nRet := 0
			for _, ri := range Returns(fn) {
				type edge struct {
					v  ssa.Value
					at *ssa.BasicBlock
				}
				edges := []edge{{ri.Results[0], ri.Ret.Block()}}
				if ph, ok := ri.Results[0].(*ssa.Phi); ok && ph.Block() == ri.Ret.Block() {
					edges = nil
					for i, e := range ph.Edges {
						edges = append(edges, edge{e, ph.Block().Preds[i]})
					}
				}
				for _, e := range edges {
					if c, ok := e.v.(*ssa.Const); ok && c.Value != nil && c.Value.Kind() == constant.Bool && !constant.BoolVal(c.Value) {
						continue
					}
					nRet++
					line := p.Fset.Position(ri.Ret.Pos()).Line
					lo, hi := c20LenInterval(e.at, s)
					havePre := c20PrefixFact(e.at, s, prefix)
					isTrue := false
					if c, ok := e.v.(*ssa.Const); ok && c.Value != nil && c.Value.Kind() == constant.Bool {
						isTrue = true
					}
					if fn == eq {
						if bo, ok := e.v.(*ssa.BinOp); ok && bo.Op == token.EQL && (bo.X == s || bo.Y == s) {
							continue // whole-string comparison decides by itself
						}
						if !isTrue && !(lo == strLen && hi == strLen && havePre) {
							und = fmt.Sprintf("return at line %d yields a computed value where the length/prefix facts are not established; cannot follow", line)
							continue
						}
						if !(lo == strLen && hi == strLen) {
							bad = fmt.Sprintf("equalString can return true at line %d where len(s) is only known to be in [%s,%s], not = %d: a string with extra or missing characters compares equal (or the digit loop indexes out of range)", line, c20Bound(lo), c20Bound(hi), strLen)
						} else if !havePre {
							bad = fmt.Sprintf("equalString can return true at line %d without a successful match of the prefix %q dominating it: refs of another family with the same digits compare equal", line, prefix)
						}
						continue
					}
					// hasPrefix
					if isTrue {
						if hi > strLen {
							bad = fmt.Sprintf("hasPrefix can return true at line %d where len(s) may exceed the text length %d: a string longer than the ref is reported as its prefix", line, strLen)
						} else if !havePre {
							bad = fmt.Sprintf("hasPrefix can return true at line %d without a successful match of the prefix %q dominating it", line, prefix)
						}
						continue
					}
					if call, ok := e.v.(*ssa.Call); ok && call.Call.StaticCallee() == eq && len(call.Call.Args) == 2 && call.Call.Args[1] == s {
						continue // delegates the full-length case to equalString on the same string
					}
					und = fmt.Sprintf("return at line %d yields a computed value that is neither a constant nor %s.equalString(s); cannot follow", line, f.T.Obj().Name())
				}
			}
			switch {
			case bad != "":
				r.Violation(rule, FuncKey(fn)+"#true-returns", site, bad)
			case und != "":
				r.Undecided(rule, FuncKey(fn)+"#true-returns", site, und)
			default:
				what := "len(s) = text length and a successful prefix match"
				if fn == hp {
					what = "len(s) ≤ text length and a successful prefix match, or delegate to equalString(s)"
				}
				r.OK(rule, FuncKey(fn)+"#true-returns", site, fmt.Sprintf("%d return(s) that may be true, each dominated by %s", nRet, what))
			}
		}
	}
}

func c20Bound(n int64) string {
	if n == math.MaxInt64 {
		return "∞"
	}
	return fmt.Sprint(n)
}

// c20LenConstOK: is `len(s) op c` a comparison a correct implementation can
// make? Equalities must name the text length; inequalities must split the
// lengths either at the text length (t = strLen or strLen+1) or inside the
// "name, separator, first digit" lower-bound zone.
func c20LenConstOK(cmp c20LenCmp, strLen, small int64) bool {
	switch cmp.op {
	case token.EQL, token.NEQ:
		return cmp.c == strLen || cmp.c <= small
	}
	// threshold t: the comparison separates len < t from len >= t
	t := cmp.c
	if cmp.op == token.GTR || cmp.op == token.LEQ {
		t = cmp.c + 1
	}
	return t == strLen || t == strLen+1 || t <= small+1
}

// ---------------------------------------------------------------------------
// B-name

func c20RuleName(m *c20Model) {
	p, r := m.p, m.r
	const rule = "B-name"
	r.Floor(rule, 6)
	pat, _ := p.Pkg(c20Pkg).Types.Scope().Lookup("Pattern").(*types.Const)
	if pat == nil || pat.Val().Kind() != constant.String {
		brokenf("anchor unresolved: constant %s.Pattern", c20Pkg)
	}
	rx, err := regexp.Compile("^(?:" + constant.StringVal(pat.Val()) + ")$")
	if err != nil {
		r.Violation(rule, c20Pkg+".Pattern#compiles", "?", "blob.Pattern is not a valid regular expression: "+err.Error())
		return
	}
	if m.sep == "" {
		r.Undecided(rule, c20Pkg+".Pattern#separator", "?", "separator undetermined (see B-sep)")
		return
	}
	check := func(table, name string, digits int64, site string) {
		construct := c20Pkg + "." + table + "[" + name + "]#pattern"
		if name == "" || strings.Contains(name, m.sep) {
			r.Violation(rule, construct, site, fmt.Sprintf("digest name %q contains the separator %q (or is empty): parse splits at the first separator and looks up %q, so no ref of this family can be parsed", name, m.sep, strings.SplitN(name, m.sep, 2)[0]))
			return
		}
		sample := name + m.sep + strings.Repeat("0", int(digits))
		r.Check(rx.MatchString(sample), rule, construct, site,
			fmt.Sprintf("blob.Pattern matches %s%s<%d hex digits> in full", name, m.sep, digits),
			fmt.Sprintf("blob.Pattern (%s) does not match a ref of family %q in full: the blob get handler, share URLs and the search describe scanner do not recognise refs of this family", constant.StringVal(pat.Val()), name))
	}
	for _, f := range m.fams {
		d := int64(2)
		if f.sizeOK {
			d = 2 * f.size
		}
		check("metaFromString", f.name, d, p.Pos(f.pos))
	}
	ents, why := m.mapEntries(m.gTest)
	if why != "" {
		r.Undecided(rule, c20Pkg+".testRefType#table", "?", why)
		return
	}
	fam := map[string]bool{}
	for _, f := range m.fams {
		fam[f.name] = true
	}
	for _, e := range ents {
		name, ok := ConstString(e.key)
		if !ok {
			r.Undecided(rule, c20Pkg+".testRefType#key", p.Pos(e.pos), "non-constant key")
			continue
		}
		if fam[name] {
			r.Violation(rule, c20Pkg+".testRefType["+name+"]#pattern", p.Pos(e.pos), "a supported family is also listed as a test-only name; the test branch of parse is dead for it and the table is misleading")
			continue
		}
		check("testRefType", name, 2, p.Pos(e.pos))
	}
}

// ---------------------------------------------------------------------------
// B-known

// c20MetaLookupOK: v is the ok of `metaFromString[k]` (directly, or through a
// package function that returns exactly that, such as metaFromBytes).
func (m *c20Model) metaLookupOK(v ssa.Value, depth int) bool {
	ex, ok := v.(*ssa.Extract)
	if !ok || ex.Index != 1 {
		return false
	}
	switch t := ex.Tuple.(type) {
	case *ssa.Lookup:
		return t.CommaOk && c20IsLoadOf(t.X, m.gStr)
	case *ssa.Call:
		cal := t.Call.StaticCallee()
		if cal == nil || cal.Blocks == nil || depth > 1 || cal.Pkg != m.pkg {
			return false
		}
		n := 0
		for _, ri := range Returns(cal) {
			if len(ri.Results) != 2 || !m.metaLookupOK(ri.Results[1], depth+1) {
				return false
			}
			n++
		}
		return n > 0
	}
	return false
}

// c20GuardedBy reports whether every path from the entry of b's function to b
// crosses a branch edge accepted by pred.
func c20GuardedBy(b *ssa.BasicBlock, pred func(cond ssa.Value, val bool) bool) bool {
	fn := b.Parent()
	seen := map[*ssa.BasicBlock]bool{}
	var walk func(x *ssa.BasicBlock) bool // true if b reachable without crossing an accepted edge
	walk = func(x *ssa.BasicBlock) bool {
		if x == b {
			return true
		}
		if seen[x] {
			return false
		}
		seen[x] = true
		var ifi *ssa.If
		if len(x.Instrs) > 0 {
			ifi, _ = x.Instrs[len(x.Instrs)-1].(*ssa.If)
		}
		for i, s := range x.Succs {
			if ifi != nil && len(x.Succs) == 2 && x.Succs[0] != x.Succs[1] && pred(ifi.Cond, i == 0) {
				continue
			}
			if walk(s) {
				return true
			}
		}
		return false
	}
	return !walk(fn.Blocks[0])
}

func c20RuleKnown(m *c20Model) {
	p, r := m.p, m.r
	const rule = "B-known"
	r.Floor(rule, 3)
	// IsSupported
	is := p.Func(c20Pkg, "Ref", "IsSupported")
	bad, und := "", ""
	n := 0
	for _, ri := range Returns(is) {
		v := ri.Results[0]
		if c, ok := v.(*ssa.Const); ok && c.Value != nil && c.Value.Kind() == constant.Bool {
			if !constant.BoolVal(c.Value) {
				continue
			}
			n++
			okFact := false
			for _, f := range FactsAt(ri.Ret.Block()) {
				if f.Val && m.metaLookupOK(f.Cond, 0) {
					okFact = true
				}
			}
			if !okFact {
				bad = fmt.Sprintf("IsSupported returns true at line %d without a successful metaFromString lookup dominating it", p.Fset.Position(ri.Ret.Pos()).Line)
			}
			continue
		}
		n++
		if !m.metaLookupOK(v, 0) {
			und = fmt.Sprintf("IsSupported returns a computed value at line %d that is not the ok of a metaFromString lookup", p.Fset.Position(ri.Ret.Pos()).Line)
		}
	}
	switch {
	case bad != "":
		r.Violation(rule, FuncKey(is)+"#lookup", p.Pos(is.Pos()), bad)
	case und != "" || n == 0:
		if und == "" {
			und = "IsSupported never returns a possibly-true value"
		}
		r.Undecided(rule, FuncKey(is)+"#lookup", p.Pos(is.Pos()), und)
	default:
		r.OK(rule, FuncKey(is)+"#lookup", p.Pos(is.Pos()), "every possibly-true return is the ok of a metaFromString lookup")
	}

	// parse: calls of parseUnknown guarded by allowAll || testRefType[name]
	parse := p.Func(c20Pkg, "", "parse")
	pu := p.Func(c20Pkg, "", "parseUnknown")
	guardParams := map[ssa.Value]bool{}
	nUnknown := 0
	for _, c := range CallsIn(parse, false) {
		if c.Callee() != pu {
			continue
		}
		nUnknown++
		usedParam := map[ssa.Value]bool{}
		ok := c20GuardedBy(c.Block(), func(cond ssa.Value, val bool) bool {
			if !val {
				return false
			}
			if prm, isP := cond.(*ssa.Parameter); isP {
				usedParam[prm] = true
				return true
			}
			if lk, isL := cond.(*ssa.Lookup); isL && !lk.CommaOk && c20IsLoadOf(lk.X, m.gTest) {
				return true
			}
			if ex, isE := cond.(*ssa.Extract); isE {
				if lk, isL := ex.Tuple.(*ssa.Lookup); isL && lk.CommaOk && c20IsLoadOf(lk.X, m.gTest) {
					return true
				}
			}
			return false
		})
		for k := range usedParam {
			guardParams[k] = true
		}
		r.Check(ok, rule, FuncKey(parse)+"#parseUnknown-guard", p.Pos(c.Pos()),
			"the fall-back to parseUnknown is reached only on the true edge of the allow-all parameter or of a testRefType lookup",
			"parse falls back to parseUnknown on a path that tests neither the allow-all parameter nor testRefType: ParseKnown accepts refs of hash functions this server does not support")
	}
	if nUnknown == 0 {
		r.OK(rule, FuncKey(parse)+"#parseUnknown-guard", p.Pos(parse.Pos()), "parse never falls back to parseUnknown")
	}
	// ParseKnown passes false for every guarding parameter
	pk := p.Func(c20Pkg, "", "ParseKnown")
	nCalls := 0
	for _, c := range CallsIn(pk, false) {
		if c.Callee() != parse {
			continue
		}
		nCalls++
		okc := true
		for i, prm := range parse.Params {
			if !guardParams[prm] {
				continue
			}
			cv, isC := c.Common().Args[i].(*ssa.Const)
			if !isC || cv.Value == nil || cv.Value.Kind() != constant.Bool || constant.BoolVal(cv.Value) {
				okc = false
			}
		}
		r.Check(okc, rule, FuncKey(pk)+"#allowAll=false", p.Pos(c.Pos()),
			"ParseKnown calls parse with the allow-all parameter constant false",
			"ParseKnown calls parse with the allow-all parameter not constant false: well-formed refs of unsupported hash functions are reported as known")
	}
	if nCalls == 0 {
		r.Undecided(rule, FuncKey(pk)+"#allowAll=false", p.Pos(pk.Pos()), "ParseKnown no longer calls parse; cannot follow how it restricts itself to supported families")
	}
}

// ---------------------------------------------------------------------------
// B-len

func (m *c20Model) isFieldLoad(v ssa.Value, field string) (meta ssa.Value, ok bool) {
	ld, ok := v.(*ssa.UnOp)
	if !ok || ld.Op != token.MUL {
		return nil, false
	}
	fa, ok := ld.X.(*ssa.FieldAddr)
	if !ok || NamedOf(fa.X.Type()) != m.metaT {
		return nil, false
	}
	if fieldName(fa.X.Type(), fa.Field) != field {
		return nil, false
	}
	return fa.X, true
}

func c20RuleLen(m *c20Model) {
	p, r := m.p, m.r
	const rule = "B-len"
	r.Floor(rule, 4)
	for _, fn := range m.fns {
		for _, c := range CallsIn(fn, false) {
			cc := c.Common()
			if cc.IsInvoke() || cc.StaticCallee() != nil || len(cc.Args) != 1 {
				continue
			}
			var meta ssa.Value
			fld := ""
			for _, f := range []string{"ctor", "ctors", "ctorb"} {
				if mv, ok := m.isFieldLoad(cc.Value, f); ok {
					meta, fld = mv, f
				}
			}
			if fld == "" {
				continue
			}
			arg := cc.Args[0]
			mult := int64(2)
			if fld == "ctor" {
				mult = 1
			}
			construct := FuncKey(fn) + "#" + fld
			site := p.Pos(c.Pos())
			ok := false
			for _, f := range FactsAt(c.Block()) {
				bo, isB := f.Cond.(*ssa.BinOp)
				if !isB || !((bo.Op == token.NEQ && !f.Val) || (bo.Op == token.EQL && f.Val)) {
					continue
				}
				for _, pr := range [][2]ssa.Value{{bo.X, bo.Y}, {bo.Y, bo.X}} {
					x, isLen := c20LenOf(pr[0])
					if !isLen || !(x == arg || sameOrigin(x, arg)) {
						continue
					}
					if m.isSizeExpr(pr[1], meta, mult) {
						ok = true
					}
				}
			}
			if ok {
				r.OK(rule, construct, site, fmt.Sprintf("call through digestMeta.%s is dominated by len(arg) = %d·size of the same meta", fld, mult))
				continue
			}
			if fld == "ctor" && m.sumOfSelectingHash(arg, meta) {
				r.OK(rule, construct, site, "argument is h.Sum(…) of the hash whose (reflect type, h.Size()) selected the meta in metaFromType; B-type ties that size to the meta's")
				continue
			}
			r.Violation(rule, construct, site, fmt.Sprintf("the constructor digestMeta.%s is called without a dominating check that the input has exactly %d·size %s of the same meta: the FromHex loop indexes the digest array by the input length (panic on long input, zero-padded short digests accepted), FromBinary panics", fld, mult, map[int64]string{1: "bytes", 2: "hex digits"}[mult]))
		}
	}
}

// isSizeExpr: v is `meta.size` (mult 1) or `meta.size*2` / `2*meta.size` (mult 2).
func (m *c20Model) isSizeExpr(v ssa.Value, meta ssa.Value, mult int64) bool {
	if mult == 1 {
		mv, ok := m.isFieldLoad(v, "size")
		return ok && mv == meta
	}
	bo, ok := v.(*ssa.BinOp)
	if !ok || bo.Op != token.MUL {
		return false
	}
	for _, pr := range [][2]ssa.Value{{bo.X, bo.Y}, {bo.Y, bo.X}} {
		if mv, ok := m.isFieldLoad(pr[0], "size"); ok && mv == meta {
			if n, ok := ConstInt(pr[1]); ok && n == mult {
				return true
			}
		}
	}
	return false
}

// sumOfSelectingHash: arg is h.Sum(..) and meta is metaFromType[{TypeOf(h), h.Size()}].
func (m *c20Model) sumOfSelectingHash(arg, meta ssa.Value) bool {
	call, ok := arg.(*ssa.Call)
	if !ok || !call.Call.IsInvoke() || call.Call.Method.Name() != "Sum" {
		return false
	}
	h := call.Call.Value
	ex, ok := meta.(*ssa.Extract)
	if !ok || ex.Index != 0 {
		return false
	}
	lk, ok := ex.Tuple.(*ssa.Lookup)
	if !ok || !c20IsLoadOf(lk.X, m.gType) {
		return false
	}
	flds, ok := c20StructLiteral(lk.Index)
	if !ok {
		return false
	}
	sizeOK, typeOK := false, false
	for _, vs := range flds {
		if len(vs) != 1 {
			return false
		}
		switch x := vs[0].(type) {
		case *ssa.Call:
			if x.Call.IsInvoke() && x.Call.Method.Name() == "Size" && x.Call.Value == h {
				sizeOK = true
			}
			if (CallSite{x.Parent(), x}).IsStatic("reflect", "", "TypeOf") && originValue(x.Call.Args[0]) == h {
				typeOK = true
			}
		}
	}
	return sizeOK && typeOK
}

// ---------------------------------------------------------------------------
// B-default

func c20RuleDefault(m *c20Model) {
	p, r := m.p, m.r
	const rule = "B-default"
	r.Floor(rule, 1)
	nh := p.Func(c20Pkg, "", "NewHash")
	for _, ri := range Returns(nh) {
		site := p.Pos(ri.Ret.Pos())
		call, ok := originValue(ri.Results[0]).(*ssa.Call)
		if !ok || call.Call.StaticCallee() == nil {
			r.Undecided(rule, FuncKey(nh)+"#family", site, "NewHash does not return the result of a direct constructor call")
			continue
		}
		cal := call.Call.StaticCallee()
		var fam *c20Fam
		for _, f := range m.fams {
			if f.newFn == cal {
				fam = f
			}
		}
		if fam == nil {
			r.Violation(rule, FuncKey(nh)+"#family", site, fmt.Sprintf("NewHash returns %s(), which is not the newHash of any metaFromString family: RefFromString/RefFromBytes/RefFromHash panic ('Currently-unsupported hash type') or name the blob after another family", FuncKeyAny(cal)))
			continue
		}
		r.OK(rule, FuncKey(nh)+"#family", site, fmt.Sprintf("the recommended hash %s() is the constructor of family %q", FuncKeyAny(cal), fam.name))
	}
}
