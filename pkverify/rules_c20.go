package main

import (
	"fmt"
	"go/constant"
	"go/token"
	"go/types"
	"math"
	"regexp"
	"sort"
	"strings"

	"golang.org/x/tools/go/ssa"
)

// C20 — blobref text, encodings and ordering. The agreement of the
// per-hash-family tables and of the sibling digest types, and the agreement of
// the digit alphabet between formatters and parsers (B-hex) are decided here,
// and so is the ordering implemented by the ref comparators (B-less, by
// path-complete symbolic execution); the value-level round trips are left to
// dynamic checks.
//
// Everything is read from go/ssa of package pkg/blob: the package initializer
// (the tables), the digest types' methods, and the few functions that consult
// the tables. No source text, names of locals or positions are matched.
//
// Function anchors are the exported entry points (Ref.String, MarshalBinary,
// Parse, ParseKnown, ParseBytes, UnmarshalBinary, IsSupported, NewHash, Less,
// Digest) and the methods of the digestType interface; internal helpers
// (appendString, parse, parseUnknown, hexVal, metaFromBytes ...) are found by
// what they do, through the effective body of an entry point (see "effective
// bodies" below): the rules do not depend on how the work is cut into
// functions, on helper names, or on whether a helper is inlined.

const c20Pkg = "pkg/blob"

func init() {
	register(&PropSpec{
		ID:    "C20",
		Title: "Blobref text, encodings and ordering are mutually consistent",
		Explanation: "Decided (table and sibling agreement only, by constant values and types). Wherever a rule speaks of what a function does, it means the function's effective body: the function, the function literals inside it and, transitively (4 calls deep), the package-local functions/methods/generic instances it calls statically, with arguments mapped to parameters; branch facts are carried across such calls (a checking helper's verdict counts as the comparison all its positive returns are dominated by; an unexported helper that is never used as a value inherits the facts that hold at all of its call sites). Function anchors are exported entry points and digestType methods only. " +
			"B-family — for every entry N→M of blob.metaFromString: M is a digestMeta initialised once with all five fields set; M.ctor, M.ctors and M.ctorb all return the same byte-array digest type T; M.size = len(T); M.newHash is the standard-library constructor of the algorithm N names and M.size is that algorithm's Size constant; T.digestName() returns the constant N; T.bytes() returns the whole array; nothing writes the table or a digestMeta after initialisation (the literals may be built by a constructor helper that only the initializer calls; its parameters then stand for the arguments of each call). " +
			"B-type — every entry of blob.metaFromType is keyed by (reflect type of F(), n) and maps to a digestMeta M of metaFromString with M.newHash = F and M.size = n; every M of metaFromString has such an entry (else RefFromHash panics for that family). " +
			"B-text — in T.equalString and T.hasPrefix of every fixed-size digest type, and in every package-local function they hand the same string to (whose integer/string parameters are evaluated from the constant arguments, lengths of constant strings and of whole-array slices): every integer compared with len(s) is the text length len(N)+1+2·size (or a small lower-bound guard), every prefix compared with s is N+separator; every return of equalString that may be true is dominated by len(s)=text length and by a successful prefix match (facts of the caller carried into the callee; the verdict of a checking helper given s counts as what all its positive returns establish); every return of hasPrefix that may be true - constant true, or the verdict of a digit-comparing helper given the rest of the string - is dominated by len(s)≤text length and a successful prefix match, or delegates to T.equalString on the same string. " +
			"B-name — every key of metaFromString and testRefType, followed by the separator and a digest of the family's length, is matched in full by the regular expression blob.Pattern (which the get handler, the client and search use to recognise refs) and does not contain the separator. " +
			"B-sep — the one separator constant written in the effective body of Ref.String (today by appendString) and of MarshalBinary is the one that the effective bodies of Parse, ParseKnown, ParseBytes and UnmarshalBinary search their text parameter for (the parameter followed through conversions and into helper parameters). " +
			"B-known — IsSupported returns a possibly-true value only as, or dominated by, the ok (or non-nil value) of a metaFromString lookup, possibly made by a package-local helper; from ParseKnown, followed through all package-local calls, every way to a place that builds a ref of an unsupported hash (a conversion to digestType of a digest type that is no family's; today in parseUnknown) crosses the true edge of a testRefType lookup or of a boolean parameter that the caller on that way pins to constant false (today: parse guards by allowAll || testRefType[name], ParseKnown passes allowAll=false); a guard hoisted into a local (phi of short-circuit operands) is read through. " +
			"B-len — every call through digestMeta.ctors/ctorb is dominated by len(hex)=2·meta.size and every call through digestMeta.ctor by len(b)=meta.size of the same meta (or takes h.Sum of the hash whose (type,Size()) selected the meta, the lookup possibly made by a helper given h); the comparison may be written out, be the verdict (true / nil error) of a package-local checking helper given the text or its length and the meta, use a size helper of the meta, or - when the call sits in an unexported helper that is never used as a value - hold at every call site of that helper (recursively). " +
			"B-default — blob.NewHash returns (directly, through package-local helpers, or through the newHash field of a family's digestMeta) the newHash constructor of a supported family. " +
			"B-hex (writer/reader agreement of the digit alphabet) — writers: the effective body of Ref.String (today appendString, shared with StringMinusOne and MarshalJSON; the table may sit in a helper or function literal of it) prints each nibble n of a digest byte as E[n] for one constant 16-character table E with distinct characters, read off the constant string indexed by a nibble of the byte (index expression evaluated for all 256 byte values) or off a frozen table of standard-library hex encoders; every other function of pkg/blob in which a nibble selects a character or that calls such an encoder (Ref.Digest, equalString/hasPrefix of all four digest types, the %x re-encoding in UnmarshalBinary) uses the same E. Readers: for the ctors and ctorb constructor of every metaFromString family, every use of the text parameter is followed (slices, conversions, package-local helpers) to the calls that consume its characters; a package-local digit function (or a function literal around one that captures the bad flag) is evaluated over all 256 byte values by interpreting its go/ssa (pure integer/boolean code, constant strings, package-level constant arrays, stores to the bad flag or a (value, ok) result), a standard-library decoder is looked up in a frozen table; required: accepted characters = {E[0..15]} exactly and accepted c ↦ n with E[n] = c, and no success exit of the constructor (or helper) is reachable from a digit-judging call without crossing the branch on its verdict (bad flag read afterwards, ok result, helper result, decoder error). The functions that build refs of unsupported hashes (found by the conversion, today parseUnknown; a wrapper that takes no text is followed to its callers): the same, except that they may accept more than E (their refs are never of a supported family: B-known). Closure: a value of a family's digest type becomes a digestType only inside that family's ctor/ctors/ctorb functions or helpers only they call. blob.Pattern matches every printed digit at the first, a middle and the last digit position of a full ref of every family. " +
			"B-less (the ordering functions) — comparators: Ref.Less and every method of pkg/blob named Less that takes a ref-holding struct (Ref, SizedRef) or two indexes into a slice of them (ByRef, SizedByRef); each is executed symbolically on its go/ssa (package-local callees such as Valid, Sum32, Sum64 inlined; bytes.Compare/Equal, strings.Compare, cmp.Compare/Less, slices.Compare/Equal and encoding/binary's BigEndian/LittleEndian.UintNN by their documented meaning; String() as the text form itself), once per metaFromString family with that family's digest length, with concrete control flow and lengths and symbolic operands (validity, digestName(), the N digest bytes, integers tracked byte lane by byte lane so that the window and byte order of an integer comparison are derived from the shifts/ors that built it). All paths are enumerated by answering every comparison of symbolic data less/equal/greater. Required on every path for two valid refs: (1) #names — the digestName() strings (or the whole text forms) have been compared, and under different names the result is name(first) < name(second); digest bytes decide only under equal names; (2) #bytes[family] — under equal names, in every way of satisfying the path's comparison outcomes by per-byte relations, the lexicographic order of digest bytes [0,N) is determined and the result is true exactly when the first operand is smaller: so the compared windows cover every byte from 0 in order, later windows are consulted only on equality of the earlier ones, integer windows are big-endian and unsigned, both operands use the same windows, (3) and the result is false for equal refs. A byte that no comparison constrains while all earlier bytes are equal, a little-endian or signed window, windows that differ between the operands, an operand compared with itself, a result on equality, or reversed operands are violations; code the executor cannot follow (type switches on the digest, other fields, unknown callees) is Undecided. #digit-order — when a comparator decides by digest bytes, the digit table E of the text form (B-hex) is strictly increasing, so byte order carries over to hex digits. #name-order — for every pair of different metaFromString names A < B, A+separator < B+separator and neither is a prefix of the other, so the order of names is the order of the text forms of refs of different hash functions. Premise taken from B-family: T.bytes() is the whole array and T.digestName() the family's name. " +
			"NOT decided: that parse∘String, the JSON and the binary encodings round-trip as whole strings; that appendString writes the digest bytes in index order with the high nibble first (B-less decides that Less is the order of (hash name, digest bytes) and that the digit table is increasing; that this is the byte order of the text forms additionally needs that layout); the order of refs of unknown hash names (otherDigest) and of invalid refs; comparators of refs outside pkg/blob and function literals passed to sort.Slice; that the decode loops and equalString/hasPrefix visit every digit position, in the order high nibble first (only the per-digit tables are compared, not the positions); the behaviour of otherDigest beyond its digit alphabet; that the standard-library constructors compute the named algorithm; whether blob.Pattern matches more than the parsers accept. These are value-level statements over all strings.",
		RuleDocs: map[string]string{
			"B-family":  "every MapUpdate of metaFromString in the package initializer: digestMeta fields vs digest type vs standard-library constants",
			"B-type":    "every MapUpdate of metaFromType: key (reflect.TypeOf(F()), n) agrees with the target digestMeta; every family is reachable",
			"B-text":    "equalString/hasPrefix of every family's digest type and the package-local functions they pass the string to (constant arguments bound to parameters): length and prefix constants, and the facts dominating returns that may be true",
			"B-name":    "every key of metaFromString and testRefType is matched by blob.Pattern in a full ref and does not contain the separator",
			"B-sep":     "the separator constant written in the effective bodies of Ref.String and MarshalBinary is the one searched for in the effective bodies of Parse, ParseKnown, ParseBytes, UnmarshalBinary",
			"B-known":   "IsSupported is true only behind a metaFromString lookup; every way from ParseKnown (package-local calls followed) to a place that builds a ref of an unsupported hash crosses a testRefType lookup or a boolean parameter pinned to false by the caller on that way",
			"B-len":     "dynamic calls through digestMeta.ctor/ctors/ctorb are dominated by the matching length fact on the same meta: a comparison, the verdict of a checking helper, or the facts at all call sites of the unexported helper holding the call",
			"B-default": "the constructor NewHash returns (package-local helpers and the newHash field of a family's meta followed) belongs to a metaFromString family",
			"B-hex":     "digit alphabet: every nibble→character table use and hex encoder call in pkg/blob prints with the table found in the effective body of Ref.String; the ctors/ctorb constructor of every family and the functions that build refs of unsupported hashes read digits only through digit functions (go/ssa evaluated on all 256 bytes) or tabled decoders whose accepted set and values invert that table, and never report success past an untested bad-digit verdict; family digests are built only by the table's constructors; blob.Pattern matches every printed digit",
			"B-less":    "every ref comparator of pkg/blob (Ref.Less; methods named Less on Ref/SizedRef and on slices of them): symbolic execution per family enumerates all paths; different hash names are ordered by digestName(), equal names by a lexicographic comparison that covers digest bytes [0,N) from 0 in order with the same big-endian/unsigned windows on both operands, false on equality; the digit table of the text form is increasing; name order = order of name+separator for all pairs of family names",
		},
		Run:       runC20,
		DesignRef: "DESIGN.md §4 C20",
		Technique: "static analysis: table agreement over the go/ssa package initializer (constants, types, function identities), constant agreement and dominating branch facts in the digest types' methods; sites, values and facts are looked for in effective bodies (entry point + statically called package-local functions and literals, arguments mapped to parameters, facts carried across calls and from all call sites into unexported helpers); reachability summaries per function for the known-only rule; writer/reader alphabet agreement by exhaustive abstract evaluation of the digit functions' go/ssa over the 256 byte values, data-flow of the text argument through package-local helpers, and path search from every digit-judging call to the success exits; ordering functions by path-complete symbolic execution of their go/ssa per digest length (concrete control flow, symbolic digest bytes tracked per byte lane, oracle-driven enumeration of comparison outcomes) and an exact per-path decision over per-byte relations",
		LevelText: "Decides that the per-hash-family tables of pkg/blob agree with each other, with the digest types' methods and with the standard-library hash constants, that the functions consulting them are guarded by the matching length/lookup facts, and that the set of characters (and their values) the digest parsers of supported families accept is exactly the set the formatters print, so that no string with a character outside the printed alphabet can parse as a supported ref. It also decides, for refs of the supported families, that Ref.Less, SizedRef.Less, ByRef.Less and SizedByRef.Less order by hash name first and then by a lexicographic comparison covering every digest byte in order (big-endian, unsigned, same windows on both operands, irreflexive), and that the hex digit table is increasing — which is the byte order of the text forms provided appendString lays the digits out in byte order, high nibble first (not decided). It does not decide the remaining value-level statements of the property (round trips of whole text/JSON/binary forms, the digit layout/positions, that every digit position is visited in the right order by parsers and equalString/hasPrefix); those need dynamic checking.",
	})
}

// c20HashTable is the one frozen table of this property: which standard
// library constructor and Size constant a digest name denotes. One line of
// reason per entry; a family missing here is reported Undecided, never passed.
var c20HashTable = map[string]struct{ pkg, ctor, sizeConst, reason string }{
	"sha1":   {"crypto/sha1", "New", "Size", "blobref name sha1 = FIPS 180-4 SHA-1 (camlistore's original hash)"},
	"sha224": {"crypto/sha256", "New224", "Size224", "blobref name sha224 = FIPS 180-4 SHA-224 (perkeep's default since 2018)"},
	"sha256": {"crypto/sha256", "New", "Size", "blobref name sha256 = FIPS 180-4 SHA-256"},
	// not families today; listed so that adding one of the two obvious next
	// families correctly does not need a checker change (exercised by selftest)
	"sha384": {"crypto/sha512", "New384", "Size384", "FIPS 180-4 SHA-384"},
	"sha512": {"crypto/sha512", "New", "Size", "FIPS 180-4 SHA-512"},
}

type c20Fam struct {
	name   string
	pos    token.Pos
	val    ssa.Value              // the map value as written
	meta   ssa.Value              // the digestMeta it resolves to: the composite literal of the initializer, or the initializer's call of a constructor helper that returns one (nil if unresolved)
	field  map[string][]ssa.Value // values stored per field
	T      *types.Named           // digest type (from ctor)
	size   int64
	sizeOK bool
	newFn  *ssa.Function
}

type c20Model struct {
	p      *Program
	r      *Reporter
	pkg    *ssa.Package
	fns    []*ssa.Function
	metaT  *types.Named
	fams   []*c20Fam
	byMeta map[ssa.Value]*c20Fam
	sep    string // separator between name and digits, from appendString ("" if undetermined)
	gStr   *ssa.Global
	gType  *ssa.Global
	gTest  *ssa.Global
	// B-hex
	garr       map[*ssa.Global]map[int64]int64
	garrErr    map[*ssa.Global]error
	textMemo   map[c20TextKey]*c20TextSum
	cgCallers  map[*ssa.Function]map[*ssa.Function]bool
	cgValueUse map[*ssa.Function]bool
	// B-less: the digit table of the text form, as extracted by B-hex, and the function holding it
	hexE   [16]byte
	hexEOK bool
	hexFn  *ssa.Function
}

func (m *c20Fam) key() string { return c20Pkg + ".metaFromString[" + m.name + "]" }

func runC20(p *Program, r *Reporter) {
	m := c20Build(p, r)
	r.Analysed("functions", len(m.fns))
	r.Analysed("families", len(m.fams))
	c20RuleFamily(m)
	c20RuleType(m)
	c20RuleSep(m)
	c20RuleText(m)
	c20RuleName(m)
	c20RuleKnown(m)
	c20RuleLen(m)
	c20RuleDefault(m)
	c20RuleHex(m)
	c20RuleLess(m)
}

// ---------------------------------------------------------------------------
// model: globals and their initial values

func c20GlobalOf(pkg *ssa.Package, name string) *ssa.Global {
	g, _ := pkg.Members[name].(*ssa.Global)
	if g == nil {
		brokenf("anchor unresolved: %s.%s (package-level variable)", c20Pkg, name)
	}
	return g
}

// c20GlobalInit returns the single value stored to g anywhere in the package
// (nil when there is none or more than one).
func (m *c20Model) globalInit(g *ssa.Global) (ssa.Value, int) {
	var val ssa.Value
	n := 0
	for _, fn := range m.fns {
		for _, b := range fn.Blocks {
			for _, in := range b.Instrs {
				if st, ok := in.(*ssa.Store); ok && st.Addr == ssa.Value(g) {
					val = st.Val
					n++
				}
			}
		}
	}
	if n != 1 {
		return nil, n
	}
	return val, 1
}

// resolve follows loads of package-level variables to their single initial
// value and strips value-preserving conversions.
func (m *c20Model) resolve(v ssa.Value) ssa.Value {
	for i := 0; i < 8; i++ {
		switch x := v.(type) {
		case *ssa.ChangeType:
			v = x.X
			continue
		case *ssa.ChangeInterface:
			v = x.X
			continue
		case *ssa.MakeInterface:
			v = x.X
			continue
		case *ssa.UnOp:
			if x.Op == token.MUL {
				if g, ok := x.X.(*ssa.Global); ok {
					if iv, n := m.globalInit(g); n == 1 {
						v = iv
						continue
					}
				}
			}
		}
		break
	}
	return v
}

func c20IsLoadOf(v ssa.Value, g *ssa.Global) bool {
	u, ok := v.(*ssa.UnOp)
	return ok && u.Op == token.MUL && u.X == ssa.Value(g)
}

type c20Entry struct {
	key, val ssa.Value
	pos      token.Pos
}

// mapEntries returns the MapUpdates that build the map stored in g by the
// package initializer, and a reason when the table cannot be read statically.
func (m *c20Model) mapEntries(g *ssa.Global) ([]c20Entry, string) {
	iv, n := m.globalInit(g)
	if n != 1 {
		return nil, fmt.Sprintf("%s is assigned %d times in the package; expected exactly one initialisation", g.Name(), n)
	}
	mk, ok := iv.(*ssa.MakeMap)
	if !ok {
		return nil, fmt.Sprintf("%s is not initialised by a map literal (%T)", g.Name(), iv)
	}
	var out []c20Entry
	for _, u := range nonDebug(*mk.Referrers()) {
		switch x := u.(type) {
		case *ssa.MapUpdate:
			if x.Map == ssa.Value(mk) {
				out = append(out, c20Entry{x.Key, x.Value, x.Pos()})
			}
		case *ssa.Store:
			if x.Val != ssa.Value(mk) || x.Addr != ssa.Value(g) {
				return nil, fmt.Sprintf("the map of %s is stored somewhere else as well; cannot follow", g.Name())
			}
		default:
			return nil, fmt.Sprintf("the map literal of %s is used by %T before being published; cannot follow", g.Name(), u)
		}
	}
	// no later writer of the table
	for _, fn := range m.fns {
		for _, b := range fn.Blocks {
			for _, in := range b.Instrs {
				switch x := in.(type) {
				case *ssa.MapUpdate:
					if c20IsLoadOf(x.Map, g) {
						return nil, fmt.Sprintf("%s writes %s after initialisation; the table is no longer a constant", FuncKey(fn), g.Name())
					}
				case ssa.CallInstruction:
					if bi, ok := x.Common().Value.(*ssa.Builtin); ok && (bi.Name() == "delete" || bi.Name() == "clear") && len(x.Common().Args) > 0 && c20IsLoadOf(x.Common().Args[0], g) {
						return nil, fmt.Sprintf("%s deletes from %s after initialisation", FuncKey(fn), g.Name())
					}
				}
			}
		}
	}
	return out, ""
}

func c20Build(p *Program, r *Reporter) *c20Model {
	m := &c20Model{p: p, r: r, pkg: p.SSAPkg(c20Pkg), byMeta: map[ssa.Value]*c20Fam{}}
	seen := map[*ssa.Function]bool{}
	for _, f := range p.FuncsIn(c20Pkg) {
		if !seen[f] {
			seen[f] = true
			m.fns = append(m.fns, f)
		}
	}
	// the synthetic package initializer holds the tables; generic instances
	// referenced from it are reached through the stored function values.
	if ini := m.pkg.Func("init"); ini != nil && !seen[ini] {
		m.fns = append(m.fns, ini)
	}
	m.metaT = p.NamedType(c20Pkg, "digestMeta")
	m.gStr = c20GlobalOf(m.pkg, "metaFromString")
	m.gType = c20GlobalOf(m.pkg, "metaFromType")
	m.gTest = c20GlobalOf(m.pkg, "testRefType")
	for _, f := range []string{"newHash", "ctor", "ctors", "ctorb", "size"} {
		if c20FieldIndex(m.metaT, f) < 0 {
			brokenf("anchor unresolved: field %s.digestMeta.%s", c20Pkg, f)
		}
	}

	ents, why := m.mapEntries(m.gStr)
	if why != "" {
		r.Undecided("B-family", c20Pkg+".metaFromString#table", "?", why)
		return m
	}
	for _, e := range ents {
		name, ok := ConstString(e.key)
		if !ok {
			r.Undecided("B-family", c20Pkg+".metaFromString#key", p.Pos(e.pos), "a key of metaFromString is not a constant; the set of families cannot be enumerated")
			continue
		}
		f := &c20Fam{name: name, pos: e.pos, val: e.val, field: map[string][]ssa.Value{}}
		if id := m.metaIdentity(e.val); id != nil {
			f.meta = id
			if prev := m.byMeta[id]; prev == nil {
				m.byMeta[id] = f
			}
		}
		m.fams = append(m.fams, f)
	}
	sort.SliceStable(m.fams, func(i, j int) bool { return m.fams[i].name < m.fams[j].name })
	return m
}

// method returns the declared (non-wrapper) method name of T: the value
// receiver's method set is consulted first, so a value method is not hidden
// behind its synthetic pointer-receiver wrapper.
func (m *c20Model) method(T *types.Named, name string) *ssa.Function {
	for _, t := range []types.Type{T, types.NewPointer(T)} {
		sel := m.p.SSA.MethodSets.MethodSet(t).Lookup(T.Obj().Pkg(), name)
		if sel == nil {
			continue
		}
		if f := m.p.SSA.MethodValue(sel); f != nil && f.Synthetic == "" {
			return f
		}
	}
	return nil
}

func c20FieldIndex(n *types.Named, name string) int {
	st, ok := n.Underlying().(*types.Struct)
	if !ok {
		return -1
	}
	for i := 0; i < st.NumFields(); i++ {
		if st.Field(i).Name() == name {
			return i
		}
	}
	return -1
}

// readMeta collects the stores into the fields of a digestMeta literal.
// It returns a reason when the literal escapes before/without being a plain
// table value.
func (m *c20Model) readMeta(f *c20Fam) string {
	st := m.metaT.Underlying().(*types.Struct)
	lit, _ := f.meta.(*ssa.Alloc)
	var bind func(v ssa.Value) ssa.Value = func(v ssa.Value) ssa.Value { return v }
	if call, ok := f.meta.(*ssa.Call); ok {
		// a constructor helper called by the initializer: its literal, with the
		// helper's parameters standing for the arguments of this call
		h := m.localCallee(call.Parent(), call)
		lit = m.metaHelperLiteral(h)
		if lit == nil {
			return "the value is built by a call the analysis cannot read as a digestMeta constructor"
		}
		bind = func(v ssa.Value) ssa.Value {
			if prm, ok := v.(*ssa.Parameter); ok {
				for i, hp := range h.Params {
					if hp == prm && i < len(call.Call.Args) {
						return call.Call.Args[i]
					}
				}
			}
			return v
		}
		for _, u := range nonDebug(*call.Referrers()) {
			switch x := u.(type) {
			case *ssa.Store:
				if _, ok := x.Addr.(*ssa.Global); !ok || x.Val != ssa.Value(call) {
					return "the constructed digestMeta is stored into something other than a package-level variable; cannot follow"
				}
			case *ssa.MapUpdate:
			default:
				return fmt.Sprintf("the constructed digestMeta is used by %T during initialisation; cannot follow", u)
			}
		}
	}
	if lit == nil {
		return "the value does not resolve to a digestMeta literal"
	}
	for _, u := range nonDebug(*lit.Referrers()) {
		switch x := u.(type) {
		case *ssa.FieldAddr:
			fname := st.Field(x.Field).Name()
			for _, uu := range nonDebug(*x.Referrers()) {
				s, ok := uu.(*ssa.Store)
				if !ok || s.Addr != ssa.Value(x) {
					return fmt.Sprintf("the address of field %s of the digestMeta literal is used by %T; cannot follow", fname, uu)
				}
				f.field[fname] = append(f.field[fname], bind(s.Val))
			}
		case *ssa.Store:
			if x.Val != ssa.Value(lit) {
				return "the digestMeta literal is overwritten as a whole"
			}
			if _, ok := x.Addr.(*ssa.Global); !ok {
				return "the digestMeta literal is stored into something other than a package-level variable; cannot follow"
			}
		case *ssa.MapUpdate:
			// used directly as a table value
		case *ssa.Return:
			if lit == f.meta {
				return "the digestMeta literal is returned during initialisation; cannot follow"
			}
		default:
			return fmt.Sprintf("the digestMeta literal is used by %T during initialisation; cannot follow", u)
		}
	}
	return ""
}

// metaIdentity: what a table value denotes - the digestMeta composite literal
// of the package initializer, or the initializer's call of a package-local
// constructor helper that returns a fresh literal (each call a different meta).
func (m *c20Model) metaIdentity(v ssa.Value) ssa.Value {
	switch x := m.resolve(v).(type) {
	case *ssa.Alloc:
		if NamedOf(x.Type()) == m.metaT {
			return x
		}
	case *ssa.Call:
		if x.Parent() != nil && x.Parent().Synthetic == "package initializer" && m.metaHelperLiteral(m.localCallee(x.Parent(), x)) != nil {
			return x
		}
	}
	return nil
}

// metaHelperLiteral: h is a constructor helper - every return yields the one
// digestMeta literal allocated in h, and h is only ever called (directly or
// through such helpers) by the package initializer.
func (m *c20Model) metaHelperLiteral(h *ssa.Function) *ssa.Alloc {
	if h == nil || h.Blocks == nil || !m.initOnly(h, 0) {
		return nil
	}
	var lit *ssa.Alloc
	for _, ri := range Returns(h) {
		if len(ri.Results) != 1 {
			return nil
		}
		al, ok := ri.Results[0].(*ssa.Alloc)
		if !ok || al.Parent() != h || NamedOf(al.Type()) != m.metaT || (lit != nil && lit != al) {
			return nil
		}
		lit = al
	}
	return lit
}

// initOnly: fn is the package initializer, or an unexported function that is
// never used as a value and all of whose static callers are initOnly.
func (m *c20Model) initOnly(fn *ssa.Function, depth int) bool {
	if fn.Synthetic == "package initializer" {
		return true
	}
	if depth > c20EffDepth {
		return false
	}
	sites, closed := m.callSitesOf(fn)
	if !closed {
		return false
	}
	for _, cs := range sites {
		if !m.initOnly(TopFunc(cs.Fn), depth+1) {
			return false
		}
	}
	return true
}

// metaWriters lists functions that store into a digestMeta field through
// anything but the family literals of the initializer.
func (m *c20Model) metaWriters() []string {
	var out []string
	for _, fn := range m.fns {
		for _, b := range fn.Blocks {
			for _, in := range b.Instrs {
				st, ok := in.(*ssa.Store)
				if !ok {
					continue
				}
				fa, ok := st.Addr.(*ssa.FieldAddr)
				if !ok || NamedOf(fa.X.Type()) != m.metaT {
					continue
				}
				if al, ok := fa.X.(*ssa.Alloc); ok && al.Parent() == fn && m.initOnly(fn, 0) {
					continue // a composite literal in the initializer, or in a constructor helper only it calls
				}
				out = append(out, FuncKey(fn))
			}
		}
	}
	return out
}

func c20FuncValue(v ssa.Value) *ssa.Function {
	for i := 0; i < 4; i++ {
		switch x := v.(type) {
		case *ssa.Function:
			return x
		case *ssa.ChangeType:
			v = x.X
		case *ssa.MakeClosure:
			if len(x.Bindings) == 0 {
				f, _ := x.Fn.(*ssa.Function)
				return f
			}
			return nil
		default:
			return nil
		}
	}
	return nil
}

// c20DigestTypesReturned lists the concrete types a constructor wraps into its
// first (digestType) result; nil constants are skipped.
func c20DigestTypesReturned(fn *ssa.Function, depth int) (ts []types.Type, why string) {
	if fn == nil || fn.Blocks == nil {
		return nil, "constructor has no body to analyse"
	}
	var visit func(v ssa.Value, d int)
	seen := map[ssa.Value]bool{}
	visit = func(v ssa.Value, d int) {
		if seen[v] {
			return
		}
		seen[v] = true
		switch x := v.(type) {
		case *ssa.Const:
			if x.Value != nil {
				why = "constructor returns a non-nil constant"
			}
		case *ssa.MakeInterface:
			ts = append(ts, x.X.Type())
		case *ssa.ChangeInterface:
			visit(x.X, d)
		case *ssa.Phi:
			for _, e := range x.Edges {
				visit(e, d)
			}
		case *ssa.Extract:
			if c, ok := x.Tuple.(*ssa.Call); ok && x.Index == 0 {
				if cal := c.Call.StaticCallee(); cal != nil && d < 2 {
					t2, w2 := c20DigestTypesReturned(cal, d+1)
					ts = append(ts, t2...)
					if w2 != "" {
						why = w2
					}
					return
				}
			}
			why = "constructor returns a value the analysis cannot follow (extract)"
		case *ssa.Call:
			if cal := x.Call.StaticCallee(); cal != nil && d < 2 {
				t2, w2 := c20DigestTypesReturned(cal, d+1)
				ts = append(ts, t2...)
				if w2 != "" {
					why = w2
				}
				return
			}
			why = "constructor returns the result of a dynamic call"
		default:
			why = fmt.Sprintf("constructor returns a value the analysis cannot follow (%T)", v)
		}
	}
	for _, ri := range Returns(fn) {
		if len(ri.Results) == 0 {
			continue
		}
		visit(ri.Results[0], depth)
	}
	return ts, why
}

func c20ByteArray(t types.Type) (*types.Named, int64, bool) {
	n, ok := t.(*types.Named)
	if !ok {
		return nil, 0, false
	}
	a, ok := n.Underlying().(*types.Array)
	if !ok {
		return nil, 0, false
	}
	b, ok := a.Elem().Underlying().(*types.Basic)
	if !ok || b.Kind() != types.Uint8 {
		return nil, 0, false
	}
	return n, a.Len(), true
}

// ---------------------------------------------------------------------------
// B-family

func c20RuleFamily(m *c20Model) {
	p, r := m.p, m.r
	const rule = "B-family"
	r.Floor(rule, 24)
	if w := m.metaWriters(); len(w) > 0 {
		r.Violation(rule, c20Pkg+".digestMeta#written-after-init", "?", "digestMeta fields are assigned outside the composite literals of the package initializer, in "+strings.Join(w, ", ")+": the family tables are no longer constants and none of the agreement checks below means anything")
	}
	seenName := map[string]bool{}
	for _, f := range m.fams {
		site := p.Pos(f.pos)
		if seenName[f.name] {
			r.Violation(rule, f.key()+"#duplicate", site, "digest name "+f.name+" is entered twice in metaFromString")
			continue
		}
		seenName[f.name] = true
		if f.meta == nil {
			r.Undecided(rule, f.key()+"#meta", site, fmt.Sprintf("the value of metaFromString[%q] does not resolve to a digestMeta composite literal of the initializer (%T)", f.name, m.resolve(f.val)))
			continue
		}
		if why := m.readMeta(f); why != "" {
			r.Undecided(rule, f.key()+"#meta", site, why)
			continue
		}
		if owner := m.byMeta[f.meta]; owner != f {
			r.Violation(rule, f.key()+"#meta", site, fmt.Sprintf("metaFromString[%q] and metaFromString[%q] share one digestMeta: refs of one family would be built with the other family's digest type", f.name, owner.name))
			continue
		}
		// every field set exactly once, function fields to a function
		okAll := true
		for _, fld := range []string{"newHash", "ctor", "ctors", "ctorb", "size"} {
			vs := f.field[fld]
			switch {
			case len(vs) == 0:
				okAll = false
				r.Violation(rule, f.key()+"#"+fld, site, fmt.Sprintf("field %s of the digestMeta of %q is never set: %s", fld, f.name, c20UnsetConsequence(fld)))
			case len(vs) > 1:
				okAll = false
				r.Undecided(rule, f.key()+"#"+fld, site, fmt.Sprintf("field %s of the digestMeta of %q is stored %d times", fld, f.name, len(vs)))
			}
		}
		if !okAll {
			continue
		}
		r.OKTable(rule, f.key()+"#meta", site, "digestMeta literal of the initializer, all five fields stored exactly once, not shared with another name")

		// size constant
		if n, ok := ConstInt(f.field["size"][0]); ok {
			f.size, f.sizeOK = n, true
		}
		// ctor / ctors / ctorb return one digest type
		var T *types.Named
		var tlen int64
		ctorOK := true
		for _, fld := range []string{"ctor", "ctors", "ctorb"} {
			fn := c20FuncValue(f.field[fld][0])
			if fn == nil {
				if IsNilConst(f.field[fld][0]) {
					r.Violation(rule, f.key()+"#"+fld, site, fmt.Sprintf("field %s of the digestMeta of %q is nil: %s", fld, f.name, c20UnsetConsequence(fld)))
				} else {
					r.Undecided(rule, f.key()+"#"+fld, site, fmt.Sprintf("field %s of %q is not a plain function value", fld, f.name))
				}
				ctorOK = false
				continue
			}
			ts, why := c20DigestTypesReturned(fn, 0)
			if why != "" || len(ts) == 0 {
				if why == "" {
					why = "constructor never returns a digest"
				}
				r.Undecided(rule, f.key()+"#"+fld, site, FuncKeyAny(fn)+": "+why)
				ctorOK = false
				continue
			}
			bad := ""
			for _, t := range ts {
				n, l, ok := c20ByteArray(t)
				if !ok {
					bad = fmt.Sprintf("%s returns %s, which is not a named byte-array type (digestType values must be comparable fixed-size arrays)", FuncKeyAny(fn), t)
					break
				}
				if T == nil {
					T, tlen = n, l
				} else if n != T {
					bad = fmt.Sprintf("%s (field %s of %q) builds %s but another constructor of the same family builds %s: refs parsed from text, from bytes and from hashes would not compare equal", FuncKeyAny(fn), fld, f.name, n.Obj().Name(), T.Obj().Name())
					break
				}
			}
			if bad != "" {
				ctorOK = false
				r.Violation(rule, f.key()+"#"+fld, site, bad)
				continue
			}
			r.OK(rule, f.key()+"#"+fld, site, fmt.Sprintf("%s returns only %s (len %d)", FuncKeyAny(fn), T.Obj().Name(), tlen))
		}
		if !ctorOK || T == nil {
			continue
		}
		f.T = T
		// size = len(T)
		if !f.sizeOK {
			r.Undecided(rule, f.key()+"#size", site, "size is not a constant")
		} else {
			r.Check(f.size == tlen, rule, f.key()+"#size", site,
				fmt.Sprintf("size %d = len(%s)", f.size, T.Obj().Name()),
				fmt.Sprintf("size %d but the constructors build %s of %d bytes: parse accepts %d hex digits and the FromHex loop then %s", f.size, T.Obj().Name(), tlen, 2*f.size, c20SizeConsequence(f.size, tlen)))
		}
		// newHash per frozen table
		c20CheckNewHash(m, f, site)
		// digestName
		if dn, _ := m.method(T, "digestName"), 0; dn == nil || dn.Blocks == nil {
			brokenf("anchor unresolved: method digestName of %s", T.Obj().Name())
		} else {
			bad := ""
			n := 0
			for _, ri := range Returns(dn) {
				n++
				s, ok := ConstString(ri.Results[0])
				if !ok {
					bad = "digestName does not return a constant"
				} else if s != f.name {
					bad = fmt.Sprintf("%s.digestName() returns %q but the type is the digest type of family %q: String() of a parsed %s ref would print %s-…, Less/IsSupported/Hash would consult the wrong family", T.Obj().Name(), s, f.name, f.name, s)
				}
			}
			if n == 0 {
				bad = "digestName never returns"
			}
			r.Check(bad == "", rule, f.key()+"#digestName", p.Pos(dn.Pos()), fmt.Sprintf("%s.digestName() returns the constant %q", T.Obj().Name(), f.name), bad)
		}
		// bytes
		c20CheckBytes(m, f, T, tlen)
	}
}

func c20UnsetConsequence(fld string) string {
	switch fld {
	case "newHash":
		return "Ref.Hash() calls it unconditionally and would panic on a nil function for this family"
	case "ctor":
		return "RefFromHash and UnmarshalBinary call it unconditionally and would panic for this family"
	case "ctors":
		return "parse (Parse, ParseKnown, MustParse) calls it unconditionally and would panic on any text ref of this family"
	case "ctorb":
		return "ParseBytes (JSON unmarshalling of every ref) calls it unconditionally and would panic for this family"
	case "size":
		return "parse compares the digit count with 2·size and would reject every ref of this family"
	}
	return ""
}

func c20SizeConsequence(size, tlen int64) string {
	if size > tlen {
		return "indexes the array out of range (panic on well-formed input)"
	}
	return "fills only part of the array (short digests accepted, full-length refs rejected)"
}

func c20CheckNewHash(m *c20Model, f *c20Fam, site string) {
	p, r := m.p, m.r
	const rule = "B-family"
	v := f.field["newHash"][0]
	fn := c20FuncValue(v)
	if fn == nil {
		if IsNilConst(v) {
			r.Violation(rule, f.key()+"#newHash", site, "newHash is nil: "+c20UnsetConsequence("newHash"))
		} else {
			r.Undecided(rule, f.key()+"#newHash", site, "newHash is not a plain function value")
		}
		return
	}
	f.newFn = fn
	want, ok := c20HashTable[f.name]
	if !ok {
		r.Undecided(rule, f.key()+"#newHash", site, fmt.Sprintf("digest name %q is not in the checker's table of (name → standard-library constructor, Size constant); add one line to c20HashTable in rules_c20.go", f.name))
		return
	}
	got := ""
	if fn.Pkg != nil {
		got = fn.Pkg.Pkg.Path() + "." + fn.Name()
	} else {
		got = fn.String()
	}
	if got != want.pkg+"."+want.ctor {
		r.Violation(rule, f.key()+"#newHash", site, fmt.Sprintf("newHash of %q is %s, expected %s.%s (%s): Ref.Hash()/NewHashOfType(%q) would verify and name blobs with a different algorithm", f.name, got, want.pkg, want.ctor, want.reason, f.name))
		return
	}
	lp := p.ByPath[want.pkg]
	if lp == nil || lp.Types == nil {
		brokenf("anchor unresolved: package %s not loaded", want.pkg)
	}
	c, _ := lp.Types.Scope().Lookup(want.sizeConst).(*types.Const)
	if c == nil {
		brokenf("anchor unresolved: constant %s.%s", want.pkg, want.sizeConst)
	}
	n, _ := constant.Int64Val(c.Val())
	if !f.sizeOK {
		return // reported under #size
	}
	r.Check(n == f.size, rule, f.key()+"#newHash", site,
		fmt.Sprintf("newHash = %s and size %d = %s.%s", got, f.size, want.pkg, want.sizeConst),
		fmt.Sprintf("size %d differs from %s.%s = %d, the digest length of %s: RefFromHash passes Sum(nil) of %d bytes to a constructor that panics on any other length", f.size, want.pkg, want.sizeConst, n, got, n))
}

// c20CheckBytes: T.bytes() returns the whole array (a slice [0:len] of the receiver).
func c20CheckBytes(m *c20Model, f *c20Fam, T *types.Named, tlen int64) {
	p, r := m.p, m.r
	const rule = "B-family"
	fn := m.method(T, "bytes")
	if fn == nil || fn.Blocks == nil {
		brokenf("anchor unresolved: method bytes of %s", T.Obj().Name())
	}
	bad, und := "", ""
	for _, ri := range Returns(fn) {
		sl, ok := ri.Results[0].(*ssa.Slice)
		if !ok {
			und = fmt.Sprintf("bytes returns %T, not a slice expression of the receiver", ri.Results[0])
			continue
		}
		if !c20IsReceiverArray(fn, sl.X) {
			und = "bytes slices something other than the receiver array"
			continue
		}
		if sl.Low != nil {
			if n, ok := ConstInt(sl.Low); !ok || n != 0 {
				bad = "bytes() does not start at element 0 of the digest"
			}
		}
		if sl.High != nil {
			if n, ok := ConstInt(sl.High); !ok {
				und = "bytes() has a non-constant upper bound"
			} else if n != tlen {
				bad = fmt.Sprintf("bytes() returns only %d of the %d digest bytes: String, Less, HashMatches and the binary encoding would all truncate", n, tlen)
			}
		}
	}
	switch {
	case bad != "":
		r.Violation(rule, f.key()+"#bytes", p.Pos(fn.Pos()), bad)
	case und != "":
		r.Undecided(rule, f.key()+"#bytes", p.Pos(fn.Pos()), und)
	default:
		r.OK(rule, f.key()+"#bytes", p.Pos(fn.Pos()), fmt.Sprintf("%s.bytes() returns all %d bytes of the receiver", T.Obj().Name(), tlen))
	}
}

// c20IsReceiverArray: v is the address of a copy of the (value) receiver, or
// the pointer receiver itself.
func c20IsReceiverArray(fn *ssa.Function, v ssa.Value) bool {
	if len(fn.Params) == 0 {
		return false
	}
	recv := fn.Params[0]
	if v == ssa.Value(recv) {
		return true
	}
	al, ok := v.(*ssa.Alloc)
	if !ok {
		return false
	}
	n := 0
	for _, u := range nonDebug(*al.Referrers()) {
		if st, ok := u.(*ssa.Store); ok && st.Addr == ssa.Value(al) {
			if st.Val != ssa.Value(recv) {
				return false
			}
			n++
		}
	}
	return n == 1
}

// ---------------------------------------------------------------------------
// B-type

func c20RuleType(m *c20Model) {
	p, r := m.p, m.r
	const rule = "B-type"
	r.Floor(rule, 6)
	ents, why := m.mapEntries(m.gType)
	if why != "" {
		r.Undecided(rule, c20Pkg+".metaFromType#table", "?", why)
		return
	}
	reached := map[*c20Fam]bool{}
	for i, e := range ents {
		site := p.Pos(e.pos)
		var fam *c20Fam
		if tgt := m.metaIdentity(e.val); tgt != nil {
			fam = m.byMeta[tgt]
		}
		label := fmt.Sprintf("#%d", i)
		if fam != nil {
			label = fam.name
		}
		construct := c20Pkg + ".metaFromType[→" + label + "]"
		if fam == nil {
			r.Violation(rule, construct, site, "an entry of metaFromType maps to a digestMeta that is not a value of metaFromString: RefFromHash would build refs of a family that Parse, IsSupported and Hash do not know")
			continue
		}
		// key: struct {reflect.Type; int}
		kal, ok := c20StructLiteral(e.key)
		if !ok {
			r.Undecided(rule, construct, site, "the key is not a composite literal the analysis can read")
			continue
		}
		var fnF *ssa.Function
		var size int64
		haveSize := false
		und := ""
		for fi, vs := range kal {
			if len(vs) != 1 {
				und = "a key field is stored more than once"
				continue
			}
			ft := c20StructFieldType(e.key.Type(), fi)
			if b, ok := ft.Underlying().(*types.Basic); ok && b.Info()&types.IsInteger != 0 {
				if n, ok := ConstInt(vs[0]); ok {
					size, haveSize = n, true
				} else {
					und = "the size component of the key is not a constant"
				}
				continue
			}
			if IsNamed(ft, "reflect", "Type") {
				call, ok := m.resolve(vs[0]).(*ssa.Call)
				if !ok || !(CallSite{call.Parent(), call}).IsStatic("reflect", "", "TypeOf") {
					und = "the type component of the key is not reflect.TypeOf(<constructor>())"
					continue
				}
				inner, ok := m.resolve(call.Call.Args[0]).(*ssa.Call)
				if !ok || inner.Call.StaticCallee() == nil {
					und = "the argument of reflect.TypeOf is not a direct constructor call"
					continue
				}
				fnF = inner.Call.StaticCallee()
			}
		}
		if und == "" && (fnF == nil || !haveSize) {
			und = "the key lacks a (reflect type, size) pair the analysis can read"
		}
		if und != "" {
			r.Undecided(rule, construct, site, und)
			continue
		}
		reached[fam] = true
		switch {
		case fam.newFn == nil || !fam.sizeOK:
			r.Undecided(rule, construct, site, "the target family's newHash/size could not be read (see B-family)")
		case fnF != fam.newFn:
			r.Violation(rule, construct, site, fmt.Sprintf("key type is that of %s() but the entry maps to the digestMeta of %q whose newHash is %s: RefFromHash would name hashes made by %s as %s refs", FuncKeyAny(fnF), fam.name, FuncKeyAny(fam.newFn), FuncKeyAny(fnF), fam.name))
		case size != fam.size:
			r.Violation(rule, construct, site, fmt.Sprintf("key size %d but the entry maps to the digestMeta of %q with size %d: RefFromHash looks up (type, h.Size()); a %d-byte sum reaches a constructor that panics unless it gets %d bytes, and real %s hashes are not found at all", size, fam.name, fam.size, size, fam.size, fam.name))
		default:
			r.OK(rule, construct, site, fmt.Sprintf("(TypeOf(%s()), %d) → digestMeta of %q: same constructor, same size", FuncKeyAny(fnF), size, fam.name))
		}
	}
	for _, f := range m.fams {
		if f.meta == nil || m.byMeta[f.meta] != f {
			continue
		}
		r.Check(reached[f], rule, f.key()+"#reachable-from-hash", p.Pos(f.pos),
			"metaFromType has an entry for this family",
			fmt.Sprintf("no entry of metaFromType maps to the digestMeta of %q: RefFromHash(NewHashOfType(%q)) panics with 'Currently-unsupported hash type'", f.name, f.name))
	}
}

// c20StructLiteral reads `*local` of a composite literal: field index → stored values.
func c20StructLiteral(v ssa.Value) (map[int][]ssa.Value, bool) {
	ld, ok := v.(*ssa.UnOp)
	if !ok || ld.Op != token.MUL {
		return nil, false
	}
	al, ok := ld.X.(*ssa.Alloc)
	if !ok {
		return nil, false
	}
	out := map[int][]ssa.Value{}
	for _, u := range nonDebug(*al.Referrers()) {
		switch x := u.(type) {
		case *ssa.FieldAddr:
			for _, uu := range nonDebug(*x.Referrers()) {
				st, ok := uu.(*ssa.Store)
				if !ok || st.Addr != ssa.Value(x) {
					return nil, false
				}
				out[x.Field] = append(out[x.Field], st.Val)
			}
		case *ssa.UnOp:
			// the load itself
		default:
			return nil, false
		}
	}
	return out, true
}

func c20StructFieldType(t types.Type, i int) types.Type {
	st, ok := t.Underlying().(*types.Struct)
	if !ok || i >= st.NumFields() {
		return types.Typ[types.Invalid]
	}
	return st.Field(i).Type()
}

// ---------------------------------------------------------------------------
// B-sep

// c20ByteConstsWritten: constant bytes / strings appended or stored in fn.
func c20SepWritten(fn *ssa.Function, out map[string]bool) {
	for _, b := range fn.Blocks {
		for _, in := range b.Instrs {
			switch x := in.(type) {
			case *ssa.Store:
				if c, ok := x.Val.(*ssa.Const); ok && c.Value != nil && c.Value.Kind() == constant.Int {
					if bt, ok := c.Type().Underlying().(*types.Basic); ok && bt.Kind() == types.Uint8 {
						out[string(rune(c.Int64()))] = true
					}
				}
			case *ssa.Call:
				if bi, ok := x.Call.Value.(*ssa.Builtin); ok && bi.Name() == "append" && len(x.Call.Args) == 2 {
					if s, ok := ConstString(x.Call.Args[1]); ok && s != "" {
						out[s] = true
					}
				}
			case *ssa.BinOp:
				if x.Op == token.ADD {
					for _, o := range []ssa.Value{x.X, x.Y} {
						if c, ok := o.(*ssa.Const); ok && c.Value != nil && c.Value.Kind() == constant.String && constant.StringVal(c.Value) != "" {
							out[constant.StringVal(c.Value)] = true
						}
					}
				}
			}
		}
	}
}

// sepWritten: the constants written in the effective body of root, and the
// function of that body that writes them (root when none or several do).
func (m *c20Model) sepWritten(root *ssa.Function) (map[string]bool, *ssa.Function) {
	out := map[string]bool{}
	at := root
	nAt := 0
	for _, fn := range m.effBody(root, false) {
		w := map[string]bool{}
		c20SepWritten(fn, w)
		if len(w) > 0 {
			at = fn
			nAt++
		}
		for k := range w {
			out[k] = true
		}
	}
	if nAt != 1 {
		at = root
	}
	return out, TopFunc(at)
}

// sepSearched: constants that the effective body of root searches root's
// parameter param for (strings/bytes Index, IndexByte, Cut, IndexRune,
// LastIndex... on the parameter, on a conversion of it, or on the parameter of
// a helper it is passed to), and the function containing the search.
func (m *c20Model) sepSearched(root *ssa.Function, param ssa.Value) (map[string]bool, *ssa.Function) {
	out := map[string]bool{}
	fl := m.flowSet(root, param)
	at := root
	nAt := 0
	for _, fn := range m.effBody(root, false) {
		found := false
		for _, c := range CallsIn(fn, false) {
			cal := c.Common().StaticCallee()
			if cal == nil || cal.Pkg == nil || len(c.Common().Args) < 2 {
				continue
			}
			pp := cal.Pkg.Pkg.Path()
			if pp != "strings" && pp != "bytes" {
				continue
			}
			switch cal.Name() {
			case "Index", "IndexByte", "IndexRune", "Cut", "LastIndex", "LastIndexByte", "SplitN", "Split":
			default:
				continue
			}
			if !fl.has(c.Common().Args[0]) {
				continue
			}
			a := c.Common().Args[1]
			if s, ok := ConstString(a); ok {
				out[s] = true
				found = true
			} else if n, ok := ConstInt(a); ok {
				out[string(rune(n))] = true
				found = true
			} else if cv, ok := a.(*ssa.Convert); ok {
				if s, ok := ConstString(cv.X); ok {
					out[s] = true
					found = true
				}
			}
		}
		if found {
			at = fn
			nAt++
		}
	}
	if nAt != 1 {
		at = root
	}
	return out, TopFunc(at)
}

func c20Keys(m map[string]bool) []string {
	var out []string
	for k := range m {
		out = append(out, fmt.Sprintf("%q", k))
	}
	sort.Strings(out)
	return out
}

// c20TextParam: the parameter of an entry point that carries the text/bytes to
// parse: the only parameter of string or byte-slice type.
func c20TextParam(fn *ssa.Function) ssa.Value {
	var out ssa.Value
	for i, prm := range fn.Params {
		if i == 0 && fn.Signature.Recv() != nil {
			continue
		}
		switch u := prm.Type().Underlying().(type) {
		case *types.Basic:
			if u.Info()&types.IsString == 0 {
				continue
			}
		case *types.Slice:
			if b, ok := u.Elem().Underlying().(*types.Basic); !ok || b.Kind() != types.Uint8 {
				continue
			}
		default:
			continue
		}
		if out != nil {
			return nil
		}
		out = prm
	}
	return out
}

func c20RuleSep(m *c20Model) {
	p, r := m.p, m.r
	const rule = "B-sep"
	// two writers (text, binary) and at least one reader of each form; today 5
	// (Parse/ParseKnown share their splitting code, ParseBytes has its own)
	r.Floor(rule, 4)
	// writers: the text form (Ref.String and whatever it is built from) and the binary form
	str := p.Func(c20Pkg, "Ref", "String")
	w, as := m.sepWritten(str)
	if len(w) != 1 {
		r.Undecided(rule, FuncKey(as)+"#separator", p.Pos(as.Pos()), fmt.Sprintf("the text form (Ref.String and the package-local functions it is built from) writes %d distinct constants %v; expected exactly the one separator between digest name and digits", len(w), c20Keys(w)))
	} else {
		for k := range w {
			m.sep = k
		}
		r.OKTable(rule, FuncKey(as)+"#separator", p.Pos(as.Pos()), fmt.Sprintf("text form is name + %q + hex digits (written by %s, reached from Ref.String)", m.sep, FuncKey(as)))
	}
	if m.sep == "" {
		return
	}
	mb := p.Func(c20Pkg, "Ref", "MarshalBinary")
	wb, mbAt := m.sepWritten(mb)
	switch {
	case len(wb) != 1:
		r.Undecided(rule, FuncKey(mbAt)+"#separator", p.Pos(mbAt.Pos()), fmt.Sprintf("MarshalBinary writes %d distinct constants %v", len(wb), c20Keys(wb)))
	default:
		r.Check(wb[m.sep], rule, FuncKey(mbAt)+"#separator", p.Pos(mbAt.Pos()),
			"binary form is name + the same separator + raw digest",
			fmt.Sprintf("MarshalBinary writes %v between name and digest; UnmarshalBinary and the text form use %q", c20Keys(wb), m.sep))
	}
	// readers: the exported entry points; what they split on is looked for in their effective bodies
	seenKey := map[string]bool{}
	for _, a := range []struct{ recv, name string }{{"", "Parse"}, {"", "ParseKnown"}, {"", "ParseBytes"}, {"Ref", "UnmarshalBinary"}} {
		fn := p.Func(c20Pkg, a.recv, a.name)
		param := c20TextParam(fn)
		if param == nil {
			r.Undecided(rule, FuncKey(fn)+"#separator", p.Pos(fn.Pos()), "cannot tell which parameter carries the text to split")
			continue
		}
		s, at := m.sepSearched(fn, param)
		key := FuncKey(at) + "#separator"
		if seenKey[key] {
			continue // Parse and ParseKnown share their splitting code
		}
		seenKey[key] = true
		switch {
		case len(s) == 0:
			r.Undecided(rule, key, p.Pos(at.Pos()), "cannot find the constant "+a.name+" splits its input on")
		default:
			ok := len(s) == 1 && s[m.sep]
			r.Check(ok, rule, key, p.Pos(at.Pos()),
				fmt.Sprintf("%s splits its input at %q, the separator the writers emit", a.name, m.sep),
				fmt.Sprintf("%s splits its input at %v but String/MarshalBinary write %q: nothing this package prints can be read back", a.name, c20Keys(s), m.sep))
		}
	}
}

// ---------------------------------------------------------------------------
// B-text

func c20LenOf(v ssa.Value) (ssa.Value, bool) {
	c, ok := v.(*ssa.Call)
	if !ok {
		return nil, false
	}
	b, ok := c.Call.Value.(*ssa.Builtin)
	if !ok || b.Name() != "len" || len(c.Call.Args) != 1 {
		return nil, false
	}
	return c.Call.Args[0], true
}

type c20LenCmp struct {
	op  token.Token // len(s) op c
	c   int64
	pos token.Pos
}

var c20Flip = map[token.Token]token.Token{token.EQL: token.EQL, token.NEQ: token.NEQ, token.LSS: token.GTR, token.GTR: token.LSS, token.LEQ: token.GEQ, token.GEQ: token.LEQ}
var c20Neg = map[token.Token]token.Token{token.EQL: token.NEQ, token.NEQ: token.EQL, token.LSS: token.GEQ, token.GEQ: token.LSS, token.GTR: token.LEQ, token.LEQ: token.GTR}

// c20TextEnv: one function of the effective body of an equalString/hasPrefix
// method, with what is known about its parameters: s is the value denoting the
// string under test, ints/strs/lens the parameters (and only parameters) that
// the caller binds to a constant integer, a constant string, or a slice of
// known length.
type c20TextEnv struct {
	m    *c20Model
	fn   *ssa.Function
	s    ssa.Value
	ints map[ssa.Value]int64
	strs map[ssa.Value]string
	lens map[ssa.Value]int64
}

// intOf evaluates an integer expression over constants, bound parameters and
// lengths of constant strings / whole-array slices.
func (e *c20TextEnv) intOf(v ssa.Value, depth int) (int64, bool) {
	if depth > 6 {
		return 0, false
	}
	if n, ok := ConstInt(v); ok {
		return n, true
	}
	if n, ok := e.ints[v]; ok {
		return n, true
	}
	switch x := v.(type) {
	case *ssa.Convert:
		if _, _, ok := c20IntKind(x.Type()); ok {
			return e.intOf(x.X, depth+1)
		}
	case *ssa.ChangeType:
		return e.intOf(x.X, depth+1)
	case *ssa.BinOp:
		a, okA := e.intOf(x.X, depth+1)
		b, okB := e.intOf(x.Y, depth+1)
		if !okA || !okB {
			return 0, false
		}
		switch x.Op {
		case token.ADD:
			return a + b, true
		case token.SUB:
			return a - b, true
		case token.MUL:
			return a * b, true
		case token.SHL:
			if b >= 0 && b < 32 {
				return a << uint(b), true
			}
		}
	case *ssa.Call:
		if y, ok := c20LenOf(x); ok {
			if y == e.s {
				return 0, false
			}
			if str, ok := e.strOf(y, depth+1); ok {
				return int64(len(str)), true
			}
			if n, ok := e.lens[y]; ok {
				return n, true
			}
			if n, ok := c20WholeArrayLen(y); ok {
				return n, true
			}
		}
	}
	if o := originValue(v); o != v {
		return e.intOf(o, depth+1)
	}
	return 0, false
}

// strOf evaluates a string expression over constants and bound parameters.
func (e *c20TextEnv) strOf(v ssa.Value, depth int) (string, bool) {
	if depth > 6 {
		return "", false
	}
	if str, ok := ConstString(v); ok {
		return str, true
	}
	if str, ok := e.strs[v]; ok {
		return str, true
	}
	switch x := v.(type) {
	case *ssa.ChangeType:
		return e.strOf(x.X, depth+1)
	case *ssa.Convert:
		if b, ok := x.Type().Underlying().(*types.Basic); ok && b.Info()&types.IsString != 0 {
			if xb, ok := x.X.Type().Underlying().(*types.Basic); ok && xb.Info()&types.IsString != 0 {
				return e.strOf(x.X, depth+1)
			}
		}
	case *ssa.BinOp:
		if x.Op == token.ADD {
			a, okA := e.strOf(x.X, depth+1)
			b, okB := e.strOf(x.Y, depth+1)
			if okA && okB {
				return a + b, true
			}
		}
	}
	if o := originValue(v); o != v {
		return e.strOf(o, depth+1)
	}
	return "", false
}

// c20WholeArrayLen: v is a[:] of an array (or pointer to array), or an array value.
func c20WholeArrayLen(v ssa.Value) (int64, bool) {
	if sl, ok := v.(*ssa.Slice); ok && sl.Low == nil && sl.High == nil && sl.Max == nil {
		t := sl.X.Type().Underlying()
		if pt, ok := t.(*types.Pointer); ok {
			t = pt.Elem().Underlying()
		}
		if at, ok := t.(*types.Array); ok {
			return at.Len(), true
		}
	}
	if at, ok := v.Type().Underlying().(*types.Array); ok {
		return at.Len(), true
	}
	return 0, false
}

// enter builds the environment of callee for a call from e; k = index of the
// parameter the string under test is passed as (-1: it is not passed as such).
func (e *c20TextEnv) enter(call *ssa.Call) (*c20TextEnv, bool) {
	cal := e.m.localCallee(call.Parent(), call)
	if cal == nil || len(call.Call.Args) != len(cal.Params) {
		return nil, false
	}
	ne := &c20TextEnv{m: e.m, fn: cal, ints: map[ssa.Value]int64{}, strs: map[ssa.Value]string{}, lens: map[ssa.Value]int64{}}
	for i, a := range call.Call.Args {
		prm := cal.Params[i]
		if a == e.s {
			if ne.s != nil {
				return nil, false
			}
			ne.s = prm
			continue
		}
		if n, ok := e.intOf(a, 0); ok {
			ne.ints[prm] = n
		}
		if str, ok := e.strOf(a, 0); ok {
			ne.strs[prm] = str
		}
		if n, ok := c20WholeArrayLen(a); ok {
			ne.lens[prm] = n
		} else if n, ok := e.lens[a]; ok {
			ne.lens[prm] = n
		}
	}
	return ne, ne.s != nil
}

// lenCmpOf recognises `len(s) op n` / `n op len(s)` with n evaluable in e.
func (e *c20TextEnv) lenCmpOf(v ssa.Value) (c20LenCmp, bool) {
	bo, ok := v.(*ssa.BinOp)
	if !ok {
		return c20LenCmp{}, false
	}
	if _, ok := c20Flip[bo.Op]; !ok {
		return c20LenCmp{}, false
	}
	if x, ok := c20LenOf(bo.X); ok && x == e.s {
		if c, ok := e.intOf(bo.Y, 0); ok {
			return c20LenCmp{bo.Op, c, bo.Pos()}, true
		}
	}
	if y, ok := c20LenOf(bo.Y); ok && y == e.s {
		if c, ok := e.intOf(bo.X, 0); ok {
			return c20LenCmp{c20Flip[bo.Op], c, bo.Pos()}, true
		}
	}
	return c20LenCmp{}, false
}

// c20TextFacts: what is known about the string under test.
type c20TextFacts struct {
	lo, hi int64
	pre    bool // a successful match of the family's prefix
}

func c20NoFacts() c20TextFacts { return c20TextFacts{0, math.MaxInt64, false} }

func (a c20TextFacts) and(b c20TextFacts) c20TextFacts {
	return c20TextFacts{max(a.lo, b.lo), min(a.hi, b.hi), a.pre || b.pre}
}

// apply adds what cond == val says.
func (e *c20TextEnv) apply(f c20TextFacts, cond ssa.Value, val bool, want string, depth int) c20TextFacts {
	if depth > 3 {
		return f
	}
	if u, ok := cond.(*ssa.UnOp); ok && u.Op == token.NOT {
		return e.apply(f, u.X, !val, want, depth+1)
	}
	if cmp, ok := e.lenCmpOf(cond); ok {
		op := cmp.op
		if !val {
			op = c20Neg[op]
		}
		switch op {
		case token.EQL:
			f.lo, f.hi = max(f.lo, cmp.c), min(f.hi, cmp.c)
		case token.LSS:
			f.hi = min(f.hi, cmp.c-1)
		case token.LEQ:
			f.hi = min(f.hi, cmp.c)
		case token.GTR:
			f.lo = max(f.lo, cmp.c+1)
		case token.GEQ:
			f.lo = max(f.lo, cmp.c)
		}
		return f
	}
	if !val {
		return f
	}
	c := cond
	if ex, ok := c.(*ssa.Extract); ok && ex.Index == 1 {
		c = ex.Tuple
	}
	if k, call, ok := e.prefixCall(c); ok {
		if n := call.Call.StaticCallee().Name(); k == want && (n == "CutPrefix" || n == "HasPrefix") {
			f.pre = true
		}
		return f
	}
	// s[:n] == prefix
	if bo, ok := cond.(*ssa.BinOp); ok && bo.Op == token.EQL {
		for _, pr := range [][2]ssa.Value{{bo.X, bo.Y}, {bo.Y, bo.X}} {
			if sl, ok := pr[1].(*ssa.Slice); ok && sl.X == e.s && sl.Low == nil {
				if k, ok := e.strOf(pr[0], 0); ok && k == want {
					if n, ok := e.intOf(sl.High, 0); ok && n == int64(len(want)) {
						f.pre = true
					}
				}
			}
		}
		return f
	}
	// the verdict of a package-local checking helper that is given s
	if call, ok := cond.(*ssa.Call); ok {
		if ne, ok := e.enter(call); ok && depth < 3 {
			g, n := c20TextFacts{math.MaxInt64, 0, true}, 0
			for _, ed := range c20BoolReturnEdges(ne.fn) {
				if c20IsConstBool(ed.v, false) {
					continue
				}
				fe := ne.apply(ne.factsAt(ed.at, want), ed.v, true, want, depth+1)
				g = c20TextFacts{min(g.lo, fe.lo), max(g.hi, fe.hi), g.pre && fe.pre}
				n++
			}
			if n > 0 {
				return f.and(g)
			}
		}
	}
	return f
}

// factsAt: what the branch conditions dominating b say about the string.
func (e *c20TextEnv) factsAt(b *ssa.BasicBlock, want string) c20TextFacts {
	f := c20NoFacts()
	for _, cf := range FactsAt(b) {
		f = e.apply(f, cf.Cond, cf.Val, want, 0)
	}
	return f
}

var c20PrefixFuncs = map[string]bool{"CutPrefix": true, "HasPrefix": true, "TrimPrefix": true}

// prefixCall: strings.{CutPrefix,HasPrefix,TrimPrefix}(s, k) with k evaluable → k.
func (e *c20TextEnv) prefixCall(v ssa.Value) (string, *ssa.Call, bool) {
	c, ok := v.(*ssa.Call)
	if !ok {
		return "", nil, false
	}
	cal := c.Call.StaticCallee()
	if cal == nil || cal.Pkg == nil || cal.Pkg.Pkg.Path() != "strings" || !c20PrefixFuncs[cal.Name()] || len(c.Call.Args) != 2 {
		return "", nil, false
	}
	if c.Call.Args[0] != e.s {
		return "", nil, false
	}
	k, ok := e.strOf(c.Call.Args[1], 0)
	if !ok {
		return "", nil, false
	}
	return k, c, true
}

type c20RetEdge struct {
	v   ssa.Value
	at  *ssa.BasicBlock
	ret *ssa.Return
}

// c20BoolReturnEdges: the returned values of a function with one result, a phi
// in the returning block split per incoming edge.
func c20BoolReturnEdges(fn *ssa.Function) []c20RetEdge {
	var out []c20RetEdge
	for _, ri := range Returns(fn) {
		if len(ri.Results) != 1 {
			continue
		}
		if ph, ok := ri.Results[0].(*ssa.Phi); ok && ph.Block() == ri.Ret.Block() {
			for i, ed := range ph.Edges {
				out = append(out, c20RetEdge{ed, ph.Block().Preds[i], ri.Ret})
			}
			continue
		}
		out = append(out, c20RetEdge{ri.Results[0], ri.Ret.Block(), ri.Ret})
	}
	return out
}

func c20IsConstBool(v ssa.Value, want bool) bool {
	c, ok := v.(*ssa.Const)
	return ok && c.Value != nil && c.Value.Kind() == constant.Bool && constant.BoolVal(c.Value) == want
}

// c20TextScan accumulates, over the effective body of one method, the
// constants it compares and the verdicts on its returns.
type c20TextScan struct {
	p              *Program
	fam            *c20Fam
	eq             *ssa.Function
	isEq           bool
	strLen, small  int64
	prefix         string
	nLen, nPre     int
	badLen, badPre []string
	nRet           int
	bad, und       string
	seen           map[*ssa.Function]int
}

func (sc *c20TextScan) scan(e *c20TextEnv, inh c20TextFacts, depth int) {
	p := sc.p
	fn := e.fn
	if sc.seen[fn] > 3 {
		return
	}
	sc.seen[fn]++
	// (1) length constants, (2) prefix constants
	for _, b := range fn.Blocks {
		for _, in := range b.Instrs {
			v, ok := in.(ssa.Value)
			if !ok {
				continue
			}
			if cmp, ok := e.lenCmpOf(v); ok {
				sc.nLen++
				if !c20LenConstOK(cmp, sc.strLen, sc.small) {
					sc.badLen = append(sc.badLen, fmt.Sprintf("len(s) %s %d at line %d", cmp.op, cmp.c, p.Fset.Position(cmp.pos).Line))
				}
			}
			if k, _, ok := e.prefixCall(v); ok {
				sc.nPre++
				if k != sc.prefix {
					sc.badPre = append(sc.badPre, fmt.Sprintf("%q", k))
				}
			}
			if bo, ok := v.(*ssa.BinOp); ok && (bo.Op == token.EQL || bo.Op == token.NEQ) {
				for _, pr := range [][2]ssa.Value{{bo.X, bo.Y}, {bo.Y, bo.X}} {
					k, ok := e.strOf(pr[0], 0)
					if !ok || k == "" {
						continue
					}
					if sl, ok := pr[1].(*ssa.Slice); ok && sl.X == e.s {
						sc.nPre++
						if k != sc.prefix {
							sc.badPre = append(sc.badPre, fmt.Sprintf("%q", k))
						}
					}
				}
			}
		}
	}
	// (3) returns that may be true
	for _, ed := range c20BoolReturnEdges(fn) {
		if c20IsConstBool(ed.v, false) {
			continue
		}
		line := p.Fset.Position(ed.ret.Pos()).Line
		f := inh.and(e.factsAt(ed.at, sc.prefix))
		lo, hi, havePre := f.lo, f.hi, f.pre
		// the verdict of a package-local function that is handed the same string:
		// its returns are judged in its own body, under the facts known here
		if call, ok := ed.v.(*ssa.Call); ok {
			if !sc.isEq && call.Call.StaticCallee() == sc.eq && len(call.Call.Args) == 2 && call.Call.Args[1] == e.s {
				sc.nRet++
				continue // delegates the full-length case to equalString on the same string
			}
			if ne, ok := e.enter(call); ok && depth < c20EffDepth {
				sc.scan(ne, f, depth+1)
				continue
			}
		}
		sc.nRet++
		isTrue := c20IsConstBool(ed.v, true)
		if sc.isEq {
			if bo, ok := ed.v.(*ssa.BinOp); ok && bo.Op == token.EQL && (bo.X == e.s || bo.Y == e.s) {
				continue // whole-string comparison decides by itself
			}
			if !isTrue && !(lo == sc.strLen && hi == sc.strLen && havePre) {
				sc.und = fmt.Sprintf("return at line %d yields a computed value where the length/prefix facts are not established; cannot follow", line)
				continue
			}
			if !(lo == sc.strLen && hi == sc.strLen) {
				sc.bad = fmt.Sprintf("equalString can return true at line %d where len(s) is only known to be in [%s,%s], not = %d: a string with extra or missing characters compares equal (or the digit loop indexes out of range)", line, c20Bound(lo), c20Bound(hi), sc.strLen)
			} else if !havePre {
				sc.bad = fmt.Sprintf("equalString can return true at line %d without a successful match of the prefix %q dominating it: refs of another family with the same digits compare equal", line, sc.prefix)
			}
			continue
		}
		// hasPrefix: a constant true, or a computed verdict (a digit-comparing
		// helper given the rest of the string), needs the same two facts
		what := "return true"
		if !isTrue {
			what = "return a computed value that may be true"
		}
		if hi > sc.strLen {
			if isTrue {
				sc.bad = fmt.Sprintf("hasPrefix can %s at line %d where len(s) may exceed the text length %d: a string longer than the ref is reported as its prefix", what, line, sc.strLen)
			} else {
				sc.und = fmt.Sprintf("return at line %d yields a computed value that is neither a constant nor %s.equalString(s), where len(s) is not known to be at most the text length %d; cannot follow", line, sc.fam.T.Obj().Name(), sc.strLen)
			}
		} else if !havePre {
			if isTrue {
				sc.bad = fmt.Sprintf("hasPrefix can %s at line %d without a successful match of the prefix %q dominating it", what, line, sc.prefix)
			} else {
				sc.und = fmt.Sprintf("return at line %d yields a computed value that is neither a constant nor %s.equalString(s), without a successful match of the prefix %q dominating it; cannot follow", line, sc.fam.T.Obj().Name(), sc.prefix)
			}
		}
	}
}

func c20RuleText(m *c20Model) {
	p, r := m.p, m.r
	const rule = "B-text"
	r.Floor(rule, 18)
	for _, f := range m.fams {
		if f.T == nil || !f.sizeOK {
			continue
		}
		strLen := int64(len(f.name)) + int64(len(m.sep)) + 2*f.size
		small := int64(len(f.name)) + int64(len(m.sep)) + 1
		prefix := f.name + m.sep
		if m.sep == "" {
			r.Undecided(rule, f.key()+"#text", p.Pos(f.pos), "separator undetermined (see B-sep)")
			continue
		}
		eq := m.method(f.T, "equalString")
		hp := m.method(f.T, "hasPrefix")
		if eq == nil || eq.Blocks == nil || hp == nil || hp.Blocks == nil {
			brokenf("anchor unresolved: equalString/hasPrefix of %s", f.T.Obj().Name())
		}
		for _, fn := range []*ssa.Function{eq, hp} {
			if len(fn.Params) != 2 {
				brokenf("anchor unresolved: %s does not take (receiver, string)", FuncKey(fn))
			}
			site := p.Pos(fn.Pos())
			sc := &c20TextScan{p: p, fam: f, eq: eq, isEq: fn == eq, strLen: strLen, small: small, prefix: prefix, seen: map[*ssa.Function]int{}}
			env := &c20TextEnv{m: m, fn: fn, s: fn.Params[1], ints: map[ssa.Value]int64{}, strs: map[ssa.Value]string{}, lens: map[ssa.Value]int64{}}
			sc.scan(env, c20NoFacts(), 0)
			if len(sc.badLen) > 0 {
				r.Violation(rule, FuncKey(fn)+"#len-consts", site, fmt.Sprintf("the text form of a %s ref has len(%q)+2·%d = %d bytes, but the function compares %s: refs of the right length are rejected or ones of the wrong length accepted/indexed out of range", f.name, prefix, f.size, strLen, strings.Join(sc.badLen, "; ")))
			} else {
				r.OK(rule, FuncKey(fn)+"#len-consts", site, fmt.Sprintf("%d comparison(s) of len(s) with a constant, all consistent with text length %d", sc.nLen, strLen))
			}
			if len(sc.badPre) > 0 {
				r.Violation(rule, FuncKey(fn)+"#prefix-consts", site, fmt.Sprintf("%s.digestName() is %q so the text form starts with %q, but the function matches the prefix %s: it answers false for the ref's own String()", f.T.Obj().Name(), f.name, prefix, strings.Join(sc.badPre, ", ")))
			} else {
				r.OK(rule, FuncKey(fn)+"#prefix-consts", site, fmt.Sprintf("%d constant prefix match(es), all %q", sc.nPre, prefix))
			}
			switch {
			case sc.bad != "":
				r.Violation(rule, FuncKey(fn)+"#true-returns", site, sc.bad)
			case sc.und != "":
				r.Undecided(rule, FuncKey(fn)+"#true-returns", site, sc.und)
			case sc.nRet == 0:
				r.Undecided(rule, FuncKey(fn)+"#true-returns", site, "found no return that may be true")
			default:
				what := "len(s) = text length and a successful prefix match"
				if fn == hp {
					what = "len(s) ≤ text length and a successful prefix match, or delegate to equalString(s)"
				}
				r.OK(rule, FuncKey(fn)+"#true-returns", site, fmt.Sprintf("%d return(s) that may be true (package-local functions given the same string followed), each dominated by %s", sc.nRet, what))
			}
		}
	}
}

func c20Bound(n int64) string {
	if n == math.MaxInt64 {
		return "∞"
	}
	return fmt.Sprint(n)
}

// c20LenConstOK: is `len(s) op c` a comparison a correct implementation can
// make? Equalities must name the text length; inequalities must split the
// lengths either at the text length (t = strLen or strLen+1) or inside the
// "name, separator, first digit" lower-bound zone.
func c20LenConstOK(cmp c20LenCmp, strLen, small int64) bool {
	switch cmp.op {
	case token.EQL, token.NEQ:
		return cmp.c == strLen || cmp.c <= small
	}
	// threshold t: the comparison separates len < t from len >= t
	t := cmp.c
	if cmp.op == token.GTR || cmp.op == token.LEQ {
		t = cmp.c + 1
	}
	return t == strLen || t == strLen+1 || t <= small+1
}

// ---------------------------------------------------------------------------
// B-name

func c20RuleName(m *c20Model) {
	p, r := m.p, m.r
	const rule = "B-name"
	r.Floor(rule, 6)
	pat, _ := p.Pkg(c20Pkg).Types.Scope().Lookup("Pattern").(*types.Const)
	if pat == nil || pat.Val().Kind() != constant.String {
		brokenf("anchor unresolved: constant %s.Pattern", c20Pkg)
	}
	rx, err := regexp.Compile("^(?:" + constant.StringVal(pat.Val()) + ")$")
	if err != nil {
		r.Violation(rule, c20Pkg+".Pattern#compiles", "?", "blob.Pattern is not a valid regular expression: "+err.Error())
		return
	}
	if m.sep == "" {
		r.Undecided(rule, c20Pkg+".Pattern#separator", "?", "separator undetermined (see B-sep)")
		return
	}
	check := func(table, name string, digits int64, site string) {
		construct := c20Pkg + "." + table + "[" + name + "]#pattern"
		if name == "" || strings.Contains(name, m.sep) {
			r.Violation(rule, construct, site, fmt.Sprintf("digest name %q contains the separator %q (or is empty): parse splits at the first separator and looks up %q, so no ref of this family can be parsed", name, m.sep, strings.SplitN(name, m.sep, 2)[0]))
			return
		}
		sample := name + m.sep + strings.Repeat("0", int(digits))
		r.Check(rx.MatchString(sample), rule, construct, site,
			fmt.Sprintf("blob.Pattern matches %s%s<%d hex digits> in full", name, m.sep, digits),
			fmt.Sprintf("blob.Pattern (%s) does not match a ref of family %q in full: the blob get handler, share URLs and the search describe scanner do not recognise refs of this family", constant.StringVal(pat.Val()), name))
	}
	for _, f := range m.fams {
		d := int64(2)
		if f.sizeOK {
			d = 2 * f.size
		}
		check("metaFromString", f.name, d, p.Pos(f.pos))
	}
	ents, why := m.mapEntries(m.gTest)
	if why != "" {
		r.Undecided(rule, c20Pkg+".testRefType#table", "?", why)
		return
	}
	fam := map[string]bool{}
	for _, f := range m.fams {
		fam[f.name] = true
	}
	for _, e := range ents {
		name, ok := ConstString(e.key)
		if !ok {
			r.Undecided(rule, c20Pkg+".testRefType#key", p.Pos(e.pos), "non-constant key")
			continue
		}
		if fam[name] {
			r.Violation(rule, c20Pkg+".testRefType["+name+"]#pattern", p.Pos(e.pos), "a supported family is also listed as a test-only name; the test branch of parse is dead for it and the table is misleading")
			continue
		}
		check("testRefType", name, 2, p.Pos(e.pos))
	}
}

// ---------------------------------------------------------------------------
// B-known

// c20MetaLookupOK: v is the ok of `metaFromString[k]` (directly, or through a
// package function that returns exactly that, such as metaFromBytes).
func (m *c20Model) metaLookupOK(v ssa.Value, depth int) bool {
	ex, ok := v.(*ssa.Extract)
	if !ok || ex.Index != 1 {
		return false
	}
	switch t := ex.Tuple.(type) {
	case *ssa.Lookup:
		return t.CommaOk && c20IsLoadOf(t.X, m.gStr)
	case *ssa.Call:
		cal := t.Call.StaticCallee()
		if cal == nil || cal.Blocks == nil || depth > 1 || cal.Pkg != m.pkg {
			return false
		}
		n := 0
		for _, ri := range Returns(cal) {
			if len(ri.Results) != 2 || !m.metaLookupOK(ri.Results[1], depth+1) {
				return false
			}
			n++
		}
		return n > 0
	}
	return false
}

// impliesKnown: v == val implies that a lookup of metaFromString succeeded:
// v is the ok of such a lookup, `meta != nil` of its value, the verdict of a
// package-local function all of whose possibly-true returns imply it, or a
// short-circuit combination of such values.
func (m *c20Model) impliesKnown(v ssa.Value, val bool, depth int) bool {
	if depth > c20EffDepth {
		return false
	}
	if val && m.metaLookupOK(v, 0) {
		return true
	}
	switch x := v.(type) {
	case *ssa.UnOp:
		if x.Op == token.NOT {
			return m.impliesKnown(x.X, !val, depth+1)
		}
	case *ssa.BinOp:
		// metaFromString[k] != nil
		if (x.Op == token.NEQ && val) || (x.Op == token.EQL && !val) {
			for _, pr := range [][2]ssa.Value{{x.X, x.Y}, {x.Y, x.X}} {
				if !IsNilConst(pr[1]) {
					continue
				}
				o := pr[0]
				if ex, ok := o.(*ssa.Extract); ok && ex.Index == 0 {
					o = ex.Tuple
				}
				if lk, ok := o.(*ssa.Lookup); ok && c20IsLoadOf(lk.X, m.gStr) {
					return true
				}
			}
		}
	case *ssa.Phi:
		if !val {
			return false
		}
		for i, e := range x.Edges {
			if c20IsConstBool(e, false) {
				continue
			}
			if m.impliesKnown(e, true, depth+1) || m.knownAt(x.Block().Preds[i], x.Parent(), depth+1) {
				continue
			}
			return false
		}
		return len(x.Edges) > 0
	case *ssa.Call, *ssa.Extract:
		if !val {
			return false
		}
		idx := 0
		var tv ssa.Value = x
		if ex, ok := x.(*ssa.Extract); ok {
			idx, tv = ex.Index, ex.Tuple
		}
		call, ok := tv.(*ssa.Call)
		if !ok {
			return false
		}
		cal := m.localCallee(call.Parent(), call)
		if cal == nil || idx >= cal.Signature.Results().Len() {
			return false
		}
		n := 0
		for _, ri := range Returns(cal) {
			if idx >= len(ri.Results) {
				return false
			}
			edges := []c20RetEdge{{ri.Results[idx], ri.Ret.Block(), ri.Ret}}
			if ph, ok := ri.Results[idx].(*ssa.Phi); ok && ph.Block() == ri.Ret.Block() {
				edges = nil
				for i, e := range ph.Edges {
					edges = append(edges, c20RetEdge{e, ph.Block().Preds[i], ri.Ret})
				}
			}
			for _, ed := range edges {
				if c20IsConstBool(ed.v, false) {
					continue
				}
				n++
				if !m.impliesKnown(ed.v, true, depth+1) && !m.knownAt(ed.at, cal, depth+1) {
					return false
				}
			}
		}
		return n > 0
	}
	return false
}

// knownAt: a successful metaFromString lookup dominates block b.
func (m *c20Model) knownAt(b *ssa.BasicBlock, fn *ssa.Function, depth int) bool {
	for _, f := range FactsAt(b) {
		if m.impliesKnown(f.Cond, f.Val, depth+1) {
			return true
		}
	}
	return false
}

// c20GuardedBy reports whether every path from the entry of b's function to b
// crosses a branch edge accepted by pred.
func c20GuardedBy(b *ssa.BasicBlock, pred func(cond ssa.Value, val bool) bool) bool {
	fn := b.Parent()
	seen := map[*ssa.BasicBlock]bool{}
	var walk func(x *ssa.BasicBlock) bool // true if b reachable without crossing an accepted edge
	walk = func(x *ssa.BasicBlock) bool {
		if x == b {
			return true
		}
		if seen[x] {
			return false
		}
		seen[x] = true
		var ifi *ssa.If
		if len(x.Instrs) > 0 {
			ifi, _ = x.Instrs[len(x.Instrs)-1].(*ssa.If)
		}
		for i, s := range x.Succs {
			if ifi != nil && len(x.Succs) == 2 && x.Succs[0] != x.Succs[1] && pred(ifi.Cond, i == 0) {
				continue
			}
			if walk(s) {
				return true
			}
		}
		return false
	}
	return !walk(fn.Blocks[0])
}

func c20RuleKnown(m *c20Model) {
	p, r := m.p, m.r
	const rule = "B-known"
	r.Floor(rule, 3)
	// IsSupported
	is := p.Func(c20Pkg, "Ref", "IsSupported")
	bad, und := "", ""
	n := 0
	for _, ed := range c20BoolReturnEdges(is) {
		if c20IsConstBool(ed.v, false) {
			continue
		}
		n++
		line := p.Fset.Position(ed.ret.Pos()).Line
		if m.knownAt(ed.at, is, 0) {
			continue // whatever is returned here, a successful lookup dominates it
		}
		if c20IsConstBool(ed.v, true) {
			bad = fmt.Sprintf("IsSupported returns true at line %d without a successful metaFromString lookup dominating it", line)
			continue
		}
		if !m.impliesKnown(ed.v, true, 0) {
			und = fmt.Sprintf("IsSupported returns a computed value at line %d that is not the ok of a metaFromString lookup", line)
		}
	}
	switch {
	case bad != "":
		r.Violation(rule, FuncKey(is)+"#lookup", p.Pos(is.Pos()), bad)
	case und != "" || n == 0:
		if und == "" {
			und = "IsSupported never returns a possibly-true value"
		}
		r.Undecided(rule, FuncKey(is)+"#lookup", p.Pos(is.Pos()), und)
	default:
		r.OK(rule, FuncKey(is)+"#lookup", p.Pos(is.Pos()), "every possibly-true return is the ok of a metaFromString lookup")
	}

	// ParseKnown: no way to a place that builds a ref of an unsupported hash
	// (a digest type that is not a family's) except behind a testRefType lookup,
	// followed through the package-local functions it calls, however the work is
	// cut into helpers.
	pk := p.Func(c20Pkg, "", "ParseKnown")
	ua := &c20Unk{m: m, sum: map[*ssa.Function]*c20UnkSum{}}
	root := ua.summary(pk, 0)
	ua.report(pk, map[*ssa.Function]bool{})
	key := FuncKey(pk) + "#known-only"
	switch {
	case ua.und != "":
		r.Undecided(rule, key, p.Pos(pk.Pos()), ua.und)
	case root.always != nil:
		ev, in := root.always, pk
		for ev.callee != nil && !ev.argBad {
			next := ua.sum[ev.callee]
			if next == nil || next.always == nil || next.always.callee == nil {
				break
			}
			ev, in = next.always, ev.callee
		}
		switch {
		case ev.callee == nil:
			r.Violation(rule, key, p.Pos(ev.pos), fmt.Sprintf("%s builds a ref with a digest type of no supported family on a path that is not behind a testRefType lookup: ParseKnown accepts refs of hash functions this server does not support", FuncKey(in)))
		case ev.argBad:
			r.Violation(rule, FuncKey(in)+"#"+ev.param+"=false", p.Pos(ev.pos), fmt.Sprintf("%s, reached from ParseKnown, calls %s with the allow-all parameter %s not constant false (nor one of its own parameters that its callers pin to false): well-formed refs of unsupported hash functions are reported as known", FuncKey(in), FuncKey(ev.callee), ev.param))
		default:
			r.Violation(rule, FuncKey(in)+"#"+ev.callee.Name()+"-guard", p.Pos(ev.pos), fmt.Sprintf("%s, reached from ParseKnown, falls back to %s on a path that tests neither an allow-all parameter (which ParseKnown pins to false) nor testRefType: ParseKnown accepts refs of hash functions this server does not support", FuncKey(in), FuncKey(ev.callee)))
		}
		r.Violation(rule, key, p.Pos(pk.Pos()), "ParseKnown can reach a place that builds a ref of an unsupported hash function without crossing a testRefType lookup (see the other B-known finding for the innermost unguarded call)")
	case len(root.need) > 0:
		r.Violation(rule, key, p.Pos(pk.Pos()), "whether ParseKnown accepts refs of unsupported hash functions depends on one of its own parameters")
	case !root.reach && len(root.events) == 0:
		r.OK(rule, key, p.Pos(pk.Pos()), "nothing ParseKnown calls (package-local functions followed) builds a ref of an unsupported hash function")
	default:
		r.OK(rule, key, p.Pos(pk.Pos()), "every way from ParseKnown to a place that builds a ref of an unsupported hash function crosses the true edge of a testRefType lookup, or of a parameter that the caller on that way pins to constant false")
	}
}

// c20Unk: which functions can build a ref of an unsupported hash function
// (a MakeInterface of a digestType implementation that is no family's type),
// and under which of their boolean parameters.
type c20UnkEvent struct {
	pos     token.Pos
	block   *ssa.BasicBlock
	callee  *ssa.Function // nil: the conversion itself
	argBad  bool          // a needed-false parameter of callee gets a value that is not pinned to false
	param   string
	guarded bool
	clean   bool     // the callee cannot build unknown refs whatever it is given
	pinned  []string // parameters of callee pinned to constant false here
}

type c20UnkSum struct {
	reach  bool
	always *c20UnkEvent // an event reached without an accepted guard
	need   map[int]bool // parameters (by index) whose true edge guards an event
	events []*c20UnkEvent
}

type c20Unk struct {
	m   *c20Model
	sum map[*ssa.Function]*c20UnkSum
	und string
}

func (m *c20Model) isUnknownDigestSink(in ssa.Instruction) bool {
	mi, ok := in.(*ssa.MakeInterface)
	if !ok {
		return false
	}
	it := NamedOf(mi.Type())
	if it == nil || it.Obj().Name() != "digestType" || it.Obj().Pkg() != m.pkg.Pkg {
		return false
	}
	for _, f := range m.fams {
		if f.T != nil && types.Identical(mi.X.Type(), f.T) {
			return false
		}
	}
	return !c20OnlyPrinted(mi)
}

func (u *c20Unk) summary(fn *ssa.Function, depth int) *c20UnkSum {
	if s, ok := u.sum[fn]; ok {
		return s // also breaks recursion: a function under analysis counts as clean
	}
	s := &c20UnkSum{need: map[int]bool{}}
	u.sum[fn] = s
	m := u.m
	paramIdx := func(v ssa.Value) int {
		o := originValue(v)
		for i, prm := range fn.Params {
			if o == ssa.Value(prm) {
				return i
			}
		}
		return -1
	}
	for _, b := range fn.Blocks {
		for _, in := range b.Instrs {
			var ev *c20UnkEvent
			if m.isUnknownDigestSink(in) {
				ev = &c20UnkEvent{pos: in.Pos(), block: b}
			} else if ci, ok := in.(ssa.CallInstruction); ok {
				cal := m.localCallee(fn, ci)
				if cal == nil {
					continue
				}
				if depth >= c20EffDepth+2 {
					u.und = fmt.Sprintf("the call chain from ParseKnown is deeper than %d package-local calls at %s; cannot follow", c20EffDepth+2, FuncKey(fn))
					continue
				}
				cs := u.summary(cal, depth+1)
				if !cs.reach {
					if len(cs.events) > 0 {
						// neutralised further down (pinned to false there): nothing to ask here,
						// but the discharged obligations below are reported
						s.events = append(s.events, &c20UnkEvent{pos: ci.Pos(), block: b, callee: cal, guarded: true, clean: true})
					}
					continue
				}
				ev = &c20UnkEvent{pos: ci.Pos(), block: b, callee: cal}
				if !ev.pos.IsValid() {
					ev.pos = ci.Common().Pos()
				}
				args := ci.Common().Args
				if cs.always == nil {
					// callee builds unknown refs only when one of its parameters is true
					clean := len(args) == len(cal.Params)
					var idxs []int
					for i := range cs.need {
						idxs = append(idxs, i)
					}
					sort.Ints(idxs)
					passUp := map[int]bool{}
					for _, i := range idxs {
						if !clean {
							break
						}
						a := args[i]
						if c, ok := a.(*ssa.Const); ok && c.Value != nil && c.Value.Kind() == constant.Bool && !constant.BoolVal(c.Value) {
							ev.pinned = append(ev.pinned, cal.Params[i].Name())
							continue
						}
						if pi := paramIdx(a); pi >= 0 {
							passUp[pi] = true
							continue
						}
						clean = false
						ev.argBad, ev.param = true, cal.Params[i].Name()
					}
					if clean && len(passUp) == 0 {
						ev.guarded = true // pinned: cannot build unknown refs from here
						s.events = append(s.events, ev)
						continue
					}
					if clean {
						// own parameters passed through: this function needs them false too
						for pi := range passUp {
							s.need[pi] = true
						}
						ev.guarded = true
						s.reach = true
						s.events = append(s.events, ev)
						continue
					}
				}
			} else {
				continue
			}
			s.reach = true
			s.events = append(s.events, ev)
			if ev.argBad {
				if s.always == nil {
					s.always = ev
				}
				continue
			}
			used := map[int]bool{}
			ok := c20GuardedBy(b, func(cond ssa.Value, val bool) bool {
				return c20AcceptCond(cond, val, func(cond ssa.Value, val bool) bool {
					if !val {
						return false
					}
					if pi := paramIdx(cond); pi >= 0 {
						if bt, isB := fn.Params[pi].Type().Underlying().(*types.Basic); isB && bt.Kind() == types.Bool {
							used[pi] = true
							return true
						}
					}
					if lk, isL := cond.(*ssa.Lookup); isL && !lk.CommaOk && c20IsLoadOf(lk.X, m.gTest) {
						return true
					}
					if ex, isE := cond.(*ssa.Extract); isE {
						if lk, isL := ex.Tuple.(*ssa.Lookup); isL && lk.CommaOk && c20IsLoadOf(lk.X, m.gTest) {
							return true
						}
					}
					return false
				}, 0)
			})
			if ok {
				ev.guarded = true
				for pi := range used {
					s.need[pi] = true
				}
			} else if s.always == nil {
				s.always = ev
			}
		}
	}
	return s
}

// report emits the discharged obligations along the ways from ParseKnown.
func (u *c20Unk) report(fn *ssa.Function, seen map[*ssa.Function]bool) {
	if seen[fn] {
		return
	}
	seen[fn] = true
	s := u.sum[fn]
	if s == nil {
		return
	}
	p, r := u.m.p, u.m.r
	const rule = "B-known"
	for _, ev := range s.events {
		if ev.callee == nil {
			continue
		}
		cs := u.sum[ev.callee]
		if ev.clean {
			u.report(ev.callee, seen)
			continue
		}
		if ev.guarded && len(ev.pinned) > 0 {
			for _, prm := range ev.pinned {
				r.OK(rule, FuncKey(fn)+"#"+prm+"=false", p.Pos(ev.pos), fmt.Sprintf("%s calls %s with the allow-all parameter %s constant false", FuncKey(fn), FuncKey(ev.callee), prm))
			}
		} else if ev.guarded && cs != nil && cs.always != nil {
			r.OK(rule, FuncKey(fn)+"#"+ev.callee.Name()+"-guard", p.Pos(ev.pos), fmt.Sprintf("the fall-back to %s is reached only on the true edge of an allow-all parameter (pinned to false on the way from ParseKnown) or of a testRefType lookup", FuncKey(ev.callee)))
		}
		u.report(ev.callee, seen)
	}
}

// ---------------------------------------------------------------------------
// B-len

func (m *c20Model) isFieldLoad(v ssa.Value, field string) (meta ssa.Value, ok bool) {
	ld, ok := v.(*ssa.UnOp)
	if !ok || ld.Op != token.MUL {
		return nil, false
	}
	fa, ok := ld.X.(*ssa.FieldAddr)
	if !ok || NamedOf(fa.X.Type()) != m.metaT {
		return nil, false
	}
	if fieldName(fa.X.Type(), fa.Field) != field {
		return nil, false
	}
	return fa.X, true
}

func c20RuleLen(m *c20Model) {
	p, r := m.p, m.r
	const rule = "B-len"
	// today 4 (parse, ParseBytes, RefFromHash, UnmarshalBinary); one less when two
	// entry points come to share the function that holds the call
	r.Floor(rule, 3)
	for _, fn := range m.fns {
		for _, c := range CallsIn(fn, false) {
			cc := c.Common()
			if cc.IsInvoke() || cc.StaticCallee() != nil || len(cc.Args) != 1 {
				continue
			}
			var meta ssa.Value
			fld := ""
			for _, f := range []string{"ctor", "ctors", "ctorb"} {
				if mv, ok := m.isFieldLoad(cc.Value, f); ok {
					meta, fld = mv, f
				}
			}
			if fld == "" {
				continue
			}
			arg := cc.Args[0]
			mult := int64(2)
			if fld == "ctor" {
				mult = 1
			}
			construct := FuncKey(fn) + "#" + fld
			site := p.Pos(c.Pos())
			q := c20LenQ{arg: arg, meta: meta, mult: mult}
			if how, ok := m.lenFactAt(c.Block(), fn, q, 0); ok {
				r.OK(rule, construct, site, fmt.Sprintf("call through digestMeta.%s: len(arg) = %d·size of the same meta (%s)", fld, mult, how))
				continue
			}
			r.Violation(rule, construct, site, fmt.Sprintf("the constructor digestMeta.%s is called without a dominating check that the input has exactly %d·size %s of the same meta (looked for in this function, in length-checking helpers it calls, and - if it is an unexported helper - at every one of its call sites): the FromHex loop indexes the digest array by the input length (panic on long input, zero-padded short digests accepted), FromBinary panics", fld, mult, map[int64]string{1: "bytes", 2: "hex digits"}[mult]))
		}
	}
}

// c20LenQ: the question "is len(arg) = mult·meta.size known here", with the
// values arg / lenv (an integer known to be len(arg)) / meta of one function.
type c20LenQ struct {
	arg, lenv, meta ssa.Value
	mult            int64
}

func (q c20LenQ) isLen(v ssa.Value) bool {
	if x, ok := c20LenOf(v); ok && q.arg != nil && (x == q.arg || sameOrigin(x, q.arg)) {
		return true
	}
	return q.lenv != nil && (v == q.lenv || sameOrigin(v, q.lenv))
}

func (q c20LenQ) isMeta(v ssa.Value) bool {
	// strictly the same value (no "one incoming edge of a phi" leniency: the size
	// must be that of the very meta whose constructor is called)
	return q.meta != nil && (v == q.meta || originValue(v) == originValue(q.meta))
}

// into translates the question to the parameters of callee at a call with the
// given arguments (ok=false when the meta is not handed over, or neither the
// text nor its length is).
func (q c20LenQ) into(callee *ssa.Function, args []ssa.Value) (c20LenQ, bool) {
	out := c20LenQ{mult: q.mult}
	if len(args) != len(callee.Params) {
		return out, false
	}
	for i, a := range args {
		switch {
		case q.isMeta(a):
			out.meta = callee.Params[i]
		case q.arg != nil && (a == q.arg || sameOrigin(a, q.arg)):
			out.arg = callee.Params[i]
		case q.isLen(a):
			out.lenv = callee.Params[i]
		}
	}
	return out, out.meta != nil && (out.arg != nil || out.lenv != nil)
}

// outOf translates the question about parameters of fn to the arguments of one
// of its call sites.
func (q c20LenQ) outOf(fn *ssa.Function, args []ssa.Value) (c20LenQ, bool) {
	out := c20LenQ{mult: q.mult}
	if len(args) != len(fn.Params) {
		return out, false
	}
	idx := func(v ssa.Value) int {
		if v == nil {
			return -1
		}
		o := originValue(v)
		for i, prm := range fn.Params {
			if o == ssa.Value(prm) || v == ssa.Value(prm) {
				return i
			}
		}
		return -1
	}
	if i := idx(q.meta); i >= 0 {
		out.meta = args[i]
	}
	if i := idx(q.arg); i >= 0 {
		out.arg = args[i]
	}
	if i := idx(q.lenv); i >= 0 {
		out.lenv = args[i]
	}
	return out, out.meta != nil && (out.arg != nil || out.lenv != nil)
}

// lenFactAt: the length fact q is known at entry of block b of fn, from the
// branch conditions dominating b (comparisons, length-checking helpers) or,
// when fn is an unexported helper that is only ever called, from the facts at
// every one of its call sites (recursively, c20EffDepth deep).
func (m *c20Model) lenFactAt(b *ssa.BasicBlock, fn *ssa.Function, q c20LenQ, depth int) (string, bool) {
	for _, f := range FactsAt(b) {
		if how, ok := m.condImpliesLen(f.Cond, f.Val, q, 0); ok {
			return how, true
		}
	}
	if q.mult == 1 && m.sumOfSelectingHash(q.arg, q.meta) {
		return "argument is h.Sum(…) of the hash whose (reflect type, h.Size()) selected the meta in metaFromType; B-type ties that size to the meta's", true
	}
	if depth >= c20EffDepth {
		return "", false
	}
	sites, closed := m.callSitesOf(fn)
	if !closed {
		return "", false
	}
	for _, cs := range sites {
		cq, ok := q.outOf(fn, cs.Common().Args)
		if !ok {
			return "", false
		}
		if _, ok := m.lenFactAt(cs.Block(), cs.Fn, cq, depth+1); !ok {
			return "", false
		}
	}
	return fmt.Sprintf("established at all %d call site(s) of the helper %s", len(sites), FuncKey(fn)), true
}

// condImpliesLen: cond == val implies len(arg) = mult·meta.size.
func (m *c20Model) condImpliesLen(cond ssa.Value, val bool, q c20LenQ, depth int) (string, bool) {
	if depth > 3 {
		return "", false
	}
	switch x := cond.(type) {
	case *ssa.UnOp:
		if x.Op == token.NOT {
			return m.condImpliesLen(x.X, !val, q, depth+1)
		}
	case *ssa.BinOp:
		if !((x.Op == token.NEQ && !val) || (x.Op == token.EQL && val)) {
			return "", false
		}
		for _, pr := range [][2]ssa.Value{{x.X, x.Y}, {x.Y, x.X}} {
			if q.isLen(pr[0]) && m.isSizeExpr(pr[1], q, 0) {
				return "comparison in the same function", true
			}
			// err == nil of a checking helper
			if IsNilConst(pr[1]) {
				if how, ok := m.helperImpliesLen(pr[0], q, depth); ok {
					return how, true
				}
			}
		}
	case *ssa.Call, *ssa.Extract:
		if val {
			return m.helperImpliesLen(cond, q, depth)
		}
	}
	return "", false
}

// helperImpliesLen: v is the boolean result (true = fine) or the error result
// (nil = fine) of a package-local helper every one of whose "fine" returns is
// itself the length comparison or is dominated by it, for the parameters that
// the text (or its length) and the meta are passed as.
func (m *c20Model) helperImpliesLen(v ssa.Value, q c20LenQ, depth int) (string, bool) {
	idx := 0
	if ex, ok := v.(*ssa.Extract); ok {
		idx, v = ex.Index, ex.Tuple
	}
	call, ok := v.(*ssa.Call)
	if !ok {
		return "", false
	}
	cal := m.localCallee(call.Parent(), call)
	if cal == nil {
		return "", false
	}
	hq, ok := q.into(cal, call.Call.Args)
	if !ok {
		return "", false
	}
	res := cal.Signature.Results()
	if idx >= res.Len() {
		return "", false
	}
	n := 0
	switch {
	case isErrorType(res.At(idx).Type()) && idx == ErrResultIndex(cal):
		for _, nr := range MaybeNilErrorReturns(cal) {
			n++
			at := nr.From
			if at == nil {
				at = nr.Ret.Block()
			}
			if _, ok := m.lenFactAt(at, cal, hq, c20EffDepth); !ok {
				return "", false
			}
		}
	default:
		bt, isB := res.At(idx).Type().Underlying().(*types.Basic)
		if !isB || bt.Kind() != types.Bool {
			return "", false
		}
		for _, ri := range Returns(cal) {
			if idx >= len(ri.Results) {
				return "", false
			}
			type edge struct {
				v  ssa.Value
				at *ssa.BasicBlock
			}
			edges := []edge{{ri.Results[idx], ri.Ret.Block()}}
			if ph, ok := ri.Results[idx].(*ssa.Phi); ok && ph.Block() == ri.Ret.Block() {
				edges = nil
				for i, e := range ph.Edges {
					edges = append(edges, edge{e, ph.Block().Preds[i]})
				}
			}
			for _, e := range edges {
				if c, ok := e.v.(*ssa.Const); ok && c.Value != nil && c.Value.Kind() == constant.Bool && !constant.BoolVal(c.Value) {
					continue
				}
				n++
				if _, ok := m.condImpliesLen(e.v, true, hq, depth+1); ok {
					continue
				}
				if _, ok := m.lenFactAt(e.at, cal, hq, c20EffDepth); ok {
					continue
				}
				return "", false
			}
		}
	}
	if n == 0 {
		return "", false
	}
	return "verdict of the length-checking helper " + FuncKey(cal), true
}

// isSizeExpr: v is `meta.size` (mult 1) or `meta.size*2` / `2*meta.size`
// (mult 2), written out or returned by a package-local helper of the meta.
func (m *c20Model) isSizeExpr(v ssa.Value, q c20LenQ, depth int) bool {
	if depth > 2 {
		return false
	}
	if ld, ok := v.(*ssa.UnOp); ok && ld.Op == token.MUL {
		if _, isField := ld.X.(*ssa.FieldAddr); !isField {
			if o := originValue(v); o != v {
				return m.isSizeExpr(o, q, depth+1)
			}
		}
	}
	if call, ok := v.(*ssa.Call); ok {
		cal := m.localCallee(call.Parent(), call)
		if cal == nil {
			return false
		}
		hq := c20LenQ{mult: q.mult}
		if len(call.Call.Args) != len(cal.Params) {
			return false
		}
		for i, a := range call.Call.Args {
			if q.isMeta(a) {
				hq.meta = cal.Params[i]
			}
		}
		if hq.meta == nil {
			return false
		}
		n := 0
		for _, ri := range Returns(cal) {
			if len(ri.Results) != 1 || !m.isSizeExpr(ri.Results[0], hq, depth+1) {
				return false
			}
			n++
		}
		return n > 0
	}
	if q.mult == 1 {
		mv, ok := m.isFieldLoad(v, "size")
		return ok && q.isMeta(mv)
	}
	bo, ok := v.(*ssa.BinOp)
	if !ok {
		return false
	}
	if bo.Op == token.ADD {
		// size + size
		a, okA := m.isFieldLoad(bo.X, "size")
		b, okB := m.isFieldLoad(bo.Y, "size")
		return q.mult == 2 && okA && okB && q.isMeta(a) && q.isMeta(b)
	}
	if bo.Op == token.SHL {
		if mv, ok := m.isFieldLoad(bo.X, "size"); ok && q.isMeta(mv) {
			n, ok := ConstInt(bo.Y)
			return ok && q.mult == 2 && n == 1
		}
		return false
	}
	if bo.Op != token.MUL {
		return false
	}
	for _, pr := range [][2]ssa.Value{{bo.X, bo.Y}, {bo.Y, bo.X}} {
		if mv, ok := m.isFieldLoad(pr[0], "size"); ok && q.isMeta(mv) {
			if n, ok := ConstInt(pr[1]); ok && n == q.mult {
				return true
			}
		}
	}
	return false
}

// sumOfSelectingHash: arg is h.Sum(..) and meta is metaFromType[{TypeOf(h), h.Size()}].
func (m *c20Model) sumOfSelectingHash(arg, meta ssa.Value) bool {
	if arg == nil || meta == nil {
		return false
	}
	call, ok := originValue(arg).(*ssa.Call)
	if !ok || !call.Call.IsInvoke() || call.Call.Method.Name() != "Sum" {
		return false
	}
	return m.metaSelectedBy(originValue(meta), call.Call.Value, 0)
}

// metaSelectedBy: meta is the value of metaFromType[{reflect.TypeOf(h), h.Size()}],
// looked up here or by a package-local helper that is given h and returns
// exactly that.
func (m *c20Model) metaSelectedBy(meta, h ssa.Value, depth int) bool {
	if depth > 2 {
		return false
	}
	var tuple ssa.Value = meta
	if ex, ok := meta.(*ssa.Extract); ok {
		if ex.Index != 0 {
			return false
		}
		tuple = ex.Tuple
	}
	if call, ok := tuple.(*ssa.Call); ok {
		cal := m.localCallee(call.Parent(), call)
		if cal == nil || len(call.Call.Args) != len(cal.Params) {
			return false
		}
		var hp ssa.Value
		for i, a := range call.Call.Args {
			if a == h || sameOrigin(a, h) {
				hp = cal.Params[i]
			}
		}
		if hp == nil {
			return false
		}
		n := 0
		for _, ri := range Returns(cal) {
			if len(ri.Results) == 0 || !m.metaSelectedBy(originValue(ri.Results[0]), hp, depth+1) {
				return false
			}
			n++
		}
		return n > 0
	}
	lk, ok := tuple.(*ssa.Lookup)
	if !ok || !c20IsLoadOf(lk.X, m.gType) {
		return false
	}
	flds, ok := c20StructLiteral(lk.Index)
	if !ok {
		return false
	}
	sizeOK, typeOK := false, false
	for _, vs := range flds {
		if len(vs) != 1 {
			return false
		}
		switch x := vs[0].(type) {
		case *ssa.Call:
			if x.Call.IsInvoke() && x.Call.Method.Name() == "Size" && (x.Call.Value == h || sameOrigin(x.Call.Value, h)) {
				sizeOK = true
			}
			if (CallSite{x.Parent(), x}).IsStatic("reflect", "", "TypeOf") && (originValue(x.Call.Args[0]) == h || sameOrigin(x.Call.Args[0], h)) {
				typeOK = true
			}
		}
	}
	return sizeOK && typeOK
}

// ---------------------------------------------------------------------------
// B-default

func c20RuleDefault(m *c20Model) {
	p, r := m.p, m.r
	const rule = "B-default"
	r.Floor(rule, 1)
	nh := p.Func(c20Pkg, "", "NewHash")
	key := FuncKey(nh) + "#family"
	// the constructor calls whose result NewHash returns, through package-local helpers
	type leaf struct {
		call *ssa.Call
		in   *ssa.Function
	}
	var leaves []leaf
	und := ""
	var follow func(fn *ssa.Function, depth int)
	follow = func(fn *ssa.Function, depth int) {
		for _, ri := range Returns(fn) {
			if len(ri.Results) == 0 {
				und = FuncKey(fn) + " returns nothing"
				continue
			}
			vs := []ssa.Value{originValue(ri.Results[0])}
			if ph, ok := vs[0].(*ssa.Phi); ok {
				vs = nil
				for _, e := range ph.Edges {
					vs = append(vs, originValue(e))
				}
			}
			for _, v := range vs {
				if ex, ok := v.(*ssa.Extract); ok && ex.Index == 0 {
					v = ex.Tuple
				}
				call, ok := v.(*ssa.Call)
				if !ok {
					und = fmt.Sprintf("%s does not return the result of a constructor call (%T)", FuncKey(fn), v)
					continue
				}
				if cal := m.localCallee(fn, call); cal != nil && depth < c20EffDepth {
					follow(cal, depth+1)
					continue
				}
				leaves = append(leaves, leaf{call, fn})
			}
		}
	}
	follow(nh, 0)
	if und != "" || len(leaves) == 0 {
		if und == "" {
			und = "NewHash never returns"
		}
		r.Undecided(rule, key, p.Pos(nh.Pos()), "NewHash does not return the result of a direct constructor call: "+und)
		return
	}
	for _, lf := range leaves {
		site := p.Pos(lf.call.Pos())
		var fam *c20Fam
		what := ""
		if cal := lf.call.Call.StaticCallee(); cal != nil {
			what = FuncKeyAny(cal) + "()"
			for _, f := range m.fams {
				if f.newFn == cal {
					fam = f
				}
			}
		} else if mv, ok := m.isFieldLoad(lf.call.Call.Value, "newHash"); ok && !lf.call.Call.IsInvoke() {
			// <family meta>.newHash()
			what = "the newHash field of a digestMeta"
			if al := m.metaIdentity(mv); al != nil {
				if f := m.byMeta[al]; f != nil && f.meta == al {
					fam = f
					what = "the newHash constructor of the digestMeta of " + f.name
				}
			}
		} else {
			r.Undecided(rule, key, site, "NewHash returns the result of a dynamic call the analysis cannot resolve")
			continue
		}
		if fam == nil {
			r.Violation(rule, key, site, fmt.Sprintf("NewHash returns %s, which is not the newHash of any metaFromString family: RefFromString/RefFromBytes/RefFromHash panic ('Currently-unsupported hash type') or name the blob after another family", what))
			continue
		}
		r.OK(rule, key, site, fmt.Sprintf("the recommended hash %s is the constructor of family %q", what, fam.name))
	}
}

// ---------------------------------------------------------------------------
// B-hex — writer/reader agreement of the digest digit alphabet
//
// Writers: every place of pkg/blob where a nibble of a digest byte selects a
// character (a constant string indexed by b>>4 / b&15, or a standard-library
// hex encoder). Readers: every function that turns the text of a ref into
// digest bytes (the ctors/ctorb constructors of every family, parseUnknown),
// followed through package-local helpers to the per-character digit function,
// which is evaluated over all 256 byte values by interpreting its go/ssa.

// c20V is a value of the little interpreter.
type c20V struct {
	k byte // 'i' integer, 'b' bool, 's' string, 'p' pointer parameter (root index in i), 'g' address of g[i]
	i int64
	b bool
	s string
	g *ssa.Global
}

type c20Interp struct {
	m      *c20Model
	steps  int
	stores map[int64][]c20V // root pointer argument → values stored through it
	tuples map[ssa.Value][]c20V
	free   map[*ssa.FreeVar]c20V // captured variables of the function literal being evaluated
}

func c20IntKind(t types.Type) (bits int, signed bool, ok bool) {
	b, isB := t.Underlying().(*types.Basic)
	if !isB || b.Info()&types.IsInteger == 0 {
		return 0, false, false
	}
	switch b.Kind() {
	case types.Int8:
		return 8, true, true
	case types.Int16:
		return 16, true, true
	case types.Int32:
		return 32, true, true
	case types.Int, types.Int64, types.UntypedInt, types.UntypedRune:
		return 64, true, true
	case types.Uint8:
		return 8, false, true
	case types.Uint16:
		return 16, false, true
	case types.Uint32:
		return 32, false, true
	case types.Uint, types.Uint64, types.Uintptr:
		return 64, false, true
	}
	return 0, false, false
}

// c20Wrap reduces v to the value range of integer type t.
func c20Wrap(v int64, t types.Type) (int64, error) {
	bits, signed, ok := c20IntKind(t)
	if !ok {
		return 0, fmt.Errorf("arithmetic on non-integer type %s", t)
	}
	if bits == 64 {
		if !signed && v < 0 {
			return 0, fmt.Errorf("unsigned 64-bit value out of the interpreter's range")
		}
		return v, nil
	}
	mask := int64(1)<<uint(bits) - 1
	v &= mask
	if signed && v>>(uint(bits)-1) != 0 {
		v -= int64(1) << uint(bits)
	}
	return v, nil
}

func c20ConstVal(c *ssa.Const) (c20V, error) {
	if c.Value == nil {
		return c20V{}, fmt.Errorf("nil/zero constant of type %s", c.Type())
	}
	switch c.Value.Kind() {
	case constant.Bool:
		return c20V{k: 'b', b: constant.BoolVal(c.Value)}, nil
	case constant.String:
		return c20V{k: 's', s: constant.StringVal(c.Value)}, nil
	case constant.Int:
		if n, ok := constant.Int64Val(c.Value); ok {
			return c20V{k: 'i', i: n}, nil
		}
	}
	return c20V{}, fmt.Errorf("constant %s not representable", c)
}

// globalArray reads a package-level integer array that is initialised
// element by element with constants in the package initializer and only ever
// read elsewhere. The result maps index → value (missing = 0).
func (m *c20Model) globalArray(g *ssa.Global) (map[int64]int64, error) {
	if m.garr == nil {
		m.garr = map[*ssa.Global]map[int64]int64{}
		m.garrErr = map[*ssa.Global]error{}
	}
	if a, ok := m.garr[g]; ok {
		return a, m.garrErr[g]
	}
	out := map[int64]int64{}
	var err error
	nWhole := 0
	fail := func(f string, a ...any) {
		if err == nil {
			err = fmt.Errorf(f, a...)
		}
	}
	pt, _ := g.Type().Underlying().(*types.Pointer)
	var arr *types.Array
	if pt != nil {
		arr, _ = pt.Elem().Underlying().(*types.Array)
	}
	if arr == nil {
		fail("%s is not an array variable", g.Name())
	} else if _, _, ok := c20IntKind(arr.Elem()); !ok {
		fail("%s is not an array of integers", g.Name())
	}
	for _, fn := range m.fns {
		isInit := fn.Synthetic == "package initializer"
		for _, b := range fn.Blocks {
			for _, in := range b.Instrs {
				uses := false
				for _, op := range in.Operands(nil) {
					if op != nil && *op == ssa.Value(g) {
						uses = true
					}
				}
				if !uses {
					continue
				}
				if st, ok := in.(*ssa.Store); ok && isInit && st.Addr == ssa.Value(g) {
					// `var g = [N]T{…}`: the literal is built in a local and copied over
					nWhole++
					ld, _ := st.Val.(*ssa.UnOp)
					var al *ssa.Alloc
					if ld != nil && ld.Op == token.MUL {
						al, _ = ld.X.(*ssa.Alloc)
					}
					if al == nil || nWhole > 1 {
						fail("%s is assigned something other than one composite literal", g.Name())
						continue
					}
					for _, u := range nonDebug(*al.Referrers()) {
						switch x := u.(type) {
						case *ssa.UnOp:
							if x != ld {
								fail("the literal of %s is read more than once", g.Name())
							}
						case *ssa.IndexAddr:
							idx, okI := x.Index.(*ssa.Const)
							for _, uu := range nonDebug(*x.Referrers()) {
								es, okS := uu.(*ssa.Store)
								var val *ssa.Const
								if okS {
									val, _ = es.Val.(*ssa.Const)
								}
								if !okS || !okI || es.Addr != ssa.Value(x) || idx.Value == nil || val == nil || val.Value == nil || val.Value.Kind() != constant.Int {
									fail("the literal of %s has a non-constant index or element", g.Name())
									continue
								}
								if _, dup := out[idx.Int64()]; dup {
									fail("%s[%d] is initialised twice", g.Name(), idx.Int64())
								}
								out[idx.Int64()] = val.Int64()
							}
						default:
							fail("the literal of %s is used by %T", g.Name(), u)
						}
					}
					continue
				}
				ia, ok := in.(*ssa.IndexAddr)
				if !ok || ia.X != ssa.Value(g) {
					fail("%s is used by %T in %s, not only indexed", g.Name(), in, FuncKeyAny(fn))
					continue
				}
				for _, u := range nonDebug(*ia.Referrers()) {
					switch x := u.(type) {
					case *ssa.UnOp:
						if x.Op != token.MUL {
							fail("element address of %s used by %s", g.Name(), x.Op)
						}
					case *ssa.Store:
						idx, okI := ia.Index.(*ssa.Const)
						val, okV := x.Val.(*ssa.Const)
						if !isInit || x.Addr != ssa.Value(ia) || !okI || !okV || idx.Value == nil || val.Value == nil || val.Value.Kind() != constant.Int {
							fail("%s is written in %s with non-constant index/value or after initialisation", g.Name(), FuncKeyAny(fn))
							continue
						}
						if _, dup := out[idx.Int64()]; dup {
							fail("%s[%d] is initialised twice", g.Name(), idx.Int64())
						}
						out[idx.Int64()] = val.Int64()
					default:
						fail("element address of %s escapes (%T) in %s", g.Name(), u, FuncKeyAny(fn))
					}
				}
			}
		}
	}
	m.garr[g], m.garrErr[g] = out, err
	return out, err
}

type c20Panic struct{ why string }

func (p *c20Panic) Error() string { return "panics: " + p.why }

// call interprets fn on concrete arguments. Only the pure integer/boolean
// fragment is supported; anything else is an error (⇒ Undecided).
func (x *c20Interp) call(fn *ssa.Function, args []c20V, depth int) ([]c20V, error) {
	if fn == nil || fn.Blocks == nil {
		return nil, fmt.Errorf("no body to interpret")
	}
	if depth > 3 {
		return nil, fmt.Errorf("call depth exceeded in %s", FuncKeyAny(fn))
	}
	if len(args) != len(fn.Params) {
		return nil, fmt.Errorf("arity mismatch calling %s", FuncKeyAny(fn))
	}
	env := map[ssa.Value]c20V{}
	for i, p := range fn.Params {
		env[p] = args[i]
	}
	get := func(v ssa.Value) (c20V, error) {
		switch t := v.(type) {
		case *ssa.Const:
			cv, err := c20ConstVal(t)
			if err != nil {
				return cv, err
			}
			if cv.k == 'i' {
				if _, _, ok := c20IntKind(t.Type()); ok {
					cv.i, err = c20Wrap(cv.i, t.Type())
				}
			}
			return cv, err
		case *ssa.Global:
			return c20V{k: 'g', g: t, i: -1}, nil
		case *ssa.FreeVar:
			if r, ok := x.free[t]; ok {
				return r, nil
			}
		}
		if r, ok := env[v]; ok {
			return r, nil
		}
		return c20V{}, fmt.Errorf("value %s (%T) of %s is outside the interpretable fragment", v.Name(), v, FuncKeyAny(fn))
	}
	var prev *ssa.BasicBlock
	b := fn.Blocks[0]
	for {
		var next *ssa.BasicBlock
		// phis read the environment of the predecessor simultaneously
		phiVals := map[ssa.Value]c20V{}
		for _, in := range b.Instrs {
			ph, ok := in.(*ssa.Phi)
			if !ok {
				break
			}
			idx := -1
			for i, p := range b.Preds {
				if p == prev {
					idx = i
				}
			}
			if idx < 0 {
				return nil, fmt.Errorf("phi without predecessor")
			}
			v, err := get(ph.Edges[idx])
			if err != nil {
				return nil, err
			}
			phiVals[ph] = v
		}
		for k, v := range phiVals {
			env[k] = v
		}
		for _, in := range b.Instrs {
			x.steps++
			if x.steps > 20000 {
				return nil, fmt.Errorf("step limit exceeded in %s", FuncKeyAny(fn))
			}
			switch t := in.(type) {
			case *ssa.Phi, *ssa.DebugRef:
			case *ssa.BinOp:
				a, err := get(t.X)
				if err != nil {
					return nil, err
				}
				c, err := get(t.Y)
				if err != nil {
					return nil, err
				}
				r, err := c20BinOp(t.Op, a, c, t.Type())
				if err != nil {
					return nil, err
				}
				env[t] = r
			case *ssa.UnOp:
				a, err := get(t.X)
				if err != nil {
					return nil, err
				}
				switch {
				case t.Op == token.NOT && a.k == 'b':
					env[t] = c20V{k: 'b', b: !a.b}
				case t.Op == token.SUB && a.k == 'i':
					n, err := c20Wrap(-a.i, t.Type())
					if err != nil {
						return nil, err
					}
					env[t] = c20V{k: 'i', i: n}
				case t.Op == token.XOR && a.k == 'i':
					n, err := c20Wrap(^a.i, t.Type())
					if err != nil {
						return nil, err
					}
					env[t] = c20V{k: 'i', i: n}
				case t.Op == token.MUL && a.k == 'g' && a.i >= 0:
					arr, err := x.m.globalArray(a.g)
					if err != nil {
						return nil, err
					}
					env[t] = c20V{k: 'i', i: arr[a.i]}
				default:
					return nil, fmt.Errorf("%s: unary %s on this operand is outside the interpretable fragment (the digit function must be a pure function of its byte)", FuncKeyAny(fn), t.Op)
				}
			case *ssa.Convert:
				a, err := get(t.X)
				if err != nil {
					return nil, err
				}
				if a.k != 'i' {
					return nil, fmt.Errorf("conversion of a non-integer in %s", FuncKeyAny(fn))
				}
				n, err := c20Wrap(a.i, t.Type())
				if err != nil {
					return nil, err
				}
				env[t] = c20V{k: 'i', i: n}
			case *ssa.ChangeType:
				a, err := get(t.X)
				if err != nil {
					return nil, err
				}
				env[t] = a
			case *ssa.Index:
				a, err := get(t.X)
				if err != nil {
					return nil, err
				}
				i, err := get(t.Index)
				if err != nil {
					return nil, err
				}
				if a.k != 's' || i.k != 'i' {
					return nil, fmt.Errorf("lookup in something other than a constant string in %s", FuncKeyAny(fn))
				}
				if i.i < 0 || i.i >= int64(len(a.s)) {
					return nil, &c20Panic{fmt.Sprintf("index %d out of range of a %d-byte constant string", i.i, len(a.s))}
				}
				env[t] = c20V{k: 'i', i: int64(a.s[i.i])}
			case *ssa.IndexAddr:
				a, err := get(t.X)
				if err != nil {
					return nil, err
				}
				i, err := get(t.Index)
				if err != nil {
					return nil, err
				}
				if a.k != 'g' || a.i >= 0 || i.k != 'i' {
					return nil, fmt.Errorf("indexing something other than a package-level array in %s", FuncKeyAny(fn))
				}
				arrT := a.g.Type().Underlying().(*types.Pointer).Elem().Underlying()
				if at, ok := arrT.(*types.Array); !ok {
					return nil, fmt.Errorf("%s is not an array", a.g.Name())
				} else if i.i < 0 || i.i >= at.Len() {
					return nil, &c20Panic{fmt.Sprintf("index %d out of range of %s", i.i, a.g.Name())}
				}
				env[t] = c20V{k: 'g', g: a.g, i: i.i}
			case *ssa.Store:
				a, err := get(t.Addr)
				if err != nil {
					return nil, err
				}
				v, err := get(t.Val)
				if err != nil {
					return nil, err
				}
				if a.k != 'p' {
					return nil, fmt.Errorf("store to something other than a pointer parameter in %s", FuncKeyAny(fn))
				}
				x.stores[a.i] = append(x.stores[a.i], v)
			case *ssa.Call:
				cal := t.Call.StaticCallee()
				if bi, ok := t.Call.Value.(*ssa.Builtin); ok && bi.Name() == "len" && len(t.Call.Args) == 1 {
					a, err := get(t.Call.Args[0])
					if err != nil {
						return nil, err
					}
					if a.k != 's' {
						return nil, fmt.Errorf("len of a non-constant in %s", FuncKeyAny(fn))
					}
					env[t] = c20V{k: 'i', i: int64(len(a.s))}
					break
				}
				if cal == nil || t.Call.IsInvoke() || !x.m.inPkg(cal) {
					return nil, fmt.Errorf("%s calls %s, which is outside the interpretable fragment", FuncKeyAny(fn), t.Call.Value.Name())
				}
				var as []c20V
				for _, av := range t.Call.Args {
					a, err := get(av)
					if err != nil {
						return nil, err
					}
					as = append(as, a)
				}
				rs, err := x.call(cal, as, depth+1)
				if err != nil {
					return nil, err
				}
				if len(rs) == 1 {
					env[t] = rs[0]
				} else {
					x.tuples[t] = rs
				}
			case *ssa.Extract:
				rs, ok := x.tuples[t.Tuple]
				if !ok || t.Index >= len(rs) {
					return nil, fmt.Errorf("extract of an uninterpreted tuple in %s", FuncKeyAny(fn))
				}
				env[t] = rs[t.Index]
			case *ssa.If:
				c, err := get(t.Cond)
				if err != nil {
					return nil, err
				}
				if c.k != 'b' {
					return nil, fmt.Errorf("branch on a non-boolean")
				}
				if c.b {
					next = b.Succs[0]
				} else {
					next = b.Succs[1]
				}
			case *ssa.Jump:
				next = b.Succs[0]
			case *ssa.Return:
				var out []c20V
				for _, rv := range t.Results {
					v, err := get(rv)
					if err != nil {
						return nil, err
					}
					out = append(out, v)
				}
				return out, nil
			case *ssa.Panic:
				return nil, &c20Panic{"explicit panic"}
			default:
				return nil, fmt.Errorf("%s contains %T, which is outside the interpretable fragment (pure integer/boolean code, constant tables, stores to a flag parameter)", FuncKeyAny(fn), in)
			}
		}
		if next == nil {
			return nil, fmt.Errorf("block without terminator")
		}
		prev, b = b, next
	}
}

func c20BinOp(op token.Token, a, c c20V, rt types.Type) (c20V, error) {
	if a.k == 'b' && c.k == 'b' {
		switch op {
		case token.EQL:
			return c20V{k: 'b', b: a.b == c.b}, nil
		case token.NEQ:
			return c20V{k: 'b', b: a.b != c.b}, nil
		case token.AND:
			return c20V{k: 'b', b: a.b && c.b}, nil
		case token.OR:
			return c20V{k: 'b', b: a.b || c.b}, nil
		}
	}
	if a.k != 'i' || c.k != 'i' {
		return c20V{}, fmt.Errorf("binary %s on operands outside the integer/boolean fragment", op)
	}
	switch op {
	case token.EQL:
		return c20V{k: 'b', b: a.i == c.i}, nil
	case token.NEQ:
		return c20V{k: 'b', b: a.i != c.i}, nil
	case token.LSS:
		return c20V{k: 'b', b: a.i < c.i}, nil
	case token.LEQ:
		return c20V{k: 'b', b: a.i <= c.i}, nil
	case token.GTR:
		return c20V{k: 'b', b: a.i > c.i}, nil
	case token.GEQ:
		return c20V{k: 'b', b: a.i >= c.i}, nil
	}
	var n int64
	switch op {
	case token.ADD:
		n = a.i + c.i
	case token.SUB:
		n = a.i - c.i
	case token.MUL:
		n = a.i * c.i
	case token.QUO:
		if c.i == 0 {
			return c20V{}, &c20Panic{"division by zero"}
		}
		n = a.i / c.i
	case token.REM:
		if c.i == 0 {
			return c20V{}, &c20Panic{"division by zero"}
		}
		n = a.i % c.i
	case token.AND:
		n = a.i & c.i
	case token.OR:
		n = a.i | c.i
	case token.XOR:
		n = a.i ^ c.i
	case token.AND_NOT:
		n = a.i &^ c.i
	case token.SHL:
		if c.i < 0 {
			return c20V{}, &c20Panic{"negative shift"}
		}
		if c.i >= 64 {
			n = 0
		} else {
			n = a.i << uint(c.i)
		}
	case token.SHR:
		if c.i < 0 {
			return c20V{}, &c20Panic{"negative shift"}
		}
		if c.i >= 64 {
			if a.i < 0 {
				n = -1
			}
		} else {
			n = a.i >> uint(c.i)
		}
	default:
		return c20V{}, fmt.Errorf("binary operator %s not interpreted", op)
	}
	w, err := c20Wrap(n, rt)
	return c20V{k: 'i', i: w}, err
}

// inPkg: fn (or the generic it instantiates) is declared in pkg/blob.
func (m *c20Model) inPkg(fn *ssa.Function) bool {
	if fn == nil {
		return false
	}
	if fn.Pkg == m.pkg {
		return true
	}
	if o := fn.Origin(); o != nil && o.Pkg == m.pkg {
		return true
	}
	if fn.Parent() != nil {
		return m.inPkg(fn.Parent())
	}
	return false
}

// ---- writers ---------------------------------------------------------------

// c20Emit is one place where a nibble selects a character.
type c20Emit struct {
	fn     *ssa.Function
	pos    token.Pos
	hi, lo bool     // which nibble of the byte selects the character
	e      [16]byte // nibble → character
	what   string
}

// c20ExprLeaf finds the single non-constant leaf of an integer expression
// tree built from BinOp/UnOp/Convert; nil when there are none or several.
func c20ExprLeaf(v ssa.Value) (leaf ssa.Value, ok bool) {
	ok = true
	var walk func(v ssa.Value, d int)
	walk = func(v ssa.Value, d int) {
		if d > 12 {
			ok = false
			return
		}
		switch t := v.(type) {
		case *ssa.Const:
		case *ssa.BinOp:
			walk(t.X, d+1)
			walk(t.Y, d+1)
		case *ssa.Convert:
			walk(t.X, d+1)
		case *ssa.ChangeType:
			walk(t.X, d+1)
		case *ssa.UnOp:
			if t.Op == token.MUL {
				if leaf != nil && leaf != v {
					ok = false
				}
				leaf = v
				return
			}
			walk(t.X, d+1)
		default:
			if leaf != nil && leaf != v {
				ok = false
			}
			leaf = v
		}
	}
	walk(v, 0)
	return leaf, ok && leaf != nil
}

// c20EvalExpr evaluates such a tree with leaf bound to n.
func c20EvalExpr(v, leaf ssa.Value, n int64) (int64, error) {
	if v == leaf {
		return n, nil
	}
	switch t := v.(type) {
	case *ssa.Const:
		cv, err := c20ConstVal(t)
		if err != nil || cv.k != 'i' {
			return 0, fmt.Errorf("non-integer constant in index expression")
		}
		if _, _, ok := c20IntKind(t.Type()); ok {
			return c20Wrap(cv.i, t.Type())
		}
		return cv.i, nil
	case *ssa.BinOp:
		a, err := c20EvalExpr(t.X, leaf, n)
		if err != nil {
			return 0, err
		}
		c, err := c20EvalExpr(t.Y, leaf, n)
		if err != nil {
			return 0, err
		}
		r, err := c20BinOp(t.Op, c20V{k: 'i', i: a}, c20V{k: 'i', i: c}, t.Type())
		if err != nil {
			return 0, err
		}
		if r.k != 'i' {
			return 0, fmt.Errorf("boolean inside an index expression")
		}
		return r.i, nil
	case *ssa.Convert:
		a, err := c20EvalExpr(t.X, leaf, n)
		if err != nil {
			return 0, err
		}
		return c20Wrap(a, t.Type())
	case *ssa.ChangeType:
		return c20EvalExpr(t.X, leaf, n)
	case *ssa.UnOp:
		a, err := c20EvalExpr(t.X, leaf, n)
		if err != nil {
			return 0, err
		}
		switch t.Op {
		case token.SUB:
			return c20Wrap(-a, t.Type())
		case token.XOR:
			return c20Wrap(^a, t.Type())
		}
	}
	return 0, fmt.Errorf("index expression outside the interpretable fragment (%T)", v)
}

// c20StdEncoders: standard-library functions that write bytes as hex text.
// Frozen table, one line of reason each (documented behaviour of the Go
// standard library, stable since Go 1).
var c20StdEncoders = map[string]struct{ table, reason string }{
	"encoding/hex.EncodeToString": {"0123456789abcdef", "encoding/hex: 'hextable = \"0123456789abcdef\"', high nibble first"},
	"encoding/hex.Encode":         {"0123456789abcdef", "encoding/hex: same table as EncodeToString"},
	"encoding/hex.AppendEncode":   {"0123456789abcdef", "encoding/hex: same table as EncodeToString"},
}

// c20FmtVerbs: fmt verbs that print a byte string as hex, two digits per byte.
var c20FmtVerbs = map[byte]struct{ table, reason string }{
	'x': {"0123456789abcdef", "fmt: %x on strings and byte slices is lower-case hex, two characters per byte"},
	'X': {"0123456789ABCDEF", "fmt: %X on strings and byte slices is upper-case hex, two characters per byte"},
}

func c20IsByteString(t types.Type) bool {
	switch u := t.Underlying().(type) {
	case *types.Basic:
		return u.Info()&types.IsString != 0
	case *types.Slice:
		b, ok := u.Elem().Underlying().(*types.Basic)
		return ok && b.Kind() == types.Uint8
	case *types.Array:
		b, ok := u.Elem().Underlying().(*types.Basic)
		return ok && b.Kind() == types.Uint8
	}
	return false
}

func c20CalleeName(cal *ssa.Function) string {
	if cal == nil || cal.Pkg == nil || cal.Signature.Recv() != nil {
		return ""
	}
	return cal.Pkg.Pkg.Path() + "." + cal.Name()
}

// c20VariadicArgs returns the element values of the `[]any{...}` literal
// passed as the variadic argument v (nil if it cannot be read).
func c20VariadicArgs(v ssa.Value) []ssa.Value {
	sl, ok := v.(*ssa.Slice)
	if !ok {
		return nil
	}
	al, ok := sl.X.(*ssa.Alloc)
	if !ok {
		return nil
	}
	byIdx := map[int64]ssa.Value{}
	for _, u := range nonDebug(*al.Referrers()) {
		ia, ok := u.(*ssa.IndexAddr)
		if !ok {
			continue
		}
		idx, ok := ConstInt(ia.Index)
		if !ok {
			return nil
		}
		for _, uu := range nonDebug(*ia.Referrers()) {
			if st, ok := uu.(*ssa.Store); ok && st.Addr == ssa.Value(ia) {
				byIdx[idx] = st.Val
			}
		}
	}
	out := make([]ssa.Value, len(byIdx))
	for i := range out {
		v, ok := byIdx[int64(i)]
		if !ok {
			return nil
		}
		out[i] = v
	}
	return out
}

// emitSites lists the nibble→character sites of fn and the reasons why a
// candidate site could not be read.
// soft lists constant-string lookups whose index does not range over one byte:
// they are reported only for functions known to handle digest digits.
func (m *c20Model) emitSites(fn *ssa.Function) (sites []c20Emit, und, soft []string) {
	for _, b := range fn.Blocks {
		for _, in := range b.Instrs {
			switch t := in.(type) {
			case *ssa.Index:
				cs, ok := t.X.(*ssa.Const)
				if !ok || cs.Value == nil || cs.Value.Kind() != constant.String {
					continue
				}
				tab := constant.StringVal(cs.Value)
				if _, isConst := t.Index.(*ssa.Const); isConst {
					continue
				}
				leaf, ok := c20ExprLeaf(t.Index)
				if !ok {
					soft = append(soft, fmt.Sprintf("constant string %q is indexed by an expression with several variables", c20Short(tab)))
					continue
				}
				if bits, signed, ok := c20IntKind(leaf.Type()); !ok || bits != 8 || signed {
					soft = append(soft, fmt.Sprintf("constant string %q is indexed by an expression over a %s, not over one byte; its range cannot be enumerated", c20Short(tab), leaf.Type()))
					continue
				}
				var ch [256]byte
				bad := ""
				idxSeen := map[int64]bool{}
				for n := 0; n < 256 && bad == ""; n++ {
					idx, err := c20EvalExpr(t.Index, leaf, int64(n))
					idxSeen[idx] = true
					switch {
					case err != nil:
						bad = err.Error()
					case idx < 0 || idx >= int64(len(tab)):
						bad = fmt.Sprintf("index %d out of range of %q for byte %#x", idx, c20Short(tab), n)
					default:
						ch[n] = tab[idx]
					}
				}
				if bad != "" {
					und = append(und, bad)
					continue
				}
				injective := len(idxSeen) == 256
				e := c20Emit{fn: fn, pos: t.Pos(), what: fmt.Sprintf("constant table %q", c20Short(tab))}
				e.hi, e.lo = true, true
				var eh, el [16]byte
				for n := 0; n < 16; n++ {
					eh[n], el[n] = ch[n<<4], ch[n]
				}
				for n := 0; n < 256; n++ {
					if ch[n] != eh[n>>4] {
						e.hi = false
					}
					if ch[n] != el[n&15] {
						e.lo = false
					}
				}
				switch {
				case e.hi && e.lo: // constant character: not a digit site
					continue
				case e.hi:
					e.e = eh
				case e.lo:
					e.e = el
				case injective:
					// a table keyed by the whole byte (a translation/decoding table) is not a
					// place where a nibble selects a digit
					continue
				default:
					und = append(und, fmt.Sprintf("the character taken from the %d-byte constant table %q depends on both nibbles of the byte, yet not on the whole byte; not a hex digit site the analysis understands", len(tab), c20Short(tab)))
					continue
				}
				sites = append(sites, e)
			case ssa.CallInstruction:
				cc := t.Common()
				name := c20CalleeName(cc.StaticCallee())
				if enc, ok := c20StdEncoders[name]; ok {
					e := c20Emit{fn: fn, pos: t.Pos(), hi: true, lo: true, what: name + " (" + enc.reason + ")"}
					copy(e.e[:], enc.table)
					sites = append(sites, e)
					continue
				}
				// fmt.*printf / Appendf with a constant format
				if !strings.HasPrefix(name, "fmt.") {
					continue
				}
				fi := -1
				switch strings.TrimPrefix(name, "fmt.") {
				case "Sprintf", "Errorf", "Printf":
					fi = 0
				case "Fprintf", "Appendf":
					fi = 1
				default:
					continue
				}
				if fi+1 >= len(cc.Args) {
					continue
				}
				format, ok := ConstString(cc.Args[fi])
				if !ok {
					continue
				}
				verbs := c20Verbs(format)
				hasHex := false
				for _, vb := range verbs {
					if _, ok := c20FmtVerbs[vb]; ok {
						hasHex = true
					}
				}
				if !hasHex {
					continue
				}
				args := c20VariadicArgs(cc.Args[fi+1])
				if args == nil || len(args) != len(verbs) {
					und = append(und, fmt.Sprintf("%s with format %q: cannot pair the hex verb with its argument", name, format))
					continue
				}
				for i, vb := range verbs {
					enc, ok := c20FmtVerbs[vb]
					if !ok {
						continue
					}
					at := args[i].Type()
					if mi, ok := args[i].(*ssa.MakeInterface); ok {
						at = mi.X.Type()
					}
					if !c20IsByteString(at) {
						continue // %x of a number: not a digest
					}
					e := c20Emit{fn: fn, pos: t.Pos(), hi: true, lo: true, what: fmt.Sprintf("%s %%%c (%s)", name, vb, enc.reason)}
					copy(e.e[:], enc.table)
					sites = append(sites, e)
				}
			}
		}
	}
	return sites, und, soft
}

// c20Verbs lists the verb letters of a format string (flags, width and
// precision skipped; "%%" ignored; explicit argument indexes make it give up).
func c20Verbs(format string) []byte {
	var out []byte
	for i := 0; i < len(format); i++ {
		if format[i] != '%' {
			continue
		}
		i++
		for i < len(format) && strings.IndexByte("+-# 0123456789.*[]", format[i]) >= 0 {
			i++
		}
		if i < len(format) && format[i] != '%' {
			out = append(out, format[i])
		}
	}
	return out
}

// ---- readers ---------------------------------------------------------------

// c20StdDecoders: standard-library functions that read hex text. Frozen table,
// one line of reason each. arg = index of the text argument. Every entry is
// more liberal than a lower-case-only digit function; the table exists so that
// the report can say exactly which characters become acceptable.
var c20StdDecoders = map[string]struct {
	arg            int
	accept, reason string
}{
	"encoding/hex.Decode":       {1, "0123456789abcdefABCDEF", "encoding/hex: fromHexChar accepts '0'-'9', 'a'-'f' and 'A'-'F'"},
	"encoding/hex.DecodeString": {0, "0123456789abcdefABCDEF", "encoding/hex: same decoder as Decode"},
	"encoding/hex.AppendDecode": {1, "0123456789abcdefABCDEF", "encoding/hex: same decoder as Decode"},
	"strconv.ParseUint":         {0, "0123456789abcdefABCDEF", "strconv: with base 16, digits are matched case-insensitively ('a'-'z' and 'A'-'Z' lowered alike)"},
	"strconv.ParseInt":          {0, "0123456789abcdefABCDEF+-", "strconv: as ParseUint, plus an optional leading sign"},
	"fmt.Sscanf":                {0, "0123456789abcdefABCDEF \t\r\n+-", "fmt: scanning %x accepts both cases of hex digits (and spaces/sign according to the format)"},
	"fmt.Sscan":                 {0, "0123456789abcdefABCDEF \t\r\n+-_xX", "fmt: scanning into a []byte/integer accepts both cases of hex digits, base prefixes, spaces"},
}

// c20Decoder is one way characters of the text are turned into digit values.
type c20Decoder struct {
	name string    // callee
	pos  token.Pos // one call site
	std  bool      // standard library: only ok[] is meaningful
	ok   [256]bool
	val  [256]int64
	err  string // could not be evaluated
}

// c20Src is a place where the judgement "all digits read so far are good" is
// available in a function: a digit-function call (flag cell or ok result), a
// package-local helper call (flag cell, bool or error result) or a
// standard-library decoder call (error result).
type c20Src struct {
	instr  ssa.Instruction
	what   string
	cell   ssa.Value // the *bool flag passed along (nil if judged by result)
	res    ssa.Value // bool or error result carrying the judgement (nil if by flag, or discarded)
	resErr bool
}

type c20TextKey struct {
	fn  *ssa.Function
	arg int
}

// c20TextSum summarises how fn treats the text passed as parameter arg.
type c20TextSum struct {
	decs      []*c20Decoder
	und       []string // the analysis cannot follow
	bad       []string // definite: success without the digits having been judged
	flagParam int      // ≥0: fn reports bad digits through this *bool parameter
	vIdx      int      // result index carrying fn's verdict (-1: none)
	vErr      bool     // verdict is an error (nil = good) rather than a bool
	reads     int      // character reads + decoder calls seen
}

func c20VerdictIndex(sig *types.Signature) (idx int, isErr bool) {
	idx = -1
	n := 0
	for i := 0; i < sig.Results().Len(); i++ {
		t := sig.Results().At(i).Type()
		if b, ok := t.Underlying().(*types.Basic); ok && b.Kind() == types.Bool {
			idx, isErr = i, false
			n++
		} else if types.Identical(t, types.Universe.Lookup("error").Type()) {
			idx, isErr = i, true
			n++
		}
	}
	if n != 1 {
		return -1, false
	}
	return idx, isErr
}

func c20IsBoolPtr(t types.Type) bool {
	p, ok := t.Underlying().(*types.Pointer)
	if !ok {
		return false
	}
	b, ok := p.Elem().Underlying().(*types.Basic)
	return ok && b.Kind() == types.Bool
}

// evalDecoder evaluates digit function g over all values of its parameter k.
// The argument passed is the expression argExpr over the raw character root.
func (m *c20Model) evalDecoder(g *ssa.Function, k int, call ssa.CallInstruction, argExpr, root ssa.Value) (*c20Decoder, *c20Src) {
	d := &c20Decoder{name: FuncKeyAny(g), pos: call.Pos()}
	if argExpr != root {
		d.name += " (applied to the transformed character)"
	}
	src := &c20Src{instr: call, what: "digit function " + d.name}
	cc := call.Common()
	flag := -1
	for i, p := range g.Params {
		if c20IsBoolPtr(p.Type()) {
			if flag >= 0 {
				d.err = "the digit function has several *bool parameters"
				return d, src
			}
			flag = i
		}
	}
	okIdx := -1
	rs := g.Signature.Results()
	// a function literal that captures the caller's bad-digit flag: the captured
	// variable plays the part of the flag parameter
	var flagFV *ssa.FreeVar
	if flag < 0 {
		if mc, ok := originValue(cc.Value).(*ssa.MakeClosure); ok && mc.Fn == ssa.Value(g) {
			for i, fv := range g.FreeVars {
				if c20IsBoolPtr(fv.Type()) && flagFV == nil && i < len(mc.Bindings) {
					flagFV = fv
					flag = len(g.Params) + i
					src.cell = mc.Bindings[i]
				}
			}
		}
	}
	if flagFV != nil {
		// reported through the captured flag
	} else if flag < 0 {
		if rs.Len() == 2 {
			if b, ok := rs.At(1).Type().Underlying().(*types.Basic); ok && b.Kind() == types.Bool {
				okIdx = 1
			}
		}
		if okIdx < 0 {
			d.err = "cannot tell how the digit function reports a bad character (neither a *bool flag parameter nor a (value, ok) result)"
			return d, src
		}
		if cv := call.Value(); cv != nil {
			src.res = ResultValue(cv, okIdx)
		}
	} else {
		src.cell = cc.Args[flag]
	}
	if rs.Len() == 0 {
		d.err = "the digit function returns no value"
		return d, src
	}
	if _, _, ok := c20IntKind(rs.At(0).Type()); !ok {
		d.err = "the digit function's first result is not an integer"
		return d, src
	}
	base := make([]c20V, len(g.Params))
	for i := range g.Params {
		switch {
		case i == k:
		case i == flag:
			base[i] = c20V{k: 'p', i: int64(i)}
		default:
			c, ok := cc.Args[i].(*ssa.Const)
			if !ok {
				d.err = fmt.Sprintf("argument %d of the digit function is not a constant", i)
				return d, src
			}
			cv, err := c20ConstVal(c)
			if err != nil {
				d.err = err.Error()
				return d, src
			}
			base[i] = cv
		}
	}
	if _, _, ok := c20IntKind(g.Params[k].Type()); !ok {
		d.err = fmt.Sprintf("the character parameter of the digit function is a %s", g.Params[k].Type())
		return d, src
	}
	if bits, signed, ok := c20IntKind(root.Type()); !ok || bits != 8 || signed {
		d.err = fmt.Sprintf("the character read from the text is a %s, not a byte", root.Type())
		return d, src
	}
	for n := 0; n < 256; n++ {
		args := append([]c20V(nil), base...)
		cv, err := c20EvalExpr(argExpr, root, int64(n))
		if err != nil {
			d.err = "the argument of the digit function: " + err.Error()
			return d, src
		}
		if cv, err = c20Wrap(cv, g.Params[k].Type()); err != nil {
			d.err = err.Error()
			return d, src
		}
		args[k] = c20V{k: 'i', i: cv}
		x := &c20Interp{m: m, stores: map[int64][]c20V{}, tuples: map[ssa.Value][]c20V{}}
		if flagFV != nil {
			x.free = map[*ssa.FreeVar]c20V{flagFV: {k: 'p', i: int64(flag)}}
		}
		out, err := x.call(g, args, 0)
		if err != nil {
			d.err = fmt.Sprintf("for byte %#02x: %v", n, err)
			return d, src
		}
		if len(out) == 0 || out[0].k != 'i' {
			d.err = "the digit function's result is not an integer"
			return d, src
		}
		d.val[n] = out[0].i
		if flag >= 0 {
			d.ok[n] = true
			for _, st := range x.stores[int64(flag)] {
				if st.k != 'b' {
					d.err = "non-boolean stored through the flag"
					return d, src
				}
				if !st.b {
					d.err = fmt.Sprintf("for byte %#02x the digit function stores false through the flag: an earlier bad digit would be forgotten; cannot model", n)
					return d, src
				}
				d.ok[n] = false
			}
		} else {
			if out[okIdx].k != 'b' {
				d.err = "ok result is not a boolean"
				return d, src
			}
			d.ok[n] = out[okIdx].b
		}
	}
	return d, src
}

// textSummary follows the text parameter arg of fn to everything that reads it.
func (m *c20Model) textSummary(fn *ssa.Function, arg int, depth int) *c20TextSum {
	key := c20TextKey{fn, arg}
	if m.textMemo == nil {
		m.textMemo = map[c20TextKey]*c20TextSum{}
	}
	if s, ok := m.textMemo[key]; ok {
		return s
	}
	s := &c20TextSum{flagParam: -1, vIdx: -1}
	m.textMemo[key] = s
	undf := func(f string, a ...any) { s.und = append(s.und, FuncKeyAny(fn)+": "+fmt.Sprintf(f, a...)) }
	if fn.Blocks == nil {
		undf("no body to analyse")
		return s
	}
	if depth > 4 {
		undf("helper nesting too deep")
		return s
	}
	if fn.Recover != nil {
		undf("uses defer/recover; cannot follow its exits")
		return s
	}
	for _, b := range fn.Blocks {
		for _, in := range b.Instrs {
			switch in.(type) {
			case *ssa.Defer, *ssa.RunDefers, *ssa.Go:
				undf("uses defer/go; cannot follow its exits")
				return s
			}
		}
	}
	if arg >= len(fn.Params) {
		undf("parameter %d does not exist", arg)
		return s
	}
	var srcs []*c20Src
	decByCallee := map[string]*c20Decoder{}
	views := map[ssa.Value]bool{}
	chars := map[ssa.Value]ssa.Value{} // character-derived value → the raw character it is computed from
	var vwork, cwork []ssa.Value
	addView := func(v ssa.Value) {
		if !views[v] {
			views[v] = true
			vwork = append(vwork, v)
		}
	}
	addDerived := func(v, root ssa.Value) {
		if _, ok := chars[v]; !ok {
			chars[v] = root
			cwork = append(cwork, v)
		}
	}
	addChar := func(v ssa.Value) {
		if _, ok := chars[v]; !ok {
			s.reads++
		}
		addDerived(v, v)
	}
	addView(fn.Params[arg])
	argPositions := func(cc *ssa.CallCommon, v ssa.Value) []int {
		var out []int
		for i, a := range cc.Args {
			if a == v {
				out = append(out, i)
			}
		}
		return out
	}
	for len(vwork) > 0 {
		v := vwork[len(vwork)-1]
		vwork = vwork[:len(vwork)-1]
		refs := v.Referrers()
		if refs == nil {
			continue
		}
		for _, u := range nonDebug(*refs) {
			switch t := u.(type) {
			case *ssa.Slice:
				if t.X == v {
					addView(t)
				} else {
					undf("the text is used as a slice bound")
				}
			case *ssa.Convert:
				if c20IsByteString(t.Type()) {
					addView(t)
				} else {
					undf("the text is converted to %s", t.Type())
				}
			case *ssa.ChangeType:
				addView(t)
			case *ssa.MultiConvert:
				addView(t)
			case *ssa.Phi:
				addView(t)
			case *ssa.BinOp:
				switch t.Op {
				case token.ADD:
					addView(t)
				case token.EQL, token.NEQ:
					// comparison of the text with another string: a read that decodes nothing
				default:
					undf("the text is an operand of %s", t.Op)
				}
			case *ssa.IndexAddr:
				if t.X != v {
					undf("the text is used as an index")
					continue
				}
				for _, uu := range nonDebug(*t.Referrers()) {
					if ld, ok := uu.(*ssa.UnOp); ok && ld.Op == token.MUL {
						addChar(ld)
					} else {
						undf("an element address of the text is used by %T", uu)
					}
				}
			case *ssa.Lookup:
				undf("the text is used as a map key")
			case *ssa.Index:
				if t.X == v {
					addChar(t)
				} else {
					undf("the text is used as an index")
				}
			case ssa.CallInstruction:
				cc := t.Common()
				if bi, ok := cc.Value.(*ssa.Builtin); ok {
					if bi.Name() == "len" {
						continue
					}
					undf("the text is passed to the builtin %s", bi.Name())
					continue
				}
				cal := cc.StaticCallee()
				if cal == nil || cc.IsInvoke() {
					undf("the text is passed to a dynamically dispatched call")
					continue
				}
				pos := argPositions(cc, v)
				if len(pos) == 0 {
					undf("the text is the callee or receiver of a call")
					continue
				}
				if m.inPkg(cal) {
					for _, k := range pos {
						hs := m.textSummary(cal, k, depth+1)
						s.reads += hs.reads
						s.und = append(s.und, hs.und...)
						s.bad = append(s.bad, hs.bad...)
						for _, d := range hs.decs {
							if decByCallee[d.name] == nil {
								decByCallee[d.name] = d
								s.decs = append(s.decs, d)
							}
						}
						src := &c20Src{instr: t, what: "helper " + FuncKeyAny(cal)}
						switch {
						case hs.flagParam >= 0:
							src.cell = cc.Args[hs.flagParam]
						case hs.vIdx >= 0:
							if cv := t.Value(); cv != nil {
								src.res = ResultValue(cv, hs.vIdx)
							}
							src.resErr = hs.vErr
						default:
							if hs.reads > 0 {
								undf("helper %s reads digits but has neither a bool/error result nor a flag parameter", FuncKeyAny(cal))
							}
							continue
						}
						if hs.reads > 0 {
							srcs = append(srcs, src)
						}
					}
					continue
				}
				name := c20CalleeName(cal)
				if c20PrintSinks[name] {
					continue
				}
				dec, ok := c20StdDecoders[name]
				if !ok {
					undf("the text is passed to %s, which is not in the checker's table of standard-library hex decoders", FuncKeyAny(cal))
					continue
				}
				isText := false
				for _, k := range pos {
					if k == dec.arg {
						isText = true
					}
				}
				if !isText {
					undf("the text is passed to %s in an unexpected argument position", name)
					continue
				}
				if strings.HasPrefix(name, "strconv.Parse") {
					if base, ok := ConstInt(cc.Args[1]); !ok || base != 16 {
						undf("%s is called with a base that is not the constant 16", name)
						continue
					}
				}
				s.reads++
				d := decByCallee[name]
				if d == nil {
					d = &c20Decoder{name: name + " (" + dec.reason + ")", pos: t.Pos(), std: true}
					for i := 0; i < len(dec.accept); i++ {
						d.ok[dec.accept[i]] = true
					}
					decByCallee[name] = d
					s.decs = append(s.decs, d)
				}
				src := &c20Src{instr: t, what: name, resErr: true}
				if cv := t.Value(); cv != nil {
					src.res = ResultValue(cv, cal.Signature.Results().Len()-1)
				}
				srcs = append(srcs, src)
			case *ssa.Return:
				undf("the text is returned")
			case *ssa.Panic:
				// part of a panic message
			case *ssa.MakeInterface:
				if !c20OnlyPrinted(t) {
					undf("the text is converted to an interface value that is not merely printed or logged")
				}
			default:
				undf("the text is used by %T; cannot follow", u)
			}
		}
	}
	// every incoming edge of a phi / operand of a concatenation that is a view
	// must itself be the text or a constant
	for v := range views {
		var ops []ssa.Value
		switch t := v.(type) {
		case *ssa.Phi:
			ops = t.Edges
		case *ssa.BinOp:
			ops = []ssa.Value{t.X, t.Y}
		}
		for _, o := range ops {
			if _, isC := o.(*ssa.Const); !isC && !views[o] {
				undf("the text is merged with a value the analysis does not know (%s)", o.Name())
			}
		}
	}
	for len(cwork) > 0 {
		c := cwork[len(cwork)-1]
		cwork = cwork[:len(cwork)-1]
		refs := c.Referrers()
		if refs == nil {
			continue
		}
		for _, u := range nonDebug(*refs) {
			switch t := u.(type) {
			case *ssa.Convert:
				if _, _, ok := c20IntKind(t.Type()); ok {
					addDerived(t, chars[c])
				} else {
					undf("a character of the text is converted to %s", t.Type())
				}
			case *ssa.ChangeType:
				addDerived(t, chars[c])
			case *ssa.BinOp:
				// arithmetic with a constant before the digit function (case folding and the like)
				_, cx := t.X.(*ssa.Const)
				_, cy := t.Y.(*ssa.Const)
				if _, _, isInt := c20IntKind(t.Type()); isInt && (cx || cy) {
					addDerived(t, chars[c])
				} else {
					undf("a character of the text is consumed by %s in the function itself; only digit functions called on the character can be evaluated", t.Op)
				}
			case ssa.CallInstruction:
				cc := t.Common()
				cal := cc.StaticCallee()
				if cal == nil || cc.IsInvoke() || !m.inPkg(cal) {
					undf("a character of the text is passed to %s, which the analysis cannot evaluate", cc.Value.Name())
					continue
				}
				pos := argPositions(cc, c)
				if len(pos) != 1 {
					undf("a character of the text is passed to %s in several positions", FuncKeyAny(cal))
					continue
				}
				d, src := m.evalDecoder(cal, pos[0], t, c, chars[c])
				key := fmt.Sprintf("%s/%d", d.name, pos[0])
				if c != chars[c] {
					key += fmt.Sprintf("@%d", len(decByCallee))
				}
				if decByCallee[key] == nil {
					decByCallee[key] = d
					s.decs = append(s.decs, d)
				}
				srcs = append(srcs, src)
			default:
				undf("a character of the text is consumed by %T in the function itself; only digit functions called on the character can be evaluated", u)
			}
		}
	}
	if s.reads == 0 {
		return s // never looks at the text: nothing to judge here
	}
	// how does fn report the judgement?
	for _, src := range srcs {
		if src.cell == nil {
			continue
		}
		if prm, ok := originValue(src.cell).(*ssa.Parameter); ok {
			idx := -1
			for i, p := range fn.Params {
				if p == prm {
					idx = i
				}
			}
			if s.flagParam >= 0 && s.flagParam != idx {
				undf("bad digits are reported through several flag parameters")
			}
			s.flagParam = idx
		}
	}
	if s.flagParam >= 0 {
		for _, src := range srcs {
			if src.cell == nil {
				undf("mixes a flag parameter with result-reported judgements; cannot follow")
			} else if prm, ok := originValue(src.cell).(*ssa.Parameter); !ok || prm != fn.Params[s.flagParam] {
				undf("mixes a flag parameter with a local flag; cannot follow")
			}
		}
		return s
	}
	s.vIdx, s.vErr = c20VerdictIndex(fn.Signature)
	if s.vIdx < 0 {
		undf("reads digits but has neither a single bool/error result nor a flag parameter to report bad ones")
		return s
	}
	for _, src := range srcs {
		viol, und := m.unguarded(fn, src, s.vIdx, s.vErr)
		if viol != "" {
			s.bad = append(s.bad, FuncKeyAny(fn)+": "+viol)
		}
		if und != "" {
			undf("%s", und)
		}
	}
	return s
}

// c20Verdict rewrites a boolean v as "root, positive": v is true exactly when
// (root is good) == positive, where a bool root is good when true, a loaded
// flag is good when false and an error root is good when nil.
func c20Verdict(v ssa.Value) (root ssa.Value, positive bool) {
	positive = true
	for i := 0; i < 6; i++ {
		switch t := v.(type) {
		case *ssa.UnOp:
			if t.Op == token.NOT {
				v, positive = t.X, !positive
				continue
			}
			if t.Op == token.MUL && c20IsBoolPtr(t.X.Type()) {
				return v, !positive
			}
		case *ssa.BinOp:
			if t.Op == token.EQL || t.Op == token.NEQ {
				for _, pr := range [][2]ssa.Value{{t.X, t.Y}, {t.Y, t.X}} {
					c, ok := pr[1].(*ssa.Const)
					if !ok {
						continue
					}
					if c.Value == nil { // x == nil
						if t.Op == token.NEQ {
							positive = !positive
						}
						return pr[0], positive
					}
					if c.Value.Kind() == constant.Bool {
						if constant.BoolVal(c.Value) != (t.Op == token.EQL) {
							positive = !positive
						}
						v = pr[0]
					}
				}
				if v != ssa.Value(t) {
					continue
				}
			}
		}
		break
	}
	return v, positive
}

func c20InstrIndex(in ssa.Instruction) int {
	for i, x := range in.Block().Instrs {
		if x == in {
			return i
		}
	}
	return -1
}

// matches: root is src's judgement, read in block b after position minIdx.
func (src *c20Src) matches(root ssa.Value, b *ssa.BasicBlock, minIdx int) bool {
	if src.cell != nil {
		ld, ok := root.(*ssa.UnOp)
		if !ok || ld.Op != token.MUL || !(ld.X == src.cell || sameOrigin(ld.X, src.cell)) {
			return false
		}
		// the flag must be read on the way, after the digits were judged
		return ld.Block() == b && c20InstrIndex(ld) > minIdx
	}
	return src.res != nil && root == src.res
}

// unguarded searches for a path from src to an exit of fn that reports
// success without having branched on (or returned) src's judgement.
func (m *c20Model) unguarded(fn *ssa.Function, src *c20Src, vIdx int, vErr bool) (viol, und string) {
	line := func(pos token.Pos) int { return m.p.Fset.Position(pos).Line }
	type key struct{ b, from *ssa.BasicBlock }
	seen := map[key]bool{}
	var visit func(b, from *ssa.BasicBlock, minIdx int)
	visit = func(b, from *ssa.BasicBlock, minIdx int) {
		if viol != "" || len(b.Instrs) == 0 {
			return
		}
		last := b.Instrs[len(b.Instrs)-1]
		k := key{b, nil}
		if _, isRet := last.(*ssa.Return); isRet {
			k.from = from
		}
		if minIdx < 0 {
			if seen[k] {
				return
			}
			seen[k] = true
		}
		switch t := last.(type) {
		case *ssa.Return:
			if vIdx >= len(t.Results) {
				return
			}
			rv := t.Results[vIdx]
			if ph, ok := rv.(*ssa.Phi); ok && ph.Block() == b && from != nil {
				for i, p := range b.Preds {
					if p == from {
						rv = ph.Edges[i]
					}
				}
			}
			if c, ok := rv.(*ssa.Const); ok {
				success := false
				if vErr {
					success = c.Value == nil
				} else {
					success = c.Value != nil && c.Value.Kind() == constant.Bool && constant.BoolVal(c.Value)
				}
				if success {
					viol = fmt.Sprintf("the return at line %d reports success on a path from %s (line %d) that never tests its verdict: a ref with characters outside the digit alphabet is accepted", line(t.Pos()), src.what, line(src.instr.Pos()))
				}
				return
			}
			if vErr {
				if src.res != nil && src.resErr && rv == src.res {
					return // hands the decoder's error on
				}
				switch x := rv.(type) {
				case *ssa.MakeInterface:
					return // a concrete error value: failure
				case *ssa.Call:
					if n := c20CalleeName(x.Call.StaticCallee()); n == "errors.New" || n == "fmt.Errorf" {
						return
					}
				}
				und = fmt.Sprintf("the error returned at line %d is neither nil, a fresh error, nor the verdict of %s; cannot follow", line(t.Pos()), src.what)
				return
			}
			root, positive := c20Verdict(rv)
			if positive && src.matches(root, b, minIdx) {
				return // success exactly when the digits were good
			}
			und = fmt.Sprintf("the value returned at line %d is a computed boolean that is not the verdict of %s (line %d); cannot follow", line(t.Pos()), src.what, line(src.instr.Pos()))
		case *ssa.If:
			root, positive := c20Verdict(t.Cond)
			isSrc := src.matches(root, b, minIdx)
			for i, sc := range b.Succs {
				if isSrc && (i == 0) == positive {
					continue // the edge on which the digits are known good
				}
				visit(sc, b, -1)
			}
		case *ssa.Jump:
			visit(b.Succs[0], b, -1)
		}
	}
	visit(src.instr.Block(), nil, c20InstrIndex(src.instr))
	return
}

// ---- the rule ----------------------------------------------------------------

func c20CharSet(ok func(c int) bool) string {
	var sb strings.Builder
	for c := 0; c < 256; c++ {
		if !ok(c) {
			continue
		}
		e := c
		for e+1 < 256 && ok(e+1) {
			e++
		}
		if sb.Len() > 0 {
			sb.WriteByte(' ')
		}
		switch {
		case e == c:
			sb.WriteString(c20CharName(c))
		case e == c+1:
			sb.WriteString(c20CharName(c) + " " + c20CharName(e))
		default:
			sb.WriteString(c20CharName(c) + "-" + c20CharName(e))
		}
		c = e
	}
	if sb.Len() == 0 {
		return "(nothing)"
	}
	return sb.String()
}

func c20CharName(c int) string {
	if c > 0x20 && c < 0x7f {
		return "'" + string(rune(c)) + "'"
	}
	return fmt.Sprintf("%#02x", c)
}

func c20RuleHex(m *c20Model) {
	p, r := m.p, m.r
	const rule = "B-hex"
	// the obligations that exist however the digit loops are factored: the table of
	// the text form, ctors/ctorb alphabet of 3 families, 3 built-by-constructors,
	// the unknown-hash parser, the pattern (12); today 24 with the 10 functions
	// that hold digit loops of their own
	r.Floor(rule, 12)

	// (1) the reference writer: Ref.String, i.e. whichever package-local function of
	// its effective body (today appendString, shared with StringMinusOne and
	// MarshalJSON) turns the nibbles into characters
	str := p.Func(c20Pkg, "Ref", "String")
	var sites []c20Emit
	var und, helperSoft []string
	refFn := map[*ssa.Function]bool{}
	for i, fn := range m.effBody(str, false) {
		ss, u, soft := m.emitSites(fn)
		sites = append(sites, ss...)
		und = append(und, u...)
		if i == 0 || len(ss) > 0 {
			und = append(und, soft...)
		} else {
			helperSoft = append(helperSoft, soft...)
		}
		if len(ss) > 0 {
			refFn[fn] = true
		}
	}
	as := str
	if len(refFn) == 1 {
		for fn := range refFn {
			as = TopFunc(fn)
		}
	}
	m.hexFn = as
	var E [16]byte
	haveHi, haveLo, agree := false, false, true
	for _, s := range sites {
		if !haveHi && !haveLo {
			E = s.e
		} else if s.e != E {
			agree = false
		}
		haveHi = haveHi || s.hi
		haveLo = haveLo || s.lo
	}
	asKey := FuncKey(as) + "#digit-table"
	switch {
	case len(und) > 0:
		r.Undecided(rule, asKey, p.Pos(as.Pos()), "cannot read how the text form (Ref.String and the package-local functions it is built from) turns digest bytes into characters: "+strings.Join(und, "; "))
		return
	case !haveHi || !haveLo:
		more := ""
		if len(helperSoft) > 0 {
			more = " (" + strings.Join(helperSoft, "; ") + ")"
		}
		r.Undecided(rule, asKey, p.Pos(as.Pos()), "Ref.String and the package-local functions it calls contain no place where both nibbles of a digest byte select a character from a constant table (or a known standard-library hex encoder); the digit alphabet of the text form cannot be extracted"+more)
		return
	case !agree:
		r.Violation(rule, asKey, p.Pos(as.Pos()), "the text form prints the nibbles of a byte with different digit tables")
		return
	}
	inE := map[byte]int{}
	for n, c := range E {
		if _, dup := inE[c]; dup {
			r.Violation(rule, asKey, p.Pos(as.Pos()), fmt.Sprintf("the digit table %q prints two different nibbles with the same character %q: distinct refs have the same text form", string(E[:]), c))
			return
		}
		inE[c] = n
	}
	isE := func(c int) bool { _, ok := inE[byte(c)]; return ok }
	m.hexE, m.hexEOK = E, true
	r.OKTable(rule, asKey, p.Pos(as.Pos()), fmt.Sprintf("the text form prints nibble n of every digest byte as %q[n], high nibble first (%s)", string(E[:]), sites[0].what))

	// (2) every other writer / digit-by-digit comparer in the package uses the same table
	seenFn := map[*ssa.Function]bool{}
	for fn := range refFn {
		seenFn[fn] = true
	}
	var others []*ssa.Function
	for _, fn := range m.fns {
		if !seenFn[fn] {
			seenFn[fn] = true
			others = append(others, fn)
		}
	}
	// functions that are known to handle digest digits: Ref.Digest and the methods of the digest types
	digitFn := map[*ssa.Function]bool{p.Func(c20Pkg, "Ref", "Digest"): true}
	for _, T := range p.Implementers(p.Iface(c20Pkg, "digestType"), false) {
		for _, name := range []string{"equalString", "hasPrefix"} {
			if f := m.method(T, name); f != nil {
				digitFn[f] = true
			}
		}
	}
	for _, fn := range others {
		ss, und, soft := m.emitSites(fn)
		if digitFn[fn] {
			und = append(und, soft...)
		}
		if len(ss) == 0 && len(und) == 0 {
			continue
		}
		key := FuncKey(fn) + "#digit-table"
		site := p.Pos(fn.Pos())
		if len(und) > 0 {
			r.Undecided(rule, key, site, "cannot read a table lookup of this function: "+strings.Join(und, "; "))
			continue
		}
		bad := ""
		for _, s := range ss {
			if s.e != E {
				bad = fmt.Sprintf("line %d uses %s, which maps nibbles to %q, but String() prints them with %q: what this function writes or compares digit by digit is not the text form of the ref", p.Fset.Position(s.pos).Line, s.what, string(s.e[:]), string(E[:]))
			}
		}
		r.Check(bad == "", rule, key, site, fmt.Sprintf("%d nibble→character site(s), all with the table of the text form", len(ss)), bad)
	}

	// (3) readers
	checkDecoders := func(key, site, who string, sum *c20TextSum, exact bool) {
		switch {
		case len(sum.und) > 0:
			r.Undecided(rule, key, site, who+": the analysis cannot follow how the text becomes digest bytes: "+strings.Join(c20Uniq(sum.und), "; "))
			return
		case sum.reads == 0 || len(sum.decs) == 0:
			r.Undecided(rule, key, site, who+" never reads the characters of its text argument through a digit function or decoder the analysis knows")
			return
		}
		var bad []string
		bad = append(bad, sum.bad...)
		var names []string
		for _, d := range sum.decs {
			names = append(names, d.name)
			if d.err != "" {
				r.Undecided(rule, key, site, fmt.Sprintf("%s decodes digits with %s, which cannot be evaluated over the 256 byte values: %s", who, d.name, d.err))
				return
			}
			extra := c20CharSet(func(c int) bool { return d.ok[c] && !isE(c) })
			missing := c20CharSet(func(c int) bool { return !d.ok[c] && isE(c) })
			if missing != "(nothing)" {
				bad = append(bad, fmt.Sprintf("%s rejects %s, which String() prints: refs containing these digits do not parse back from their own text form", d.name, missing))
			}
			if extra != "(nothing)" && exact {
				bad = append(bad, fmt.Sprintf("%s accepts %s, which String() never prints: such a string parses as a ref of this supported family although r.String() != s, EqualString(s)/HasPrefix(s) are false for the ref it denotes, and the JSON form does not round-trip", d.name, extra))
			}
			if !d.std {
				for n, c := range E {
					if d.ok[c] && d.val[c] != int64(n) {
						bad = append(bad, fmt.Sprintf("%s maps %q to %d but String() prints nibble %d as %q: parsing a ref's own text form yields a different ref", d.name, c, d.val[c], n, c))
						break
					}
				}
			}
		}
		detail := fmt.Sprintf("%s reads its digits only through %s; accepted characters = printed characters = %s, each mapped back to its nibble; every success exit lies behind the bad-digit verdict", who, strings.Join(names, ", "), c20CharSet(isE))
		if !exact {
			detail = fmt.Sprintf("%s reads its digits only through %s; every printed character %s is accepted and mapped back to its nibble; every success exit lies behind the bad-digit verdict (may accept more: its refs are never of a supported family, see B-known)", who, strings.Join(names, ", "), c20CharSet(isE))
		}
		r.Check(len(bad) == 0, rule, key, site, detail, strings.Join(c20Uniq(bad), "; "))
	}
	for _, f := range m.fams {
		if f.meta == nil || m.byMeta[f.meta] != f {
			continue
		}
		for _, fld := range []string{"ctors", "ctorb"} {
			vs := f.field[fld]
			if len(vs) != 1 {
				continue // reported by B-family
			}
			fn := c20FuncValue(vs[0])
			if fn == nil {
				continue // reported by B-family
			}
			key := f.key() + "#" + fld + "-alphabet"
			if len(fn.Params) != 1 {
				r.Undecided(rule, key, p.Pos(f.pos), FuncKeyAny(fn)+" does not take exactly the text")
				continue
			}
			checkDecoders(key, p.Pos(fn.Pos()), FuncKeyAny(fn), m.textSummary(fn, 0, 0), true)
		}
	}
	// (3b) nothing but the table's constructors (and helpers only they call) builds a family's digest
	for _, f := range m.fams {
		if f.T == nil {
			continue
		}
		key := f.key() + "#built-by-constructors"
		allowed := map[*ssa.Function]bool{}
		for _, fld := range []string{"ctor", "ctors", "ctorb"} {
			if vs := f.field[fld]; len(vs) == 1 {
				if fn := c20FuncValue(vs[0]); fn != nil {
					allowed[c20Origin(fn)] = true
				}
			}
		}
		callers, valueUse := m.pkgCallGraph()
		for changed := true; changed; {
			changed = false
			for _, fn := range m.fns {
				o := c20Origin(fn)
				if allowed[o] || valueUse[o] || len(callers[o]) == 0 || (fn.Object() != nil && fn.Object().Exported()) {
					continue
				}
				all := true
				for c := range callers[o] {
					all = all && allowed[c]
				}
				if all {
					allowed[o] = true
					changed = true
				}
			}
		}
		var outside []string
		n := 0
		for _, fn := range m.fns {
			for _, b := range fn.Blocks {
				for _, in := range b.Instrs {
					mi, ok := in.(*ssa.MakeInterface)
					if !ok || !types.Identical(mi.X.Type(), f.T) || NamedOf(mi.Type()) == nil || NamedOf(mi.Type()).Obj().Name() != "digestType" {
						continue
					}
					n++
					if !allowed[c20Origin(TopFunc(fn))] {
						outside = append(outside, fmt.Sprintf("%s (line %d)", FuncKeyAny(fn), p.Fset.Position(mi.Pos()).Line))
					}
				}
			}
		}
		switch {
		case len(outside) > 0:
			r.Undecided(rule, key, p.Pos(f.pos), fmt.Sprintf("a %s value becomes a ref's digest in %s, which is not one of the family's ctor/ctors/ctorb constructors (nor a helper only they call): refs of family %q can be built on a path that the alphabet, length and table agreement rules do not cover", f.T.Obj().Name(), strings.Join(c20Uniq(outside), ", "), f.name))
		case n == 0:
			r.Undecided(rule, key, p.Pos(f.pos), fmt.Sprintf("found no place where a %s becomes a digest", f.T.Obj().Name()))
		default:
			r.OK(rule, key, p.Pos(f.pos), fmt.Sprintf("%d place(s) where a %s becomes a ref's digest, all inside the family's constructors (or helpers only they call)", n, f.T.Obj().Name()))
		}
	}

	// the functions that build refs of unsupported hash functions (today parseUnknown),
	// found by what they do: they turn a digest type of no family into a digestType
	var unkFns []*ssa.Function
	seenUnk := map[*ssa.Function]bool{}
	for _, fn := range m.fns {
		for _, b := range fn.Blocks {
			for _, in := range b.Instrs {
				if m.isUnknownDigestSink(in) && !seenUnk[TopFunc(fn)] {
					seenUnk[TopFunc(fn)] = true
					unkFns = append(unkFns, TopFunc(fn))
				}
			}
		}
	}
	plainStringParam := func(fn *ssa.Function) int {
		textArg := -1
		for i, prm := range fn.Params {
			if b, ok := prm.Type().Underlying().(*types.Basic); ok && b.Kind() == types.String && NamedOf(prm.Type()) == nil {
				if textArg >= 0 {
					return -2
				}
				textArg = i
			}
		}
		return textArg
	}
	// a function that only wraps the finished digest takes no text: the text is
	// read by its callers
	readers := map[*ssa.Function]bool{}
	var order []*ssa.Function
	var climb func(fn *ssa.Function, depth int) string
	climb = func(fn *ssa.Function, depth int) string {
		if plainStringParam(fn) >= 0 {
			if !readers[fn] {
				readers[fn] = true
				order = append(order, fn)
			}
			return ""
		}
		sites, closed := m.callSitesOf(fn)
		if !closed || depth >= c20EffDepth {
			return "cannot tell which parameter of " + FuncKey(fn) + ", which builds refs of unsupported hash functions, is the digit text"
		}
		for _, cs := range sites {
			if why := climb(TopFunc(cs.Fn), depth+1); why != "" {
				return why
			}
		}
		return ""
	}
	for _, pu := range unkFns {
		if why := climb(pu, 0); why != "" {
			r.Undecided(rule, FuncKey(pu)+"#alphabet", p.Pos(pu.Pos()), why)
		}
	}
	for _, pu := range order {
		checkDecoders(FuncKey(pu)+"#alphabet", p.Pos(pu.Pos()), FuncKey(pu), m.textSummary(pu, plainStringParam(pu), 0), false)
	}
	if len(unkFns) == 0 {
		r.OKTable(rule, c20Pkg+"#unknown-alphabet", "?", "no function of the package builds refs of unsupported hash functions")
	}

	// (4) blob.Pattern recognises every printed digit
	pat, _ := p.Pkg(c20Pkg).Types.Scope().Lookup("Pattern").(*types.Const)
	if pat == nil || pat.Val().Kind() != constant.String {
		brokenf("anchor unresolved: constant %s.Pattern", c20Pkg)
	}
	pkey := c20Pkg + ".Pattern#digit-class"
	rx, err := regexp.Compile("^(?:" + constant.StringVal(pat.Val()) + ")$")
	switch {
	case err != nil:
		// reported by B-name
	case m.sep == "" || len(m.fams) == 0:
		r.Undecided(rule, pkey, "?", "separator or families undetermined")
	default:
		var missing []int
		for _, f := range m.fams {
			if !f.sizeOK || f.size < 2 {
				continue
			}
			n := int(2 * f.size)
			zero := strings.Repeat(string(E[0]), n)
			for _, c := range E {
				for _, at := range []int{0, n / 2, n - 1} {
					s := f.name + m.sep + zero[:at] + string(c) + zero[at+1:]
					if !rx.MatchString(s) {
						missing = append(missing, int(c))
					}
				}
			}
		}
		miss := map[int]bool{}
		for _, c := range missing {
			miss[c] = true
		}
		r.Check(len(missing) == 0, rule, pkey, p.Pos(pat.Pos()),
			fmt.Sprintf("blob.Pattern matches a full ref of every family with each of the printed digits %s at the first, a middle and the last digit position", c20CharSet(isE)),
			fmt.Sprintf("blob.Pattern (%s) does not match refs containing the digit(s) %s, which String() prints: the get handler, share URLs and the describe scanner do not recognise such refs", constant.StringVal(pat.Val()), c20CharSet(func(c int) bool { return miss[c] })))
	}
}

func c20Uniq(in []string) []string {
	seen := map[string]bool{}
	var out []string
	for _, s := range in {
		if !seen[s] {
			seen[s] = true
			out = append(out, s)
		}
	}
	return out
}

func c20Short(s string) string {
	if len(s) > 40 {
		return s[:37] + "..."
	}
	return s
}

func c20Origin(f *ssa.Function) *ssa.Function {
	if f == nil {
		return nil
	}
	if o := f.Origin(); o != nil {
		return o
	}
	return f
}

// pkgCallGraph: for every function of the package (generic instances folded
// into their origin), the package functions that call it statically, and
// whether it is also used as a value.
func (m *c20Model) pkgCallGraph() (callers map[*ssa.Function]map[*ssa.Function]bool, valueUse map[*ssa.Function]bool) {
	if m.cgCallers != nil {
		return m.cgCallers, m.cgValueUse
	}
	callers, valueUse = map[*ssa.Function]map[*ssa.Function]bool{}, map[*ssa.Function]bool{}
	for _, fn := range m.fns {
		from := c20Origin(TopFunc(fn))
		for _, b := range fn.Blocks {
			for _, in := range b.Instrs {
				var callee ssa.Value
				if ci, ok := in.(ssa.CallInstruction); ok && !ci.Common().IsInvoke() {
					callee = ci.Common().Value
					if cf, ok := callee.(*ssa.Function); ok {
						o := c20Origin(cf)
						if callers[o] == nil {
							callers[o] = map[*ssa.Function]bool{}
						}
						callers[o][from] = true
					}
				}
				for _, op := range in.Operands(nil) {
					if op == nil || *op == nil {
						continue
					}
					if of, ok := (*op).(*ssa.Function); ok && *op != callee && m.inPkg(of) {
						valueUse[c20Origin(of)] = true
					}
				}
			}
		}
	}
	m.cgCallers, m.cgValueUse = callers, valueUse
	return
}

// ---------------------------------------------------------------------------
// effective bodies
//
// A rule that asks "does F do X" must not depend on how F is cut into
// functions. The effective body of F is F, the function literals inside it,
// and - transitively, up to c20EffDepth calls deep - the package-local
// functions, methods, generic instances and literals it calls statically.
// Rules that look for a site (a constant written, a table lookup, a search for
// the separator) look for it in the effective body; rules about a value (the
// text parameter) follow the value into the helpers' parameters (flowSet);
// rules about dominating facts carry the facts across the call (B-len, B-text).

const c20EffDepth = 4

// localCallee: the package-local function with a body that the call
// instruction calls statically (a literal bound to a local included).
func (m *c20Model) localCallee(fn *ssa.Function, ci ssa.CallInstruction) *ssa.Function {
	cal := CallSite{fn, ci}.Callee()
	if cal == nil || cal.Blocks == nil || !m.inPkg(cal) {
		return nil
	}
	return cal
}

// c20Exported: fn is (an instance of) an exported package-level function or an
// exported method, i.e. an entry point with a contract of its own.
func c20Exported(fn *ssa.Function) bool {
	o := c20Origin(fn)
	if o.Parent() != nil {
		return false
	}
	obj := o.Object()
	return obj != nil && obj.Exported()
}

// effBody lists the functions of the effective body of root, root first.
// exported: also follow calls of exported package functions (rules that must
// find every way a function can reach something); otherwise only unexported
// helpers count as part of root's body.
func (m *c20Model) effBody(root *ssa.Function, exported bool) []*ssa.Function {
	var out []*ssa.Function
	seen := map[*ssa.Function]bool{}
	var add func(fn *ssa.Function, depth int)
	add = func(fn *ssa.Function, depth int) {
		if fn == nil || seen[fn] || fn.Blocks == nil {
			return
		}
		seen[fn] = true
		out = append(out, fn)
		for _, a := range fn.AnonFuncs {
			add(a, depth)
		}
		if depth >= c20EffDepth {
			return
		}
		for _, b := range fn.Blocks {
			for _, in := range b.Instrs {
				ci, ok := in.(ssa.CallInstruction)
				if !ok {
					continue
				}
				if cal := m.localCallee(fn, ci); cal != nil && (exported || !c20Exported(cal)) {
					add(cal, depth+1)
				}
			}
		}
	}
	add(root, 0)
	return out
}

// flowSet: the values which, in the effective body of root, denote the value
// start (typically a parameter of root): start itself, its conversions between
// string, named string and byte slice, and the parameters of followed helpers
// it is passed to. has() also sees through loads of single-store locals.
type c20Flow struct{ set map[ssa.Value]bool }

func (f *c20Flow) has(v ssa.Value) bool {
	return v != nil && (f.set[v] || f.set[originValue(v)])
}

func (m *c20Model) flowSet(root *ssa.Function, start ssa.Value) *c20Flow {
	fl := &c20Flow{set: map[ssa.Value]bool{start: true}}
	body := m.effBody(root, false)
	inBody := map[*ssa.Function]bool{}
	for _, fn := range body {
		inBody[fn] = true
	}
	for changed, round := true, 0; changed && round < 8; round++ {
		changed = false
		add := func(v ssa.Value) {
			if !fl.set[v] {
				fl.set[v] = true
				changed = true
			}
		}
		for _, fn := range body {
			for _, b := range fn.Blocks {
				for _, in := range b.Instrs {
					switch x := in.(type) {
					case *ssa.Convert:
						if fl.has(x.X) && c20IsByteString(x.Type()) {
							add(x)
						}
					case *ssa.ChangeType:
						if fl.has(x.X) {
							add(x)
						}
					case ssa.CallInstruction:
						cal := m.localCallee(fn, x)
						if cal == nil || !inBody[cal] {
							continue
						}
						args := x.Common().Args
						if len(args) != len(cal.Params) {
							continue
						}
						for i, a := range args {
							if fl.has(a) {
								add(cal.Params[i])
							}
						}
					}
				}
			}
		}
	}
	return fl
}

// callSitesOf: the static calls of fn (or of any instance of its origin) from
// the functions of the package; closed=false when fn may have callers the
// analysis does not see (exported, used as a value, never called).
func (m *c20Model) callSitesOf(fn *ssa.Function) (sites []CallSite, closed bool) {
	o := c20Origin(fn)
	_, valueUse := m.pkgCallGraph()
	if c20Exported(fn) || valueUse[o] || fn.Parent() != nil {
		return nil, false
	}
	for _, g := range m.fns {
		for _, b := range g.Blocks {
			for _, in := range b.Instrs {
				ci, ok := in.(ssa.CallInstruction)
				if !ok || ci.Common().IsInvoke() {
					continue
				}
				if cal := ci.Common().StaticCallee(); cal != nil && cal == fn {
					sites = append(sites, CallSite{g, ci})
				}
			}
		}
	}
	return sites, len(sites) > 0
}

// c20AcceptCond: does taking the val edge of a branch on cond imply that an
// accepted elementary condition held with its accepted value? Sees through
// negation and through a short-circuit || / && whose value was hoisted into a
// local (a phi of constants and elementary conditions).
func c20AcceptCond(cond ssa.Value, val bool, pred func(cond ssa.Value, val bool) bool, depth int) bool {
	if depth > 4 {
		return false
	}
	if pred(cond, val) {
		return true
	}
	switch x := cond.(type) {
	case *ssa.UnOp:
		if x.Op == token.NOT {
			return c20AcceptCond(x.X, !val, pred, depth+1)
		}
	case *ssa.Phi:
		// the phi is val only if some incoming edge carries val: every such edge
		// must itself imply an accepted condition
		for i, e := range x.Edges {
			if c, ok := e.(*ssa.Const); ok && c.Value != nil && c.Value.Kind() == constant.Bool {
				if constant.BoolVal(c.Value) != val {
					continue // this edge cannot make the phi equal val
				}
				// constant val arriving from a predecessor: that predecessor must have
				// branched here on an accepted condition
				pb := x.Block().Preds[i]
				ifi, _ := pb.Instrs[len(pb.Instrs)-1].(*ssa.If)
				if ifi == nil || len(pb.Succs) != 2 || pb.Succs[0] == pb.Succs[1] {
					return false
				}
				if !c20AcceptCond(ifi.Cond, pb.Succs[0] == x.Block(), pred, depth+1) {
					return false
				}
				continue
			}
			if !c20AcceptCond(e, val, pred, depth+1) {
				return false
			}
		}
		return len(x.Edges) > 0
	}
	return false
}

// c20PrintSinks: standard-library functions that only print or wrap their
// arguments into a message (the result is not hex text that is decoded again).
var c20PrintSinks = map[string]bool{
	"fmt.Errorf": true, "fmt.Printf": true, "fmt.Print": true, "fmt.Println": true,
	"fmt.Fprintf": true, "fmt.Fprint": true, "fmt.Fprintln": true,
	"log.Printf": true, "log.Print": true, "log.Println": true,
	"log.Fatalf": true, "log.Fatal": true, "log.Panicf": true,
	"errors.New": true,
}

// c20OnlyPrinted: the interface value is used only as a panic value or as an
// argument (directly or through the variadic slice) of a printing function.
func c20OnlyPrinted(mi *ssa.MakeInterface) bool {
	var sinkCall func(v ssa.Value, d int) bool
	sinkCall = func(v ssa.Value, d int) bool {
		refs := v.Referrers()
		if refs == nil || d > 3 {
			return false
		}
		for _, u := range nonDebug(*refs) {
			switch t := u.(type) {
			case *ssa.Panic:
			case *ssa.Store:
				ia, ok := t.Addr.(*ssa.IndexAddr)
				if !ok || t.Val != v {
					return false
				}
				al, ok := ia.X.(*ssa.Alloc)
				if !ok {
					return false
				}
				for _, uu := range nonDebug(*al.Referrers()) {
					switch x := uu.(type) {
					case *ssa.IndexAddr:
					case *ssa.Slice:
						if !sinkCall(x, d+1) {
							return false
						}
					default:
						return false
					}
				}
			case ssa.CallInstruction:
				if !c20PrintSinks[c20CalleeName(t.Common().StaticCallee())] {
					return false
				}
			default:
				return false
			}
		}
		return true
	}
	return sinkCall(mi, 0)
}

// ---------------------------------------------------------------------------
// B-less — the ordering functions
//
// Every comparator of pkg/blob that orders refs (Ref.Less, and the methods
// named Less whose operands are a ref-holding struct or two elements of a
// slice of such structs) is executed symbolically on its go/ssa, once per
// supported family with the digest length N of that family. Control flow,
// lengths, indexes and loop counters are concrete; the only symbolic data are
// the two operands: their validity, their hash names, their N digest bytes,
// integers assembled from digest bytes (tracked byte lane by byte lane) and
// their whole text forms. Every comparison of symbolic data is a *question*
// with two or three outcomes (less/equal/greater); the executor answers it from
// an oracle and is re-run for every combination of answers, which yields all
// paths, each with the list of questions it asked, their outcomes and the
// concrete boolean it returns. A path is then judged exactly: the outcomes are
// translated into per-byte relations r[i] ? o[i], all ways of satisfying them
// are enumerated, and in each the lexicographic order of the two digests must
// be determined and equal to what the path returns. A digest byte that no
// question constrains while all earlier bytes are equal is a counter-example
// (two refs differing there get the same answer both ways round).

type c20LLane struct {
	sym  bool
	side int8
	idx  int64
	c    byte
}

type c20LCell struct{ v c20LVal }

type c20LVal struct {
	k      byte // 'c' concrete, 'n' nil, 'S' operand struct, 'D' digest, 'N' hash name, 'B' digest byte window, 'W' integer of byte lanes, 'T' text form, 'P' pointer, 'E' sorted slice, 'I' element index, 'U' tuple, 'G' opaque, '0' unset
	c      c20V
	side   int8
	typ    *types.Named
	lo, hi int64
	str    bool
	lanes  []c20LLane // most significant first
	signed bool
	cell   *c20LCell
	path   []int
	tup    []c20LVal
	what   string
}

type c20LKey struct {
	kind  byte // 'v' valid(side), 'n' hash names, 't' text forms, 's' byte sequence
	side  int8
	pairs [][2]int64 // (index in first operand, index in second operand), in the order compared
	tail  int        // outcome when all pairs are equal (lengths differ), 0 = equal
}

func (k c20LKey) id() string {
	switch k.kind {
	case 'v':
		return fmt.Sprintf("v%d", k.side)
	case 'n', 't':
		return string(k.kind)
	}
	var sb strings.Builder
	sb.WriteString("s")
	for _, p := range k.pairs {
		fmt.Fprintf(&sb, " %d:%d", p[0], p[1])
	}
	fmt.Fprintf(&sb, " /%d", k.tail)
	return sb.String()
}

func (k c20LKey) outcomes() []int {
	switch k.kind {
	case 'v':
		return []int{1, 0}
	case 's':
		if k.tail != 0 {
			if len(k.pairs) == 0 {
				return []int{k.tail}
			}
			return []int{-1, 1}
		}
	}
	return []int{0, -1, 1}
}

func (k c20LKey) String() string {
	switch k.kind {
	case 'v':
		return fmt.Sprintf("validity of operand %d", k.side+1)
	case 'n':
		return "hash names"
	case 't':
		return "whole text forms"
	}
	ident, asc := true, true
	for i, p := range k.pairs {
		if p[0] != p[1] {
			ident = false
		}
		if i > 0 && p[0] != k.pairs[i-1][0]+1 {
			asc = false
		}
	}
	s := ""
	switch {
	case len(k.pairs) == 0:
		s = "no digest bytes"
	case ident && asc:
		s = fmt.Sprintf("digest bytes [%d,%d)", k.pairs[0][0], k.pairs[len(k.pairs)-1][0]+1)
	case ident:
		var xs []string
		for i, p := range k.pairs {
			if i == 8 {
				xs = append(xs, "…")
				break
			}
			xs = append(xs, fmt.Sprint(p[0]))
		}
		s = "digest bytes " + strings.Join(xs, ",") + " in this order"
	default:
		var xs []string
		for i, p := range k.pairs {
			if i == 6 {
				xs = append(xs, "…")
				break
			}
			xs = append(xs, fmt.Sprintf("r[%d]:o[%d]", p[0], p[1]))
		}
		s = "digest bytes " + strings.Join(xs, ",")
	}
	if k.tail != 0 {
		s += " (windows of different length)"
	}
	return s
}

type c20LFact struct {
	key c20LKey
	out int
}

func c20LOutName(k c20LKey, out int) string {
	if k.kind == 'v' {
		if out == 1 {
			return "valid"
		}
		return "invalid"
	}
	switch {
	case out < 0:
		return "less"
	case out > 0:
		return "greater"
	}
	return "equal"
}

// identRange: the key compares bytes [lo,hi) of both operands in ascending order.
func (k c20LKey) identRange() (lo, hi int64, ok bool) {
	if k.kind != 's' || len(k.pairs) == 0 || k.tail != 0 {
		return 0, 0, false
	}
	for i, p := range k.pairs {
		if p[0] != p[1] || (i > 0 && p[0] != k.pairs[i-1][0]+1) {
			return 0, 0, false
		}
	}
	return k.pairs[0][0], k.pairs[len(k.pairs)-1][0] + 1, true
}

func c20LPathDesc(facts []c20LFact) string {
	var xs []string
	for i := 0; i < len(facts); i++ {
		f := facts[i]
		if f.key.kind == 'v' {
			continue
		}
		// a byte-by-byte loop: merge adjacent windows found equal
		if lo, hi, ok := f.key.identRange(); ok && f.out == 0 {
			n := 1
			for i+1 < len(facts) && facts[i+1].out == 0 {
				lo2, hi2, ok2 := facts[i+1].key.identRange()
				if !ok2 || lo2 != hi {
					break
				}
				hi = hi2
				i++
				n++
			}
			if n > 1 {
				xs = append(xs, fmt.Sprintf("digest bytes [%d,%d) equal (in %d steps)", lo, hi, n))
				continue
			}
		}
		xs = append(xs, f.key.String()+" "+c20LOutName(f.key, f.out))
	}
	if len(xs) == 0 {
		return "(nothing compared)"
	}
	return strings.Join(xs, " → ")
}

type c20LRun struct {
	facts  []c20LFact
	res    bool
	panics string
}

type c20LExec struct {
	m       *c20Model
	N       int64
	refT    *types.Named
	digestT *types.Named
	strFn   *ssa.Function
	prefix  []int
	answers []int
	facts   []c20LFact
	memo    map[string]int
	work    *[][]int
	steps   int
}

func (x *c20LExec) ask(k c20LKey) int {
	id := k.id()
	if o, ok := x.memo[id]; ok {
		return o
	}
	feas := k.outcomes()
	qi := len(x.answers)
	var o int
	if qi < len(x.prefix) {
		o = x.prefix[qi]
	} else {
		o = feas[0]
		for _, alt := range feas[1:] {
			p := append(append([]int{}, x.answers...), alt)
			*x.work = append(*x.work, p)
		}
	}
	x.answers = append(x.answers, o)
	x.memo[id] = o
	x.facts = append(x.facts, c20LFact{k, o})
	return o
}

// holder: a struct type of pkg/blob that is the Ref or directly contains one.
func (x *c20LExec) holder(t types.Type) *types.Named {
	n, _ := t.(*types.Named)
	if n == nil {
		return nil
	}
	if n == x.refT {
		return n
	}
	st, ok := n.Underlying().(*types.Struct)
	if !ok || n.Obj().Pkg() == nil || n.Obj().Pkg() != x.refT.Obj().Pkg() {
		return nil
	}
	for i := 0; i < st.NumFields(); i++ {
		if st.Field(i).Type() == types.Type(x.refT) {
			return n
		}
	}
	return nil
}

func (x *c20LExec) field(v c20LVal, i int) (c20LVal, error) {
	if v.k != 'S' || v.typ == nil {
		return c20LVal{}, fmt.Errorf("field selection on something other than an operand")
	}
	st := v.typ.Underlying().(*types.Struct)
	if i >= st.NumFields() {
		return c20LVal{}, fmt.Errorf("field index out of range")
	}
	ft := st.Field(i).Type()
	if v.typ == x.refT && ft == types.Type(x.digestT) {
		return c20LVal{k: 'D', side: v.side}, nil
	}
	if ft == types.Type(x.refT) {
		return c20LVal{k: 'S', side: v.side, typ: x.refT}, nil
	}
	return c20LVal{}, fmt.Errorf("reads field %s.%s of an operand, which is not part of the ref", v.typ.Obj().Name(), st.Field(i).Name())
}

func (x *c20LExec) load(p c20LVal) (c20LVal, error) {
	if p.k != 'P' || p.cell == nil {
		return c20LVal{}, fmt.Errorf("load through something other than a modelled pointer")
	}
	v := p.cell.v
	for _, f := range p.path {
		var err error
		if v, err = x.field(v, f); err != nil {
			return v, err
		}
	}
	if v.k == '0' {
		return v, fmt.Errorf("read of a variable before the analysis saw a value stored to it")
	}
	return v, nil
}

func c20LConstWord(n int64, bits int) []c20LLane {
	out := make([]c20LLane, bits/8)
	for i := range out {
		sh := uint(bits/8-1-i) * 8
		out[i] = c20LLane{c: byte(uint64(n) >> sh)}
	}
	return out
}

// asWord: v as byte lanes of an integer type t.
func c20LAsWord(v c20LVal, t types.Type) ([]c20LLane, bool, error) {
	bits, signed, ok := c20IntKind(t)
	if !ok {
		return nil, false, fmt.Errorf("integer operation on type %s", t)
	}
	switch v.k {
	case 'W':
		if len(v.lanes) != bits/8 {
			return nil, false, fmt.Errorf("integer of %d bytes used at type %s", len(v.lanes), t)
		}
		return v.lanes, signed, nil
	case 'c':
		if v.c.k == 'i' {
			return c20LConstWord(v.c.i, bits), signed, nil
		}
	}
	return nil, false, fmt.Errorf("integer operation on a value the analysis does not model")
}

func c20LAllConst(ls []c20LLane) (int64, bool) {
	if len(ls) > 8 {
		return 0, false
	}
	var n uint64
	for _, l := range ls {
		if l.sym {
			return 0, false
		}
		n = n<<8 | uint64(l.c)
	}
	if len(ls) == 8 && n>>63 != 0 {
		return 0, false
	}
	return int64(n), true
}

func c20LMkWord(ls []c20LLane, t types.Type) (c20LVal, error) {
	_, signed, _ := c20IntKind(t)
	if n, ok := c20LAllConst(ls); ok {
		w, err := c20Wrap(n, t)
		return c20LVal{k: 'c', c: c20V{k: 'i', i: w}}, err
	}
	return c20LVal{k: 'W', lanes: ls, signed: signed}, nil
}

// seqKey builds the question "compare these lanes pairwise in order".
// flip: the operands were (second, first) and the outcome must be mirrored.
func c20LSeqKey(a, b []c20LLane, tail int) (k c20LKey, flip bool, err error) {
	n := len(a)
	if len(b) < n {
		n = len(b)
	}
	dir := 0
	k = c20LKey{kind: 's', tail: tail}
	for i := 0; i < n; i++ {
		la, lb := a[i], b[i]
		switch {
		case !la.sym && !lb.sym:
			if la.c != lb.c {
				return k, false, fmt.Errorf("a comparison whose operands contain different constants")
			}
			continue
		case la.sym != lb.sym:
			return k, false, fmt.Errorf("a digest byte is compared with a constant")
		case la.side == lb.side:
			if la.idx == lb.idx {
				continue // a byte compared with itself: always equal
			}
			return k, false, fmt.Errorf("two bytes of the same ref are compared with each other")
		}
		d := 1
		if la.side == 1 {
			d = -1
		}
		if dir != 0 && d != dir {
			return k, false, fmt.Errorf("one comparison mixes the operands in both directions")
		}
		dir = d
		if d == 1 {
			k.pairs = append(k.pairs, [2]int64{la.idx, lb.idx})
		} else {
			k.pairs = append(k.pairs, [2]int64{lb.idx, la.idx})
		}
	}
	if dir == -1 {
		k.tail = -k.tail
		flip = true
	}
	return k, flip, nil
}

func c20LBytesLanes(v c20LVal) []c20LLane {
	out := make([]c20LLane, 0, v.hi-v.lo)
	for i := v.lo; i < v.hi; i++ {
		out = append(out, c20LLane{sym: true, side: v.side, idx: i})
	}
	return out
}

// threeWay answers sign(a ? b) for two symbolic values of the same kind.
// ordered: the caller needs the order, not only equality.
func (x *c20LExec) threeWay(a, b c20LVal, t types.Type, ordered bool) (int, error) {
	switch {
	case a.k == 'N' && b.k == 'N', a.k == 'T' && b.k == 'T':
		if a.side == b.side {
			return 0, nil
		}
		kind := byte('n')
		if a.k == 'T' {
			kind = 't'
		}
		o := x.ask(c20LKey{kind: kind})
		if a.side == 1 {
			o = -o
		}
		return o, nil
	case a.k == 'B' && b.k == 'B':
		la, lb := c20LBytesLanes(a), c20LBytesLanes(b)
		tail := 0
		if len(la) < len(lb) {
			tail = -1
		} else if len(la) > len(lb) {
			tail = 1
		}
		k, flip, err := c20LSeqKey(la, lb, tail)
		if err != nil {
			return 0, err
		}
		if len(k.pairs) == 0 {
			if flip {
				return -k.tail, nil
			}
			return k.tail, nil
		}
		o := x.ask(k)
		if flip {
			o = -o
		}
		return o, nil
	case a.k == 'W' || b.k == 'W':
		la, sa, err := c20LAsWord(a, t)
		if err != nil {
			return 0, err
		}
		lb, _, err := c20LAsWord(b, t)
		if err != nil {
			return 0, err
		}
		if ordered && sa && (la[0].sym || lb[0].sym) {
			return 0, fmt.Errorf("a window of digest bytes is compared as a SIGNED integer (%s): signed order is not byte order", t)
		}
		k, flip, err := c20LSeqKey(la, lb, 0)
		if err != nil {
			return 0, err
		}
		if len(k.pairs) == 0 {
			return 0, nil
		}
		o := x.ask(k)
		if flip {
			o = -o
		}
		return o, nil
	}
	return 0, fmt.Errorf("comparison of values the analysis does not model (%c with %c)", a.k, b.k)
}

func c20LCmpBool(op token.Token, o int) (bool, bool) {
	switch op {
	case token.EQL:
		return o == 0, true
	case token.NEQ:
		return o != 0, true
	case token.LSS:
		return o < 0, true
	case token.LEQ:
		return o <= 0, true
	case token.GTR:
		return o > 0, true
	case token.GEQ:
		return o >= 0, true
	}
	return false, false
}

func c20LBool(b bool) c20LVal { return c20LVal{k: 'c', c: c20V{k: 'b', b: b}} }
func c20LInt(n int64) c20LVal { return c20LVal{k: 'c', c: c20V{k: 'i', i: n}} }

// equalRefs: r == o on digests / Ref structs (same type and same bytes).
func (x *c20LExec) equalRefs(a, b c20LVal) (bool, error) {
	if a.side == b.side {
		return true, nil
	}
	if x.ask(c20LKey{kind: 'n'}) != 0 {
		return false, nil
	}
	o, err := x.threeWay(c20LVal{k: 'B', side: 0, lo: 0, hi: x.N}, c20LVal{k: 'B', side: 1, lo: 0, hi: x.N}, nil, false)
	return o == 0, err
}

func (x *c20LExec) binop(op token.Token, a, b c20LVal, opT, resT types.Type) (c20LVal, error) {
	if a.k == 'c' && b.k == 'c' {
		r, err := c20BinOp(op, a.c, b.c, resT)
		return c20LVal{k: 'c', c: r}, err
	}
	if _, isCmp := c20LCmpBool(op, 0); isCmp {
		switch {
		case a.k == 'D' && b.k == 'n', a.k == 'n' && b.k == 'D':
			side := a.side
			if a.k == 'n' {
				side = b.side
			}
			valid := x.ask(c20LKey{kind: 'v', side: side}) == 1
			switch op {
			case token.EQL:
				return c20LBool(!valid), nil
			case token.NEQ:
				return c20LBool(valid), nil
			}
			return c20LVal{}, fmt.Errorf("ordering comparison with nil")
		case a.k == 'D' && b.k == 'D', a.k == 'S' && b.k == 'S' && a.typ == x.refT && b.typ == x.refT:
			if op != token.EQL && op != token.NEQ {
				return c20LVal{}, fmt.Errorf("ordering comparison of interface values")
			}
			eq, err := x.equalRefs(a, b)
			return c20LBool(eq == (op == token.EQL)), err
		}
		o, err := x.threeWay(a, b, opT, op != token.EQL && op != token.NEQ)
		if err != nil {
			return c20LVal{}, err
		}
		r, _ := c20LCmpBool(op, o)
		return c20LBool(r), nil
	}
	if a.k != 'W' && b.k != 'W' {
		return c20LVal{}, fmt.Errorf("operator %s on values the analysis does not model (%c, %c)", op, a.k, b.k)
	}
	// integer arithmetic on byte lanes
	switch op {
	case token.SHL, token.SHR:
		if b.k != 'c' || b.c.k != 'i' {
			return c20LVal{}, fmt.Errorf("shift by a non-constant amount")
		}
		la, signed, err := c20LAsWord(a, resT)
		if err != nil {
			return c20LVal{}, err
		}
		if b.c.i < 0 || b.c.i%8 != 0 {
			return c20LVal{}, fmt.Errorf("digest bytes shifted by %d bits (not a whole number of bytes)", b.c.i)
		}
		if op == token.SHR && signed && la[0].sym {
			return c20LVal{}, fmt.Errorf("arithmetic right shift of a signed window of digest bytes")
		}
		n, w := int(b.c.i/8), len(la)
		out := make([]c20LLane, w)
		for i := range out {
			src := i + n
			if op == token.SHR {
				src = i - n
			}
			if src >= 0 && src < w {
				out[i] = la[src]
			}
		}
		return c20LMkWord(out, resT)
	case token.OR, token.XOR, token.ADD, token.AND:
		la, _, err := c20LAsWord(a, resT)
		if err != nil {
			return c20LVal{}, err
		}
		lb, _, err := c20LAsWord(b, resT)
		if err != nil {
			return c20LVal{}, err
		}
		out := make([]c20LLane, len(la))
		for i := range out {
			p, q := la[i], lb[i]
			if p.sym {
				p, q = q, p
			}
			switch {
			case !p.sym && !q.sym:
				switch op {
				case token.OR:
					out[i] = c20LLane{c: p.c | q.c}
				case token.XOR:
					out[i] = c20LLane{c: p.c ^ q.c}
				case token.AND:
					out[i] = c20LLane{c: p.c & q.c}
				default:
					if p.c != 0 && q.c != 0 {
						return c20LVal{}, fmt.Errorf("addition of constants inside a window of digest bytes")
					}
					out[i] = c20LLane{c: p.c | q.c}
				}
			case !p.sym && q.sym:
				switch {
				case op == token.AND && p.c == 0:
					out[i] = c20LLane{}
				case op == token.AND && p.c == 0xff:
					out[i] = q
				case op != token.AND && p.c == 0:
					out[i] = q
				default:
					return c20LVal{}, fmt.Errorf("a digest byte is combined (%s) with the constant %#x: no longer a whole byte", op, p.c)
				}
			default:
				return c20LVal{}, fmt.Errorf("two digest bytes are combined (%s) into one byte of an integer", op)
			}
		}
		return c20LMkWord(out, resT)
	}
	return c20LVal{}, fmt.Errorf("operator %s on a window of digest bytes", op)
}

func (x *c20LExec) convert(a c20LVal, from, to types.Type) (c20LVal, error) {
	switch a.k {
	case 'c':
		if a.c.k == 'i' {
			if _, _, ok := c20IntKind(to); ok {
				n, err := c20Wrap(a.c.i, to)
				return c20LInt(n), err
			}
		}
		if a.c.k == 's' && c20IsByteString(to) {
			if b, ok := to.Underlying().(*types.Basic); ok && b.Info()&types.IsString != 0 {
				return a, nil
			}
		}
	case 'B', 'T':
		if c20IsByteString(to) {
			_, isStr := to.Underlying().(*types.Basic)
			a.str = isStr
			return a, nil
		}
	case 'N':
		if b, ok := to.Underlying().(*types.Basic); ok && b.Info()&types.IsString != 0 {
			return a, nil
		}
	case 'W':
		bits, _, ok := c20IntKind(to)
		_, fromSigned, ok2 := c20IntKind(from)
		if !ok || !ok2 {
			break
		}
		w := bits / 8
		out := make([]c20LLane, w)
		n := len(a.lanes)
		if w > n && fromSigned && a.lanes[0].sym {
			return c20LVal{}, fmt.Errorf("sign extension of a window of digest bytes")
		}
		for i := 0; i < w; i++ {
			src := n - w + i
			if src >= 0 {
				out[i] = a.lanes[src]
			}
		}
		return c20LMkWord(out, to)
	}
	return c20LVal{}, fmt.Errorf("conversion from %s to %s of a value the analysis does not model", from, to)
}

// c20LStdCmp: standard-library comparison functions (documented behaviour).
var c20LStdCmp = map[string]string{
	"bytes.Compare":     "cmp",  // lexicographic three-way comparison of byte slices
	"bytes.Equal":       "eq",   // same length and same bytes
	"strings.Compare":   "cmp",  // lexicographic three-way comparison of strings
	"cmp.Compare":       "cmp",  // three-way comparison of ordered values (strings: lexicographic; unsigned integers: numeric)
	"cmp.Less":          "less", // x < y
	"slices.Compare":    "cmp",  // element-wise three-way comparison, shorter is less
	"slices.Equal":      "eq",   // same length and same elements
	"strings.EqualFold": "",     // not an order
}

// c20LStdWord: standard-library functions that read an integer from bytes.
// value = number of bytes, sign = byte order (+ big endian, - little endian).
var c20LStdWord = map[string]int{
	"(encoding/binary.bigEndian).Uint16":    2,
	"(encoding/binary.bigEndian).Uint32":    4,
	"(encoding/binary.bigEndian).Uint64":    8,
	"(encoding/binary.littleEndian).Uint16": -2,
	"(encoding/binary.littleEndian).Uint32": -4,
	"(encoding/binary.littleEndian).Uint64": -8,
}

func (x *c20LExec) call(fn *ssa.Function, args []c20LVal, depth int) ([]c20LVal, error) {
	if fn == nil || fn.Blocks == nil {
		return nil, fmt.Errorf("no body to interpret")
	}
	if depth > 8 {
		return nil, fmt.Errorf("call depth exceeded in %s", FuncKeyAny(fn))
	}
	if len(args) != len(fn.Params) {
		return nil, fmt.Errorf("arity mismatch calling %s", FuncKeyAny(fn))
	}
	who := FuncKeyAny(fn)
	env := map[ssa.Value]c20LVal{}
	tuples := map[ssa.Value][]c20LVal{}
	for i, p := range fn.Params {
		env[p] = args[i]
	}
	get := func(v ssa.Value) (c20LVal, error) {
		switch t := v.(type) {
		case *ssa.Const:
			if t.Value == nil {
				switch t.Type().Underlying().(type) {
				case *types.Interface, *types.Pointer, *types.Slice, *types.Map, *types.Signature, *types.Chan:
					return c20LVal{k: 'n'}, nil
				}
				return c20LVal{k: 'G', what: "zero value of " + t.Type().String()}, nil
			}
			cv, err := c20ConstVal(t)
			if err != nil {
				return c20LVal{k: 'G', what: "constant " + t.String()}, nil
			}
			if cv.k == 'i' {
				if _, _, ok := c20IntKind(t.Type()); ok {
					if cv.i, err = c20Wrap(cv.i, t.Type()); err != nil {
						return c20LVal{}, err
					}
				}
			}
			return c20LVal{k: 'c', c: cv}, nil
		case *ssa.Global:
			return c20LVal{k: 'G', what: "address of " + t.Name()}, nil
		case *ssa.Function:
			return c20LVal{k: 'G', what: "function " + t.Name()}, nil
		}
		if r, ok := env[v]; ok {
			return r, nil
		}
		return c20LVal{}, fmt.Errorf("%s: value %s (%T) is outside the interpretable fragment", who, v.Name(), v)
	}
	var prev *ssa.BasicBlock
	b := fn.Blocks[0]
	for {
		var next *ssa.BasicBlock
		phiVals := map[ssa.Value]c20LVal{}
		for _, in := range b.Instrs {
			ph, ok := in.(*ssa.Phi)
			if !ok {
				break
			}
			idx := -1
			for i, p := range b.Preds {
				if p == prev {
					idx = i
				}
			}
			if idx < 0 {
				return nil, fmt.Errorf("phi without predecessor")
			}
			v, err := get(ph.Edges[idx])
			if err != nil {
				return nil, err
			}
			phiVals[ph] = v
		}
		for k, v := range phiVals {
			env[k] = v
		}
		for _, in := range b.Instrs {
			x.steps++
			if x.steps > 200000 {
				return nil, fmt.Errorf("step limit exceeded in %s", who)
			}
			switch t := in.(type) {
			case *ssa.Phi, *ssa.DebugRef:
			case *ssa.Alloc:
				cell := &c20LCell{v: c20LVal{k: '0'}}
				et := t.Type().Underlying().(*types.Pointer).Elem()
				if _, _, ok := c20IntKind(et); ok {
					cell.v = c20LInt(0)
				} else if bt, ok := et.Underlying().(*types.Basic); ok && bt.Kind() == types.Bool {
					cell.v = c20LBool(false)
				}
				env[t] = c20LVal{k: 'P', cell: cell}
			case *ssa.Store:
				a, err := get(t.Addr)
				if err != nil {
					return nil, err
				}
				v, err := get(t.Val)
				if err != nil {
					return nil, err
				}
				if a.k != 'P' || a.cell == nil || len(a.path) > 0 {
					return nil, fmt.Errorf("%s: store to something other than a local variable", who)
				}
				a.cell.v = v
			case *ssa.UnOp:
				a, err := get(t.X)
				if err != nil {
					return nil, err
				}
				switch {
				case t.Op == token.MUL && a.k == 'P':
					v, err := x.load(a)
					if err != nil {
						return nil, fmt.Errorf("%s: %v", who, err)
					}
					env[t] = v
				case t.Op == token.MUL && a.k == 'G':
					env[t] = c20LVal{k: 'G', what: "value at " + a.what}
				case t.Op == token.NOT && a.k == 'c' && a.c.k == 'b':
					env[t] = c20LBool(!a.c.b)
				case t.Op == token.SUB && a.k == 'c' && a.c.k == 'i':
					n, err := c20Wrap(-a.c.i, t.Type())
					if err != nil {
						return nil, err
					}
					env[t] = c20LInt(n)
				case t.Op == token.XOR && a.k == 'c' && a.c.k == 'i':
					n, err := c20Wrap(^a.c.i, t.Type())
					if err != nil {
						return nil, err
					}
					env[t] = c20LInt(n)
				default:
					return nil, fmt.Errorf("%s: unary %s on a value the analysis does not model (%c)", who, t.Op, a.k)
				}
			case *ssa.BinOp:
				a, err := get(t.X)
				if err != nil {
					return nil, err
				}
				c, err := get(t.Y)
				if err != nil {
					return nil, err
				}
				r, err := x.binop(t.Op, a, c, t.X.Type(), t.Type())
				if err != nil {
					if _, isP := err.(*c20Panic); isP {
						return nil, err
					}
					return nil, fmt.Errorf("%s: %v", who, err)
				}
				env[t] = r
			case *ssa.Convert:
				a, err := get(t.X)
				if err != nil {
					return nil, err
				}
				r, err := x.convert(a, t.X.Type(), t.Type())
				if err != nil {
					return nil, fmt.Errorf("%s: %v", who, err)
				}
				env[t] = r
			case *ssa.ChangeType:
				a, err := get(t.X)
				if err != nil {
					return nil, err
				}
				env[t] = a
			case *ssa.FieldAddr:
				a, err := get(t.X)
				if err != nil {
					return nil, err
				}
				if a.k != 'P' {
					return nil, fmt.Errorf("%s: field address of something other than a local variable", who)
				}
				np := append(append([]int{}, a.path...), t.Field)
				env[t] = c20LVal{k: 'P', cell: a.cell, path: np}
			case *ssa.Field:
				a, err := get(t.X)
				if err != nil {
					return nil, err
				}
				v, err := x.field(a, t.Field)
				if err != nil {
					return nil, fmt.Errorf("%s: %v", who, err)
				}
				env[t] = v
			case *ssa.IndexAddr:
				a, err := get(t.X)
				if err != nil {
					return nil, err
				}
				i, err := get(t.Index)
				if err != nil {
					return nil, err
				}
				switch {
				case a.k == 'E' && i.k == 'I':
					sl, _ := t.X.Type().Underlying().(*types.Slice)
					var h *types.Named
					if sl != nil {
						h = x.holder(sl.Elem())
					}
					if h == nil {
						return nil, fmt.Errorf("%s: indexes a slice whose elements are not refs", who)
					}
					env[t] = c20LVal{k: 'P', cell: &c20LCell{v: c20LVal{k: 'S', side: i.side, typ: h}}}
				case a.k == 'B' && !a.str && i.k == 'c' && i.c.k == 'i':
					if i.c.i < 0 || a.lo+i.c.i >= a.hi {
						return nil, &c20Panic{fmt.Sprintf("index %d out of range of a %d-byte window of the digest in %s", i.c.i, a.hi-a.lo, who)}
					}
					env[t] = c20LVal{k: 'P', cell: &c20LCell{v: c20LVal{k: 'W', lanes: []c20LLane{{sym: true, side: a.side, idx: a.lo + i.c.i}}}}}
				default:
					return nil, fmt.Errorf("%s: element address the analysis does not model (%c[%c])", who, a.k, i.k)
				}
			case *ssa.Index:
				a, err := get(t.X)
				if err != nil {
					return nil, err
				}
				i, err := get(t.Index)
				if err != nil {
					return nil, err
				}
				switch {
				case a.k == 'B' && i.k == 'c' && i.c.k == 'i':
					if i.c.i < 0 || a.lo+i.c.i >= a.hi {
						return nil, &c20Panic{fmt.Sprintf("index %d out of range of a %d-byte window of the digest in %s", i.c.i, a.hi-a.lo, who)}
					}
					env[t] = c20LVal{k: 'W', lanes: []c20LLane{{sym: true, side: a.side, idx: a.lo + i.c.i}}}
				case a.k == 'c' && a.c.k == 's' && i.k == 'c' && i.c.k == 'i':
					if i.c.i < 0 || i.c.i >= int64(len(a.c.s)) {
						return nil, &c20Panic{"index out of range of a constant string in " + who}
					}
					env[t] = c20LInt(int64(a.c.s[i.c.i]))
				default:
					return nil, fmt.Errorf("%s: element read the analysis does not model (%c[%c])", who, a.k, i.k)
				}
			case *ssa.Slice:
				a, err := get(t.X)
				if err != nil {
					return nil, err
				}
				if a.k != 'B' {
					return nil, fmt.Errorf("%s: slice expression on a value the analysis does not model (%c)", who, a.k)
				}
				lo, hi := int64(0), a.hi-a.lo
				for i, bv := range []ssa.Value{t.Low, t.High} {
					if bv == nil {
						continue
					}
					v, err := get(bv)
					if err != nil {
						return nil, err
					}
					if v.k != 'c' || v.c.k != 'i' {
						return nil, fmt.Errorf("%s: slice bound that is not a constant or a length", who)
					}
					if i == 0 {
						lo = v.c.i
					} else {
						hi = v.c.i
					}
				}
				if lo < 0 || lo > hi || hi > a.hi-a.lo {
					return nil, &c20Panic{fmt.Sprintf("slice bounds [%d:%d] out of range of a %d-byte window of the digest in %s", lo, hi, a.hi-a.lo, who)}
				}
				a.lo, a.hi = a.lo+lo, a.lo+hi
				env[t] = a
			case *ssa.Call:
				rs, err := x.doCall(t, get, who, depth)
				if err != nil {
					return nil, err
				}
				if len(rs) == 1 {
					env[t] = rs[0]
				} else {
					tuples[t] = rs
				}
			case *ssa.Extract:
				rs, ok := tuples[t.Tuple]
				if !ok || t.Index >= len(rs) {
					return nil, fmt.Errorf("%s: extract of an uninterpreted tuple", who)
				}
				env[t] = rs[t.Index]
			case *ssa.If:
				c, err := get(t.Cond)
				if err != nil {
					return nil, err
				}
				if c.k != 'c' || c.c.k != 'b' {
					return nil, fmt.Errorf("%s: branch on a value the analysis does not model", who)
				}
				if c.c.b {
					next = b.Succs[0]
				} else {
					next = b.Succs[1]
				}
			case *ssa.Jump:
				next = b.Succs[0]
			case *ssa.Return:
				var out []c20LVal
				for _, rv := range t.Results {
					v, err := get(rv)
					if err != nil {
						return nil, err
					}
					out = append(out, v)
				}
				return out, nil
			case *ssa.Panic:
				return nil, &c20Panic{"explicit panic in " + who}
			default:
				return nil, fmt.Errorf("%s contains %T, which is outside the interpretable fragment of the ordering analysis", who, in)
			}
		}
		if next == nil {
			return nil, fmt.Errorf("block without terminator")
		}
		prev, b = b, next
	}
}

func (x *c20LExec) doCall(t *ssa.Call, get func(ssa.Value) (c20LVal, error), who string, depth int) ([]c20LVal, error) {
	var as []c20LVal
	if t.Call.IsInvoke() {
		rv, err := get(t.Call.Value)
		if err != nil {
			return nil, err
		}
		as = append(as, rv)
	}
	for _, av := range t.Call.Args {
		a, err := get(av)
		if err != nil {
			return nil, err
		}
		as = append(as, a)
	}
	if t.Call.IsInvoke() {
		if as[0].k != 'D' {
			return nil, fmt.Errorf("%s: interface call %s on something other than an operand's digest", who, t.Call.Method.Name())
		}
		switch t.Call.Method.Name() {
		case "bytes":
			return []c20LVal{{k: 'B', side: as[0].side, lo: 0, hi: x.N}}, nil
		case "digestName":
			return []c20LVal{{k: 'N', side: as[0].side}}, nil
		}
		return nil, fmt.Errorf("%s: digest method %s is not modelled", who, t.Call.Method.Name())
	}
	if bi, ok := t.Call.Value.(*ssa.Builtin); ok {
		switch bi.Name() {
		case "len":
			if len(as) == 1 {
				switch {
				case as[0].k == 'B':
					return []c20LVal{c20LInt(as[0].hi - as[0].lo)}, nil
				case as[0].k == 'c' && as[0].c.k == 's':
					return []c20LVal{c20LInt(int64(len(as[0].c.s)))}, nil
				}
			}
		case "min", "max":
			ok := len(as) > 0
			for _, a := range as {
				ok = ok && a.k == 'c' && a.c.k == 'i'
			}
			if ok {
				r := as[0].c.i
				for _, a := range as[1:] {
					if (bi.Name() == "min") == (a.c.i < r) {
						r = a.c.i
					}
				}
				return []c20LVal{c20LInt(r)}, nil
			}
		}
		return nil, fmt.Errorf("%s: builtin %s on values the analysis does not model", who, bi.Name())
	}
	cal := t.Call.StaticCallee()
	if cal == nil {
		return nil, fmt.Errorf("%s: dynamic call", who)
	}
	name := c20Origin(cal).String()
	if how, ok := c20LStdCmp[name]; ok && how != "" && len(as) == 2 {
		o, err := x.threeWay(as[0], as[1], t.Call.Args[0].Type(), how != "eq")
		if err != nil {
			return nil, fmt.Errorf("%s: %s: %v", who, name, err)
		}
		switch how {
		case "cmp":
			return []c20LVal{c20LInt(int64(o))}, nil
		case "eq":
			return []c20LVal{c20LBool(o == 0)}, nil
		default:
			return []c20LVal{c20LBool(o < 0)}, nil
		}
	}
	if w, ok := c20LStdWord[name]; ok && len(as) == 2 {
		n := int64(w)
		if n < 0 {
			n = -n
		}
		a := as[1]
		if a.k != 'B' || a.str {
			return nil, fmt.Errorf("%s: %s on something other than digest bytes", who, name)
		}
		if a.hi-a.lo < n {
			return nil, &c20Panic{fmt.Sprintf("%s reads %d bytes of a %d-byte window in %s", name, n, a.hi-a.lo, who)}
		}
		lanes := make([]c20LLane, n)
		for i := int64(0); i < n; i++ {
			src := a.lo + i
			if w < 0 {
				src = a.lo + n - 1 - i
			}
			lanes[i] = c20LLane{sym: true, side: a.side, idx: src}
		}
		return []c20LVal{{k: 'W', lanes: lanes}}, nil
	}
	if cal == x.strFn && len(as) == 1 && as[0].k == 'S' && as[0].typ == x.refT {
		// String() is the definition of the text form; not interpreted
		return []c20LVal{{k: 'T', side: as[0].side, str: true}}, nil
	}
	if !x.m.inPkg(cal) || cal.Blocks == nil {
		return nil, fmt.Errorf("%s calls %s, which the ordering analysis does not model", who, name)
	}
	return x.call(cal, as, depth+1)
}

// c20LPaths explores fn for digest length N.
func (m *c20Model) lessPaths(fn *ssa.Function, args func() []c20LVal, N int64) ([]c20LRun, error) {
	work := [][]int{nil}
	var runs []c20LRun
	refT := m.p.NamedType(c20Pkg, "Ref")
	digT := m.p.NamedType(c20Pkg, "digestType")
	strFn := m.p.Func(c20Pkg, "Ref", "String")
	for len(work) > 0 {
		pfx := work[len(work)-1]
		work = work[:len(work)-1]
		if len(runs) > 5000 {
			return nil, fmt.Errorf("more than 5000 paths")
		}
		x := &c20LExec{m: m, N: N, refT: refT, digestT: digT, strFn: strFn, prefix: pfx, memo: map[string]int{}, work: &work}
		rs, err := x.call(fn, args(), 0)
		run := c20LRun{facts: x.facts}
		if err != nil {
			p, isP := err.(*c20Panic)
			if !isP {
				return nil, err
			}
			run.panics = p.why
		} else {
			if len(rs) != 1 || rs[0].k != 'c' || rs[0].c.k != 'b' {
				return nil, fmt.Errorf("the result is not a boolean the analysis can follow")
			}
			run.res = rs[0].c.b
		}
		runs = append(runs, run)
	}
	return runs, nil
}

// c20LJudge decides one path. kind: '-' not judged (an operand is invalid, or
// the path is infeasible), 'k' correct, 'N' wrong in the hash-name clause,
// 'V' wrong in the same-hash clause, 'U' undecided.
func c20LJudge(run c20LRun, N int64, fam string) (kind byte, msg string, byBytes bool) {
	var name, text *c20LFact
	var seqs []c20LFact
	for i := range run.facts {
		f := &run.facts[i]
		switch f.key.kind {
		case 'v':
			if f.out == 0 {
				return '-', "", false
			}
		case 'n':
			name = f
		case 't':
			text = f
		case 's':
			seqs = append(seqs, *f)
		}
	}
	path := c20LPathDesc(run.facts)
	if run.panics != "" {
		return 'V', fmt.Sprintf("panics for two valid %s refs on the path ‹%s›: %s", fam, path, run.panics), false
	}
	says := func(b bool) string {
		if b {
			return "reports the first operand as less"
		}
		return "reports the first operand as not less"
	}
	if text != nil {
		// the whole text forms were compared: that is the promised order itself
		if run.res == (text.out < 0) {
			return 'k', "", false
		}
		return 'V', fmt.Sprintf("path ‹%s› %s", path, says(run.res)), false
	}
	if name == nil {
		return 'N', fmt.Sprintf("the path ‹%s› returns without the hash names of the two operands having been compared: refs of different hash functions are not ordered by hash name there", path), false
	}
	if name.out != 0 {
		if run.res == (name.out < 0) {
			return 'k', "", false
		}
		return 'N', fmt.Sprintf("path ‹%s› %s: refs of different hash functions are ordered against the order of their names (the text form starts with the name)", path, says(run.res)), false
	}
	// same hash: per-byte relations
	for _, f := range seqs {
		for _, p := range f.key.pairs {
			if p[0] != p[1] {
				return 'V', fmt.Sprintf("path ‹%s›: digest byte %d of the first operand is compared with byte %d of the second (different windows for the two operands)", path, p[0], p[1]), true
			}
		}
	}
	const free = int8(9)
	rel := make([]int8, N)
	for i := range rel {
		rel[i] = free
	}
	var decided []c20LFact
	for _, f := range seqs {
		if f.out != 0 {
			decided = append(decided, f)
			continue
		}
		for _, p := range f.key.pairs {
			rel[p[0]] = 0
		}
	}
	leaves, budget := 0, 200000
	var viol string
	var rec func(i int, rel []int8)
	rec = func(i int, rel []int8) {
		if viol != "" || budget <= 0 {
			return
		}
		if i == len(decided) {
			budget--
			leaves++
			lex := 0
			for p := int64(0); p < N; p++ {
				if rel[p] == free {
					eg := ""
					for q := int64(0); q < N; q++ {
						if rel[q] == -1 || rel[q] == 1 {
							eg = fmt.Sprintf(" (the comparisons made on this path are satisfied e.g. by a first operand that is %s at byte %d, whatever byte %d is)", c20LOutName(c20LKey{kind: 's'}, int(rel[q])), q, p)
							break
						}
					}
					agree := "for two " + fam + " refs"
					if p > 0 {
						agree = fmt.Sprintf("for two %s refs that agree in bytes [0,%d)", fam, p)
					}
					viol = fmt.Sprintf("digest byte %d takes no part in the decision on the path ‹%s›%s: %s the function %s whether byte %d of the first is smaller or larger than that of the second, so its order disagrees with the byte order of the text forms (hex digits %d–%d)", p, path, eg, agree, says(run.res), p, 2*p, 2*p+1)
					return
				}
				if rel[p] != 0 {
					lex = int(rel[p])
					break
				}
			}
			if run.res != (lex < 0) {
				switch {
				case lex == 0:
					viol = fmt.Sprintf("path ‹%s› %s although all %d digest bytes are equal (Less must be irreflexive)", path, says(run.res), N)
				default:
					viol = fmt.Sprintf("path ‹%s› %s although the first differing digest byte says %s", path, says(run.res), c20LOutName(c20LKey{kind: 's'}, lex))
				}
			}
			return
		}
		f := decided[i]
		try := func(d int) {
			// positions before d equal, position d decides (d == len: the length tail decides)
			nr := append([]int8{}, rel...)
			for j := 0; j < d && j < len(f.key.pairs); j++ {
				p := f.key.pairs[j][0]
				if nr[p] != free && nr[p] != 0 {
					return
				}
				nr[p] = 0
			}
			if d < len(f.key.pairs) {
				p := f.key.pairs[d][0]
				if nr[p] != free && nr[p] != int8(f.out) {
					return
				}
				nr[p] = int8(f.out)
			}
			rec(i+1, nr)
		}
		for d := range f.key.pairs {
			try(d)
		}
		if f.key.tail == f.out {
			try(len(f.key.pairs))
		}
	}
	rec(0, rel)
	switch {
	case viol != "":
		return 'V', viol, true
	case budget <= 0:
		return 'U', fmt.Sprintf("path ‹%s›: too many ways to satisfy the comparisons", path), true
	case leaves == 0:
		return '-', "", true
	}
	return 'k', "", true
}

// lessComparators: Ref.Less plus every method of pkg/blob named Less that
// compares two ref-holding structs or two elements of a slice of them.
func (m *c20Model) lessComparators() (out []*ssa.Function, shape map[*ssa.Function]byte) {
	x := &c20LExec{refT: m.p.NamedType(c20Pkg, "Ref")}
	shape = map[*ssa.Function]byte{}
	for _, fn := range m.fns {
		sig := fn.Signature
		if fn.Name() != "Less" || sig.Recv() == nil || fn.Blocks == nil || fn.Synthetic != "" || fn.Parent() != nil {
			continue
		}
		if sig.Results().Len() != 1 {
			continue
		}
		if bt, ok := sig.Results().At(0).Type().Underlying().(*types.Basic); !ok || bt.Kind() != types.Bool {
			continue
		}
		rt := sig.Recv().Type()
		deref := func(t types.Type) types.Type {
			if p, ok := t.Underlying().(*types.Pointer); ok {
				return p.Elem()
			}
			return t
		}
		switch {
		case sig.Params().Len() == 1 && x.holder(deref(rt)) != nil && deref(sig.Params().At(0).Type()) == deref(rt):
			shape[fn] = 'v'
			out = append(out, fn)
		case sig.Params().Len() == 2:
			sl, ok := rt.Underlying().(*types.Slice)
			isInt := func(t types.Type) bool {
				b, ok := t.Underlying().(*types.Basic)
				return ok && b.Kind() == types.Int
			}
			if ok && x.holder(sl.Elem()) != nil && isInt(sig.Params().At(0).Type()) && isInt(sig.Params().At(1).Type()) {
				shape[fn] = 'i'
				out = append(out, fn)
			}
		}
	}
	sort.Slice(out, func(i, j int) bool { return FuncKey(out[i]) < FuncKey(out[j]) })
	return out, shape
}

func c20RuleLess(m *c20Model) {
	p, r := m.p, m.r
	const rule = "B-less"
	r.Floor(rule, 13)
	anchor := p.Func(c20Pkg, "Ref", "Less")
	cmps, shape := m.lessComparators()
	found := false
	for _, f := range cmps {
		found = found || f == anchor
	}
	if !found {
		brokenf("anchor unresolved: %s.(Ref).Less is not recognised as a comparator of refs (signature changed?)", c20Pkg)
	}
	hx := &c20LExec{refT: p.NamedType(c20Pkg, "Ref")}
	var fams []*c20Fam
	for _, f := range m.fams {
		if f.meta != nil && m.byMeta[f.meta] == f {
			fams = append(fams, f)
		}
	}
	// the anchor first: comparators that merely delegate to it refer to its verdict
	sort.SliceStable(cmps, func(i, j int) bool { return cmps[i] == anchor && cmps[j] != anchor })
	runSig := func(runs []c20LRun) string {
		var sb strings.Builder
		for _, run := range runs {
			for _, f := range run.facts {
				fmt.Fprintf(&sb, "%s=%d;", f.key.id(), f.out)
			}
			fmt.Fprintf(&sb, "→%v%s|", run.res, run.panics)
		}
		return sb.String()
	}
	anchorSig := map[string]string{}
	anchorBad := map[string]bool{}
	anyBytes := false
	for _, fn := range cmps {
		site := p.Pos(fn.Pos())
		mkArgs := func() []c20LVal {
			var as []c20LVal
			operand := func(t types.Type, side int8) c20LVal {
				if pt, ok := t.Underlying().(*types.Pointer); ok {
					return c20LVal{k: 'P', cell: &c20LCell{v: c20LVal{k: 'S', side: side, typ: hx.holder(pt.Elem())}}}
				}
				return c20LVal{k: 'S', side: side, typ: hx.holder(t)}
			}
			if shape[fn] == 'v' {
				as = append(as, operand(fn.Params[0].Type(), 0), operand(fn.Params[1].Type(), 1))
			} else {
				as = append(as, c20LVal{k: 'E'}, c20LVal{k: 'I', side: 0}, c20LVal{k: 'I', side: 1})
			}
			return as
		}
		nameViol, nameUnd := "", ""
		namePaths := 0
		if len(fams) == 0 {
			r.Undecided(rule, FuncKey(fn)+"#bytes", site, "no family of metaFromString could be read (see B-family); the digest lengths to analyse are unknown")
		}
		for _, f := range fams {
			key := FuncKey(fn) + "#bytes[" + f.name + "]"
			if !f.sizeOK || f.T == nil {
				r.Undecided(rule, key, site, "the digest length of family "+f.name+" is not known (see B-family)")
				continue
			}
			runs, err := m.lessPaths(fn, mkArgs, f.size)
			if err != nil {
				r.Undecided(rule, key, site, fmt.Sprintf("the ordering decision cannot be followed for %d-byte digests: %v", f.size, err))
				if nameUnd == "" {
					nameUnd = err.Error()
				}
				continue
			}
			var viol, und []string
			judged, equalPath := 0, ""
			for _, run := range runs {
				kind, msg, byBytes := c20LJudge(run, f.size, f.name)
				switch kind {
				case '-':
					continue
				case 'N':
					if nameViol == "" {
						nameViol = msg
					}
				case 'V':
					viol = append(viol, msg)
				case 'U':
					und = append(und, msg)
				}
				namePaths++
				if kind == 'k' && byBytes {
					anyBytes = true
				}
				judged++
				allEq := run.panics == ""
				for _, ft := range run.facts {
					if ft.key.kind != 'v' && ft.out != 0 {
						allEq = false
					}
				}
				if allEq && kind == 'k' {
					equalPath = c20LPathDesc(run.facts)
				}
			}
			sig := runSig(runs)
			if fn == anchor {
				anchorSig[f.name], anchorBad[f.name] = sig, len(viol) > 0
			} else if len(viol) > 0 && anchorBad[f.name] && sig == anchorSig[f.name] {
				r.Violation(rule, key, site, fmt.Sprintf("delegates to %s and decides exactly as it does, which is wrong for %s refs: see %s#bytes[%s]", FuncKey(anchor), f.name, FuncKey(anchor), f.name))
				continue
			}
			switch {
			case len(viol) > 0:
				more := ""
				if len(viol) > 1 {
					more = fmt.Sprintf(" (and %d more paths)", len(viol)-1)
				}
				r.Violation(rule, key, site, viol[0]+more)
			case len(und) > 0:
				r.Undecided(rule, key, site, und[0])
			case judged == 0:
				r.Undecided(rule, key, site, "no path for two valid refs was found")
			default:
				r.OK(rule, key, site, fmt.Sprintf("%d paths for two valid %s refs (digest length %d, T.bytes() = the whole array by B-family): on every path of equal hash names the outcomes of the comparisons determine the lexicographic order of the %d digest bytes and the result is true exactly when the first is smaller; two equal refs take ‹%s› and get false", judged, f.name, f.size, f.size, equalPath))
			}
		}
		key := FuncKey(fn) + "#names"
		switch {
		case nameViol != "":
			r.Violation(rule, key, site, nameViol)
		case nameUnd != "":
			r.Undecided(rule, key, site, "the ordering decision cannot be followed: "+nameUnd)
		case namePaths == 0:
			r.Undecided(rule, key, site, "no path for two valid refs was found")
		default:
			r.OK(rule, key, site, "every path for two valid refs compares the digestName() strings of both operands (or their whole text forms) before anything else decides; with different names the result is name(first) < name(second), and digest bytes are consulted only under equal names")
		}
	}
	r.Analysed("ref_comparators", len(cmps))

	// different names: order of the names = order of the text forms (name + separator + digits)
	{
		key := c20Pkg + ".metaFromString#name-order"
		bad, n := "", 0
		for _, a := range m.fams {
			for _, b := range m.fams {
				if a.name >= b.name || m.sep == "" {
					continue
				}
				n++
				ta, tb := a.name+m.sep, b.name+m.sep
				if strings.HasPrefix(ta, tb) || strings.HasPrefix(tb, ta) || !(ta < tb) {
					bad = fmt.Sprintf("%q < %q as hash names, but the text forms %s… and %s… compare the other way round (or only by their digits) because of the separator %q", a.name, b.name, ta, tb, m.sep)
				}
			}
		}
		switch {
		case m.sep == "":
			r.Undecided(rule, key, "?", "separator undetermined (see B-sep)")
		case bad == "":
			r.OKTable(rule, key, "?", fmt.Sprintf("for all %d pairs of different family names the order of the names is the order of name+%q, the beginning of the text forms", n, m.sep))
		default:
			r.Violation(rule, key, "?", bad+": the comparators order refs of different hash functions by name, enumerations promise the order of the text forms")
		}
	}

	// the digit alphabet must be increasing for byte order = text order
	as := m.hexFn
	if as == nil {
		as = p.Func(c20Pkg, "Ref", "String")
	}
	key := FuncKey(as) + "#digit-order"
	switch {
	case !anyBytes:
		r.OKTable(rule, key, p.Pos(as.Pos()), "no comparator decides by digest bytes (text forms are compared directly); the order of the digit characters does not matter")
	case !m.hexEOK:
		r.Undecided(rule, key, p.Pos(as.Pos()), "the comparators order refs by digest bytes, which agrees with the order of the text forms only if the digit table of the text form is increasing; the table could not be extracted (see B-hex)")
	default:
		bad := ""
		for n := 1; n < 16; n++ {
			if m.hexE[n-1] >= m.hexE[n] {
				bad = fmt.Sprintf("nibble %d prints as %q but nibble %d as %q", n-1, m.hexE[n-1], n, m.hexE[n])
				break
			}
		}
		r.Check(bad == "", rule, key, p.Pos(as.Pos()),
			fmt.Sprintf("the digit table %q of the text form is strictly increasing in the nibble value, so byte order of digests carries over to the hex digits", string(m.hexE[:])),
			fmt.Sprintf("the digit table %q of the text form is not increasing (%s): Less orders refs by digest bytes, enumerations promise the order of the text forms — the two disagree", string(m.hexE[:]), bad))
	}
}
