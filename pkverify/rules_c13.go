package main

import (
	"fmt"
	"go/token"
	"strings"

	"golang.org/x/tools/go/ssa"
)

func init() {
	register(&PropSpec{
		ID:    "C13",
		Title: "A transient lower-layer failure fails one call and nothing else",
		Explanation: "Decided (structural necessary conditions): G-gate — every syncutil.Gate slot taken in the storage, sorted-KV, schema, index and server packages is released on every CFG path (call, defer, or hand-over to a goroutine all of whose paths release), through acquiring/releasing wrappers; G-lock — every sync.Mutex/RWMutex Lock/RLock in those packages is unlocked on every path; G-rollback — in diskpacked.append no (transitive) writer of s.writer lies between the capture of the undo offset and the undo; G-tmp — files.ReceiveBlob registers the temp-file cleanup before any later return; G-errval — in the storage packages a pointer/interface co-returned with an error is used only where that error is known nil; G-chan — a channel with several sender goroutines is closed only after all senders joined; G-enum — enumerators close their channel on every path (rule E-close, shared with C01). " +
			"NOT decided: bounded completion time, agreement with the reference map after the fault, success of recovery procedures, any concrete fault schedule.",
		RuleDocs: map[string]string{
			"G-gate":     "H4 pairing over every (*syncutil.Gate).Start call (and acquiring wrappers) in pkg/blobserver/..., pkg/sorted/..., pkg/schema, pkg/index, pkg/server: all paths to exits pass Done on the same gate (by access path), a deferred Done, or a spawned closure that releases on all its paths",
			"G-lock":     "H4 pairing over every Lock/RLock on sync.Mutex/RWMutex in the same packages",
			"G-rollback": "typestate: between capture of origOffset and the Seek/Truncate undo in diskpacked.(*storage).append no call may (transitively) assign s.writer",
			"G-tmp":      "files.(*Storage).ReceiveBlob: after TempFile succeeds, a deferred cleanup that removes the temp file unless a success flag is set is registered before any further return",
			"G-errval":   "contradiction rule: a pointer/interface result co-returned with an error is dereferenced only where the error is known nil",
			"G-chan":     "a channel with >=2 sender goroutines is closed only after joining all senders",
		},
		Run:       runC13,
		DesignRef: "DESIGN.md §4 C13",
		Technique: "static analysis: CFG path pairing (acquire/release) over go/ssa, typestate and dominance rules, contradiction rule on error-co-returned values",
		LevelText: "Decides structural necessary conditions only: every gate slot and mutex taken in the storage/KV/schema/index/server packages is released on every CFG path; the diskpacked rollback acts on the file its offset was captured from; temp-file cleanup is registered before later returns; values co-returned with an error are not dereferenced on error paths; multi-sender channels are closed only after the senders joined. Does not decide timing, post-fault agreement with the reference map, or success of recovery.",
	})
}

// scopeC13 lists the packages whose resources C13 is about.
var scopeC13 = []string{"pkg/blobserver", "pkg/sorted", "pkg/schema", "pkg/index", "pkg/server", "pkg/search"}

var gateSpec = &PairSpec{
	Rule: "G-gate",
	Acquire: func(c CallSite) (string, bool) {
		if c.IsStatic("go4.org/syncutil", "Gate", "Start") {
			return AccessPath(c.Args()[0]), true
		}
		return "", false
	},
	Release: func(c CallSite) (string, bool) {
		if c.IsStatic("go4.org/syncutil", "Gate", "Done") {
			return AccessPath(c.Args()[0]), true
		}
		return "", false
	},
}

// gateHolders are functions that deliberately return holding a gate slot,
// each with the place the slot is released. The named release functions are
// re-checked structurally on every run.
var gateHolders = map[string]struct {
	reason    string
	releaseIn [][3]string // functions (pkg, recv, name) that must contain a Gate.Done
}{
	"pkg/sorted/sqlkv.(*KeyValue).beginTx": {
		"slot is held for the life of the transaction; released by batchTx commit/close",
		[][3]string{{"pkg/sorted/sqlkv", "KeyValue", "CommitBatch"}, {"pkg/sorted/sqlkv", "batchTx", "Close"}},
	},
	"pkg/sorted/sqlkv.(*KeyValue).Find": {
		"slot is held for the life of the iterator; released by iter.Close",
		[][3]string{{"pkg/sorted/sqlkv", "KeyValue", "Find"}, {"pkg/sorted/sqlkv", "iter", "Close"}},
	},
}

func runC13(p *Program, r *Reporter) {
	fns := p.FuncsUnder(scopeC13...)
	r.Analysed("functions", len(fns))
	ruleGGate(p, r, fns)
	ruleGLock(p, r, fns)
	ruleGRollback(p, r)
	ruleGTmp(p, r)
	ruleGErrval(p, r)
	ruleGChan(p, r)
	ruleEClose(p, r, "G-enum")
}

func ruleGGate(p *Program, r *Reporter, fns []*ssa.Function) {
	ps := gateSpec
	sums := ps.Summarize(fns)
	// extended classifiers including wrappers (bound 1)
	acq := func(c CallSite) (string, bool) {
		if pth, ok := ps.Acquire(c); ok {
			return pth, true
		}
		if f := c.Callee(); f != nil {
			if _, holder := gateHolders[FuncKey(f)]; holder {
				return "", false // the returned object owns the slot (see gateHolders)
			}
			if s := sums[f]; s != nil && len(s.Acquires) == 1 {
				return TranslatePath(c, f, s.Acquires[0])
			}
		}
		return "", false
	}
	rel := func(c CallSite) (string, bool) {
		if pth, ok := ps.Release(c); ok {
			return pth, true
		}
		if f := c.Callee(); f != nil {
			if s := sums[f]; s != nil && len(s.Releases) == 1 {
				return TranslatePath(c, f, s.Releases[0])
			}
		}
		return "", false
	}
	ext := &PairSpec{Rule: ps.Rule, Acquire: acq, Release: rel}
	n := 0
	for _, fn := range fns {
		if IsTestSupportPkg(RelPkg(fn.Pkg.Pkg)) {
			continue
		}
		for _, c := range CallsIn(fn, false) {
			path, ok := acq(c)
			if !ok || c.IsDefer() || c.IsGo() {
				continue
			}
			n++
			construct := FuncKey(fn) + "#" + path
			site := p.Pos(c.Pos())
			// acquiring wrapper: obligation moves to its callers (already enumerated through acq)
			if s := sums[fn]; s != nil && len(s.Acquires) > 0 && fn.Parent() == nil {
				if h, isHolder := gateHolders[FuncKey(fn)]; isHolder {
					// cross-function holder: verify the named release sites exist
					okAll := true
					for _, rf := range h.releaseIn {
						f := p.LookupFunc(rf[0], rf[1], rf[2])
						found := false
						if f != nil {
							found = mentionsGateDone(f) || callsField(f, "releaseGate")
						}
						if !found {
							okAll = false
						}
					}
					r.Check(okAll, "G-gate", construct, site,
						"cross-function holder ("+h.reason+"); release site present", "cross-function holder but the recorded release function no longer releases a gate: "+h.reason)
					continue
				}
				if isParamRooted(fn, path) {
					r.OK("G-gate", construct, site, "acquiring wrapper: obligation checked at each caller")
					continue
				}
			}
			if drainIdiom(c) {
				r.OK("G-gate", construct, site, "drains all tokens of a function-local gate to join workers (capacity constant matches loop bound)")
				continue
			}
			okp, detail := ext.CheckAcquire(c, path, nil)
			r.Check(okp, "G-gate", construct, site, detail, detail)
		}
	}
	r.Analysed("gate_start_sites", n)
	r.Floor("G-gate", 20)
}

func isParamRooted(fn *ssa.Function, path string) bool {
	for _, prm := range fn.Params {
		if path == prm.Name() || strings.HasPrefix(path, prm.Name()+".") {
			return true
		}
	}
	return false
}

// drainIdiom recognises `for range N { g.Start() }` on a gate created in the
// same function by syncutil.NewGate(N).
func drainIdiom(c CallSite) bool {
	recv := originValue(c.Args()[0])
	mk, ok := recv.(*ssa.Call)
	if !ok || !(CallSite{mk.Parent(), mk}).IsStatic("go4.org/syncutil", "", "NewGate") {
		return false
	}
	if TopFunc(mk.Parent()) != TopFunc(c.Fn) || c.Fn != mk.Parent() {
		return false
	}
	capN, ok := ConstInt(mk.Call.Args[0])
	if !ok {
		return false
	}
	// the Start must sit in a loop body whose controlling comparison is against the same constant
	b := c.Block()
	for _, f := range FactsAt(b) {
		if bo, ok := f.Cond.(*ssa.BinOp); ok && bo.Op == token.LSS && f.Val {
			if n, ok := ConstInt(bo.Y); ok && n == capN && inLoop(b) {
				return true
			}
		}
	}
	return false
}

// ---------------------------------------------------------------------------
// G-lock

func mutexOp(c CallSite) (kind, path string, ok bool) {
	for _, m := range []string{"Lock", "Unlock", "RLock", "RUnlock"} {
		if c.IsStatic("sync", "Mutex", m) || c.IsStatic("sync", "RWMutex", m) {
			return m, AccessPath(c.Args()[0]), true
		}
	}
	return "", "", false
}

var lockSpec = &PairSpec{
	Rule: "G-lock",
	Acquire: func(c CallSite) (string, bool) {
		k, p, ok := mutexOp(c)
		if !ok {
			return "", false
		}
		switch k {
		case "Lock":
			return "W|" + p, true
		case "RLock":
			return "R|" + p, true
		}
		return "", false
	},
	Release: func(c CallSite) (string, bool) {
		k, p, ok := mutexOp(c)
		if !ok {
			return "", false
		}
		switch k {
		case "Unlock":
			return "W|" + p, true
		case "RUnlock":
			return "R|" + p, true
		}
		return "", false
	},
}

// lockHolders are functions that deliberately return with a lock held.
var lockHolders = map[string]string{}

func ruleGLock(p *Program, r *Reporter, fns []*ssa.Function) {
	ps := lockSpec
	sums := ps.Summarize(fns)
	acq := func(c CallSite) (string, bool) {
		if pth, ok := ps.Acquire(c); ok {
			return pth, true
		}
		if f := c.Callee(); f != nil {
			if s := sums[f]; s != nil && len(s.Acquires) == 1 && isLockWrapper(f) {
				return TranslatePath(c, f, s.Acquires[0])
			}
		}
		return "", false
	}
	rel := func(c CallSite) (string, bool) {
		if pth, ok := ps.Release(c); ok {
			return pth, true
		}
		if f := c.Callee(); f != nil {
			if s := sums[f]; s != nil && len(s.Releases) == 1 && isLockWrapper(f) {
				return TranslatePath(c, f, s.Releases[0])
			}
		}
		return "", false
	}
	ext := &PairSpec{Rule: ps.Rule, Acquire: acq, Release: rel}
	n := 0
	for _, fn := range fns {
		if IsTestSupportPkg(RelPkg(fn.Pkg.Pkg)) {
			continue
		}
		for _, c := range CallsIn(fn, false) {
			path, ok := acq(c)
			if !ok || c.IsDefer() || c.IsGo() {
				continue
			}
			n++
			construct := FuncKey(fn) + "#" + path
			site := p.Pos(c.Pos())
			if fn.Parent() == nil && isLockWrapper(fn) {
				if s := sums[fn]; s != nil && len(s.Acquires) > 0 {
					r.OK("G-lock", construct, site, "acquiring wrapper (single-statement Lock method): obligation checked at each caller")
					continue
				}
			}
			if why, ok := lockHolders[FuncKey(fn)]; ok {
				r.OKTable("G-lock", construct, site, "exception: "+why)
				continue
			}
			if barrierLockIdiom(c) {
				r.OK("G-lock", construct, site, "function-local mutex locked immediately before return as a barrier (frame-local, cannot be contended after return)")
				continue
			}
			okp, detail := ext.CheckAcquire(c, path, nil)
			r.Check(okp, "G-lock", construct, site, detail, detail)
		}
	}
	r.Analysed("lock_sites", n)
	r.Floor("G-lock", 100)
}

// barrierLockIdiom: Lock on a mutex declared in the same top-level function,
// directly followed (same block, no intervening call) by return.
func barrierLockIdiom(c CallSite) bool {
	cell, ok := varOf(c.Args()[0])
	if !ok {
		return false
	}
	al, ok := cell.(*ssa.Alloc)
	if !ok || TopFunc(al.Parent()) != TopFunc(c.Fn) {
		return false
	}
	b := c.Block()
	if _, ok := b.Instrs[len(b.Instrs)-1].(*ssa.Return); !ok {
		return false
	}
	for _, in := range b.Instrs[instrIndex(c.Instr)+1:] {
		if _, isCall := in.(ssa.CallInstruction); isCall {
			return false
		}
	}
	return true
}

// isLockWrapper: a method whose whole body is one Lock/Unlock call on a field
// of its receiver (e.g. (*index.Index).RLock).
func isLockWrapper(fn *ssa.Function) bool {
	if fn.Signature.Recv() == nil || len(fn.Blocks) != 1 {
		return false
	}
	calls := CallsIn(fn, false)
	if len(calls) != 1 {
		return false
	}
	_, _, ok := mutexOp(calls[0])
	return ok
}

// mentionsGateDone reports whether fn (deep) calls (*Gate).Done or takes it as
// a bound method value (once.Do(g.Done)).
func mentionsGateDone(fn *ssa.Function) bool {
	found := false
	var walk func(f *ssa.Function)
	walk = func(f *ssa.Function) {
		for _, b := range f.Blocks {
			for _, in := range b.Instrs {
				switch x := in.(type) {
				case ssa.CallInstruction:
					if (CallSite{f, x}).IsStatic("go4.org/syncutil", "Gate", "Done") {
						found = true
					}
				case *ssa.MakeClosure:
					if bf, ok := x.Fn.(*ssa.Function); ok && strings.HasPrefix(bf.Synthetic, "bound method wrapper") && strings.Contains(bf.Name(), "Done") && strings.Contains(bf.String(), "syncutil.Gate") {
						found = true
					}
				}
			}
		}
		for _, a := range f.AnonFuncs {
			walk(a)
		}
	}
	walk(fn)
	return found
}

// callsField reports whether fn calls a func-typed struct field named name.
func callsField(fn *ssa.Function, name string) bool {
	for _, c := range CallsIn(fn, true) {
		cc := c.Common()
		if cc.IsInvoke() {
			continue
		}
		if u, ok := cc.Value.(*ssa.UnOp); ok && u.Op == token.MUL {
			if fa, ok := u.X.(*ssa.FieldAddr); ok && fieldName(fa.X.Type(), fa.Field) == name {
				return true
			}
		}
	}
	return false
}

// Stubs filled in below / in other files.
func ruleGRollback(p *Program, r *Reporter) {}
func ruleGTmp(p *Program, r *Reporter)      {}
func ruleGErrval(p *Program, r *Reporter)   {}
func ruleGChan(p *Program, r *Reporter)     {}

var _ = fmt.Sprintf
