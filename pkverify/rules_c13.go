package main

import (
	"fmt"
	"go/token"
	"go/types"
	"sort"
	"strings"

	"golang.org/x/tools/go/ssa"
)

func init() {
	register(&PropSpec{
		ID:    "C13",
		Title: "A transient lower-layer failure fails one call and nothing else",
		Explanation: "Decided (structural necessary conditions, each over the EFFECTIVE BODY of the function concerned: the function plus, transitively to depth 6, the declared functions, methods, bound method values and function literals its call/go/defer instructions and spawner arguments run, with arguments mapped to parameters): " +
			"G-gate - every syncutil.Gate slot taken in the storage, sorted-KV, schema, index, server and search packages is released on every CFG path: by a Done, a defer, a helper (or deferred/spawned named function) EVERY path of which releases the same gate, or a goroutine all of whose paths do; a helper that returns holding the slot (always, or exactly on its err==nil returns) passes the obligation to each of its call sites, but only when every use of the helper is a visible static call; slots deliberately owned by a returned object (sqlkv *batchTx, *iter - recognised by the TYPE returned, wherever it is built) must be released on all paths of that object's Close/CommitBatch; the one exemption is the join-by-draining idiom - a loop that runs exactly N times (counting up from 0 or 1, counting down to 0, any comparison form, rotated range-over-int) around a Start (or around a helper that returns holding one slot) on a gate created by syncutil.NewGate(N) (directly or by a helper every return of which is a fresh NewGate) in the SAME top-level function, where gate and bound may reach the loop as parameters of helpers if EVERY static caller, transitively, passes such a gate and its capacity and the helper has no other use; " +
			"G-lock - the same pairing for every sync.Mutex/RWMutex Lock/RLock (mode and mutex path must match); " +
			"G-rollback - in the effective body of diskpacked.(*storage).ReceiveBlob, located by role not by name: the undo Truncate/Seek after a failed index update rewinds to a value read from the size-tracking field BEFORE the append advanced it, no (transitive) writer of the file field lies between that capture and the undo (helpers followed), every exit reachable from the Truncate reports an error, and a Truncate undo sits on the failure edge of the index update (sorted.KeyValue.Set or a wrapper that succeeds only if Set did); " +
			"G-tmp - files.ReceiveBlob registers the temp-file cleanup before any later return (shared with C03); G-errval - in the storage packages a pointer/interface co-returned with an error is dereferenced only where that error is known nil; G-chan - a channel with several sender goroutines (followed through parameters, literals and returning helpers) is closed only after a join that precedes the close in its function or in every synchronous caller; G-enum - enumerators close their channel on every path (rule E-close, shared with C01); G-recover - what a store's own recovery procedure reads is destroyed only after its replacement is durable (rules X-compact of C11, Z-order of C04, D-dele-order/D-destroy/F-destroy of C03, shared). " +
			"NOT decided: bounded completion time, agreement with the reference map after the fault, success of recovery procedures, any concrete fault schedule; releases that depend on a run-time flag other than the resource's own nil test or the acquiring helper's error; that a join waits for the group that actually runs the senders.",
		RuleDocs: map[string]string{
			"G-gate":     "interprocedural H4 pairing over every (*syncutil.Gate).Start (and every call of a helper that returns holding a slot) in pkg/blobserver/..., pkg/sorted/..., pkg/schema, pkg/index, pkg/server, pkg/search: all paths to exits pass a Done on the same gate (access path mapped through parameters/receivers/captures), a defer, a helper or deferred/spawned function all of whose paths release it, or the hand-over to a returned holder object whose release entry points release on all paths; exempt: a full drain (loop of exactly N slot acquisitions) of a gate created with NewGate(N) in the function whose effective body contains the loop, gate and bound followed through helper parameters into every static caller",
			"G-lock":     "the same interprocedural pairing over every Lock/RLock on sync.Mutex/RWMutex in the same packages; single-statement Lock methods and helpers that return holding the lock (all uses visible static calls) move the obligation to their call sites",
			"G-rollback": "typestate over the effective body of diskpacked.(*storage).ReceiveBlob: offset of the undo Seek/Truncate = pre-append value of the size field (through parameters, getters, captured variables); no transitive writer of the file field between capture and undo; the Truncate is followed only by failing returns; one Truncate undo lies on the failure edge of the index update",
			"G-recover":  "shared obligations of C11 X-compact, C04 Z-order, C03 D-dele-order/D-destroy/F-destroy: the data a store's own recovery procedure reads (small meta blobs, loose blobs, pack extents, final blob files) is destroyed only after its replacement is durable and only by the removal entry points, on every path including error edges",
			"G-tmp":      "files.(*Storage).ReceiveBlob: after TempFile succeeds, a deferred cleanup that removes the temp file unless a success flag is set is registered before any further return (implemented in rules_c03.go)",
			"G-errval":   "contradiction rule: a pointer/interface result co-returned with an error is dereferenced only where the error is known nil",
			"G-chan":     "a channel with >=2 sender goroutines (one start in a loop that does not re-make the channel counts as many) is closed only after a join of the senders; channel followed into callees' parameters, literals and callers of a function returning it; the join may sit in the closing function or before every synchronous call leading to it",
		},
		Run:       runC13,
		DesignRef: "DESIGN.md §4 C13",
		Technique: "static analysis: interprocedural CFG path pairing (acquire/release summaries per function, paths mapped through parameters) over go/ssa, typestate and dominance rules over effective bodies, contradiction rule on error-co-returned values",
		LevelText: "Decides structural necessary conditions only: every gate slot and mutex taken in the storage/KV/schema/index/server packages is released on every CFG path (helpers, deferred methods and goroutines followed; acquiring helpers checked at their call sites); the diskpacked rollback rewinds the file its offset was captured from, to the pre-append offset, only on failing paths and on the failure edge of the index update; temp-file cleanup is registered before later returns; values co-returned with an error are not dereferenced on error paths; multi-sender channels are closed only after the senders joined. Does not decide timing, post-fault agreement with the reference map, or success of recovery.",
	})
}

// scopeC13 lists the packages whose resources C13 is about.
var scopeC13 = []string{"pkg/blobserver", "pkg/sorted", "pkg/schema", "pkg/index", "pkg/server", "pkg/search"}

func runC13(p *Program, r *Reporter) {
	fns := p.FuncsUnder(scopeC13...)
	r.Analysed("functions", len(fns))
	ruleGGate(p, r, fns)
	ruleGLock(p, r, fns)
	ruleGRollback(p, r)
	ruleGTmp(p, r)
	ruleGErrval(p, r)
	ruleGChan(p, r)
	ruleEClose(p, r, "G-enum")
	ruleGRecover(p, r)
}

// ruleGRecover reports, under C13, the rules of C03/C04/C11 that decide "what a
// store can be rebuilt from is destroyed only after its replacement is durable,
// on every path - error edges included": a transient failure (an index read
// error, a failed upload, a failed commit) between the two must fail that call
// only and must not take away the only record of an acknowledged blob. The
// obligations are the originals (same analysis, same constructs, prefixed with
// the rule they come from); they are shared, not re-implemented, like
// E-close/G-enum.
func ruleGRecover(p *Program, r *Reporter) {
	const rule = "G-recover"
	floor := 0
	share := func(from string, want map[string]bool, run func(sub *Reporter)) {
		sub := NewReporter(from, p)
		run(sub)
		for _, o := range sub.Obls {
			if !want[o.Rule] {
				continue
			}
			r.add(rule, o.Rule+":"+o.Construct, o.Site, o.Status, o.Nontrivial, o.Detail)
		}
		for k := range want {
			floor += sub.floors[k]
		}
	}
	// encrypt: small meta blobs are removed only after the packed meta blob that
	// holds every one of their rows was stored (also on index look-up failures)
	share("C11", map[string]bool{"X-compact": true}, func(sub *Reporter) { c11RuleCompact(p, sub, c11BuildFlow(p)) })
	// blobpacked: loose blobs are removed only after the zip and its meta rows are committed
	share("C04", map[string]bool{"Z-order": true}, func(sub *Reporter) { c04ZOrder(p, sub, c04RowWriters(p, sub)) })
	// diskpacked/files: who may destroy bytes of a pack / a final blob file, and in which order
	share("C03", map[string]bool{"D-dele-order": true, "D-destroy": true, "F-destroy": true}, func(sub *Reporter) {
		c03RuleDDeleOrder(p, sub)
		dm := c03GetDestroyModel(p)
		c03RuleFDestroy(p, sub, dm)
		c03RuleDDestroy(p, sub, dm)
	})
	r.Floor(rule, floor)
}

// ---------------------------------------------------------------------------
// Interprocedural acquire/release pairing (G-gate, G-lock)
//
// The obligations are stated over a function's EFFECTIVE BODY: a release that
// sits in a helper, a deferred named method, a method value handed to a
// spawner or a goroutine started on a named function counts exactly like one
// written in place, provided EVERY path through that helper releases the
// resource (paths mapped through parameters, receivers and captured
// variables); an acquire that a helper performs and still holds when it returns
// (always, or exactly on its err==nil returns) is an acquire of each of its
// callers - but only when every call of the helper is a visible static call,
// so that the obligation is checked somewhere.

const c13MaxDepth = 6

// c13Tgt is a function that a call/go/defer instruction runs, with the values
// standing for its parameters (receiver first).
type c13Tgt struct {
	fn    *ssa.Function
	args  []ssa.Value
	async bool // started as a goroutine (go statement or spawner argument)
}

// c13FuncOfValue resolves a function-typed value to the function it denotes:
// a declared function, a function literal (also through the local variable it
// is bound to), or a bound method value (x.m), for which the receiver is
// returned as the leading argument.
func c13FuncOfValue(v ssa.Value) (*ssa.Function, []ssa.Value) {
	if v == nil {
		return nil, nil
	}
	switch x := originValue(v).(type) {
	case *ssa.Function:
		return x, nil
	case *ssa.MakeClosure:
		f, _ := x.Fn.(*ssa.Function)
		if f == nil {
			return nil, nil
		}
		if strings.HasPrefix(f.Synthetic, "bound method wrapper") {
			obj, _ := f.Object().(*types.Func)
			if obj == nil || f.Prog == nil || len(x.Bindings) != 1 {
				return nil, nil
			}
			if real := f.Prog.FuncValue(obj); real != nil {
				return real, []ssa.Value{x.Bindings[0]}
			}
			return nil, nil
		}
		return f, nil
	}
	return nil, nil
}

// c13FuncsOfValue is c13FuncOfValue over every alternative of a phi
// (`var f func(); if c { f = func() {...} }`).
func c13FuncsOfValue(v ssa.Value, depth int) []*ssa.Function {
	if f, _ := c13FuncOfValue(v); f != nil {
		return []*ssa.Function{f}
	}
	var out []*ssa.Function
	if ph, ok := originValue(v).(*ssa.Phi); ok && depth < 4 {
		for _, e := range ph.Edges {
			out = append(out, c13FuncsOfValue(e, depth+1)...)
		}
	}
	return out
}

// c13CallTargets lists the source functions the instruction runs: its static
// callee (declared function, literal, bound method value) and, for the known
// spawners, the functions passed to them.
func c13CallTargets(c CallSite) []c13Tgt {
	var out []c13Tgt
	cc := c.Common()
	if !cc.IsInvoke() {
		if f, bound := c13FuncOfValue(cc.Value); f != nil && len(f.Blocks) > 0 {
			args := append(append([]ssa.Value(nil), bound...), cc.Args...)
			out = append(out, c13Tgt{f, args, c.IsGo()})
		}
	}
	if isSpawner(c) {
		for _, a := range cc.Args {
			if _, isFn := a.Type().Underlying().(*types.Signature); !isFn {
				continue
			}
			if f, bound := c13FuncOfValue(a); f != nil && len(f.Blocks) > 0 {
				out = append(out, c13Tgt{f, bound, true})
			}
		}
	}
	return out
}

// c13SplitPath splits "W|&s.mu" into mode "W|", prefix "&" and bare "s.mu".
func c13SplitPath(path string) (mode, pre, bare string) {
	if i := strings.Index(path, "|"); i >= 0 {
		mode, path = path[:i+1], path[i+1:]
	}
	for strings.HasPrefix(path, "&") || strings.HasPrefix(path, "*") {
		pre, path = pre+path[:1], path[1:]
	}
	return mode, pre, path
}

func c13RootedAt(bare, name string) bool {
	return name != "" && name != "_" && (bare == name || strings.HasPrefix(bare, name+".") || strings.HasPrefix(bare, name+"["))
}

// c13Up rewrites a path stated in the terms of target t.fn into the terms of
// the instruction that runs it: parameter-rooted paths through the actual
// arguments; package-level variables and - for function literals - captured
// variables denote the same thing on both sides.
func c13Up(t c13Tgt, path string) (string, bool) {
	if path == "" {
		return "", true // rule-specific release form without a path (match-any queries)
	}
	mode, pre, bare := c13SplitPath(path)
	for i, prm := range t.fn.Params {
		if i >= len(t.args) {
			break
		}
		name := prm.Name()
		if !c13RootedAt(bare, name) {
			continue
		}
		ap := AccessPath(t.args[i])
		if bare != name {
			switch {
			case strings.HasPrefix(ap, "&"):
				ap = ap[1:] // (&v).f == v.f
			case strings.HasPrefix(ap, "*"), strings.HasPrefix(ap, "?"):
				return "", false
			}
		}
		return mode + pre + ap + bare[len(name):], true
	}
	if strings.HasPrefix(bare, "global:") {
		return path, true
	}
	if t.fn.Parent() != nil {
		return path, true
	}
	return "", false
}

// c13Translatable: can a path of fn be stated in a caller's terms?
func c13Translatable(fn *ssa.Function, path string) bool {
	_, _, bare := c13SplitPath(path)
	if strings.HasPrefix(bare, "global:") {
		return true
	}
	for _, prm := range fn.Params {
		if c13RootedAt(bare, prm.Name()) {
			return true
		}
	}
	return false
}

// c13NilAssume: after an acquire through pointer path, `path == nil` is false
// (the resource exists); helpers test exactly that before releasing.
func c13NilAssume(path string, also func(ssa.Value) bool) func(ssa.Value) (bool, bool) {
	_, pre, bare := c13SplitPath(path)
	want := pre + bare
	return func(cond ssa.Value) (bool, bool) {
		bo, ok := cond.(*ssa.BinOp)
		if !ok || (bo.Op != token.NEQ && bo.Op != token.EQL) {
			return false, false
		}
		var other ssa.Value
		if IsNilConst(bo.Y) {
			other = bo.X
		} else if IsNilConst(bo.X) {
			other = bo.Y
		}
		if other == nil {
			return false, false
		}
		if (want != "" && AccessPath(other) == want) || (also != nil && also(other)) {
			return true, bo.Op == token.NEQ
		}
		return false, false
	}
}

// c13Edges: for every source function, the functions its instructions run
// (reverse map: target -> runners). Shared by the pairing engines.
var c13EdgeCache = map[*Program]map[*ssa.Function][]*ssa.Function{}

func c13Edges(p *Program) map[*ssa.Function][]*ssa.Function {
	if m, ok := c13EdgeCache[p]; ok {
		return m
	}
	rev := map[*ssa.Function][]*ssa.Function{}
	for _, f := range p.AllFuncs {
		for _, c := range CallsIn(f, false) {
			for _, t := range c13CallTargets(c) {
				rev[t.fn] = append(rev[t.fn], f)
			}
		}
	}
	c13EdgeCache = map[*Program]map[*ssa.Function][]*ssa.Function{p: rev}
	return rev
}

type c13Kind int

const (
	c13Balanced  c13Kind = iota // released on every path inside the function
	c13Always                   // held at every exit reachable from the acquire: the callers' obligation
	c13OnSuccess                // held exactly at the err==nil exits: the callers' obligation on that edge
	c13Holder                   // handed to a returned holder object (rule-specific table)
	c13Leaky                    // some path leaks
)

type c13Class struct {
	kind    c13Kind
	ok      bool
	detail  string
	callers int
}

type c13Held struct {
	path      string
	onSuccess bool
}

type c13Acq struct {
	path string
	ev   ssa.Value     // non-nil: the resource is held only where this error value is nil
	via  *ssa.Function // acquiring helper, nil for a primitive acquire
	recv ssa.Value     // the resource as a value of the acquiring function's frame (nil if not a plain argument)
}

type c13ClsKey struct {
	in   ssa.Instruction
	path string
}

type c13Pair struct {
	p       *Program
	rule    string
	acquire func(CallSite) (string, bool)
	release func(CallSite) (string, bool)
	// extraStop: rule-specific release forms (match-any queries only)
	extraStop func(CallSite) bool
	// holder: rule-specific classification of a leaking acquire as a hand-over to a returned object
	holder func(c CallSite, path string, leaks []Leak) *c13Class
	// trivial: single-statement wrappers exempt from the visible-callers condition
	trivial func(*ssa.Function) bool
	// noPrefilter: do not restrict release summaries to functions that contain a primitive release
	noPrefilter bool

	mayRel, mayAcq map[*ssa.Function]bool
	relMemo        map[*ssa.Function][]string
	relBusy        map[*ssa.Function]bool
	acqMemo        map[*ssa.Function][]c13Held
	acqBusy        map[*ssa.Function]bool
	clsMemo        map[c13ClsKey]*c13Class
	handMemo       map[*ssa.Function]int
	boundObjs      map[*types.Func]bool
}

func newC13Pair(p *Program, rule string, acq, rel func(CallSite) (string, bool)) *c13Pair {
	e := &c13Pair{p: p, rule: rule, acquire: acq, release: rel,
		mayRel: map[*ssa.Function]bool{}, mayAcq: map[*ssa.Function]bool{},
		relMemo: map[*ssa.Function][]string{}, relBusy: map[*ssa.Function]bool{},
		acqMemo: map[*ssa.Function][]c13Held{}, acqBusy: map[*ssa.Function]bool{},
		clsMemo: map[c13ClsKey]*c13Class{}, handMemo: map[*ssa.Function]int{}}
	rev := c13Edges(p)
	var relWork, acqWork []*ssa.Function
	for _, f := range p.AllFuncs {
		for _, c := range CallsIn(f, false) {
			if _, ok := rel(c); ok && !e.mayRel[f] {
				e.mayRel[f] = true
				relWork = append(relWork, f)
			}
			if _, ok := acq(c); ok && !e.mayAcq[f] {
				e.mayAcq[f] = true
				acqWork = append(acqWork, f)
			}
		}
	}
	spread := func(set map[*ssa.Function]bool, work []*ssa.Function) {
		for len(work) > 0 {
			f := work[len(work)-1]
			work = work[:len(work)-1]
			for _, g := range rev[f] {
				if !set[g] {
					set[g] = true
					work = append(work, g)
				}
			}
		}
	}
	spread(e.mayRel, relWork)
	spread(e.mayAcq, acqWork)
	return e
}

// stop: does instruction in discharge the obligation to release a resource
// whose path satisfies match? A primitive release, or a call / defer / go /
// spawn of a function every path of which releases it.
func (e *c13Pair) stop(in ssa.Instruction, match func(string) bool, depth int) bool {
	ci, ok := in.(ssa.CallInstruction)
	if !ok {
		return false
	}
	c := CallSite{in.Parent(), ci}
	if p, ok := e.release(c); ok && match(p) {
		return true
	}
	if e.extraStop != nil && e.extraStop(c) && match("") {
		return true
	}
	for _, t := range c13CallTargets(c) {
		for _, cp := range e.relSum(t.fn, depth+1) {
			if up, ok := c13Up(t, cp); ok && match(up) {
				return true
			}
		}
	}
	return false
}

// relSum: the paths (in fn's own terms) that every path through fn releases.
func (e *c13Pair) relSum(fn *ssa.Function, depth int) []string {
	if fn == nil || (!e.noPrefilter && !e.mayRel[fn]) || len(fn.Blocks) == 0 || depth > c13MaxDepth {
		return nil
	}
	if s, ok := e.relMemo[fn]; ok {
		return s
	}
	if e.relBusy[fn] {
		return nil
	}
	e.relBusy[fn] = true
	var cands []string
	add := func(s string) {
		for _, x := range cands {
			if x == s {
				return
			}
		}
		cands = append(cands, s)
	}
	for _, c := range CallsIn(fn, false) {
		if p, ok := e.release(c); ok {
			add(p)
		}
		if e.extraStop != nil && e.extraStop(c) {
			add("")
		}
		for _, t := range c13CallTargets(c) {
			for _, cp := range e.relSum(t.fn, depth+1) {
				if up, ok := c13Up(t, cp); ok {
					add(up)
				}
			}
		}
	}
	var out []string
	for _, cand := range cands {
		cand := cand
		if e.allPaths(fn, func(s string) bool { return s == cand }, c13NilAssume(cand, nil), depth) {
			out = append(out, cand)
		}
	}
	delete(e.relBusy, fn)
	e.relMemo[fn] = out
	return out
}

// allPaths: every path from fn's entry to a normal exit passes a stop.
func (e *c13Pair) allPaths(fn *ssa.Function, match func(string) bool, assume func(ssa.Value) (bool, bool), depth int) bool {
	return len(e.entryLeaks(fn, match, assume, depth)) == 0
}

func (e *c13Pair) entryLeaks(fn *ssa.Function, match func(string) bool, assume func(ssa.Value) (bool, bool), depth int) []Leak {
	first := fn.Blocks[0].Instrs[0]
	stop := func(in ssa.Instruction) bool { return e.stop(in, match, depth) }
	if stop(first) {
		return nil
	}
	if _, isRet := first.(*ssa.Return); isRet {
		return []Leak{{Exit: first}}
	}
	return LeakingExits(PathQuery{Start: first, Stop: stop, Assume: assume, IgnorePanics: true})
}

// acqAt: the resources instruction c acquires for the function it is in.
func (e *c13Pair) acqAt(c CallSite) []c13Acq {
	if c.IsDefer() || c.IsGo() {
		return nil
	}
	if p, ok := e.acquire(c); ok {
		a := c13Acq{path: p}
		if args := c.Args(); len(args) > 0 {
			a.recv = args[0]
		}
		return []c13Acq{a}
	}
	f := c.Callee()
	if f == nil || f.Parent() != nil || !e.mayAcq[f] || len(f.Blocks) == 0 {
		return nil
	}
	var out []c13Acq
	for _, h := range e.acqSum(f) {
		up, ok := c13Up(c13Tgt{fn: f, args: c.Args()}, h.path)
		if !ok {
			continue
		}
		a := c13Acq{path: up, via: f}
		// the helper holds what one of its parameters denotes: that argument
		if _, pre, bare := c13SplitPath(h.path); pre == "" {
			for i, prm := range f.Params {
				if prm.Name() == bare && i < len(c.Args()) {
					a.recv = c.Args()[i]
				}
			}
		}
		if h.onSuccess {
			if call := c.Value(); call != nil {
				if ev, _, discarded := ErrValue(call); ev != nil && !discarded {
					a.ev = ev
				}
			}
		}
		out = append(out, a)
	}
	return out
}

// acqSum: what the declared function fn holds when it returns.
func (e *c13Pair) acqSum(fn *ssa.Function) []c13Held {
	if s, ok := e.acqMemo[fn]; ok {
		return s
	}
	if e.acqBusy[fn] {
		return nil
	}
	e.acqBusy[fn] = true
	var out []c13Held
	for _, c := range CallsIn(fn, false) {
		for _, a := range e.acqAt(c) {
			cl := e.classify(c, a)
			if cl.kind == c13Always || cl.kind == c13OnSuccess {
				dup := false
				for _, h := range out {
					if h.path == a.path {
						dup = true
					}
				}
				if !dup {
					out = append(out, c13Held{a.path, cl.kind == c13OnSuccess})
				}
			}
		}
	}
	delete(e.acqBusy, fn)
	e.acqMemo[fn] = out
	return out
}

// c13Recursive: fn can reach itself through the instructions it runs (an
// obligation handed from callee to caller must come to rest somewhere).
func c13Recursive(p *Program, fn *ssa.Function) bool {
	rev := c13Edges(p)
	seen := map[*ssa.Function]bool{}
	work := append([]*ssa.Function(nil), rev[fn]...)
	for len(work) > 0 {
		f := work[len(work)-1]
		work = work[:len(work)-1]
		f = TopFunc(f)
		if f == fn {
			return true
		}
		if seen[f] {
			continue
		}
		seen[f] = true
		work = append(work, rev[f]...)
	}
	return false
}

// visibleCallers: number of static call sites of fn when EVERY use of fn is a
// plain static call (no method value, no function value, no interface
// dispatch); 0 otherwise.
func (e *c13Pair) visibleCallers(fn *ssa.Function) int {
	if n, ok := e.handMemo[fn]; ok {
		return n
	}
	n := 0
	func() {
		if fn.Parent() != nil {
			return
		}
		callers := 0
		for _, cs := range e.p.StaticCallers(fn) {
			if top := TopFunc(cs.Fn); top.Pkg != nil && !IsTestSupportPkg(RelPkg(top.Pkg.Pkg)) {
				callers++
			}
		}
		if callers == 0 || len(e.p.FuncValueUses(fn)) > 0 || c13Recursive(e.p, fn) {
			return
		}
		if e.boundObjs == nil {
			e.boundObjs = map[*types.Func]bool{}
			for _, f := range e.p.AllFuncs {
				for _, b := range f.Blocks {
					for _, in := range b.Instrs {
						if mc, ok := in.(*ssa.MakeClosure); ok {
							if bf, ok := mc.Fn.(*ssa.Function); ok && strings.HasPrefix(bf.Synthetic, "bound method wrapper") {
								if obj, _ := bf.Object().(*types.Func); obj != nil {
									e.boundObjs[obj] = true
								}
							}
						}
					}
				}
			}
		}
		if obj, _ := fn.Object().(*types.Func); obj != nil && e.boundObjs[obj] {
			return
		}
		if len(e.p.InvokeSites(fn)) > 0 {
			return
		}
		n = callers
	}()
	e.handMemo[fn] = n
	return n
}

func (e *c13Pair) classify(c CallSite, a c13Acq) *c13Class {
	key := c13ClsKey{c.Instr, a.path}
	if cl, ok := e.clsMemo[key]; ok {
		return cl
	}
	cl := e.classify1(c, a)
	e.clsMemo[key] = cl
	return cl
}

func (e *c13Pair) classify1(c CallSite, a c13Acq) *c13Class {
	path := a.path
	match := func(s string) bool { return s == path }
	// a covering defer registered before the acquire
	for _, d := range DeferredCalls(c.Fn) {
		if Precedes(d.Instr, c.Instr) && e.stop(d.Instr, match, 0) {
			return &c13Class{kind: c13Balanced, ok: true, detail: "released by a defer registered before the acquire"}
		}
	}
	// conditions already decided on the way to the acquire
	// (`if g != nil { g.Start() } ... if g != nil { g.Done() }`)
	decided := map[string]bool{}
	for _, f := range FactsAt(c.Block()) {
		if k := CondKey(f.Cond); k != "" {
			decided[k] = f.Val
		}
	}
	nilAssume := c13NilAssume(path, nil)
	assume := func(cond ssa.Value) (bool, bool) {
		if a.ev != nil {
			// the helper holds the resource only when it reports success
			if k, isNil := condSaysNil(cond, true, a.ev); k {
				return true, isNil
			}
		}
		if k, v := nilAssume(cond); k {
			return k, v
		}
		if k := CondKey(cond); k != "" {
			if v, ok := decided[k]; ok {
				return true, v
			}
		}
		return false, false
	}
	stop := func(in ssa.Instruction) bool { return e.stop(in, match, 0) }
	leaks := LeakingExits(PathQuery{Start: c.Instr, Stop: stop, Assume: assume, IgnorePanics: true})
	if len(leaks) == 0 {
		return &c13Class{kind: c13Balanced, ok: true, detail: "released (call, defer, helper that releases on all its paths, or hand-over to a goroutine that does) on every path to every exit"}
	}
	if e.holder != nil {
		if cl := e.holder(c, path, leaks); cl != nil {
			return cl
		}
	}
	fn := c.Fn
	// an acquire repeated in a loop takes a number of slots no caller can give back:
	// it is never summarised as "held at return"
	if fn.Parent() == nil && c13Translatable(fn, path) && !inLoop(c.Block()) {
		n := e.visibleCallers(fn)
		if n == 0 && e.trivial != nil && e.trivial(fn) {
			n = len(e.p.StaticCallers(fn))
			if n == 0 {
				n = 1
			}
		}
		if n > 0 {
			all := LeakingExits(PathQuery{Start: c.Instr, Stop: func(ssa.Instruction) bool { return false }, Assume: assume, IgnorePanics: true})
			if len(leaks) == len(all) {
				return &c13Class{kind: c13Always, ok: true, callers: n,
					detail: fmt.Sprintf("acquiring helper: %s is held at every return after the acquire; the obligation is checked at each of its %d static call sites (no other use of the function exists)", path, n)}
			}
			if idx := ErrResultIndex(fn); idx >= 0 {
				leaking := map[ssa.Instruction]bool{}
				for _, l := range leaks {
					leaking[l.Exit] = true
				}
				maybeNil := map[ssa.Instruction]bool{}
				for _, nr := range MaybeNilErrorReturns(fn) {
					maybeNil[nr.Ret] = true
				}
				iff := true
				for _, x := range all {
					ret, isRet := x.Exit.(*ssa.Return)
					if !isRet {
						iff = false
						break
					}
					if leaking[ret] {
						v := resolveReturnValue(ret.Results[idx], ret)
						k, isNil := NilFact(ret.Block(), v)
						if !(IsNilConst(v) || (k && isNil)) {
							iff = false
						}
					} else if maybeNil[ret] {
						iff = false
					}
				}
				if iff {
					return &c13Class{kind: c13OnSuccess, ok: true, callers: n,
						detail: fmt.Sprintf("acquiring helper: %s is held exactly at the returns whose error is nil and released before every failing return; the obligation is checked on the err==nil edge of each of its %d static call sites", path, n)}
				}
			}
		}
	}
	var exits []string
	for _, l := range leaks {
		exits = append(exits, fmt.Sprintf("exit at line %d via blocks %s", c.Fn.Prog.Fset.Position(l.Exit.Pos()).Line, blockNames(l.Via)))
		if len(exits) >= 3 {
			break
		}
	}
	via := ""
	if a.via != nil {
		via = " (through " + FuncKey(a.via) + ", which returns holding it)"
	}
	return &c13Class{kind: c13Leaky, detail: fmt.Sprintf("%s acquired%s but not released on %d exit path(s): %s", path, via, len(leaks), strings.Join(exits, "; "))}
}

// c13StablePath drops the per-run address that AccessPath appends to values it
// cannot name ("?t35@0xc000..." -> "?t35"): construct keys must not change
// from run to run.
func c13StablePath(path string) string {
	for {
		i := strings.Index(path, "@0x")
		if i < 0 {
			return path
		}
		j := i + 3
		for j < len(path) && (path[j] >= '0' && path[j] <= '9' || path[j] >= 'a' && path[j] <= 'f') {
			j++
		}
		path = path[:i] + path[j:]
	}
}

// scan reports one obligation per acquire site in fns, and in the callers
// (wherever they live) of every acquiring helper found on the way.
func (e *c13Pair) scan(r *Reporter, fns []*ssa.Function, idiom func(c CallSite, a c13Acq) (string, bool)) int {
	n := 0
	inScope := map[*ssa.Function]bool{}
	for _, fn := range fns {
		inScope[fn] = true
	}
	one := func(fn *ssa.Function, helperOnly bool) {
		if !e.mayAcq[fn] {
			return
		}
		for _, c := range CallsIn(fn, false) {
			for _, a := range e.acqAt(c) {
				if helperOnly && a.via == nil {
					continue
				}
				n++
				construct := FuncKey(fn) + "#" + c13StablePath(a.path)
				site := e.p.Pos(c.Pos())
				if idiom != nil {
					if why, ok := idiom(c, a); ok {
						r.OK(e.rule, construct, site, why)
						continue
					}
				}
				cl := e.classify(c, a)
				r.Check(cl.ok, e.rule, construct, site, cl.detail, cl.detail)
			}
		}
	}
	for _, fn := range fns {
		if IsTestSupportPkg(RelPkg(fn.Pkg.Pkg)) {
			continue
		}
		one(fn, false)
	}
	// callers outside the scanned packages of helpers that return holding a resource
	for round := 0; round < 4; round++ {
		var extra []*ssa.Function
		var helpers []*ssa.Function
		for h, held := range e.acqMemo {
			if len(held) > 0 {
				helpers = append(helpers, h)
			}
		}
		sort.Slice(helpers, func(i, j int) bool { return FuncKey(helpers[i]) < FuncKey(helpers[j]) })
		for _, h := range helpers {
			for _, cs := range e.p.StaticCallers(h) {
				if cs.Fn.Pkg == nil || inScope[cs.Fn] || IsTestSupportPkg(RelPkg(TopFunc(cs.Fn).Pkg.Pkg)) {
					continue
				}
				inScope[cs.Fn] = true
				extra = append(extra, cs.Fn)
			}
		}
		if len(extra) == 0 {
			break
		}
		for _, fn := range extra {
			one(fn, true)
		}
	}
	return n
}

// ---------------------------------------------------------------------------
// G-gate

func c13GateOp(c CallSite, name string) (string, bool) {
	if c.IsStatic("go4.org/syncutil", "Gate", name) {
		return AccessPath(c.Args()[0]), true
	}
	return "", false
}

// gateSpec is the primitive gate discipline (kept for other rule files).
var gateSpec = &PairSpec{
	Rule:    "G-gate",
	Acquire: func(c CallSite) (string, bool) { return c13GateOp(c, "Start") },
	Release: func(c CallSite) (string, bool) { return c13GateOp(c, "Done") },
}

// c13GateHolderTypes: objects that deliberately own a gate slot taken by the
// function that returns them, each with the interface entry points that give the
// slot back. Keyed by the TYPE of the returned object (not by the function that
// builds it); the release functions are re-checked structurally on every run.
var c13GateHolderTypes = map[string]struct {
	reason    string
	releaseIn [][3]string
}{
	"pkg/sorted/sqlkv.batchTx": {
		"slot is held for the life of the transaction; released by batchTx commit/close",
		[][3]string{{"pkg/sorted/sqlkv", "KeyValue", "CommitBatch"}, {"pkg/sorted/sqlkv", "batchTx", "Close"}},
	},
	"pkg/sorted/sqlkv.iter": {
		"slot is held for the life of the iterator; released by iter.Close",
		[][3]string{{"pkg/sorted/sqlkv", "iter", "Close"}},
	},
}

func c13IsGateValue(v ssa.Value) bool { return IsNamed(v.Type(), "go4.org/syncutil", "Gate") }

// c13HolderKey: the holder type (key of c13GateHolderTypes) among the values
// returned at ret, "" if none.
func c13HolderKey(ret *ssa.Return) string {
	for _, res := range ret.Results {
		v := originValue(resolveReturnValue(res, ret))
		if v == nil {
			continue
		}
		if n := NamedOf(v.Type()); n != nil && n.Obj().Pkg() != nil {
			k := RelPkg(n.Obj().Pkg()) + "." + n.Obj().Name()
			if _, ok := c13GateHolderTypes[k]; ok {
				return k
			}
		}
	}
	return ""
}

// c13ReleaseClosureFields: the func-typed fields of holder type key into which
// some function of its package stores a closure that gives a gate slot back
// (iter.releaseGate); calling such a field is a release.
func c13ReleaseClosureFields(p *Program, key string) map[string]bool {
	out := map[string]bool{}
	i := strings.LastIndex(key, ".")
	rel, tname := key[:i], key[i+1:]
	for _, fn := range p.FuncsIn(rel) {
		for _, b := range fn.Blocks {
			for _, in := range b.Instrs {
				st, ok := in.(*ssa.Store)
				if !ok {
					continue
				}
				fa, ok := st.Addr.(*ssa.FieldAddr)
				if !ok {
					continue
				}
				n := NamedOf(fa.X.Type())
				if n == nil || n.Obj().Name() != tname || RelPkg(n.Obj().Pkg()) != rel {
					continue
				}
				for _, f := range c13FuncsOfValue(st.Val, 0) {
					if mentionsGateDone(f) {
						out[fieldName(fa.X.Type(), fa.Field)] = true
					}
				}
			}
		}
	}
	return out
}

func c13CalledField(c CallSite) string {
	cc := c.Common()
	if cc.IsInvoke() {
		return ""
	}
	if u, ok := cc.Value.(*ssa.UnOp); ok && u.Op == token.MUL {
		if fa, ok := u.X.(*ssa.FieldAddr); ok {
			return fieldName(fa.X.Type(), fa.Field)
		}
	}
	return ""
}

func ruleGGate(p *Program, r *Reporter, fns []*ssa.Function) {
	e := newC13Pair(p, "G-gate", gateSpec.Acquire, gateSpec.Release)
	e.holder = func(c CallSite, path string, leaks []Leak) *c13Class {
		key := ""
		for _, l := range leaks {
			ret, ok := l.Exit.(*ssa.Return)
			if !ok {
				return nil
			}
			k := c13HolderKey(ret)
			if k == "" || (key != "" && k != key) {
				return nil
			}
			key = k
		}
		h := c13GateHolderTypes[key]
		fields := c13ReleaseClosureFields(p, key)
		// any gate, or the call of a release closure stored in the holder, counts in the release functions
		he := newC13PairLike(e)
		he.extraStop = func(c CallSite) bool { return fields[c13CalledField(c)] }
		cl := &c13Class{kind: c13Holder, ok: true,
			detail: "cross-function holder: the returned " + key + " owns the slot (" + h.reason + "); every recorded release function releases the gate on all its paths"}
		for _, rf := range h.releaseIn {
			f := p.LookupFunc(rf[0], rf[1], rf[2])
			if f == nil || len(f.Blocks) == 0 {
				cl.ok = false
				cl.detail = fmt.Sprintf("cross-function holder %s, but its recorded release function %s.%s no longer exists: %s", key, rf[1], rf[2], h.reason)
				continue
			}
			// the release function must release on EVERY path, assuming a gate is configured
			assume := c13NilAssume("", func(v ssa.Value) bool {
				if c13IsGateValue(v) {
					return true
				}
				if u, ok := v.(*ssa.UnOp); ok && u.Op == token.MUL {
					if fa, ok := u.X.(*ssa.FieldAddr); ok && fields[fieldName(fa.X.Type(), fa.Field)] {
						return true
					}
				}
				return false
			})
			if lk := he.entryLeaks(f, func(string) bool { return true }, assume, 0); len(lk) > 0 {
				cl.ok = false
				cl.detail = fmt.Sprintf("the slot taken here is to be released by %s, but that function has %d path(s) that return without releasing the gate (first: exit at line %d): a failed %s leaks the slot for good",
					FuncKey(f), len(lk), p.Fset.Position(lk[0].Exit.Pos()).Line, c.Fn.Name())
			}
		}
		return cl
	}
	n := e.scan(r, fns, func(c CallSite, a c13Acq) (string, bool) {
		if a.ev == nil && e.drainIdiom(c, a.recv) {
			return "drains all tokens of a function-local gate to join workers (the gate is created by NewGate(N) in the function whose effective body this loop belongs to - followed through parameters into every static caller - and the loop runs exactly N times)", true
		}
		return "", false
	})
	r.Analysed("gate_start_sites", n)
	r.Floor("G-gate", 20)
}

// newC13PairLike: a second engine over the same primitives with fresh
// summaries (used with a rule-specific extraStop).
func newC13PairLike(e *c13Pair) *c13Pair {
	return &c13Pair{p: e.p, rule: e.rule, acquire: e.acquire, release: e.release,
		mayRel: e.mayRel, mayAcq: e.mayAcq, noPrefilter: true,
		relMemo: map[*ssa.Function][]string{}, relBusy: map[*ssa.Function]bool{},
		acqMemo: map[*ssa.Function][]c13Held{}, acqBusy: map[*ssa.Function]bool{},
		clsMemo: map[c13ClsKey]*c13Class{}, handMemo: map[*ssa.Function]int{}}
}

// drainIdiom recognises the join-by-draining idiom over the EFFECTIVE BODY of
// the function that creates the gate: the instruction c (a primitive Start on
// gate value g, or a call of a helper that returns holding one slot of g) sits
// in a counting loop of exactly n iterations (any loop form: `for range n`,
// `for i := 0; i < n; i++`, `n > i`, `i != n`), g denotes a gate created by
// syncutil.NewGate(N) - directly, through a creating helper every return of
// which yields a fresh NewGate - in the same top-level function or, when g
// (and n) are parameters, in EVERY static caller (transitively, all uses of
// each helper on the way being visible static calls), and n == N there (equal
// constants, or the very same value). Such a gate is garbage once the creating
// call returns: the slots taken cannot block any later call.
func (e *c13Pair) drainIdiom(c CallSite, g ssa.Value) bool {
	if g == nil {
		return false
	}
	b := c.Block()
	if !inLoop(b) {
		return false
	}
	for _, f := range FactsAt(b) {
		for _, bound := range c13TripCounts(f, b) {
			if e.drainResolve(c.Fn, nil, g, bound, 0) {
				return true
			}
		}
	}
	return false
}

// c13TripCounts: the values n such that, by the loop test established by fact
// f, the loop around block b runs exactly n times: `for i := 0; i < n; i++`
// (also `n > i`, `i != n`, negated forms, the rotated `for range n`),
// `for i := 1; i <= n; i++`, and the counting-down forms `for i := n; i > 0; i--`
// (`i != 0`, `i >= 1`).
func c13TripCounts(f CondFact, b *ssa.BasicBlock) []ssa.Value {
	bo, ok := f.Cond.(*ssa.BinOp)
	if !ok {
		return nil
	}
	op := bo.Op
	if !f.Val {
		switch op {
		case token.LSS:
			op = token.GEQ
		case token.GEQ:
			op = token.LSS
		case token.GTR:
			op = token.LEQ
		case token.LEQ:
			op = token.GTR
		case token.EQL:
			op = token.NEQ
		case token.NEQ:
			op = token.EQL
		default:
			return nil
		}
	}
	flip := map[token.Token]token.Token{token.LSS: token.GTR, token.GTR: token.LSS, token.LEQ: token.GEQ, token.GEQ: token.LEQ, token.NEQ: token.NEQ, token.EQL: token.EQL}
	fop, ok := flip[op]
	if !ok {
		return nil
	}
	var out []ssa.Value
	// the relation `iv op other` holds inside the loop
	try := func(iv ssa.Value, op token.Token, other ssa.Value) {
		switch op {
		case token.LSS, token.NEQ:
			if c13CountsFromZero(f, iv, other, b) {
				out = append(out, other)
			}
		case token.LEQ:
			if _, init, ok := c13Induction(iv, token.ADD); ok {
				if n, isC := ConstInt(init); isC && n == 1 {
					out = append(out, other)
				}
			}
		}
		// counting down to zero
		if k, isC := ConstInt(other); isC && ((k == 0 && (op == token.GTR || op == token.NEQ)) || (k == 1 && op == token.GEQ)) {
			if _, init, ok := c13Induction(iv, token.SUB); ok {
				out = append(out, init)
			}
		}
	}
	try(bo.X, op, bo.Y)
	try(bo.Y, fop, bo.X)
	return out
}

// c13Induction: v is a loop variable `phi [init, phi (+|-) 1]`; returns the phi
// and its initial value.
func c13Induction(v ssa.Value, step token.Token) (*ssa.Phi, ssa.Value, bool) {
	ph, ok := v.(*ssa.Phi)
	if !ok || len(ph.Edges) != 2 {
		return nil, nil, false
	}
	var init ssa.Value
	stepped := false
	for _, e := range ph.Edges {
		if inc, ok := e.(*ssa.BinOp); ok && inc.Op == step && inc.X == ssa.Value(ph) {
			if one, ok := ConstInt(inc.Y); ok && one == 1 {
				stepped = true
				continue
			}
		}
		if init != nil {
			return nil, nil, false
		}
		init = e
	}
	if !stepped || init == nil {
		return nil, nil, false
	}
	return ph, init, true
}

// c13SameInt: two integer values known to be equal: equal constants, or one
// and the same SSA value (a load of a variable that is assigned more than once
// is a value of its own, so two such loads never compare equal).
func c13SameInt(a, b ssa.Value) bool {
	if a == nil || b == nil {
		return false
	}
	x, xc := ConstInt(a)
	y, yc := ConstInt(b)
	if xc || yc {
		return xc && yc && x == y
	}
	oa, ob := originValue(a), originValue(b)
	if oa != ob {
		return false
	}
	switch oa.(type) {
	case *ssa.Parameter, *ssa.Call, *ssa.BinOp, *ssa.Extract, *ssa.Convert:
		return true
	}
	return false
}

// c13NewGateCap: v is a fresh gate; the capacity it was created with, as a
// value of fn's frame (fn = the function v belongs to). Either a call of
// syncutil.NewGate, or a call of a declared helper EVERY return of which yields
// a fresh gate (the capacity a constant, or a parameter of the helper mapped to
// the call's argument).
func c13NewGateCap(v ssa.Value, depth int) (ssa.Value, *ssa.Call, bool) {
	call, ok := originValue(v).(*ssa.Call)
	if !ok || depth > 3 {
		return nil, nil, false
	}
	c := CallSite{call.Parent(), call}
	if c.IsStatic("go4.org/syncutil", "", "NewGate") {
		return call.Call.Args[0], call, true
	}
	f := c.Callee()
	if f == nil || f.Parent() != nil || len(f.Blocks) == 0 {
		return nil, nil, false
	}
	idx := -1
	res := f.Signature.Results()
	for i := 0; i < res.Len(); i++ {
		if IsNamed(res.At(i).Type(), "go4.org/syncutil", "Gate") {
			if idx >= 0 {
				return nil, nil, false
			}
			idx = i
		}
	}
	if idx < 0 || res.Len() != 1 {
		return nil, nil, false
	}
	var capv ssa.Value
	rets := Returns(f)
	if len(rets) == 0 {
		return nil, nil, false
	}
	for _, ri := range rets {
		if idx >= len(ri.Results) {
			return nil, nil, false
		}
		inner, _, ok := c13NewGateCap(ri.Results[idx], depth+1)
		if !ok {
			return nil, nil, false
		}
		// into the caller's frame
		var up ssa.Value
		if _, isConst := ConstInt(inner); isConst {
			up = originValue(inner)
		} else if prm, isParam := originValue(inner).(*ssa.Parameter); isParam && prm.Parent() == f {
			for i, q := range f.Params {
				if q == prm && i < len(c.Args()) {
					up = c.Args()[i]
				}
			}
		}
		if up == nil {
			return nil, nil, false
		}
		if capv != nil && !c13SameInt(capv, up) {
			return nil, nil, false
		}
		capv = up
	}
	return capv, call, true
}

// drainResolve: in the frame of fn, g is a gate and n a loop bound. Does g
// denote a gate freshly created with capacity n inside the top-level function
// whose effective body fn belongs to? site is the call in fn that leads to
// the draining loop (nil when the loop itself is in fn): it must not be
// repeated by a loop that does not also create the gate anew.
func (e *c13Pair) drainResolve(fn *ssa.Function, site ssa.Instruction, g, n ssa.Value, depth int) bool {
	if depth > c13MaxDepth {
		return false
	}
	g0 := originValue(g)
	if capv, mk, ok := c13NewGateCap(g0, 0); ok {
		// created by the function that drains it (or the function its literal belongs to)
		if site != nil && inLoop(site.Block()) && !(mk.Parent() == site.Parent() && inLoop(mk.Block())) {
			return false
		}
		return TopFunc(mk.Parent()) == TopFunc(fn) && c13SameInt(capv, n)
	}
	prm, ok := g0.(*ssa.Parameter)
	if !ok {
		return false
	}
	// a parameter: the same must hold for what EVERY caller passes
	pf := prm.Parent()
	if pf == nil || pf.Parent() != nil || TopFunc(fn) != pf || e.visibleCallers(pf) == 0 {
		return false
	}
	if site != nil && inLoop(site.Block()) {
		return false // the same gate would be drained once per iteration
	}
	index := func(v ssa.Value) int {
		for i, q := range pf.Params {
			if ssa.Value(q) == v {
				return i
			}
		}
		return -1
	}
	gi, ni := index(prm), -1
	n0 := originValue(n)
	if _, isConst := ConstInt(n0); !isConst {
		if ni = index(n0); ni < 0 {
			return false
		}
	}
	callers := e.p.StaticCallers(pf)
	for _, cs := range callers {
		args := cs.Args()
		if gi < 0 || gi >= len(args) || ni >= len(args) {
			return false
		}
		nArg := n0
		if ni >= 0 {
			nArg = args[ni]
		}
		if !e.drainResolve(cs.Fn, cs.Instr, args[gi], nArg, depth+1) {
			return false
		}
	}
	return len(callers) > 0
}

// c13CountsFromZero: the loop test established by fact f (induction operand iv,
// bound operand bound) makes the loop around block b run exactly `bound` times:
// iv is an induction variable that starts at 0 and is incremented by 1; for the
// rotated form of a range-over-int loop f is the guard `0 < bound` and the test
// `iv+1 < bound` at the bottom of the loop leads back to the loop head.
func c13CountsFromZero(f CondFact, iv, bound ssa.Value, b *ssa.BasicBlock) bool {
	isInduction := func(v ssa.Value) (*ssa.Phi, bool) {
		ph, init, ok := c13Induction(v, token.ADD)
		if !ok {
			return nil, false
		}
		n, isC := ConstInt(init)
		return ph, isC && n == 0
	}
	if z, ok := ConstInt(iv); ok {
		// rotated guard `0 < N` (`N > 0`, `N != 0`): the test proper sits at the bottom
		if z != 0 || f.At == nil || len(f.At.Succs) != 2 {
			return false
		}
		for _, head := range f.At.Succs {
			if !(head == b || head.Dominates(b)) {
				continue
			}
			for _, in := range head.Instrs {
				phi, isPhi := in.(*ssa.Phi)
				if !isPhi {
					break
				}
				if _, ok := isInduction(phi); !ok {
					continue
				}
				for _, e := range phi.Edges {
					inc, ok := e.(*ssa.BinOp)
					if !ok || inc.Referrers() == nil {
						continue
					}
					for _, ref := range *inc.Referrers() {
						t, ok := ref.(*ssa.BinOp)
						if !ok || t.Referrers() == nil {
							continue
						}
						var other ssa.Value
						switch {
						case t.X == ssa.Value(inc) && (t.Op == token.LSS || t.Op == token.NEQ):
							other = t.Y
						case t.Y == ssa.Value(inc) && (t.Op == token.GTR || t.Op == token.NEQ):
							other = t.X
						}
						if other == nil || !c13SameInt(other, bound) {
							continue
						}
						for _, r2 := range *t.Referrers() {
							if ifi, ok := r2.(*ssa.If); ok && len(ifi.Block().Succs) == 2 && ifi.Block().Succs[0] == head {
								return true
							}
						}
					}
				}
			}
		}
		return false
	}
	// rotated loops may test the incremented value: i+1 < N
	if inc, ok := iv.(*ssa.BinOp); ok && inc.Op == token.ADD {
		if one, ok := ConstInt(inc.Y); ok && one == 1 {
			iv = inc.X
		}
	}
	_, ok := isInduction(iv)
	return ok
}

// mentionsGateDone reports whether fn (deep) calls (*Gate).Done or takes it as
// a bound method value (once.Do(g.Done)).
func mentionsGateDone(fn *ssa.Function) bool {
	found := false
	var walk func(f *ssa.Function)
	walk = func(f *ssa.Function) {
		for _, b := range f.Blocks {
			for _, in := range b.Instrs {
				switch x := in.(type) {
				case ssa.CallInstruction:
					if (CallSite{f, x}).IsStatic("go4.org/syncutil", "Gate", "Done") {
						found = true
					}
				case *ssa.MakeClosure:
					if real, _ := c13FuncOfValue(x); real != nil && funcIs(real, "go4.org/syncutil", "Gate", "Done") {
						found = true
					}
				}
			}
		}
		for _, a := range f.AnonFuncs {
			walk(a)
		}
	}
	walk(fn)
	return found
}

// ---------------------------------------------------------------------------
// G-lock

func mutexOp(c CallSite) (kind, path string, ok bool) {
	for _, m := range []string{"Lock", "Unlock", "RLock", "RUnlock"} {
		if c.IsStatic("sync", "Mutex", m) || c.IsStatic("sync", "RWMutex", m) {
			return m, AccessPath(c.Args()[0]), true
		}
	}
	return "", "", false
}

var lockSpec = &PairSpec{
	Rule: "G-lock",
	Acquire: func(c CallSite) (string, bool) {
		k, p, ok := mutexOp(c)
		if !ok {
			return "", false
		}
		switch k {
		case "Lock":
			return "W|" + p, true
		case "RLock":
			return "R|" + p, true
		}
		return "", false
	},
	Release: func(c CallSite) (string, bool) {
		k, p, ok := mutexOp(c)
		if !ok {
			return "", false
		}
		switch k {
		case "Unlock":
			return "W|" + p, true
		case "RUnlock":
			return "R|" + p, true
		}
		return "", false
	},
}

func ruleGLock(p *Program, r *Reporter, fns []*ssa.Function) {
	e := newC13Pair(p, "G-lock", lockSpec.Acquire, lockSpec.Release)
	e.trivial = isLockWrapper
	n := e.scan(r, fns, func(c CallSite, a c13Acq) (string, bool) {
		if a.via == nil && barrierLockIdiom(c) {
			return "function-local mutex locked immediately before return as a barrier (frame-local, cannot be contended after return)", true
		}
		return "", false
	})
	r.Analysed("lock_sites", n)
	r.Floor("G-lock", 100)
}

// barrierLockIdiom: Lock on a mutex declared in the same top-level function,
// directly followed (same block, no intervening call) by return.
func barrierLockIdiom(c CallSite) bool {
	cell, ok := varOf(c.Args()[0])
	if !ok {
		return false
	}
	al, ok := cell.(*ssa.Alloc)
	if !ok || TopFunc(al.Parent()) != TopFunc(c.Fn) {
		return false
	}
	b := c.Block()
	if _, ok := b.Instrs[len(b.Instrs)-1].(*ssa.Return); !ok {
		return false
	}
	for _, in := range b.Instrs[instrIndex(c.Instr)+1:] {
		if _, isCall := in.(ssa.CallInstruction); isCall {
			return false
		}
	}
	return true
}

// isLockWrapper: a method whose whole body is one Lock/Unlock call on a field
// of its receiver (e.g. (*index.Index).RLock).
func isLockWrapper(fn *ssa.Function) bool {
	if fn.Signature.Recv() == nil || len(fn.Blocks) != 1 {
		return false
	}
	calls := CallsIn(fn, false)
	if len(calls) != 1 {
		return false
	}
	_, _, ok := mutexOp(calls[0])
	return ok
}

// ---------------------------------------------------------------------------
// G-rollback (typestate over the effective body of diskpacked's ReceiveBlob)

// c13FieldRef identifies a struct field by its owner type and index.
type c13FieldRef struct {
	owner *types.Named
	idx   int
}

func (f c13FieldRef) name() string {
	if st, ok := f.owner.Underlying().(*types.Struct); ok && f.idx < st.NumFields() {
		return st.Field(f.idx).Name()
	}
	return "?"
}

func c13FieldOfAddr(addr ssa.Value) (c13FieldRef, bool) {
	fa, ok := addr.(*ssa.FieldAddr)
	if !ok {
		return c13FieldRef{}, false
	}
	n := NamedOf(fa.X.Type())
	if n == nil {
		return c13FieldRef{}, false
	}
	return c13FieldRef{n, fa.Field}, true
}

// c13FieldLoad: v (after originValue) is a load of a struct field.
func c13FieldLoad(v ssa.Value) (*ssa.UnOp, c13FieldRef, bool) {
	ld, ok := v.(*ssa.UnOp)
	if !ok || ld.Op != token.MUL {
		return nil, c13FieldRef{}, false
	}
	f, ok := c13FieldOfAddr(ld.X)
	return ld, f, ok
}

// fieldWriters returns the functions of package rel that may (transitively,
// through static calls and function literals inside the package) store to field
// fld of struct type typeName.
func fieldWriters(p *Program, rel, typeName, fld string) map[*ssa.Function]bool {
	fns := p.FuncsIn(rel)
	direct := map[*ssa.Function]bool{}
	for _, fn := range fns {
		for _, b := range fn.Blocks {
			for _, in := range b.Instrs {
				st, ok := in.(*ssa.Store)
				if !ok {
					continue
				}
				f, ok := c13FieldOfAddr(st.Addr)
				if !ok {
					continue
				}
				if f.owner.Obj().Name() == typeName && RelPkg(f.owner.Obj().Pkg()) == rel && f.name() == fld {
					direct[fn] = true
				}
			}
		}
	}
	changed := true
	for changed {
		changed = false
		for _, fn := range fns {
			if direct[fn] {
				continue
			}
			for _, c := range CallsIn(fn, true) {
				hit := false
				for _, t := range c13CallTargets(c) {
					if direct[t.fn] {
						hit = true
					}
				}
				if f := c.Callee(); f != nil && direct[f] {
					hit = true
				}
				if hit {
					direct[fn] = true
					changed = true
					break
				}
			}
		}
	}
	return direct
}

// c13Chain is a path of static same-package calls from a root function down to
// an instruction: funcs[0] is the root, calls[i] (in funcs[i]) runs funcs[i+1],
// at lies in funcs[len(calls)].
type c13Chain struct {
	funcs []*ssa.Function
	calls []CallSite
	at    CallSite
}

// instrAt: the instruction through which the chain passes in funcs[level].
func (ch *c13Chain) instrAt(level int) ssa.Instruction {
	if level < len(ch.calls) {
		return ch.calls[level].Instr
	}
	return ch.at.Instr
}

func (ch *c13Chain) levelOf(fn *ssa.Function) int {
	for i, f := range ch.funcs {
		if f == fn {
			return i
		}
	}
	return -1
}

// c13Down enumerates, over the effective body of root (root plus, transitively
// up to depth, the same-package functions and literals its instructions run),
// the call instructions satisfying pred, each with the chain leading to it.
func c13Down(root *ssa.Function, depth int, pred func(CallSite) bool) []c13Chain {
	var out []c13Chain
	var walk func(fn *ssa.Function, funcs []*ssa.Function, calls []CallSite)
	walk = func(fn *ssa.Function, funcs []*ssa.Function, calls []CallSite) {
		funcs = append(append([]*ssa.Function(nil), funcs...), fn)
		for _, c := range CallsIn(fn, false) {
			if pred(c) {
				out = append(out, c13Chain{funcs: funcs, calls: append([]CallSite(nil), calls...), at: c})
			}
			if len(calls) >= depth {
				continue
			}
			for _, t := range c13CallTargets(c) {
				if TopFunc(t.fn).Pkg != TopFunc(root).Pkg {
					continue
				}
				rec := false
				for _, f := range funcs {
					if f == t.fn {
						rec = true
					}
				}
				if rec {
					continue
				}
				walk(t.fn, funcs, append(append([]CallSite(nil), calls...), c))
			}
		}
	}
	walk(root, nil, nil)
	return out
}

// c13ArgUp maps parameter prm of funcs[level] to the argument the chain's call
// passes for it (level > 0).
func c13ArgUp(ch *c13Chain, level int, prm *ssa.Parameter) (ssa.Value, bool) {
	if level <= 0 || level > len(ch.calls) {
		return nil, false
	}
	c := ch.calls[level-1]
	for _, t := range c13CallTargets(c) {
		if t.fn != ch.funcs[level] {
			continue
		}
		for i, q := range t.fn.Params {
			if q == prm && i < len(t.args) {
				return t.args[i], true
			}
		}
	}
	return nil, false
}

// c13Origin follows v (a value of funcs[level]) through parameters up the
// chain; it returns the level and the origin value where it stops.
func c13Origin(ch *c13Chain, level int, v ssa.Value) (int, ssa.Value) {
	for i := 0; i < 16; i++ {
		o := originValue(v)
		prm, ok := o.(*ssa.Parameter)
		if !ok {
			// a captured parameter of an enclosing literal/function resolves by itself (originValue)
			return level, o
		}
		if prm.Parent() != ch.funcs[level] {
			// parameter of an enclosing function captured by a literal: find that function's level
			l := ch.levelOf(prm.Parent())
			if l < 0 {
				return level, o
			}
			level = l
		}
		a, ok := c13ArgUp(ch, level, prm)
		if !ok {
			return level, o
		}
		v, level = a, level-1
	}
	return level, v
}

// c13Getter: fn's every return yields (as result 0) a load of one and the
// same field of its receiver / parameter.
func c13Getter(fn *ssa.Function) (c13FieldRef, bool) {
	if fn == nil || len(fn.Blocks) == 0 || fn.Signature.Results().Len() != 1 {
		return c13FieldRef{}, false
	}
	var got c13FieldRef
	n := 0
	for _, ri := range Returns(fn) {
		_, f, ok := c13FieldLoad(originValue(ri.Results[0]))
		if !ok || (n > 0 && f != got) {
			return c13FieldRef{}, false
		}
		got = f
		n++
	}
	for _, b := range fn.Blocks {
		for _, in := range b.Instrs {
			if _, isStore := in.(*ssa.Store); isStore {
				return c13FieldRef{}, false
			}
		}
	}
	return got, n > 0
}

// c13SegmentBad looks, in fn, for an instruction satisfying bad that lies on a
// path from `from` (nil: the function entry) to `to`.
func c13SegmentBad(fn *ssa.Function, from, to ssa.Instruction, bad func(ssa.Instruction) bool) ssa.Instruction {
	var reach map[ssa.Instruction]bool
	if from != nil {
		reach = ReachableFrom(from, nil)
	}
	for _, b := range fn.Blocks {
		for _, in := range b.Instrs {
			if in == to || in == from || !bad(in) {
				continue
			}
			if reach != nil && !reach[in] {
				continue
			}
			if to == nil || ReachableFrom(in, nil)[to] {
				return in
			}
		}
	}
	return nil
}

// c13BetweenBad checks every segment of the chain between position (la, ia) and
// the later position (lb, ib), la <= lb.
func c13BetweenBad(ch *c13Chain, la int, ia ssa.Instruction, lb int, ib ssa.Instruction, bad func(ssa.Instruction) bool) ssa.Instruction {
	if la == lb {
		if x := c13SegmentBad(ch.funcs[la], ia, ib, bad); x != nil {
			return x
		}
		return nil
	}
	if x := c13SegmentBad(ch.funcs[la], ia, ch.instrAt(la), bad); x != nil {
		return x
	}
	for l := la + 1; l < lb; l++ {
		if x := c13SegmentBad(ch.funcs[l], nil, ch.instrAt(l), bad); x != nil {
			return x
		}
	}
	return c13SegmentBad(ch.funcs[lb], nil, ib, bad)
}

type c13UpdateSite struct {
	call *ssa.Call
	ev   ssa.Value
	disc bool
}

func ruleGRollback(p *Program, r *Reporter) {
	const rel = "pkg/blobserver/diskpacked"
	const rule = "G-rollback"
	r.Floor(rule, 3)
	// the property's entry point; everything else is located by role in its effective body
	entry := p.Func(rel, "storage", "ReceiveBlob")

	// (1) the index update after the data write: sorted.KeyValue.Set
	sets := c13Down(entry, 4, func(c CallSite) bool {
		return c.Common().IsInvoke() && c.MethodName() == "Set" && c.Value() != nil && strings.HasSuffix(typeKey(c.RecvType()), "sorted.KeyValue")
	})
	if len(sets) == 0 {
		brokenf("anchor unresolved: no sorted.KeyValue.Set in the effective body of diskpacked.(*storage).ReceiveBlob")
	}
	fs := sets[0].at.Fn // the function that updates the index (today: append)
	fk := FuncKey(TopFunc(fs))
	// update sites: the Set call, and - when the update is wrapped - the calls of
	// wrappers that succeed only if the Set succeeded
	updates := map[*ssa.Function][]c13UpdateSite{}
	var addUpdate func(call *ssa.Call, depth int)
	addUpdate = func(call *ssa.Call, depth int) {
		ev, _, disc := ErrValue(call)
		fn := call.Parent()
		updates[fn] = append(updates[fn], c13UpdateSite{call, ev, disc})
		if depth >= 3 || fn.Parent() != nil || fn == entry || disc || ev == nil || ErrResultIndex(fn) < 0 {
			return
		}
		for _, nr := range MaybeNilErrorReturns(fn) {
			if sameOrigin(nr.Val, ev) {
				continue
			}
			at := nr.From.Instrs[len(nr.From.Instrs)-1]
			if ok, _ := SuccessDominates(call, at); !ok {
				return // fn may report success although the update failed or did not run
			}
		}
		for _, cs := range p.StaticCallers(fn) {
			if cs.Value() != nil && TopFunc(cs.Fn).Pkg == fn.Pkg {
				addUpdate(cs.Value(), depth+1)
			}
		}
	}
	for _, s := range sets {
		addUpdate(s.at.Value(), 0)
	}
	// failing(in): in lies where some index update of its function is known to have failed
	failing := func(in ssa.Instruction) bool {
		for _, u := range updates[in.Parent()] {
			if u.ev == nil || u.disc {
				continue
			}
			if k, isNil := NilFact(in.Block(), u.ev); k && !isNil {
				return true
			}
		}
		return false
	}

	// (2) the undo: Seek/Truncate on an *os.File whose offset is a capture, i.e.
	// the value a size-tracking field had before the append advanced it
	fileOps := c13Down(entry, 5, func(c CallSite) bool {
		return (c.IsStatic("os", "File", "Truncate") || c.IsStatic("os", "File", "Seek")) && !c.IsDefer() && !c.IsGo()
	})
	// fields stored in the effective body of the entry point ("advanced by the append path")
	stored := map[c13FieldRef]bool{}
	var bodyFns []*ssa.Function
	seenFn := map[*ssa.Function]bool{}
	for _, ch := range c13Down(entry, 5, func(CallSite) bool { return true }) {
		for _, f := range ch.funcs {
			if !seenFn[f] {
				seenFn[f] = true
				bodyFns = append(bodyFns, f)
			}
		}
	}
	for _, f := range bodyFns {
		for _, b := range f.Blocks {
			for _, in := range b.Instrs {
				if st, ok := in.(*ssa.Store); ok {
					if fr, ok := c13FieldOfAddr(st.Addr); ok {
						stored[fr] = true
					}
				}
			}
		}
	}
	writerCache := map[c13FieldRef]map[*ssa.Function]bool{}
	writersOf := func(f c13FieldRef) map[*ssa.Function]bool {
		if w, ok := writerCache[f]; ok {
			return w
		}
		w := fieldWriters(p, RelPkg(f.owner.Obj().Pkg()), f.owner.Obj().Name(), f.name())
		writerCache[f] = w
		return w
	}
	// mayWrite(f): instruction stores to field f or runs a function that (transitively) does
	mayWrite := func(f c13FieldRef) func(ssa.Instruction) bool {
		w := writersOf(f)
		return func(in ssa.Instruction) bool {
			switch x := in.(type) {
			case *ssa.Store:
				fr, ok := c13FieldOfAddr(x.Addr)
				return ok && fr == f
			case ssa.CallInstruction:
				c := CallSite{in.Parent(), x}
				if g := c.Callee(); g != nil && w[g] {
					return true
				}
				for _, t := range c13CallTargets(c) {
					if w[t.fn] {
						return true
					}
				}
			}
			return false
		}
	}

	nUndo, goodTrunc := 0, 0
	truncOnFailure := false
	var firstTrunc *c13Chain
	for i := range fileOps {
		ch := &fileOps[i]
		u := ch.at
		bottom := len(ch.calls)
		// offset: through parameters up the chain to a field load or a getter call
		lvl, o := c13Origin(ch, bottom, u.Args()[1])
		var capAt ssa.Instruction
		var sizeF c13FieldRef
		if ld, f, ok := c13FieldLoad(o); ok {
			capAt, sizeF = ld, f
		} else if call, ok := o.(*ssa.Call); ok {
			if g := call.Call.StaticCallee(); g != nil && TopFunc(g).Pkg == TopFunc(entry).Pkg {
				if f, ok := c13Getter(g); ok {
					capAt, sizeF = call, f
				}
			}
		}
		if capAt != nil {
			// a value captured by a literal resolves in the function that declares the variable
			lvl = ch.levelOf(capAt.Parent())
		}
		if capAt == nil || !stored[sizeF] || lvl < 0 {
			continue // not an undo: the offset is not the remembered value of a field the append advances
		}
		nUndo++
		construct := fk + "#" + u.MethodName()
		site := p.Pos(u.Pos())
		// (2a) the capture predates every advance of that field on the way down the chain
		sizeWrite := mayWrite(sizeF)
		if x := c13BetweenBad(ch, 0, nil, lvl, capAt, sizeWrite); x != nil {
			r.Violation(rule, construct, site, fmt.Sprintf("the offset this %s rewinds to is read from %s at line %d, after the append already advanced it (line %d): the rollback leaves the first bytes of the failed append (the blob header) in the pack",
				u.MethodName(), sizeF.name(), p.Fset.Position(capAt.Pos()).Line, p.Fset.Position(x.Pos()).Line))
			continue
		}
		// (2b) the file: the receiver, through parameters, is a load of a file field;
		// no (transitive) writer of that field between the capture and that load / the undo
		flvl, fo := c13Origin(ch, bottom, u.Args()[0])
		fld, fileF, ok := c13FieldLoad(fo)
		if ok {
			flvl = ch.levelOf(fld.Parent())
		}
		if !ok || flvl < 0 {
			r.Undecided(rule, construct, site, "the file this undo acts on is not read from a field of the storage: cannot tell whether it is the pack file the offset was captured from")
			continue
		}
		fileWrite := mayWrite(fileF)
		var bad ssa.Instruction
		// order the two reads along the chain
		capFirst := lvl < flvl || (lvl == flvl && !(ReachableFrom(fld, nil)[capAt] && !ReachableFrom(capAt, nil)[fld]))
		if capFirst {
			bad = c13BetweenBad(ch, lvl, capAt, flvl, fld, fileWrite)
		} else {
			bad = c13BetweenBad(ch, flvl, fld, lvl, capAt, fileWrite)
		}
		if bad == nil {
			// from the later of the two reads down to the undo call itself
			l0, i0 := flvl, ssa.Instruction(fld)
			if !capFirst {
				l0, i0 = lvl, capAt
			}
			bad = c13BetweenBad(ch, l0, i0, bottom, u.Instr, fileWrite)
		}
		msg := ""
		if bad != nil {
			what := "an instruction"
			if ci, ok := bad.(ssa.CallInstruction); ok {
				what = (CallSite{bad.Parent(), ci}).CalleeKey()
			}
			msg = fmt.Sprintf("%s (line %d) may replace s.%s between the capture of the undo offset and the undo at line %d: the rollback would act on a different pack file",
				what, p.Fset.Position(bad.Pos()).Line, fileF.name(), p.Fset.Position(u.Pos()).Line)
		}
		if u.IsStatic("os", "File", "Truncate") {
			// (2c) a rollback to the old end of file may only run where the append fails:
			// at the nearest level of the chain that returns an error, every exit
			// reachable from the undo reports one
			if msg == "" {
				decided := false
				for l := bottom; l >= 0 && !decided; l-- {
					f := ch.funcs[l]
					if f.Parent() != nil || ErrResultIndex(f) < 0 {
						continue
					}
					decided = true
					maybeNil := map[ssa.Instruction]bool{}
					for _, nr := range MaybeNilErrorReturns(f) {
						maybeNil[nr.Ret] = true
					}
					for _, x := range LeakingExits(PathQuery{Start: ch.instrAt(l), Stop: func(ssa.Instruction) bool { return false }, IgnorePanics: true}) {
						if maybeNil[x.Exit] {
							msg = fmt.Sprintf("after this Truncate back to the pre-append offset, %s can still return a nil error (line %d): an acknowledged blob's bytes are cut off the pack",
								FuncKey(f), p.Fset.Position(x.Exit.Pos()).Line)
						}
					}
				}
				if !decided {
					msg = "no function on the call path of this Truncate returns an error: cannot tell that the rollback runs only for a failing append"
				}
			}
			if msg == "" {
				goodTrunc++
				if firstTrunc == nil {
					firstTrunc = ch
				}
				for l := 0; l <= bottom; l++ {
					if failing(ch.instrAt(l)) {
						truncOnFailure = true
					}
				}
			}
		}
		r.Check(msg == "", rule, construct, site,
			"offset captured before the append advances s."+sizeF.name()+"; no (transitive) writer of s."+fileF.name()+" lies on any path between the capture and this undo call (helpers followed)", msg)
	}
	if goodTrunc == 0 {
		r.Violation(rule, fk+"#undo", p.Pos(fs.Pos()),
			"append no longer seeks/truncates back to an offset captured from s.size before writing: a failed index update would leave the blob bytes in the pack")
		return
	}
	site := p.Pos(sets[0].at.Pos())
	r.Check(truncOnFailure, rule, fk+"#undo-on-index-failure", site,
		"the truncate undo is reached on the err!=nil edge of the index update (index.Set, or a wrapper that succeeds only if Set did)",
		"no truncate undo lies on the failure edge of the index update: a failed index.Set leaves the unindexed blob bytes in the pack")
	r.Analysed("rollback_undo_calls", nUndo)
}

// ---------------------------------------------------------------------------
// G-tmp is implemented with C03's F-order(iii) (rules_c03.go: ruleGTmpImpl).

func ruleGTmp(p *Program, r *Reporter) { ruleGTmpImpl(p, r, "G-tmp") }

// ---------------------------------------------------------------------------
// G-errval (contradiction rule)

// errvalExceptions: results documented as usable together with a non-nil error.
var errvalExceptions = map[string]string{
	"pkg/sorted.NewKeyValue": "returns a usable store together with NeedWipeError by contract",
	"iface:github.com/aws/aws-sdk-go/service/s3/s3iface.S3API.GetObjectWithContext": "aws-sdk-go request methods always return a non-nil output struct, also with an error",
	"github.com/rwcarlsen/goexif/exif.Decode":                                       "goexif returns a usable *Exif together with non-critical errors; FileTime filters critical ones with IsCriticalError first",
}

var scopeErrval = []string{"pkg/blobserver", "pkg/sorted", "pkg/index", "pkg/schema", "pkg/server", "pkg/search", "pkg/jsonsign", "pkg/blob"}

func ruleGErrval(p *Program, r *Reporter) {
	n := 0
	for _, fn := range p.FuncsUnder(scopeErrval...) {
		if IsTestSupportPkg(RelPkg(fn.Pkg.Pkg)) {
			continue
		}
		for _, c := range CallsIn(fn, false) {
			call := c.Value()
			if call == nil {
				continue
			}
			res := call.Call.Signature().Results()
			if res.Len() < 2 || !isErrorType(res.At(res.Len()-1).Type()) {
				continue
			}
			ev, _, discarded := ErrValue(call)
			if discarded || ev == nil {
				continue // `v, _ := f()`: the author asserts it cannot fail; no contradiction to find
			}
			if why, ok := errvalExceptions[c.CalleeKey()]; ok {
				_ = why
				continue
			}
			for i := 0; i < res.Len()-1; i++ {
				if !isNilable(res.At(i).Type()) {
					continue
				}
				v := ResultValue(call, i)
				if v == nil {
					continue
				}
				uses := derefUses(v)
				if len(uses) == 0 {
					continue
				}
				construct := FuncKey(fn) + "#" + c.CalleeKey() + "#result" + fmt.Sprint(i)
				bad := ""
				var badPos token.Pos
				for _, use := range uses {
					n++
					blk := use.Block()
					if k, isNil := NilFact(blk, ev); k && isNil {
						continue // on the err==nil edge
					}
					if k, isNil := NilFact(blk, v); k && !isNil {
						continue // v != nil was tested
					}
					if positivePredicateOn(blk, ev) {
						continue // e.g. `if errors.Is(err, errX) { v.fix() }`: the value is used deliberately with that error
					}
					if !errTestedAnywhere(ev) {
						continue // the error is only passed on, never tested here: no belief to contradict
					}
					bad = fmt.Sprintf("result %d of %s is dereferenced at line %d where its co-returned error is not known nil (the error is tested elsewhere in the function, so a failing call reaches this use with a nil/invalid value)",
						i, c.CalleeKey(), p.Fset.Position(use.Pos()).Line)
					badPos = use.Pos()
					break
				}
				if bad != "" {
					r.Violation("G-errval", construct, p.Pos(badPos), bad)
				} else {
					r.OK("G-errval", construct, p.Pos(c.Pos()), fmt.Sprintf("%d dereferencing use(s) all on the err==nil edge, behind a non-nil test, or under a positive error predicate", len(uses)))
				}
			}
		}
	}
	r.Analysed("errval_deref_uses", n)
	r.Floor("G-errval", 100)
}

func isNilable(t types.Type) bool {
	switch t.Underlying().(type) {
	case *types.Pointer, *types.Interface:
		return true
	}
	return false
}

// derefUses lists instructions that dereference v: method calls with v as
// receiver (interface invoke or pointer-receiver call), field access, load.
func derefUses(v ssa.Value) []ssa.Instruction {
	var out []ssa.Instruction
	refs := v.Referrers()
	if refs == nil {
		return nil
	}
	for _, u := range *refs {
		switch x := u.(type) {
		case *ssa.Call:
			cc := x.Common()
			if cc.IsInvoke() && cc.Value == v {
				out = append(out, x)
			} else if f := cc.StaticCallee(); f != nil && f.Signature.Recv() != nil && len(cc.Args) > 0 && cc.Args[0] == v {
				if usesReceiver(f) {
					out = append(out, x)
				}
			}
		case *ssa.FieldAddr:
			if x.X == v {
				out = append(out, x)
			}
		case *ssa.UnOp:
			if x.Op == token.MUL && x.X == v {
				out = append(out, x)
			}
		}
	}
	return out
}

// errTestedAnywhere reports whether some branch in the function tests ev
// (directly against nil or through a predicate call such as os.IsNotExist).
func errTestedAnywhere(ev ssa.Value) bool {
	refs := ev.Referrers()
	if refs == nil {
		return false
	}
	for _, u := range *refs {
		switch x := u.(type) {
		case *ssa.BinOp:
			if x.Op == token.EQL || x.Op == token.NEQ {
				return true
			}
		case *ssa.Call:
			// predicate on the error: IsNotExist(err), errors.Is(err, ...)
			if t, ok := x.Type().(*types.Basic); ok && t.Kind() == types.Bool {
				return true
			}
		}
	}
	return false
}

// positivePredicateOn: a boolean call taking ev as an argument is known true at blk.
func positivePredicateOn(blk *ssa.BasicBlock, ev ssa.Value) bool {
	k, val, _ := BoolCallFact(blk, func(c CallSite) bool {
		for _, a := range c.Common().Args {
			if sameOrigin(a, ev) {
				return true
			}
		}
		return false
	})
	return k && val
}

// usesReceiver reports whether a method touches its receiver at all (a method
// such as `func (fr *FileReader) Close() error { return nil }` is nil-safe).
func usesReceiver(f *ssa.Function) bool {
	if len(f.Params) == 0 || f.Blocks == nil {
		return true
	}
	refs := f.Params[0].Referrers()
	if refs == nil {
		return false
	}
	return len(nonDebug(*refs)) > 0
}

func sameBlockBeforeTest(use ssa.Instruction, ev ssa.Value) bool { return false }

// ---------------------------------------------------------------------------
// G-chan

// c13ChanFlow follows one channel (made at mk) through the effective body of
// the function that makes it: literals (captured variables), static calls, go
// statements and spawner arguments that pass it on as an argument (the
// callee's parameter then stands for the channel), and - one level up - the
// callers of a function that returns it.
type c13ChanFlow struct {
	mk      *ssa.MakeChan
	alias   map[ssa.Value]bool          // parameters / call results that stand for the channel
	funcs   map[*ssa.Function]bool      // functions examined
	order   []*ssa.Function             // deterministic iteration order
	callers map[*ssa.Function][]c13Edge // how a non-literal function of the flow is entered
}

type c13Edge struct {
	site  CallSite
	async bool
}

func (cf *c13ChanFlow) is(v ssa.Value) bool {
	o := originValue(v)
	return o == ssa.Value(cf.mk) || cf.alias[o]
}

func (cf *c13ChanFlow) addFunc(f *ssa.Function) bool {
	if f == nil || len(f.Blocks) == 0 || cf.funcs[f] {
		return false
	}
	cf.funcs[f] = true
	cf.order = append(cf.order, f)
	for _, a := range f.AnonFuncs {
		cf.addFunc(a)
	}
	return true
}

func c13FollowChan(p *Program, top *ssa.Function, mk *ssa.MakeChan) *c13ChanFlow {
	cf := &c13ChanFlow{mk: mk, alias: map[ssa.Value]bool{}, funcs: map[*ssa.Function]bool{}, callers: map[*ssa.Function][]c13Edge{}}
	cf.addFunc(top)
	seenEdge := map[ssa.Instruction]map[*ssa.Function]bool{}
	for round := 0; round < 6; round++ {
		changed := false
		for i := 0; i < len(cf.order); i++ {
			f := cf.order[i]
			// a function that returns the channel: its static callers see it as the call's value
			if f.Parent() == nil {
				for _, ri := range Returns(f) {
					for ridx, res := range ri.Results {
						if !cf.is(res) {
							continue
						}
						for _, cs := range p.StaticCallers(f) {
							call := cs.Value()
							if call == nil {
								continue
							}
							if v := ResultValue(call, ridx); v != nil && !cf.alias[v] {
								cf.alias[v] = true
								cf.addFunc(TopFunc(cs.Fn))
								changed = true
							}
						}
					}
				}
			}
			for _, c := range CallsIn(f, false) {
				for _, t := range c13CallTargets(c) {
					if !InModule(TopFunc(t.fn)) {
						continue
					}
					passes := false
					for j, a := range t.args {
						if j < len(t.fn.Params) && cf.is(a) {
							if !cf.alias[t.fn.Params[j]] {
								cf.alias[t.fn.Params[j]] = true
								changed = true
							}
							passes = true
						}
					}
					if t.fn.Parent() == nil && (passes || cf.funcs[t.fn]) {
						if cf.addFunc(t.fn) {
							changed = true
						}
						if seenEdge[c.Instr] == nil {
							seenEdge[c.Instr] = map[*ssa.Function]bool{}
						}
						if !seenEdge[c.Instr][t.fn] {
							seenEdge[c.Instr][t.fn] = true
							cf.callers[t.fn] = append(cf.callers[t.fn], c13Edge{c, t.async})
						}
					}
				}
			}
		}
		if !changed {
			break
		}
	}
	return cf
}

// spawnRoots: the goroutines in which function f (of the flow) may run - each
// as the function started asynchronously plus whether that start sits in a
// loop. Empty when f only ever runs in the goroutine of the channel's maker.
func (cf *c13ChanFlow) spawnRoots(f *ssa.Function, depth int, out map[*ssa.Function]bool) {
	if f == nil || depth > 8 {
		return
	}
	if f.Parent() != nil {
		par := f.Parent()
		for _, c := range CallsIn(par, false) {
			for _, t := range c13CallTargets(c) {
				if t.fn == f && t.async {
					out[f] = out[f] || cf.manyStarts(c)
					return
				}
			}
		}
		// called, deferred or passed as a callback: runs with its parent
		cf.spawnRoots(par, depth+1, out)
		return
	}
	for _, e := range cf.callers[f] {
		if e.async {
			out[f] = out[f] || cf.manyStarts(e.site)
			continue
		}
		cf.spawnRoots(e.site.Fn, depth+1, out)
	}
}

// manyStarts: the asynchronous start at c may run several times for ONE
// channel: it sits in a loop, unless the channel is made afresh in every
// iteration of that same loop.
func (cf *c13ChanFlow) manyStarts(c CallSite) bool {
	b := c.Block()
	if !inLoop(b) {
		return false
	}
	if cf.mk.Parent() != c.Fn {
		return true
	}
	// is there a cycle through b that does not pass the make?
	mb := cf.mk.Block()
	if mb == b {
		return false
	}
	seen := map[*ssa.BasicBlock]bool{mb: true}
	var walk func(x *ssa.BasicBlock) bool
	walk = func(x *ssa.BasicBlock) bool {
		for _, s := range x.Succs {
			if s == b {
				return true
			}
			if !seen[s] {
				seen[s] = true
				if walk(s) {
					return true
				}
			}
		}
		return false
	}
	return walk(b)
}

// joinedBefore: a join (Wait/Err of a group) precedes instruction in within its
// function, or - for a function entered by synchronous calls only - precedes
// every such call.
func (cf *c13ChanFlow) joinedBefore(in ssa.Instruction, depth int) bool {
	f := in.Parent()
	for _, c := range CallsIn(f, false) {
		if isJoin(c) && !c.IsGo() && !c.IsDefer() && Precedes(c.Instr, in) {
			return true
		}
	}
	if depth > 4 {
		return false
	}
	if f.Parent() != nil {
		// a literal called in place (not spawned, not deferred): the join may precede the call
		par := f.Parent()
		for _, c := range CallsIn(par, false) {
			if c.IsGo() || c.IsDefer() || c.Value() == nil {
				continue
			}
			if c.Callee() == f {
				return cf.joinedBefore(c.Instr, depth+1)
			}
		}
		return false
	}
	edges := cf.callers[f]
	if len(edges) == 0 {
		return false
	}
	for _, e := range edges {
		if e.async || e.site.IsDefer() || !cf.joinedBefore(e.site.Instr, depth+1) {
			return false
		}
	}
	return true
}

func ruleGChan(p *Program, r *Reporter) {
	n := 0
	for _, fn := range p.FuncsUnder(scopeC13...) {
		if fn.Parent() != nil || IsTestSupportPkg(RelPkg(fn.Pkg.Pkg)) {
			continue
		}
		var makes []*ssa.MakeChan
		var collect func(f *ssa.Function)
		collect = func(f *ssa.Function) {
			for _, b := range f.Blocks {
				for _, in := range b.Instrs {
					if mc, ok := in.(*ssa.MakeChan); ok {
						makes = append(makes, mc)
					}
				}
			}
			for _, a := range f.AnonFuncs {
				collect(a)
			}
		}
		collect(fn)
		for _, mc := range makes {
			cf := c13FollowChan(p, fn, mc)
			roots := map[*ssa.Function]bool{} // sender goroutine -> started in a loop
			var closes []CallSite
			for _, f := range cf.order {
				for _, b := range f.Blocks {
					for _, in := range b.Instrs {
						switch x := in.(type) {
						case *ssa.Send:
							if cf.is(x.Chan) {
								cf.spawnRoots(f, 0, roots)
							}
						case *ssa.Select:
							for _, st := range x.States {
								if st.Dir == types.SendOnly && cf.is(st.Chan) {
									cf.spawnRoots(f, 0, roots)
								}
							}
						case ssa.CallInstruction:
							c := CallSite{f, x}
							if b, ok := c.Common().Value.(*ssa.Builtin); ok && b.Name() == "close" && cf.is(c.Common().Args[0]) {
								closes = append(closes, c)
							}
						}
					}
				}
			}
			multi := len(roots) >= 2
			for _, loop := range roots {
				if loop {
					multi = true
				}
			}
			if !multi || len(closes) == 0 {
				continue
			}
			for _, cl := range closes {
				n++
				construct := FuncKey(fn) + "#" + chanName(mc)
				ok := !cl.IsGo() && cf.joinedBefore(cl.Instr, 0)
				if !ok && cl.IsDefer() {
					// `defer close(ch)` runs at the function's exits: every path from the
					// defer to an exit must pass a join
					ok = len(LeakingExits(PathQuery{Start: cl.Instr, IgnorePanics: true, Stop: func(in ssa.Instruction) bool {
						ci, isCall := in.(ssa.CallInstruction)
						if !isCall {
							return false
						}
						j := CallSite{in.Parent(), ci}
						return isJoin(j) && !j.IsGo() && !j.IsDefer()
					}})) == 0
				}
				r.Check(ok, "G-chan", construct, p.Pos(cl.Pos()),
					"channel with several sender goroutines is closed only after a join (Wait/Err) of the group that runs them",
					fmt.Sprintf("close(%s) is not preceded by a join of the sender goroutines: a sender still running panics with 'send on closed channel'", chanName(mc)))
			}
		}
	}
	r.Analysed("multi_sender_channel_closes", n)
	r.Floor("G-chan", 1)
}

func chanName(mc *ssa.MakeChan) string {
	if refs := mc.Referrers(); refs != nil {
		for _, u := range *refs {
			if st, ok := u.(*ssa.Store); ok {
				if al, ok := st.Addr.(*ssa.Alloc); ok && al.Comment != "" {
					return al.Comment
				}
			}
		}
	}
	return "chan"
}

func isJoin(c CallSite) bool {
	return c.IsStatic("sync", "WaitGroup", "Wait") || c.IsStatic("go4.org/syncutil", "Group", "Wait") ||
		c.IsStatic("go4.org/syncutil", "Group", "Err") || c.IsStatic("golang.org/x/sync/errgroup", "Group", "Wait")
}
