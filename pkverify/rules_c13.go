package main

import (
	"fmt"
	"go/token"
	"go/types"
	"strings"

	"golang.org/x/tools/go/ssa"
)

func init() {
	register(&PropSpec{
		ID:    "C13",
		Title: "A transient lower-layer failure fails one call and nothing else",
		Explanation: "Decided (structural necessary conditions): G-gate — every syncutil.Gate slot taken in the storage, sorted-KV, schema, index and server packages is released on every CFG path (call, defer, or hand-over to a goroutine all of whose paths release), through acquiring/releasing wrappers; G-lock — every sync.Mutex/RWMutex Lock/RLock in those packages is unlocked on every path; G-rollback — in diskpacked.append no (transitive) writer of s.writer lies between the capture of the undo offset and the undo; G-tmp — files.ReceiveBlob registers the temp-file cleanup before any later return; G-errval — in the storage packages a pointer/interface co-returned with an error is used only where that error is known nil; G-chan — a channel with several sender goroutines is closed only after all senders joined; G-enum — enumerators close their channel on every path (rule E-close, shared with C01); G-recover — what a store's own recovery procedure reads is destroyed only after its replacement is durable, on every path including the error edges of the look-ups and uploads in between (rules X-compact of C11, Z-order of C04, D-dele-order/D-destroy/F-destroy of C03, shared). " +
			"NOT decided: bounded completion time, agreement with the reference map after the fault, success of recovery procedures, any concrete fault schedule.",
		RuleDocs: map[string]string{
			"G-gate":     "H4 pairing over every (*syncutil.Gate).Start call (and acquiring wrappers) in pkg/blobserver/..., pkg/sorted/..., pkg/schema, pkg/index, pkg/server: all paths to exits pass Done on the same gate (by access path), a deferred Done, or a spawned closure that releases on all its paths",
			"G-lock":     "H4 pairing over every Lock/RLock on sync.Mutex/RWMutex in the same packages",
			"G-rollback": "typestate: between capture of origOffset and the Seek/Truncate undo in diskpacked.(*storage).append no call may (transitively) assign s.writer",
			"G-recover":  "shared obligations of C11 X-compact, C04 Z-order, C03 D-dele-order/D-destroy/F-destroy: the data a store's own recovery procedure reads (small meta blobs, loose blobs, pack extents, final blob files) is destroyed only after its replacement is durable and only by the removal entry points, on every path including error edges",
			"G-tmp":      "files.(*Storage).ReceiveBlob: after TempFile succeeds, a deferred cleanup that removes the temp file unless a success flag is set is registered before any further return",
			"G-errval":   "contradiction rule: a pointer/interface result co-returned with an error is dereferenced only where the error is known nil",
			"G-chan":     "a channel with >=2 sender goroutines is closed only after joining all senders",
		},
		Run:       runC13,
		DesignRef: "DESIGN.md §4 C13",
		Technique: "static analysis: CFG path pairing (acquire/release) over go/ssa, typestate and dominance rules, contradiction rule on error-co-returned values",
		LevelText: "Decides structural necessary conditions only: every gate slot and mutex taken in the storage/KV/schema/index/server packages is released on every CFG path; the diskpacked rollback acts on the file its offset was captured from; temp-file cleanup is registered before later returns; values co-returned with an error are not dereferenced on error paths; multi-sender channels are closed only after the senders joined. Does not decide timing, post-fault agreement with the reference map, or success of recovery.",
	})
}

// scopeC13 lists the packages whose resources C13 is about.
var scopeC13 = []string{"pkg/blobserver", "pkg/sorted", "pkg/schema", "pkg/index", "pkg/server", "pkg/search"}

var gateSpec = &PairSpec{
	Rule: "G-gate",
	Acquire: func(c CallSite) (string, bool) {
		if c.IsStatic("go4.org/syncutil", "Gate", "Start") {
			return AccessPath(c.Args()[0]), true
		}
		return "", false
	},
	Release: func(c CallSite) (string, bool) {
		if c.IsStatic("go4.org/syncutil", "Gate", "Done") {
			return AccessPath(c.Args()[0]), true
		}
		return "", false
	},
}

// gateHolders are functions that deliberately return holding a gate slot,
// each with the place the slot is released. The named release functions are
// re-checked structurally on every run.
var gateHolders = map[string]struct {
	reason    string
	releaseIn [][3]string // functions (pkg, recv, name) that must contain a Gate.Done
}{
	"pkg/sorted/sqlkv.(*KeyValue).beginTx": {
		"slot is held for the life of the transaction; released by batchTx commit/close",
		[][3]string{{"pkg/sorted/sqlkv", "KeyValue", "CommitBatch"}, {"pkg/sorted/sqlkv", "batchTx", "Close"}},
	},
	"pkg/sorted/sqlkv.(*KeyValue).Find": {
		"slot is held for the life of the iterator; released by iter.Close",
		[][3]string{{"pkg/sorted/sqlkv", "KeyValue", "Find"}, {"pkg/sorted/sqlkv", "iter", "Close"}},
	},
}

func runC13(p *Program, r *Reporter) {
	fns := p.FuncsUnder(scopeC13...)
	r.Analysed("functions", len(fns))
	ruleGGate(p, r, fns)
	ruleGLock(p, r, fns)
	ruleGRollback(p, r)
	ruleGTmp(p, r)
	ruleGErrval(p, r)
	ruleGChan(p, r)
	ruleEClose(p, r, "G-enum")
	ruleGRecover(p, r)
}

// ruleGRecover reports, under C13, the rules of C03/C04/C11 that decide "what a
// store can be rebuilt from is destroyed only after its replacement is durable,
// on every path - error edges included": a transient failure (an index read
// error, a failed upload, a failed commit) between the two must fail that call
// only and must not take away the only record of an acknowledged blob. The
// obligations are the originals (same analysis, same constructs, prefixed with
// the rule they come from); they are shared, not re-implemented, like
// E-close/G-enum.
func ruleGRecover(p *Program, r *Reporter) {
	const rule = "G-recover"
	floor := 0
	share := func(from string, want map[string]bool, run func(sub *Reporter)) {
		sub := NewReporter(from, p)
		run(sub)
		for _, o := range sub.Obls {
			if !want[o.Rule] {
				continue
			}
			r.add(rule, o.Rule+":"+o.Construct, o.Site, o.Status, o.Nontrivial, o.Detail)
		}
		for k := range want {
			floor += sub.floors[k]
		}
	}
	// encrypt: small meta blobs are removed only after the packed meta blob that
	// holds every one of their rows was stored (also on index look-up failures)
	share("C11", map[string]bool{"X-compact": true}, func(sub *Reporter) { c11RuleCompact(p, sub, c11BuildFlow(p)) })
	// blobpacked: loose blobs are removed only after the zip and its meta rows are committed
	share("C04", map[string]bool{"Z-order": true}, func(sub *Reporter) { c04ZOrder(p, sub, c04RowWriters(p, sub)) })
	// diskpacked/files: who may destroy bytes of a pack / a final blob file, and in which order
	share("C03", map[string]bool{"D-dele-order": true, "D-destroy": true, "F-destroy": true}, func(sub *Reporter) {
		c03RuleDDeleOrder(p, sub)
		dm := c03GetDestroyModel(p)
		c03RuleFDestroy(p, sub, dm)
		c03RuleDDestroy(p, sub, dm)
	})
	r.Floor(rule, floor)
}

func ruleGGate(p *Program, r *Reporter, fns []*ssa.Function) {
	ps := gateSpec
	sums := ps.Summarize(fns)
	// extended classifiers including wrappers (bound 1)
	acq := func(c CallSite) (string, bool) {
		if pth, ok := ps.Acquire(c); ok {
			return pth, true
		}
		if f := c.Callee(); f != nil {
			if _, holder := gateHolders[FuncKey(f)]; holder {
				return "", false // the returned object owns the slot (see gateHolders)
			}
			if s := sums[f]; s != nil && len(s.Acquires) == 1 {
				return TranslatePath(c, f, s.Acquires[0])
			}
		}
		return "", false
	}
	rel := func(c CallSite) (string, bool) {
		if pth, ok := ps.Release(c); ok {
			return pth, true
		}
		if f := c.Callee(); f != nil {
			if s := sums[f]; s != nil && len(s.Releases) == 1 {
				return TranslatePath(c, f, s.Releases[0])
			}
		}
		return "", false
	}
	ext := &PairSpec{Rule: ps.Rule, Acquire: acq, Release: rel}
	n := 0
	for _, fn := range fns {
		if IsTestSupportPkg(RelPkg(fn.Pkg.Pkg)) {
			continue
		}
		for _, c := range CallsIn(fn, false) {
			path, ok := acq(c)
			if !ok || c.IsDefer() || c.IsGo() {
				continue
			}
			n++
			construct := FuncKey(fn) + "#" + path
			site := p.Pos(c.Pos())
			// acquiring wrapper: obligation moves to its callers (already enumerated through acq)
			if s := sums[fn]; s != nil && len(s.Acquires) > 0 && fn.Parent() == nil {
				if h, isHolder := gateHolders[FuncKey(fn)]; isHolder {
					// cross-function holder: verify the named release sites exist
					okAll := true
					bad := "cross-function holder but the recorded release function no longer releases a gate: " + h.reason
					for _, rf := range h.releaseIn {
						f := p.LookupFunc(rf[0], rf[1], rf[2])
						found := false
						if f != nil {
							found = mentionsGateDone(f) || callsField(f, "releaseGate")
						}
						if !found {
							okAll = false
							continue
						}
						// the release function must release on EVERY path (assuming a gate is configured),
						// unless it is the acquiring function itself (which hands the release over)
						if f == fn {
							continue
						}
						if leaks := holderReleaseLeaks(f); len(leaks) > 0 {
							okAll = false
							bad = fmt.Sprintf("the slot taken here is to be released by %s, but that function has %d path(s) that return without releasing the gate (first: exit at line %d): a failed %s leaks the slot for good",
								FuncKey(f), len(leaks), p.Fset.Position(leaks[0].Exit.Pos()).Line, fn.Name())
						}
					}
					r.Check(okAll, "G-gate", construct, site,
						"cross-function holder ("+h.reason+"); every recorded release function releases the gate on all its paths", bad)
					continue
				}
				if isParamRooted(fn, path) {
					r.OK("G-gate", construct, site, "acquiring wrapper: obligation checked at each caller")
					continue
				}
			}
			if drainIdiom(c) {
				r.OK("G-gate", construct, site, "drains all tokens of a function-local gate to join workers (capacity constant matches loop bound)")
				continue
			}
			okp, detail := ext.CheckAcquire(c, path, nil)
			r.Check(okp, "G-gate", construct, site, detail, detail)
		}
	}
	r.Analysed("gate_start_sites", n)
	r.Floor("G-gate", 20)
}

func isParamRooted(fn *ssa.Function, path string) bool {
	for _, prm := range fn.Params {
		if path == prm.Name() || strings.HasPrefix(path, prm.Name()+".") {
			return true
		}
	}
	return false
}

// drainIdiom recognises `for range N { g.Start() }` on a gate created in the
// same function by syncutil.NewGate(N).
func drainIdiom(c CallSite) bool {
	recv := originValue(c.Args()[0])
	mk, ok := recv.(*ssa.Call)
	if !ok || !(CallSite{mk.Parent(), mk}).IsStatic("go4.org/syncutil", "", "NewGate") {
		return false
	}
	if TopFunc(mk.Parent()) != TopFunc(c.Fn) || c.Fn != mk.Parent() {
		return false
	}
	capN, ok := ConstInt(mk.Call.Args[0])
	if !ok {
		return false
	}
	// the Start must sit in a loop body whose controlling comparison is against the same constant
	b := c.Block()
	for _, f := range FactsAt(b) {
		if bo, ok := f.Cond.(*ssa.BinOp); ok && bo.Op == token.LSS && f.Val {
			if n, ok := ConstInt(bo.Y); ok && n == capN && inLoop(b) {
				return true
			}
		}
	}
	return false
}

// ---------------------------------------------------------------------------
// G-lock

func mutexOp(c CallSite) (kind, path string, ok bool) {
	for _, m := range []string{"Lock", "Unlock", "RLock", "RUnlock"} {
		if c.IsStatic("sync", "Mutex", m) || c.IsStatic("sync", "RWMutex", m) {
			return m, AccessPath(c.Args()[0]), true
		}
	}
	return "", "", false
}

var lockSpec = &PairSpec{
	Rule: "G-lock",
	Acquire: func(c CallSite) (string, bool) {
		k, p, ok := mutexOp(c)
		if !ok {
			return "", false
		}
		switch k {
		case "Lock":
			return "W|" + p, true
		case "RLock":
			return "R|" + p, true
		}
		return "", false
	},
	Release: func(c CallSite) (string, bool) {
		k, p, ok := mutexOp(c)
		if !ok {
			return "", false
		}
		switch k {
		case "Unlock":
			return "W|" + p, true
		case "RUnlock":
			return "R|" + p, true
		}
		return "", false
	},
}

// lockHolders are functions that deliberately return with a lock held.
var lockHolders = map[string]string{}

func ruleGLock(p *Program, r *Reporter, fns []*ssa.Function) {
	ps := lockSpec
	sums := ps.Summarize(fns)
	acq := func(c CallSite) (string, bool) {
		if pth, ok := ps.Acquire(c); ok {
			return pth, true
		}
		if f := c.Callee(); f != nil {
			if s := sums[f]; s != nil && len(s.Acquires) == 1 && isLockWrapper(f) {
				return TranslatePath(c, f, s.Acquires[0])
			}
		}
		return "", false
	}
	rel := func(c CallSite) (string, bool) {
		if pth, ok := ps.Release(c); ok {
			return pth, true
		}
		if f := c.Callee(); f != nil {
			if s := sums[f]; s != nil && len(s.Releases) == 1 && isLockWrapper(f) {
				return TranslatePath(c, f, s.Releases[0])
			}
		}
		return "", false
	}
	ext := &PairSpec{Rule: ps.Rule, Acquire: acq, Release: rel}
	n := 0
	for _, fn := range fns {
		if IsTestSupportPkg(RelPkg(fn.Pkg.Pkg)) {
			continue
		}
		for _, c := range CallsIn(fn, false) {
			path, ok := acq(c)
			if !ok || c.IsDefer() || c.IsGo() {
				continue
			}
			n++
			construct := FuncKey(fn) + "#" + path
			site := p.Pos(c.Pos())
			if fn.Parent() == nil && isLockWrapper(fn) {
				if s := sums[fn]; s != nil && len(s.Acquires) > 0 {
					r.OK("G-lock", construct, site, "acquiring wrapper (single-statement Lock method): obligation checked at each caller")
					continue
				}
			}
			if why, ok := lockHolders[FuncKey(fn)]; ok {
				r.OKTable("G-lock", construct, site, "exception: "+why)
				continue
			}
			if barrierLockIdiom(c) {
				r.OK("G-lock", construct, site, "function-local mutex locked immediately before return as a barrier (frame-local, cannot be contended after return)")
				continue
			}
			okp, detail := ext.CheckAcquire(c, path, nil)
			r.Check(okp, "G-lock", construct, site, detail, detail)
		}
	}
	r.Analysed("lock_sites", n)
	r.Floor("G-lock", 100)
}

// barrierLockIdiom: Lock on a mutex declared in the same top-level function,
// directly followed (same block, no intervening call) by return.
func barrierLockIdiom(c CallSite) bool {
	cell, ok := varOf(c.Args()[0])
	if !ok {
		return false
	}
	al, ok := cell.(*ssa.Alloc)
	if !ok || TopFunc(al.Parent()) != TopFunc(c.Fn) {
		return false
	}
	b := c.Block()
	if _, ok := b.Instrs[len(b.Instrs)-1].(*ssa.Return); !ok {
		return false
	}
	for _, in := range b.Instrs[instrIndex(c.Instr)+1:] {
		if _, isCall := in.(ssa.CallInstruction); isCall {
			return false
		}
	}
	return true
}

// isLockWrapper: a method whose whole body is one Lock/Unlock call on a field
// of its receiver (e.g. (*index.Index).RLock).
func isLockWrapper(fn *ssa.Function) bool {
	if fn.Signature.Recv() == nil || len(fn.Blocks) != 1 {
		return false
	}
	calls := CallsIn(fn, false)
	if len(calls) != 1 {
		return false
	}
	_, _, ok := mutexOp(calls[0])
	return ok
}

// holderReleaseLeaks explores every path of a holder's release function
// (CommitBatch, batchTx.Close, iter.Close) from entry, assuming a gate is
// configured (`x.Gate != nil`, `t.releaseGate != nil` are true), and returns
// the exits reached without a (deferred) Gate.Done or a call of the
// release-closure field.
func holderReleaseLeaks(f *ssa.Function) []Leak {
	isGateish := func(v ssa.Value) bool {
		t := v.Type()
		if IsNamed(t, "go4.org/syncutil", "Gate") {
			return true
		}
		if _, ok := t.Underlying().(*types.Signature); ok {
			if u, ok := v.(*ssa.UnOp); ok && u.Op == token.MUL {
				if fa, ok := u.X.(*ssa.FieldAddr); ok && fieldName(fa.X.Type(), fa.Field) == "releaseGate" {
					return true
				}
			}
		}
		return false
	}
	assume := func(cond ssa.Value) (bool, bool) {
		bo, ok := cond.(*ssa.BinOp)
		if !ok || (bo.Op != token.NEQ && bo.Op != token.EQL) {
			return false, false
		}
		var other ssa.Value
		if IsNilConst(bo.Y) {
			other = bo.X
		} else if IsNilConst(bo.X) {
			other = bo.Y
		}
		if other != nil && isGateish(other) {
			return true, bo.Op == token.NEQ
		}
		return false, false
	}
	stop := func(in ssa.Instruction) bool {
		ci, ok := in.(ssa.CallInstruction)
		if !ok {
			return false
		}
		c := CallSite{f, ci}
		if c.IsStatic("go4.org/syncutil", "Gate", "Done") {
			return true
		}
		cc := c.Common()
		if !cc.IsInvoke() {
			if u, ok := cc.Value.(*ssa.UnOp); ok && u.Op == token.MUL {
				if fa, ok := u.X.(*ssa.FieldAddr); ok && fieldName(fa.X.Type(), fa.Field) == "releaseGate" {
					return true
				}
			}
		}
		return false
	}
	first := f.Blocks[0].Instrs[0]
	if stop(first) {
		return nil
	}
	return LeakingExits(PathQuery{Start: first, Stop: stop, Assume: assume, IgnorePanics: true})
}

// mentionsGateDone reports whether fn (deep) calls (*Gate).Done or takes it as
// a bound method value (once.Do(g.Done)).
func mentionsGateDone(fn *ssa.Function) bool {
	found := false
	var walk func(f *ssa.Function)
	walk = func(f *ssa.Function) {
		for _, b := range f.Blocks {
			for _, in := range b.Instrs {
				switch x := in.(type) {
				case ssa.CallInstruction:
					if (CallSite{f, x}).IsStatic("go4.org/syncutil", "Gate", "Done") {
						found = true
					}
				case *ssa.MakeClosure:
					if bf, ok := x.Fn.(*ssa.Function); ok && strings.HasPrefix(bf.Synthetic, "bound method wrapper") && strings.Contains(bf.Name(), "Done") && strings.Contains(bf.String(), "syncutil.Gate") {
						found = true
					}
				}
			}
		}
		for _, a := range f.AnonFuncs {
			walk(a)
		}
	}
	walk(fn)
	return found
}

// callsField reports whether fn calls a func-typed struct field named name.
func callsField(fn *ssa.Function, name string) bool {
	for _, c := range CallsIn(fn, true) {
		cc := c.Common()
		if cc.IsInvoke() {
			continue
		}
		if u, ok := cc.Value.(*ssa.UnOp); ok && u.Op == token.MUL {
			if fa, ok := u.X.(*ssa.FieldAddr); ok && fieldName(fa.X.Type(), fa.Field) == name {
				return true
			}
		}
	}
	return false
}

// ---------------------------------------------------------------------------
// G-rollback (typestate)

// fieldWriters returns the functions of package rel that may (transitively,
// through static calls inside the package) store to field fld of struct type
// typeName.
func fieldWriters(p *Program, rel, typeName, fld string) map[*ssa.Function]bool {
	fns := p.FuncsIn(rel)
	direct := map[*ssa.Function]bool{}
	for _, fn := range fns {
		for _, b := range fn.Blocks {
			for _, in := range b.Instrs {
				st, ok := in.(*ssa.Store)
				if !ok {
					continue
				}
				fa, ok := st.Addr.(*ssa.FieldAddr)
				if !ok {
					continue
				}
				if n := NamedOf(fa.X.Type()); n != nil && n.Obj().Name() == typeName && RelPkg(n.Obj().Pkg()) == rel && fieldName(fa.X.Type(), fa.Field) == fld {
					direct[fn] = true
				}
			}
		}
	}
	// transitive closure over static callees within the package
	changed := true
	for changed {
		changed = false
		for _, fn := range fns {
			if direct[fn] {
				continue
			}
			for _, c := range CallsIn(fn, true) {
				if f := c.Callee(); f != nil && direct[f] {
					direct[fn] = true
					changed = true
					break
				}
			}
		}
	}
	return direct
}

func ruleGRollback(p *Program, r *Reporter) {
	const rel = "pkg/blobserver/diskpacked"
	fn := p.Func(rel, "storage", "append")
	writers := fieldWriters(p, rel, "storage", "writer")
	// undo calls: (*os.File).Truncate / Seek whose offset argument is a value
	// loaded from s.size (the captured original offset)
	var undo []CallSite
	var capture ssa.Instruction
	for _, c := range CallsIn(fn, false) {
		if !(c.IsStatic("os", "File", "Truncate") || c.IsStatic("os", "File", "Seek")) {
			continue
		}
		off := originValue(c.Args()[1])
		ld, ok := off.(*ssa.UnOp)
		if !ok || ld.Op != token.MUL {
			continue
		}
		fa, ok := ld.X.(*ssa.FieldAddr)
		if !ok || fieldName(fa.X.Type(), fa.Field) != "size" {
			continue
		}
		undo = append(undo, c)
		capture = ld
	}
	if len(undo) == 0 || capture == nil {
		r.Violation("G-rollback", FuncKey(fn)+"#undo", p.Pos(fn.Pos()),
			"append no longer seeks/truncates back to an offset captured from s.size before writing: a failed index update would leave the blob bytes in the pack")
		r.Floor("G-rollback", 1)
		return
	}
	after := ReachableFrom(capture, nil)
	n := 0
	for _, u := range undo {
		n++
		bad := ""
		for _, c := range CallsIn(fn, false) {
			if !after[c.Instr] || c.Instr == u.Instr {
				continue
			}
			f := c.Callee()
			if f == nil || !writers[f] {
				continue
			}
			// is the undo reachable after this call?
			if ReachableFrom(c.Instr, nil)[u.Instr] {
				bad = fmt.Sprintf("%s (line %d) may replace s.writer between the capture of the undo offset and the undo at line %d: the rollback would act on a different pack file",
					FuncKey(f), p.Fset.Position(c.Pos()).Line, p.Fset.Position(u.Pos()).Line)
			}
		}
		r.Check(bad == "", "G-rollback", FuncKey(fn)+"#"+u.MethodName(), p.Pos(u.Pos()),
			"no (transitive) writer of s.writer lies on any path between the capture of the offset and this undo call", bad)
	}
	// the undo must be reached on the failure edge of the index update
	var idxSet *ssa.Call
	for _, c := range CallsIn(fn, false) {
		if c.Common().IsInvoke() && c.MethodName() == "Set" && c.Value() != nil && strings.HasSuffix(typeKey(c.RecvType()), "sorted.KeyValue") {
			idxSet = c.Value()
		}
	}
	if idxSet == nil {
		brokenf("anchor unresolved: index.Set call in diskpacked.append")
	}
	ev, _, discarded := ErrValue(idxSet)
	okUndo := !discarded
	for _, u := range undo {
		if c := u; c.IsStatic("os", "File", "Truncate") {
			k, isNil := NilFact(c.Block(), ev)
			if !(k && !isNil) {
				okUndo = false
			}
		}
	}
	r.Check(okUndo, "G-rollback", FuncKey(fn)+"#undo-on-index-failure", p.Pos(idxSet.Pos()),
		"the truncate undo is on the err!=nil edge of index.Set", "the truncate undo is not (only) on the failure edge of index.Set")
	r.Floor("G-rollback", 3)
}

// ---------------------------------------------------------------------------
// G-tmp is implemented with C03's F-order(iii) (rules_c03.go: ruleGTmpImpl).

func ruleGTmp(p *Program, r *Reporter) { ruleGTmpImpl(p, r, "G-tmp") }

// ---------------------------------------------------------------------------
// G-errval (contradiction rule)

// errvalExceptions: results documented as usable together with a non-nil error.
var errvalExceptions = map[string]string{
	"pkg/sorted.NewKeyValue": "returns a usable store together with NeedWipeError by contract",
	"iface:github.com/aws/aws-sdk-go/service/s3/s3iface.S3API.GetObjectWithContext": "aws-sdk-go request methods always return a non-nil output struct, also with an error",
	"github.com/rwcarlsen/goexif/exif.Decode":                                        "goexif returns a usable *Exif together with non-critical errors; FileTime filters critical ones with IsCriticalError first",
}

var scopeErrval = []string{"pkg/blobserver", "pkg/sorted", "pkg/index", "pkg/schema", "pkg/server", "pkg/search", "pkg/jsonsign", "pkg/blob"}

func ruleGErrval(p *Program, r *Reporter) {
	n := 0
	for _, fn := range p.FuncsUnder(scopeErrval...) {
		if IsTestSupportPkg(RelPkg(fn.Pkg.Pkg)) {
			continue
		}
		for _, c := range CallsIn(fn, false) {
			call := c.Value()
			if call == nil {
				continue
			}
			res := call.Call.Signature().Results()
			if res.Len() < 2 || !isErrorType(res.At(res.Len()-1).Type()) {
				continue
			}
			ev, _, discarded := ErrValue(call)
			if discarded || ev == nil {
				continue // `v, _ := f()`: the author asserts it cannot fail; no contradiction to find
			}
			if why, ok := errvalExceptions[c.CalleeKey()]; ok {
				_ = why
				continue
			}
			for i := 0; i < res.Len()-1; i++ {
				if !isNilable(res.At(i).Type()) {
					continue
				}
				v := ResultValue(call, i)
				if v == nil {
					continue
				}
				uses := derefUses(v)
				if len(uses) == 0 {
					continue
				}
				construct := FuncKey(fn) + "#" + c.CalleeKey() + "#result" + fmt.Sprint(i)
				bad := ""
				var badPos token.Pos
				for _, use := range uses {
					n++
					blk := use.Block()
					if k, isNil := NilFact(blk, ev); k && isNil {
						continue // on the err==nil edge
					}
					if k, isNil := NilFact(blk, v); k && !isNil {
						continue // v != nil was tested
					}
					if positivePredicateOn(blk, ev) {
						continue // e.g. `if errors.Is(err, errX) { v.fix() }`: the value is used deliberately with that error
					}
					if !errTestedAnywhere(ev) {
						continue // the error is only passed on, never tested here: no belief to contradict
					}
					bad = fmt.Sprintf("result %d of %s is dereferenced at line %d where its co-returned error is not known nil (the error is tested elsewhere in the function, so a failing call reaches this use with a nil/invalid value)",
						i, c.CalleeKey(), p.Fset.Position(use.Pos()).Line)
					badPos = use.Pos()
					break
				}
				if bad != "" {
					r.Violation("G-errval", construct, p.Pos(badPos), bad)
				} else {
					r.OK("G-errval", construct, p.Pos(c.Pos()), fmt.Sprintf("%d dereferencing use(s) all on the err==nil edge, behind a non-nil test, or under a positive error predicate", len(uses)))
				}
			}
		}
	}
	r.Analysed("errval_deref_uses", n)
	r.Floor("G-errval", 100)
}

func isNilable(t types.Type) bool {
	switch t.Underlying().(type) {
	case *types.Pointer, *types.Interface:
		return true
	}
	return false
}

// derefUses lists instructions that dereference v: method calls with v as
// receiver (interface invoke or pointer-receiver call), field access, load.
func derefUses(v ssa.Value) []ssa.Instruction {
	var out []ssa.Instruction
	refs := v.Referrers()
	if refs == nil {
		return nil
	}
	for _, u := range *refs {
		switch x := u.(type) {
		case *ssa.Call:
			cc := x.Common()
			if cc.IsInvoke() && cc.Value == v {
				out = append(out, x)
			} else if f := cc.StaticCallee(); f != nil && f.Signature.Recv() != nil && len(cc.Args) > 0 && cc.Args[0] == v {
				if usesReceiver(f) {
					out = append(out, x)
				}
			}
		case *ssa.FieldAddr:
			if x.X == v {
				out = append(out, x)
			}
		case *ssa.UnOp:
			if x.Op == token.MUL && x.X == v {
				out = append(out, x)
			}
		}
	}
	return out
}

// errTestedAnywhere reports whether some branch in the function tests ev
// (directly against nil or through a predicate call such as os.IsNotExist).
func errTestedAnywhere(ev ssa.Value) bool {
	refs := ev.Referrers()
	if refs == nil {
		return false
	}
	for _, u := range *refs {
		switch x := u.(type) {
		case *ssa.BinOp:
			if x.Op == token.EQL || x.Op == token.NEQ {
				return true
			}
		case *ssa.Call:
			// predicate on the error: IsNotExist(err), errors.Is(err, ...)
			if t, ok := x.Type().(*types.Basic); ok && t.Kind() == types.Bool {
				return true
			}
		}
	}
	return false
}

// positivePredicateOn: a boolean call taking ev as an argument is known true at blk.
func positivePredicateOn(blk *ssa.BasicBlock, ev ssa.Value) bool {
	k, val, _ := BoolCallFact(blk, func(c CallSite) bool {
		for _, a := range c.Common().Args {
			if sameOrigin(a, ev) {
				return true
			}
		}
		return false
	})
	return k && val
}

// usesReceiver reports whether a method touches its receiver at all (a method
// such as `func (fr *FileReader) Close() error { return nil }` is nil-safe).
func usesReceiver(f *ssa.Function) bool {
	if len(f.Params) == 0 || f.Blocks == nil {
		return true
	}
	refs := f.Params[0].Referrers()
	if refs == nil {
		return false
	}
	return len(nonDebug(*refs)) > 0
}

func sameBlockBeforeTest(use ssa.Instruction, ev ssa.Value) bool { return false }

// ---------------------------------------------------------------------------
// G-chan

func ruleGChan(p *Program, r *Reporter) {
	n := 0
	for _, fn := range p.FuncsUnder(scopeC13...) {
		if fn.Parent() != nil || IsTestSupportPkg(RelPkg(fn.Pkg.Pkg)) {
			continue
		}
		// channels made in this function (or its literals)
		var makes []*ssa.MakeChan
		var all []*ssa.Function
		var collect func(f *ssa.Function)
		collect = func(f *ssa.Function) {
			all = append(all, f)
			for _, b := range f.Blocks {
				for _, in := range b.Instrs {
					if mc, ok := in.(*ssa.MakeChan); ok {
						makes = append(makes, mc)
					}
				}
			}
			for _, a := range f.AnonFuncs {
				collect(a)
			}
		}
		collect(fn)
		for _, mc := range makes {
			// senders: literals spawned asynchronously that send on mc
			senders := map[*ssa.Function]bool{}
			multi := false
			var closes []CallSite
			for _, f := range all {
				for _, b := range f.Blocks {
					for _, in := range b.Instrs {
						switch x := in.(type) {
						case *ssa.Send:
							if originValue(x.Chan) == ssa.Value(mc) {
								if sp, loop := spawnedAncestor(f); sp != nil {
									senders[sp] = true
									if loop {
										multi = true
									}
								}
							}
						case *ssa.Select:
							for _, st := range x.States {
								if st.Dir == types.SendOnly && originValue(st.Chan) == ssa.Value(mc) {
									if sp, loop := spawnedAncestor(f); sp != nil {
										senders[sp] = true
										if loop {
											multi = true
										}
									}
								}
							}
						case ssa.CallInstruction:
							c := CallSite{f, x}
							if b, ok := c.Common().Value.(*ssa.Builtin); ok && b.Name() == "close" && originValue(c.Common().Args[0]) == ssa.Value(mc) {
								closes = append(closes, c)
							}
						}
					}
				}
			}
			if len(senders) >= 2 {
				multi = true
			}
			if !multi || len(closes) == 0 {
				continue
			}
			for _, cl := range closes {
				n++
				construct := FuncKey(fn) + "#" + chanName(mc)
				ok := false
				// close preceded by a join in the same function/literal
				for _, c := range CallsIn(cl.Fn, false) {
					if isJoin(c) && Precedes(c.Instr, cl.Instr) {
						ok = true
					}
				}
				// a literal reached only through a call that is itself preceded by a join is not followed (bound 0)
				r.Check(ok, "G-chan", construct, p.Pos(cl.Pos()),
					"channel with several sender goroutines is closed only after a join (Wait/Err) of the group that runs them",
					fmt.Sprintf("close(%s) is not preceded by a join of the sender goroutines: a sender still running panics with 'send on closed channel'", chanName(mc)))
			}
		}
	}
	r.Analysed("multi_sender_channel_closes", n)
	r.Floor("G-chan", 1)
}

func chanName(mc *ssa.MakeChan) string {
	if refs := mc.Referrers(); refs != nil {
		for _, u := range *refs {
			if st, ok := u.(*ssa.Store); ok {
				if al, ok := st.Addr.(*ssa.Alloc); ok && al.Comment != "" {
					return al.Comment
				}
			}
			if d, ok := u.(*ssa.DebugRef); ok {
				_ = d
			}
		}
	}
	return "chan"
}

func isJoin(c CallSite) bool {
	return c.IsStatic("sync", "WaitGroup", "Wait") || c.IsStatic("go4.org/syncutil", "Group", "Wait") ||
		c.IsStatic("go4.org/syncutil", "Group", "Err") || c.IsStatic("golang.org/x/sync/errgroup", "Group", "Wait")
}

// spawnedAncestor returns the nearest enclosing literal of f (or f itself)
// that is started asynchronously, and whether that spawn happens inside a loop.
func spawnedAncestor(f *ssa.Function) (*ssa.Function, bool) {
	for cur := f; cur != nil && cur.Parent() != nil; cur = cur.Parent() {
		par := cur.Parent()
		for _, c := range CallsIn(par, false) {
			for _, sp := range spawnedClosures(c) {
				if sp == cur {
					return cur, inLoop(c.Block())
				}
			}
		}
	}
	return nil, false
}
