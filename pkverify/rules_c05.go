package main

import (
	"fmt"
	"go/constant"
	"go/token"
	"go/types"
	"sort"
	"strings"

	"golang.org/x/tools/go/ssa"
)

func init() {
	register(&PropSpec{
		ID:    "C05",
		Title: "The index is a function of the set of blobs, not of their arrival order (bookkeeping obligations only)",
		Explanation: "Decided (structural necessary conditions for 'a blob whose dependencies have not arrived is remembered, not dropped'): " +
			"I-pending — every success return of (*Index).ReceiveBlob is one of: already-indexed shortcut (the have: row read back ends in the same '|indexed' suffix the writer uses), missing-dependency return (preceded by a loop of noteNeeded calls over the fetcher's recorded misses, no failed noteNeeded/commit/addBlob can reach a success return, the miss list is known non-empty), or indexed-now return (commit of the populated mutation map succeeded, then noteBlobIndexedLocked and removeAllMissingEdges of the same ref); populateMutationMap writes the '|indexed' suffix only where the populate error is known not to be errMissingDep; noteNeededLocked reports success only after the missing| row was stored and both in-memory maps were updated with the right key/value roles. " +
			"I-miss — every `return errMissingDep` in pkg/index is justified by a recorded miss (a successful noteNeeded of the same function, or allErrNotExist()==true on a trackErrorsFetcher wrapping the function's own missTrackFetcher), and missTrackFetcher.Fetch appends the ref on every NotExist path. " +
			"I-wg — every reindexWg.Add(1) is followed on all paths by a go of a function that Dones the same WaitGroup on all its paths, indexReadyBlobs is only ever started that way and re-queues blobs whose re-index failed; every successful getNewPendingBlobIndex is paired with MarkDone on all exits, MarkDone always unregisters and wakes waiters; Reindex joins its workers, then reindexWg, before it reads needs/readyReindex or returns success. " +
			"I-open — index.New reloads needs/neededBy (initNeededMapsLocked ok) before every success return, except under aboutToReindex, which is only set where a successful Wipe precedes New; the reload parses the missing| key in the order noteNeededLocked writes it. " +
			"I-recent — noteBlobIndexedLocked always records the ref in recentDone and never removes a blob from needs without queueing it in readyReindex; recentDone is cleared only when no indexing is pending and after the sweep that re-notes recently done dependencies; getNewPendingBlobIndex registers what it returns. " +
			"NOT decided: confluence of the index rows under reordering/interleaving, equality with a full reindex, liveness of the out-of-order queue (a ready blob whose re-index fails, or a restart between a dependency's indexing and its dependants' re-index, is only remembered in memory/rows, never retried by itself), correctness of what is written to the rows, behaviour of any concrete schedule.",
		RuleDocs: map[string]string{
			"I-pending": "classifies every maybe-nil-error return of (*Index).ReceiveBlob (dominance + phi-aware path exploration from the failure edges of noteNeeded*/commit/addBlob); have: row suffix writer/reader agreement and errMissingDep guard in populateMutationMap; persistence and key roles in noteNeededLocked/noteNeededMemoryLocked",
			"I-miss":    "enumerates every return of the errMissingDep sentinel in pkg/index and demands a recorded miss; missTrackFetcher.Fetch records on every NotExist path",
			"I-wg":      "pairing of reindexWg.Add with go+Done, of getNewPendingBlobIndex with MarkDone, MarkDone's unconditional unregister/close, Reindex's join order, re-queue of failed out-of-order blobs",
			"I-open":    "index.New success returns dominated by initNeededMapsLocked success (exception: aboutToReindex, re-checked: set only before a successful Wipe that precedes New); reload loop and key-part order agreement",
			"I-recent":  "recentDone/readyReindex/pending map discipline in noteBlobIndexedLocked, MarkDone and getNewPendingBlobIndex",
		},
		Run:       runC05,
		DesignRef: "DESIGN.md §4 C05",
		Technique: "static analysis: dominance facts and phi-aware CFG path exploration over go/ssa, acquire/release pairing, writer/reader constant agreement",
		LevelText: "Decides only the bookkeeping obligations without which an out-of-order blob would be dropped instead of remembered (success returns of ReceiveBlob, justification of errMissingDep, WaitGroup/pending pairing, reload of the needs maps at start-up, recentDone discipline). Does not decide that the index is independent of arrival order, equals a full reindex, or that the out-of-order queue ever drains (level 'other').",
	})
}

const c05Pkg = "pkg/index"
const c05PkgPath = "perkeep.org/pkg/index"

func runC05(p *Program, r *Reporter) {
	fns := p.FuncsIn(c05Pkg)
	r.Analysed("functions", len(fns))
	c05RulePending(p, r)
	c05RuleMiss(p, r)
	c05RuleWg(p, r)
	c05RuleOpen(p, r)
	c05RuleRecent(p, r)
}

// ---------------------------------------------------------------------------
// General helpers (c05-prefixed; candidates for helpers.go)

// c05Explorer enumerates CFG paths like LeakingExits, but additionally tracks
// the value of boolean phis along the path (so that a flag such as
// `allRecorded` set to false on one edge is known false when tested later),
// evaluates constant conditions, and nil tests of values whose nil-ness the
// caller asserts.
type c05Explorer struct {
	NonNil       []ssa.Value
	Nil          []ssa.Value
	Assume       func(cond ssa.Value) (known, val bool)
	Stop         func(in ssa.Instruction) bool // obligation met: the path ends fine
	Fail         func(in ssa.Instruction) bool // reaching this instruction is a leak
	ExitOK       func(in ssa.Instruction) bool // acceptable Return / Panic
	IgnorePanics bool
}

type c05Leak struct {
	At  ssa.Instruction
	Via []*ssa.BasicBlock
}

func c05IsBool(t types.Type) bool {
	b, ok := t.Underlying().(*types.Basic)
	return ok && b.Info()&types.IsBoolean != 0
}

func (e *c05Explorer) cond(c ssa.Value, env map[*ssa.Phi]bool) (known, val bool) {
	switch x := c.(type) {
	case *ssa.Const:
		if x.Value != nil && x.Value.Kind() == constant.Bool {
			return true, constant.BoolVal(x.Value)
		}
	case *ssa.Phi:
		if v, ok := env[x]; ok {
			return true, v
		}
	case *ssa.UnOp:
		if x.Op == token.NOT {
			k, v := e.cond(x.X, env)
			return k, !v
		}
	}
	for _, v := range e.NonNil {
		if k, isNil := condSaysNil(c, true, v); k {
			return true, !isNil
		}
	}
	for _, v := range e.Nil {
		if k, isNil := condSaysNil(c, true, v); k {
			return true, isNil
		}
	}
	if e.Assume != nil {
		return e.Assume(c)
	}
	return false, false
}

func c05EnvKey(env map[*ssa.Phi]bool) string {
	var s []string
	for ph, v := range env {
		s = append(s, fmt.Sprintf("%s=%v", ph.Name(), v))
	}
	sort.Strings(s)
	return strings.Join(s, ",")
}

func (e *c05Explorer) run(b *ssa.BasicBlock, idx int, pred *ssa.BasicBlock) []c05Leak {
	var leaks []c05Leak
	seen := map[string]bool{}
	var walk func(b *ssa.BasicBlock, idx int, pred *ssa.BasicBlock, env map[*ssa.Phi]bool, via []*ssa.BasicBlock)
	walk = func(b *ssa.BasicBlock, idx int, pred *ssa.BasicBlock, env map[*ssa.Phi]bool, via []*ssa.BasicBlock) {
		nenv := env
		if pred != nil {
			nenv = map[*ssa.Phi]bool{}
			for k, v := range env {
				nenv[k] = v
			}
			pi := -1
			for i, pp := range b.Preds {
				if pp == pred {
					pi = i
					break
				}
			}
			for _, in := range b.Instrs {
				ph, ok := in.(*ssa.Phi)
				if !ok {
					break
				}
				delete(nenv, ph)
				if pi < 0 || !c05IsBool(ph.Type()) {
					continue
				}
				if k, v := e.cond(ph.Edges[pi], env); k { // old env: phis are simultaneous
					nenv[ph] = v
				}
			}
		}
		key := fmt.Sprintf("%d@%d|%s", b.Index, idx, c05EnvKey(nenv))
		if seen[key] {
			return
		}
		seen[key] = true
		via = append(via[:len(via):len(via)], b)
		for i := idx; i < len(b.Instrs); i++ {
			in := b.Instrs[i]
			if e.Fail != nil && e.Fail(in) {
				leaks = append(leaks, c05Leak{in, via})
				return
			}
			if e.Stop != nil && e.Stop(in) {
				return
			}
			switch t := in.(type) {
			case *ssa.Return:
				if e.ExitOK == nil || !e.ExitOK(t) {
					leaks = append(leaks, c05Leak{t, via})
				}
				return
			case *ssa.Panic:
				if !e.IgnorePanics && (e.ExitOK == nil || !e.ExitOK(t)) {
					leaks = append(leaks, c05Leak{t, via})
				}
				return
			case *ssa.If:
				if k, v := e.cond(t.Cond, nenv); k {
					s := b.Succs[1]
					if v {
						s = b.Succs[0]
					}
					walk(s, 0, b, nenv, via)
					return
				}
			}
		}
		for _, s := range b.Succs {
			walk(s, 0, b, nenv, via)
		}
	}
	walk(b, idx, pred, map[*ssa.Phi]bool{}, nil)
	return leaks
}

// After explores the paths starting right after instruction in.
func (e *c05Explorer) After(in ssa.Instruction) []c05Leak {
	return e.run(in.Block(), instrIndex(in)+1, nil)
}

// FromEntry explores the paths from the first instruction of fn (inclusive).
func (e *c05Explorer) FromEntry(fn *ssa.Function) []c05Leak {
	return e.run(fn.Blocks[0], 0, nil)
}

// OnEdge explores the paths that start by taking the CFG edge pred->succ.
func (e *c05Explorer) OnEdge(pred, succ *ssa.BasicBlock) []c05Leak {
	return e.run(succ, 0, pred)
}

func c05DescribeLeaks(p *Program, leaks []c05Leak) string {
	var s []string
	for i, l := range leaks {
		if i == 3 {
			s = append(s, "…")
			break
		}
		what := "exit"
		if _, ok := l.At.(*ssa.Return); !ok {
			what = "instruction"
		}
		line := p.Fset.Position(l.At.Pos()).Line
		if line == 0 && len(l.Via) > 0 {
			for _, in := range l.At.Block().Instrs {
				if in.Pos().IsValid() {
					line = p.Fset.Position(in.Pos()).Line
				}
			}
		}
		s = append(s, fmt.Sprintf("%s near line %d via blocks %s", what, line, blockNames(l.Via)))
	}
	return strings.Join(s, "; ")
}

// c05Edge is one CFG edge.
type c05Edge struct{ From, To *ssa.BasicBlock }

// c05FailureEdges returns the CFG edges on which the error result of call is
// known non-nil (the "failure edges" of the branches that test it).
func c05FailureEdges(call *ssa.Call) (ev ssa.Value, edges []c05Edge) {
	ev, hasErr, discarded := ErrValue(call)
	if !hasErr || discarded || ev == nil {
		return ev, nil
	}
	for _, b := range call.Parent().Blocks {
		if len(b.Instrs) == 0 || len(b.Succs) != 2 {
			continue
		}
		ifi, ok := b.Instrs[len(b.Instrs)-1].(*ssa.If)
		if !ok {
			continue
		}
		if k, isNil := condSaysNil(ifi.Cond, true, ev); k {
			if isNil {
				edges = append(edges, c05Edge{b, b.Succs[1]})
			} else {
				edges = append(edges, c05Edge{b, b.Succs[0]})
			}
		}
	}
	return ev, edges
}

// c05FieldOf reports whether addr is &X.field for a struct type named
// typeName declared in pkg/index, returning X.
func c05FieldOf(addr ssa.Value, typeName, field string) (base ssa.Value, ok bool) {
	fa, isFA := addr.(*ssa.FieldAddr)
	if !isFA {
		return nil, false
	}
	n := NamedOf(fa.X.Type())
	if n == nil || n.Obj().Name() != typeName || n.Obj().Pkg() == nil || n.Obj().Pkg().Path() != c05PkgPath {
		return nil, false
	}
	if fieldName(fa.X.Type(), fa.Field) != field {
		return nil, false
	}
	return fa.X, true
}

// c05LoadOfField reports whether v is a load of X.field (see c05FieldOf).
func c05LoadOfField(v ssa.Value, typeName, field string) (base ssa.Value, ok bool) {
	u, isU := v.(*ssa.UnOp)
	if !isU || u.Op != token.MUL {
		if o := originValue(v); o != v {
			return c05LoadOfField(o, typeName, field)
		}
		return nil, false
	}
	return c05FieldOf(u.X, typeName, field)
}

// c05GlobalLoad reports whether v is a load of the package-level variable
// pkgPath.name.
func c05GlobalLoad(v ssa.Value, pkgPath, name string) bool {
	u, ok := originValue(v).(*ssa.UnOp)
	if !ok || u.Op != token.MUL {
		return false
	}
	g, ok := u.X.(*ssa.Global)
	return ok && g.Name() == name && g.Pkg != nil && g.Pkg.Pkg.Path() == pkgPath
}

func c05IsBuiltin(c CallSite, name string) bool {
	b, ok := c.Common().Value.(*ssa.Builtin)
	return ok && b.Name() == name
}

// c05MapWrite is one write into a map-typed field: m[k] = v or mak.Set(&x.f, k, v).
type c05MapWrite struct {
	Instr    ssa.Instruction
	Base     ssa.Value // the struct the field belongs to
	Key, Val ssa.Value
}

// c05FieldMapWrites lists the writes in fn (not nested literals) into the map
// field typeName.field.
func c05FieldMapWrites(fn *ssa.Function, typeName, field string) []c05MapWrite {
	var out []c05MapWrite
	for _, b := range fn.Blocks {
		for _, in := range b.Instrs {
			switch x := in.(type) {
			case *ssa.MapUpdate:
				if base, ok := c05LoadOfField(x.Map, typeName, field); ok {
					out = append(out, c05MapWrite{x, base, x.Key, x.Value})
				}
			case ssa.CallInstruction:
				c := CallSite{fn, x}
				if c05IsGenericFunc(c.Callee(), "tailscale.com/util/mak", "Set") && len(c.Common().Args) == 3 {
					if base, ok := c05FieldOf(c.Common().Args[0], typeName, field); ok {
						out = append(out, c05MapWrite{x, base, c.Common().Args[1], c.Common().Args[2]})
					}
				}
			}
		}
	}
	return out
}

// c05IsGenericFunc matches an instantiation of the generic package function
// pkgPath.name (funcIs compares the instance's bracketed name).
func c05IsGenericFunc(f *ssa.Function, pkgPath, name string) bool {
	if f == nil {
		return false
	}
	if o := f.Origin(); o != nil {
		f = o
	}
	return f.Name() == name && f.Pkg != nil && f.Pkg.Pkg.Path() == pkgPath && f.Signature.Recv() == nil
}

// c05FieldMapBuiltin lists calls of builtin name (delete, clear, len) in fn whose
// first argument is a load of typeName.field.
func c05FieldMapBuiltin(fn *ssa.Function, builtin, typeName, field string) []CallSite {
	var out []CallSite
	for _, c := range CallsIn(fn, false) {
		if !c05IsBuiltin(c, builtin) || len(c.Common().Args) == 0 {
			continue
		}
		if _, ok := c05LoadOfField(c.Common().Args[0], typeName, field); ok {
			out = append(out, c)
		}
	}
	return out
}

// c05CallsTo lists the call instructions of fn (not nested) whose static callee is callee.
func c05CallsTo(fn, callee *ssa.Function) []CallSite {
	return FindCalls(fn, false, func(c CallSite) bool { return c.Callee() == callee })
}

// c05VarargElems returns the values stored, in order, into the backing array of
// a variadic argument slice built at the call site (nil when not such a slice).
func c05VarargElems(v ssa.Value) []ssa.Value {
	sl, ok := v.(*ssa.Slice)
	if !ok {
		return nil
	}
	al, ok := sl.X.(*ssa.Alloc)
	if !ok || al.Referrers() == nil {
		return nil
	}
	elems := map[int64]ssa.Value{}
	var max int64 = -1
	for _, ref := range *al.Referrers() {
		ia, ok := ref.(*ssa.IndexAddr)
		if !ok || ia.Referrers() == nil {
			continue
		}
		idx, ok := ConstInt(ia.Index)
		if !ok {
			return nil
		}
		for _, r2 := range *ia.Referrers() {
			if st, ok := r2.(*ssa.Store); ok && st.Addr == ssa.Value(ia) {
				elems[idx] = st.Val
				if idx > max {
					max = idx
				}
			}
		}
	}
	var out []ssa.Value
	for i := int64(0); i <= max; i++ {
		out = append(out, elems[i])
	}
	return out
}

func c05LenZeroFact(b *ssa.BasicBlock, isSlice func(ssa.Value) bool) (known, empty bool) {
	for _, f := range FactsAt(b) {
		bo, ok := f.Cond.(*ssa.BinOp)
		if !ok {
			continue
		}
		lc, ok := bo.X.(*ssa.Call)
		if !ok || !c05IsBuiltin(CallSite{lc.Parent(), lc}, "len") || !isSlice(lc.Call.Args[0]) {
			continue
		}
		n, ok := ConstInt(bo.Y)
		if !ok || n != 0 {
			continue
		}
		switch bo.Op {
		case token.EQL:
			return true, f.Val
		case token.NEQ, token.GTR:
			return true, !f.Val
		}
	}
	return false, false
}

// c05DependsOn is DependsOn that additionally looks into the elements stored
// into locally allocated arrays/structs (variadic argument packs, composite
// literals), which go/ssa builds with Alloc + IndexAddr/FieldAddr + Store.
func c05DependsOn(v ssa.Value, target func(ssa.Value) bool) bool {
	seen := map[ssa.Value]bool{}
	var walk func(v ssa.Value, depth int) bool
	walk = func(v ssa.Value, depth int) bool {
		if v == nil || seen[v] || depth > 60 {
			return false
		}
		seen[v] = true
		if target(v) {
			return true
		}
		switch x := v.(type) {
		case *ssa.Alloc:
			if x.Referrers() == nil {
				return false
			}
			for _, ref := range *x.Referrers() {
				switch y := ref.(type) {
				case *ssa.Store:
					if y.Addr == ssa.Value(x) && walk(y.Val, depth+1) {
						return true
					}
				case *ssa.IndexAddr, *ssa.FieldAddr:
					for _, r2 := range *y.(ssa.Value).Referrers() {
						if st, ok := r2.(*ssa.Store); ok && st.Addr == y.(ssa.Value) && walk(st.Val, depth+1) {
							return true
						}
					}
				}
			}
			return false
		case *ssa.UnOp:
			if x.Op == token.MUL {
				if cell, ok := varOf(x.X); ok {
					for _, st := range storesTo(cell) {
						if walk(st.Val, depth+1) {
							return true
						}
					}
				}
			}
		}
		if in, ok := v.(ssa.Instruction); ok {
			for _, op := range in.Operands(nil) {
				if *op != nil && walk(*op, depth+1) {
					return true
				}
			}
		}
		return false
	}
	return walk(v, 0)
}

func c05ParamIs(v ssa.Value, fn *ssa.Function, idx int) bool {
	return idx < len(fn.Params) && sameOrigin(v, fn.Params[idx])
}

// ---------------------------------------------------------------------------
// I-pending

// c05MayReturnMissingDep computes the functions of pkg/index that may return
// the errMissingDep sentinel: directly, or (over-approximated) by calling a
// function that does.
func c05MayReturnMissingDep(p *Program) (direct, all map[*ssa.Function]bool) {
	direct, all = map[*ssa.Function]bool{}, map[*ssa.Function]bool{}
	fns := p.FuncsIn(c05Pkg)
	for _, fn := range fns {
		idx := ErrResultIndex(fn)
		if idx < 0 {
			continue
		}
		for _, ri := range Returns(fn) {
			for _, l := range c05Leaves(ri.Results[idx], ri.Ret.Block(), 0) {
				if c05GlobalLoad(l.V, c05PkgPath, "errMissingDep") {
					direct[fn], all[fn] = true, true
				}
			}
		}
	}
	for changed := true; changed; {
		changed = false
		for _, fn := range fns {
			if all[fn] || ErrResultIndex(fn) < 0 {
				continue
			}
			for _, c := range CallsIn(fn, true) {
				if f := c.Callee(); f != nil && all[f] {
					all[fn], changed = true, true
					break
				}
			}
		}
	}
	return
}

type c05Leaf struct {
	V  ssa.Value
	At *ssa.BasicBlock
}

// c05Leaves expands phis: each leaf value with the block in which it is chosen
// (the predecessor contributing the phi edge).
func c05Leaves(v ssa.Value, at *ssa.BasicBlock, depth int) []c05Leaf {
	if ph, ok := v.(*ssa.Phi); ok && depth < 6 {
		var out []c05Leaf
		for i, e := range ph.Edges {
			out = append(out, c05Leaves(e, ph.Block().Preds[i], depth+1)...)
		}
		return out
	}
	return []c05Leaf{{v, at}}
}

// c05NotMissingDep reports whether at block b it is known that one of errs is
// not errMissingDep (errors.Is false, == false, != true, or known nil).
func c05NotMissingDep(b *ssa.BasicBlock, errs []ssa.Value) bool {
	about := func(a ssa.Value) bool {
		for _, e := range errs {
			if sameOrigin(a, e) {
				return true
			}
		}
		return false
	}
	for _, f := range FactsAt(b) {
		cond, val := f.Cond, f.Val
		for {
			if u, ok := cond.(*ssa.UnOp); ok && u.Op == token.NOT {
				cond, val = u.X, !val
				continue
			}
			break
		}
		switch x := cond.(type) {
		case *ssa.Call:
			c := CallSite{x.Parent(), x}
			if c.IsStatic("errors", "", "Is") && about(x.Call.Args[0]) && c05GlobalLoad(x.Call.Args[1], c05PkgPath, "errMissingDep") && !val {
				return true
			}
		case *ssa.BinOp:
			if x.Op != token.EQL && x.Op != token.NEQ {
				continue
			}
			a, g := x.X, x.Y
			if c05GlobalLoad(a, c05PkgPath, "errMissingDep") {
				a, g = g, a
			}
			if c05GlobalLoad(g, c05PkgPath, "errMissingDep") && about(a) && (x.Op == token.EQL) != val {
				return true
			}
		}
	}
	for _, e := range errs {
		if k, isNil := NilFact(b, e); k && isNil {
			return true
		}
	}
	return false
}

// c05MayEndWith classifies whether string value v may end with suffix:
// 1 yes, 0 no, -1 unknown.
func c05MayEndWith(v ssa.Value, suffix string) int {
	if s, ok := ConstString(v); ok {
		if strings.HasSuffix(s, suffix) {
			return 1
		}
		return 0
	}
	switch x := originValue(v).(type) {
	case *ssa.Call:
		c := CallSite{x.Parent(), x}
		if c.IsStatic("fmt", "", "Sprintf") || c.IsStatic("fmt", "", "Sprint") {
			if !c.IsStatic("fmt", "", "Sprintf") {
				return -1
			}
			f, ok := ConstString(x.Call.Args[0])
			if !ok {
				return -1
			}
			if strings.HasSuffix(f, suffix) {
				return 1
			}
			// a trailing verb that renders arbitrary text could still produce the suffix
			if n := len(f); n >= 2 && f[n-2] == '%' && strings.ContainsRune("svqxX", rune(f[n-1])) {
				return -1
			}
			return 0
		}
	case *ssa.BinOp:
		if x.Op == token.ADD {
			return c05MayEndWith(x.Y, suffix)
		}
	}
	return -1
}

// c05KeyPrefix: for key = "<const>" + rest, returns the constant.
func c05KeyPrefix(v ssa.Value) (string, ssa.Value, bool) {
	bo, ok := originValue(v).(*ssa.BinOp)
	if !ok || bo.Op != token.ADD {
		return "", nil, false
	}
	s, ok := ConstString(bo.X)
	return s, bo.Y, ok
}

// c05IsRefString: v is (blob.Ref).String(ref) with ref the same value as want.
func c05IsRefString(v ssa.Value, want ssa.Value) bool {
	call, ok := originValue(v).(*ssa.Call)
	if !ok {
		return false
	}
	c := CallSite{call.Parent(), call}
	return c.IsStatic("perkeep.org/pkg/blob", "Ref", "String") && sameOrigin(call.Call.Args[0], want)
}

func c05RulePending(p *Program, r *Reporter) {
	const rule = "I-pending"
	rb := p.Func(c05Pkg, "Index", "ReceiveBlob")
	pmmFn := p.Func(c05Pkg, "Index", "populateMutationMap")
	commitFn := p.Func(c05Pkg, "Index", "commit")
	addBlobFn := p.Func(c05Pkg, "Corpus", "addBlob")
	nnl := p.Func(c05Pkg, "Index", "noteNeededLocked")
	nn := p.Func(c05Pkg, "Index", "noteNeeded")
	nnm := p.Func(c05Pkg, "Index", "noteNeededMemoryLocked")
	nbi := p.Func(c05Pkg, "Index", "noteBlobIndexedLocked")
	rme := p.Func(c05Pkg, "Index", "removeAllMissingEdges")
	key := FuncKey(rb)
	if len(rb.Params) < 4 {
		brokenf("anchor unresolved: (*Index).ReceiveBlob no longer has (ix, ctx, blobRef, source) parameters")
	}
	blobRef := ssa.Value(rb.Params[2])

	pmmCalls := c05CallsTo(rb, pmmFn)
	if len(pmmCalls) != 1 || pmmCalls[0].Value() == nil {
		r.Undecided(rule, key+"#populate", p.Pos(rb.Pos()), fmt.Sprintf("expected exactly one plain call of populateMutationMap in ReceiveBlob, found %d: the success returns cannot be classified", len(pmmCalls)))
		r.Floor(rule, 11)
		return
	}
	pmm := pmmCalls[0].Value()
	pErr, _, _ := ErrValue(pmm)
	pMM := ResultValue(pmm, 0)
	fetcherArg := pmm.Call.Args[2]

	maybeNil := map[*ssa.Return]bool{}
	nilRets := MaybeNilErrorReturns(rb)
	for _, nr := range nilRets {
		maybeNil[nr.Ret] = true
	}

	// (1) calls whose failure must exclude a success return
	mustSucceed := map[*ssa.Function]string{nnl: "noteNeededLocked", nn: "noteNeeded", commitFn: "commit", addBlobFn: "addBlob"}
	var noteCalls []CallSite
	for _, c := range CallsIn(rb, false) {
		name, ok := mustSucceed[c.Callee()]
		if !ok {
			continue
		}
		if c.Callee() == nnl || c.Callee() == nn {
			noteCalls = append(noteCalls, c)
		}
		construct := key + "#must-succeed:" + name
		call := c.Value()
		if call == nil {
			r.Violation(rule, construct, p.Pos(c.Pos()), name+" is started with go/defer: its error cannot gate the success return")
			continue
		}
		ev, edges := c05FailureEdges(call)
		if len(edges) == 0 {
			r.Violation(rule, construct, p.Pos(c.Pos()), "the error of "+name+" is never tested by a branch (discarded or only folded into a value): a failure cannot be shown to exclude the success return, so a blob could be acknowledged without being recorded/committed")
			continue
		}
		var leaks []c05Leak
		for _, e := range edges {
			ex := &c05Explorer{NonNil: []ssa.Value{ev}, IgnorePanics: true,
				ExitOK: func(in ssa.Instruction) bool { ret, ok := in.(*ssa.Return); return ok && !maybeNil[ret] }}
			leaks = append(leaks, ex.OnEdge(e.From, e.To)...)
		}
		r.Check(len(leaks) == 0, rule, construct, p.Pos(c.Pos()),
			"no return with a possibly-nil error is reachable from the err!=nil edge of "+name+" (boolean flags tracked through phis)",
			"a success return is reachable after "+name+" failed: "+c05DescribeLeaks(p, leaks)+" — the blob is acknowledged although it was neither indexed nor recorded as waiting")
	}

	// (2) classify every success return
	isMissingSlice := func(v ssa.Value) bool {
		base, ok := c05LoadOfField(v, "missTrackFetcher", "missing")
		return ok && sameOrigin(base, fetcherArg)
	}
	var shortcutPrefix, shortcutSuffix string
	haveShortcut, sawShortcut := false, false
	seq := map[string]int{}
	for _, nr := range nilRets {
		ret := nr.Ret
		site := p.Pos(c05RetPos(ret))
		blk := ret.Block()
		name := func(class string) string {
			seq[class]++
			if seq[class] > 1 {
				return fmt.Sprintf("%s#return-%s-%d", key, class, seq[class])
			}
			return key + "#return-" + class
		}
		if !Precedes(pmm, ret) {
			sawShortcut = true
			// already-indexed shortcut
			construct := name("already-indexed")
			k, val, hs := BoolCallFact(blk, func(c CallSite) bool { return c.IsStatic("strings", "", "HasSuffix") })
			if !k || !val {
				r.Violation(rule, construct, site, "success return before populateMutationMap that is not under strings.HasSuffix(<have row>, <indexed suffix>)==true: a blob that was never (fully) indexed is acknowledged without indexing — a waiting blob re-submitted by indexReadyBlobs would be dropped")
				continue
			}
			suffix, okS := ConstString(hs.Common().Args[1])
			var get *ssa.Call
			if ex, ok := originValue(hs.Common().Args[0]).(*ssa.Extract); ok && ex.Index == 0 {
				get, _ = ex.Tuple.(*ssa.Call)
			}
			bad := ""
			switch {
			case !okS:
				bad = "the suffix tested is not a constant"
			case get == nil || !get.Call.IsInvoke() || get.Call.Method.Name() != "Get" || !strings.HasSuffix(typeKey(get.Call.Value.Type()), "sorted.KeyValue"):
				bad = "the tested string is not the value of a sorted.KeyValue.Get"
			default:
				if _, ok := c05LoadOfField(get.Call.Value, "Index", "s"); !ok {
					bad = "the Get is not on the index's own storage ix.s"
				}
				pre, rest, ok := c05KeyPrefix(get.Call.Args[0])
				if !ok || !c05IsRefString(rest, blobRef) {
					bad = "the row read is not <const prefix>+blobRef.String() of the blob being received"
				}
				if ok2, why := SuccessDominates(get, ret); !ok2 {
					bad = "the Get's error is not known nil at the return (" + why + ")"
				}
				shortcutPrefix, shortcutSuffix, haveShortcut = pre, suffix, bad == ""
			}
			r.Check(bad == "", rule, construct, site,
				fmt.Sprintf("shortcut return is under Get(%q+ref) ok and HasSuffix(value, %q)", shortcutPrefix, shortcutSuffix),
				"already-indexed shortcut is not justified: "+bad)
			continue
		}
		kn, isNil := NilFact(blk, pErr)
		switch {
		case kn && !isNil:
			construct := name("missing-dep")
			var good []CallSite
			for _, c := range noteCalls {
				if c.Value() == nil || !ReachableFrom(c.Instr, nil)[ret] {
					continue
				}
				a := c.Args()
				if len(a) == 3 && sameOrigin(a[1], blobRef) && DependsOn(a[2], isMissingSlice) && inLoop(c.Block()) {
					good = append(good, c)
				}
			}
			if len(good) == 0 {
				r.Violation(rule, construct, site, "success return on the populate-error path is not preceded by a loop calling noteNeeded(Locked)(blobRef, m) for the misses m recorded in the fetcher handed to populateMutationMap: the blob would be acknowledged but never re-indexed when its dependencies arrive")
				continue
			}
			r.OK(rule, construct, site, fmt.Sprintf("%d noteNeeded call(s) over fetcher.missing lie on the way to this return (their failure edges are checked under must-succeed)", len(good)))
			// zero-iteration guard: the miss list is known non-empty here, or
			// populateMutationMap only returns an error together with a non-empty list
			c2 := key + "#missing-nonempty"
			if k, empty := c05LenZeroFact(blk, isMissingSlice); k && !empty {
				r.OK(rule, c2, site, "len(fetcher.missing)!=0 is known at the missing-dependency success return")
			} else if ok, why := c05PmmErrImpliesMisses(pmmFn); ok {
				r.OK(rule, c2, site, "populateMutationMap returns (mm, err) with err possibly non-nil only under len(fetcher.missing)!=0")
			} else {
				r.Violation(rule, c2, site, "nothing guarantees a non-empty miss list on the missing-dependency path ("+why+"): with zero recorded misses the loop records nothing and the blob is acknowledged and forgotten")
			}
		case kn && isNil:
			construct := name("indexed")
			var bad []string
			var commit *ssa.Call
			for _, c := range c05CallsTo(rb, commitFn) {
				if v := c.Value(); v != nil && sameOrigin(v.Call.Args[1], pMM) {
					commit = v
				}
			}
			if commit == nil {
				bad = append(bad, "no commit of the mutation map returned by populateMutationMap")
			} else if ok, why := SuccessDominates(commit, ret); !ok {
				bad = append(bad, "commit(mm) success does not dominate the return ("+why+")")
			}
			need := func(fn *ssa.Function, what string) {
				var found ssa.Instruction
				for _, c := range c05CallsTo(rb, fn) {
					if a := c.Args(); len(a) >= 2 && sameOrigin(a[1], blobRef) && Precedes(c.Instr, ret) {
						found = c.Instr
					}
				}
				if found == nil {
					bad = append(bad, what+"(blobRef) does not precede the return on every path")
					return
				}
				if commit != nil {
					if ok, _ := SuccessDominates(commit, found); !ok {
						bad = append(bad, what+" is not after the successful commit (dependants released/edges removed before the rows they need are stored)")
					}
				}
			}
			need(nbi, "noteBlobIndexedLocked")
			need(rme, "removeAllMissingEdges")
			r.Check(len(bad) == 0, rule, construct, site,
				"dominated by commit(mm)==nil, then noteBlobIndexedLocked(blobRef) and removeAllMissingEdges(blobRef)",
				"indexed-now success return: "+strings.Join(bad, "; "))
		default:
			r.Undecided(rule, name("unclassified"), site, "success return after populateMutationMap where its error is neither known nil nor known non-nil: cannot tell the missing-dependency path from the normal path")
		}
	}

	// (3) have: row — the indexed suffix is written only when the error is not errMissingDep
	_, mayMD := c05MayReturnMissingDep(p)
	if !sawShortcut {
		shortcutPrefix = "none"
	}
	c05HaveRow(p, r, rule, pmmFn, mayMD, haveShortcut, shortcutPrefix, shortcutSuffix)

	// (4) noteNeededLocked persists before it reports success; map roles
	c05NoteNeeded(p, r, rule, nnl, nnm)
	r.Floor(rule, 11)
}

func c05RetPos(ret *ssa.Return) token.Pos {
	if ret.Pos().IsValid() {
		return ret.Pos()
	}
	var pos token.Pos
	for _, in := range ret.Block().Instrs {
		if in.Pos().IsValid() {
			pos = in.Pos()
		}
	}
	return pos
}

// c05PmmErrImpliesMisses: every return of populateMutationMap that hands back a
// non-nil map together with a possibly non-nil error is under len(fetcher.missing)!=0.
func c05PmmErrImpliesMisses(pmmFn *ssa.Function) (bool, string) {
	if len(pmmFn.Params) < 3 {
		return false, "populateMutationMap has no fetcher parameter"
	}
	fetcher := pmmFn.Params[2]
	isMissing := func(v ssa.Value) bool {
		base, ok := c05LoadOfField(v, "missTrackFetcher", "missing")
		return ok && sameOrigin(base, fetcher)
	}
	n := 0
	for _, ri := range Returns(pmmFn) {
		if len(ri.Results) != 2 || IsNilConst(ri.Results[1]) || IsNilConst(ri.Results[0]) {
			continue
		}
		n++
		if k, empty := c05LenZeroFact(ri.Ret.Block(), isMissing); !(k && !empty) {
			return false, "populateMutationMap can return (mm, err) without len(fetcher.missing)!=0 being known"
		}
	}
	if n == 0 {
		return false, "populateMutationMap has no (mm, err) return"
	}
	return true, ""
}

func c05HaveRow(p *Program, r *Reporter, rule string, pmmFn *ssa.Function, mayMD map[*ssa.Function]bool, haveShortcut bool, prefix, suffix string) {
	key := FuncKey(pmmFn)
	if !haveShortcut && prefix == "none" {
		r.OKTable(rule, key+"#have-row", p.Pos(pmmFn.Pos()), "ReceiveBlob has no already-indexed shortcut: no reader relies on an 'indexed' marker in the have row")
		return
	}
	if !haveShortcut {
		r.Undecided(rule, key+"#have-row", p.Pos(pmmFn.Pos()), "the already-indexed shortcut of ReceiveBlob was not recognised, so the row prefix/suffix it relies on are unknown and the writer cannot be checked against them")
		return
	}
	// errors, in each function, that may be errMissingDep
	errsOf := func(fn *ssa.Function) []ssa.Value {
		var out []ssa.Value
		for _, c := range CallsIn(fn, false) {
			if f := c.Callee(); f != nil && mayMD[f] && c.Value() != nil {
				if ev, has, disc := ErrValue(c.Value()); has && !disc {
					out = append(out, ev)
				}
			}
		}
		return out
	}
	writers := 0
	for _, fn := range p.FuncsIn(c05Pkg) {
		for _, b := range fn.Blocks {
			for _, in := range b.Instrs {
				var k, v ssa.Value
				switch x := in.(type) {
				case *ssa.MapUpdate:
					k, v = x.Key, x.Value
				case *ssa.Call:
					c := CallSite{fn, x}
					if c.MethodName() == "Set" && len(c.Args()) == 3 {
						k, v = c.Args()[1], c.Args()[2]
					}
				}
				if k == nil {
					continue
				}
				pre, _, ok := c05KeyPrefix(k)
				if !ok || pre != prefix {
					continue
				}
				writers++
				construct := FuncKey(fn) + "#have-row"
				errs := errsOf(fn)
				bad, undecided := "", ""
				nYes := 0
				for _, l := range c05Leaves(v, b, 0) {
					switch c05MayEndWith(l.V, suffix) {
					case 1:
						nYes++
						if len(errs) > 0 && !c05NotMissingDep(l.At, errs) {
							bad = fmt.Sprintf("a value ending in %q is chosen in block %d where the populate error is not known to differ from errMissingDep: a blob with a missing dependency would be marked fully indexed and skipped by the shortcut when it is re-submitted", suffix, l.At.Index)
						}
					case -1:
						undecided = "a value written under the " + prefix + " key cannot be classified (not a constant or Sprintf with constant format)"
					}
				}
				switch {
				case bad != "":
					r.Violation(rule, construct, p.Pos(in.Pos()), bad)
				case undecided != "":
					r.Undecided(rule, construct, p.Pos(in.Pos()), undecided)
				default:
					r.OK(rule, construct, p.Pos(in.Pos()), fmt.Sprintf("%d value(s) ending in %q, each chosen only where the populate error is known not to be errMissingDep (errors.Is/==/nil fact); %d candidate error(s)", nYes, suffix, len(errs)))
					r.OKTable(rule, construct+"-agreement", p.Pos(in.Pos()), fmt.Sprintf("writer and ReceiveBlob's shortcut agree on key prefix %q and suffix %q", prefix, suffix))
				}
			}
		}
	}
	if writers == 0 {
		r.Violation(rule, key+"#have-row", p.Pos(pmmFn.Pos()), fmt.Sprintf("no writer of a %q row found in pkg/index although ReceiveBlob's shortcut reads one", prefix))
	}
}

func c05NoteNeeded(p *Program, r *Reporter, rule string, nnl, nnm *ssa.Function) {
	key := FuncKey(nnl)
	var set *ssa.Call
	for _, c := range CallsIn(nnl, false) {
		v := c.Value()
		if v == nil || !v.Call.IsInvoke() || v.Call.Method.Name() != "Set" {
			continue
		}
		if kc, ok := originValue(v.Call.Args[0]).(*ssa.Call); ok {
			kcs := CallSite{nnl, kc}
			if kcs.IsStatic(c05PkgPath, "keyType", "Key") && c05GlobalLoad(kc.Call.Args[0], c05PkgPath, "keyMissing") {
				set = v
			}
		}
	}
	var bad []string
	if set == nil {
		bad = append(bad, "no store of a keyMissing row into the index storage")
	}
	mem := c05CallsTo(nnl, nnm)
	for _, nr := range MaybeNilErrorReturns(nnl) {
		if set != nil && !sameOrigin(nr.Val, set) {
			if ok, why := SuccessDominates(set, nr.Ret); !ok {
				bad = append(bad, "a success return is not dominated by the row store succeeding ("+why+"): the need would be lost at the next restart")
			}
		}
		okMem := false
		for _, m := range mem {
			if Precedes(m.Instr, nr.Ret) && len(nnl.Params) == 3 && c05ParamIs(m.Args()[1], nnl, 1) && c05ParamIs(m.Args()[2], nnl, 2) {
				okMem = true
			}
		}
		if !okMem && !IsNilConst(nr.Val) && set != nil && sameOrigin(nr.Val, set) {
			okMem = true // returning Set's own error value; memory update checked on the nil path
		}
		if !okMem {
			bad = append(bad, "a success return is not preceded by noteNeededMemoryLocked(have, missing)")
		}
	}
	r.Check(len(bad) == 0, rule, key+"#persist", p.Pos(nnl.Pos()),
		"success is reported only after the missing| row was stored without error and needs/neededBy were updated",
		strings.Join(bad, "; "))

	// roles in the in-memory maps
	mk := FuncKey(nnm)
	if len(nnm.Params) != 3 {
		brokenf("anchor unresolved: noteNeededMemoryLocked(have, missing) signature changed")
	}
	check := func(field string, keyIdx, valIdx int) string {
		ws := c05FieldMapWrites(nnm, "Index", field)
		for _, w := range ws {
			if !c05ParamIs(w.Key, nnm, keyIdx) {
				continue
			}
			if !c05DependsOn(w.Val, func(v ssa.Value) bool { return v == ssa.Value(nnm.Params[valIdx]) }) {
				continue
			}
			leaks := (&c05Explorer{IgnorePanics: true, Stop: func(in ssa.Instruction) bool { return in == w.Instr }}).FromEntry(nnm)
			if len(leaks) == 0 {
				return ""
			}
		}
		return fmt.Sprintf("%s is not updated on every path with key=%s and a value containing %s", field, nnm.Params[keyIdx].Name(), nnm.Params[valIdx].Name())
	}
	var bad2 []string
	if s := check("needs", 1, 2); s != "" {
		bad2 = append(bad2, s)
	}
	if s := check("neededBy", 2, 1); s != "" {
		bad2 = append(bad2, s)
	}
	r.Check(len(bad2) == 0, rule, mk+"#maps", p.Pos(nnm.Pos()),
		"needs[have] gains missing and neededBy[missing] gains have on every path",
		strings.Join(bad2, "; ")+" — noteBlobIndexedLocked(missing) would not find the waiting blob")
}

// ---------------------------------------------------------------------------
// I-miss

func c05RuleMiss(p *Program, r *Reporter) {
	const rule = "I-miss"
	direct, _ := c05MayReturnMissingDep(p)
	nnl := p.Func(c05Pkg, "Index", "noteNeededLocked")
	nn := p.Func(c05Pkg, "Index", "noteNeeded")
	allNotExist := p.Func(c05Pkg, "trackErrorsFetcher", "allErrNotExist")
	mtf := p.NamedType(c05Pkg, "missTrackFetcher")
	if mtf == nil {
		brokenf("anchor unresolved: type index.missTrackFetcher")
	}
	mtfPtr := types.NewPointer(mtf)

	var fns []*ssa.Function
	for fn := range direct {
		fns = append(fns, fn)
	}
	sort.Slice(fns, func(i, j int) bool { return FuncKey(fns[i]) < FuncKey(fns[j]) })
	for _, fn := range fns {
		idx := ErrResultIndex(fn)
		n := 0
		for _, ri := range Returns(fn) {
			for _, l := range c05Leaves(ri.Results[idx], ri.Ret.Block(), 0) {
				if !c05GlobalLoad(l.V, c05PkgPath, "errMissingDep") {
					continue
				}
				n++
				construct := FuncKey(fn) + "#return-errMissingDep"
				site := p.Pos(c05RetPos(ri.Ret))
				last := l.At.Instrs[len(l.At.Instrs)-1]
				// (ii) a successful noteNeeded dominates
				why := ""
				for _, c := range CallsIn(fn, false) {
					if (c.Callee() == nnl || c.Callee() == nn) && c.Value() != nil {
						if ok, _ := SuccessDominates(c.Value(), last); ok {
							why = "dominated by a successful " + c.MethodName() + " (the need is stored before the sentinel is returned)"
						}
					}
				}
				// (i) allErrNotExist()==true on a tracker wrapping the function's missTrackFetcher
				if why == "" {
					k, val, ac := BoolCallFact(l.At, func(c CallSite) bool { return c.Callee() == allNotExist })
					if k && val {
						if bad := c05TrackerWrapsMissTracker(fn, ac.Args()[0], mtfPtr); bad == "" {
							why = "under allErrNotExist()==true of a trackErrorsFetcher that wraps the *missTrackFetcher passed in (every NotExist fetch was recorded in fetcher.missing)"
						} else {
							r.Violation(rule, construct, site, "errMissingDep is returned under allErrNotExist(), but "+bad+": the misses are not recorded where ReceiveBlob looks for them, so the blob is marked 'have' without '|indexed' and never re-indexed")
							continue
						}
					}
				}
				r.Check(why != "", rule, construct, site, why,
					"errMissingDep is returned without a recorded miss (no successful noteNeeded dominates, no allErrNotExist()==true on a tracking fetcher): ReceiveBlob turns this sentinel into success, so the blob would be forgotten")
			}
		}
		_ = n
	}

	// missTrackFetcher.Fetch records every NotExist
	fetch := p.Func(c05Pkg, "missTrackFetcher", "Fetch")
	fkey := FuncKey(fetch) + "#record"
	var inner *ssa.Call
	for _, c := range CallsIn(fetch, false) {
		if v := c.Value(); v != nil && v.Call.IsInvoke() && v.Call.Method.Name() == "Fetch" {
			if _, ok := c05LoadOfField(v.Call.Value, "missTrackFetcher", "fetcher"); ok {
				inner = v
			}
		}
	}
	if inner == nil || len(fetch.Params) < 3 {
		r.Violation(rule, fkey, p.Pos(fetch.Pos()), "missTrackFetcher.Fetch no longer forwards to its wrapped fetcher")
	} else {
		ev, _, _ := ErrValue(inner)
		br := fetch.Params[2]
		isNotExistTest := func(cond ssa.Value) (bool, bool) {
			call, ok := cond.(*ssa.Call)
			if !ok {
				return false, false
			}
			c := CallSite{fetch, call}
			if c.IsStatic("errors", "", "Is") && sameOrigin(call.Call.Args[0], ev) &&
				(c05GlobalLoad(call.Call.Args[1], "os", "ErrNotExist") || c05GlobalLoad(call.Call.Args[1], "io/fs", "ErrNotExist")) {
				return true, true
			}
			if c.IsStatic("os", "", "IsNotExist") && sameOrigin(call.Call.Args[0], ev) {
				return true, true
			}
			return false, false
		}
		stop := func(in ssa.Instruction) bool {
			st, ok := in.(*ssa.Store)
			if !ok {
				return false
			}
			base, ok := c05FieldOf(st.Addr, "missTrackFetcher", "missing")
			return ok && sameOrigin(base, fetch.Params[0]) && c05DependsOn(st.Val, func(v ssa.Value) bool { return v == ssa.Value(br) })
		}
		leaks := (&c05Explorer{NonNil: []ssa.Value{ev}, Assume: isNotExistTest, Stop: stop, IgnorePanics: true}).After(inner)
		r.Check(len(leaks) == 0, rule, fkey, p.Pos(inner.Pos()),
			"assuming the wrapped Fetch's error is NotExist, every path to an exit appends br to f.missing",
			"with a NotExist error from the wrapped fetcher an exit is reachable without br being appended to f.missing ("+c05DescribeLeaks(p, leaks)+"): the dependency is not recorded, errMissingDep is then swallowed and the blob never re-indexed")
	}
	r.Floor(rule, 5)
}

// c05TrackerWrapsMissTracker checks that tf (receiver of allErrNotExist) is a
// trackErrorsFetcher allocated in fn whose field f is only ever set to a
// *missTrackFetcher that derives from one of fn's parameters.
func c05TrackerWrapsMissTracker(fn *ssa.Function, tf ssa.Value, mtfPtr types.Type) string {
	al, ok := originValue(tf).(*ssa.Alloc)
	if !ok {
		return "the tracking fetcher is not allocated in this function"
	}
	n := 0
	for _, ref := range *al.Referrers() {
		fa, ok := ref.(*ssa.FieldAddr)
		if !ok || fieldName(fa.X.Type(), fa.Field) != "f" || fa.Referrers() == nil {
			continue
		}
		for _, r2 := range *fa.Referrers() {
			st, ok := r2.(*ssa.Store)
			if !ok || st.Addr != ssa.Value(fa) {
				continue
			}
			n++
			v := st.Val
			for {
				if mi, ok := v.(*ssa.MakeInterface); ok {
					v = mi.X
					continue
				}
				if ci, ok := v.(*ssa.ChangeInterface); ok {
					v = ci.X
					continue
				}
				break
			}
			t := v.Type()
			if ta, ok := v.(*ssa.TypeAssert); ok {
				t = ta.AssertedType
			}
			if !types.Identical(t, mtfPtr) {
				return "its wrapped fetcher is a " + t.String() + ", not the *missTrackFetcher"
			}
			if !DependsOn(v, func(x ssa.Value) bool { _, isP := x.(*ssa.Parameter); return isP && x.Parent() == TopFunc(fn) }) {
				return "its wrapped *missTrackFetcher is not the one passed to this function"
			}
		}
	}
	if n == 0 {
		return "its wrapped fetcher is never set"
	}
	return ""
}

// ---------------------------------------------------------------------------
// I-wg

var c05WgSpec = &PairSpec{
	Rule: "I-wg",
	Acquire: func(c CallSite) (string, bool) {
		if c.IsStatic("sync", "WaitGroup", "Add") {
			return AccessPath(c.Args()[0]), true
		}
		return "", false
	},
	Release: func(c CallSite) (string, bool) {
		if c.IsStatic("sync", "WaitGroup", "Done") {
			return AccessPath(c.Args()[0]), true
		}
		return "", false
	},
}

// c05GoReleases reports whether instruction in starts (go) a function that
// Dones the WaitGroup at caller-side path on all of its paths.
func c05GoReleases(in ssa.Instruction, path string) bool {
	g, ok := in.(*ssa.Go)
	if !ok {
		return false
	}
	c := CallSite{in.Parent(), g}
	if c05WgSpec.stop(in, path, 0) { // go func(){ defer wg.Done() ... }()
		return true
	}
	f := c.Callee()
	if f == nil || f.Parent() != nil || len(f.Blocks) == 0 {
		return false
	}
	for _, d := range CallsIn(f, false) {
		pth, ok := c05WgSpec.Release(d)
		if !ok {
			continue
		}
		if tp, ok := TranslatePath(c, f, pth); ok && tp == path && c05WgSpec.releasesOnAllPaths(f, pth, 0) {
			return true
		}
	}
	return false
}

func c05RuleWg(p *Program, r *Reporter) {
	const rule = "I-wg"
	irb := p.Func(c05Pkg, "Index", "indexReadyBlobs")
	indexBlob := p.Func(c05Pkg, "Index", "indexBlob")
	isReindexWg := func(v ssa.Value) bool {
		_, ok := c05FieldOf(v, "Index", "reindexWg")
		return ok
	}

	// (1) every reindexWg.Add(1) is followed by go <releasing function>
	nAdd := 0
	for _, fn := range p.FuncsIn(c05Pkg) {
		for _, c := range CallsIn(fn, false) {
			if !c.IsStatic("sync", "WaitGroup", "Add") || !isReindexWg(c.Args()[0]) {
				continue
			}
			nAdd++
			construct := FuncKey(fn) + "#reindexWg.Add"
			site := p.Pos(c.Pos())
			if n, ok := ConstInt(c.Args()[1]); !ok || n != 1 || c.IsDefer() || c.IsGo() {
				r.Undecided(rule, construct, site, "reindexWg.Add with a delta other than the constant 1 (or deferred): cannot be paired with one goroutine")
				continue
			}
			path := AccessPath(c.Args()[0])
			leaks := (&c05Explorer{IgnorePanics: true, Stop: func(in ssa.Instruction) bool { return c05GoReleases(in, path) }}).After(c.Instr)
			r.Check(len(leaks) == 0, rule, construct, site,
				"on every path the Add(1) is followed by a go statement whose function calls Done on the same WaitGroup on all its paths",
				"reindexWg.Add(1) is not followed on every path by a goroutine that Dones it ("+c05DescribeLeaks(p, leaks)+"): Reindex's reindexWg.Wait() would hang, or the ready blob is never re-indexed")
		}
	}
	if nAdd == 0 {
		r.Violation(rule, FuncKey(irb)+"#reindexWg.Add", p.Pos(irb.Pos()), "no reindexWg.Add found in pkg/index: out-of-order re-indexing is no longer accounted for")
	}

	// (2) indexReadyBlobs is only started as a counted goroutine, and Dones
	ikey := FuncKey(irb)
	if uses := p.FuncValueUses(irb); len(uses) > 0 {
		r.Undecided(rule, ikey+"#callers", p.Pos(uses[0].Pos()), "indexReadyBlobs is used as a function value; its callers cannot be enumerated")
	}
	for _, c := range p.StaticCallers(irb) {
		construct := FuncKey(c.Fn) + "#start-indexReadyBlobs"
		ok := false
		if c.IsGo() {
			for _, a := range CallsIn(c.Fn, false) {
				if a.IsStatic("sync", "WaitGroup", "Add") && isReindexWg(a.Args()[0]) && Precedes(a.Instr, c.Instr) {
					ok = true
				}
			}
		}
		r.Check(ok, rule, construct, p.Pos(c.Pos()),
			"started with go, after a reindexWg.Add on every path",
			"indexReadyBlobs (which Dones reindexWg) is started without a preceding reindexWg.Add, or not as a goroutine: the counter goes negative (panic) or the caller blocks while holding the index lock")
	}
	okDone := false
	for _, d := range CallsIn(irb, false) {
		if pth, ok := c05WgSpec.Release(d); ok && isReindexWg(d.Args()[0]) && c05WgSpec.releasesOnAllPaths(irb, pth, 0) {
			okDone = true
		}
	}
	r.Check(okDone, rule, ikey+"#Done", p.Pos(irb.Pos()), "reindexWg.Done runs on every path (deferred)", "indexReadyBlobs does not call reindexWg.Done on every path: Reindex would wait forever")

	// (3) failed re-index attempts are put back into readyReindex
	c05Requeue(p, r, rule, irb, indexBlob)

	// (4) getNewPendingBlobIndex ... MarkDone
	gnp := p.Func(c05Pkg, "Index", "getNewPendingBlobIndex")
	markDone := p.Func(c05Pkg, "pendingBlobIndex", "MarkDone")
	for _, c := range p.StaticCallers(gnp) {
		construct := FuncKey(c.Fn) + "#MarkDone"
		call := c.Value()
		if call == nil {
			r.Undecided(rule, construct, p.Pos(c.Pos()), "getNewPendingBlobIndex called with go/defer")
			continue
		}
		pv := ResultValue(call, 0)
		ev, _, disc := ErrValue(call)
		if pv == nil || disc {
			r.Violation(rule, construct, p.Pos(c.Pos()), "the pending entry or the error returned by getNewPendingBlobIndex is discarded: the entry can never be marked done, so len(pending) never drops to zero and recentDone dependencies are never swept")
			continue
		}
		marks := func(f *ssa.Function, in ssa.Instruction) bool {
			ci, ok := in.(ssa.CallInstruction)
			if !ok {
				return false
			}
			cs := CallSite{f, ci}
			return cs.Callee() == markDone && sameOrigin(cs.Args()[0], pv)
		}
		stop := func(in ssa.Instruction) bool {
			if marks(in.Parent(), in) {
				return true
			}
			if d, ok := in.(*ssa.Defer); ok {
				if cl := ClosureOf(CallSite{in.Parent(), d}); cl != nil && len(cl.Blocks) > 0 {
					lk := (&c05Explorer{IgnorePanics: true, Stop: func(x ssa.Instruction) bool { return marks(cl, x) }}).FromEntry(cl)
					return len(lk) == 0
				}
			}
			return false
		}
		leaks := (&c05Explorer{Nil: []ssa.Value{ev}, Stop: stop, IgnorePanics: true}).After(call)
		r.Check(len(leaks) == 0, rule, construct, p.Pos(c.Pos()),
			"on the err==nil edge every path to an exit passes MarkDone of the returned entry (call, defer, or deferred literal)",
			"a successful getNewPendingBlobIndex is not followed by MarkDone on every path ("+c05DescribeLeaks(p, leaks)+"): the entry stays in Index.pending, concurrent receivers of the same blob wait forever and recentDone is never swept")
	}

	// (5) MarkDone always unregisters and wakes
	mkey := FuncKey(markDone)
	recv := markDone.Params[0]
	isRecvField := func(v ssa.Value, field string) bool {
		base, ok := c05LoadOfField(v, "pendingBlobIndex", field)
		return ok && sameOrigin(base, recv)
	}
	allPaths := func(pred func(CallSite) bool) bool {
		stop := func(in ssa.Instruction) bool {
			ci, ok := in.(ssa.CallInstruction)
			return ok && pred(CallSite{markDone, ci})
		}
		return len((&c05Explorer{IgnorePanics: true, Stop: stop}).FromEntry(markDone)) == 0
	}
	okDel := allPaths(func(c CallSite) bool {
		if !c05IsBuiltin(c, "delete") || c.IsGo() {
			return false
		}
		_, ok := c05LoadOfField(c.Common().Args[0], "Index", "pending")
		return ok && isRecvField(c.Common().Args[1], "blobRef")
	})
	r.Check(okDel, rule, mkey+"#unregister", p.Pos(markDone.Pos()), "delete(x.pending, p.blobRef) runs on every path", "MarkDone does not remove its entry from Index.pending on every path: len(pending) never reaches zero, recentDone is never swept, dependants recorded during the race window are never re-indexed")
	okClose := allPaths(func(c CallSite) bool {
		return c05IsBuiltin(c, "close") && !c.IsGo() && isRecvField(c.Common().Args[0], "done")
	})
	r.Check(okClose, rule, mkey+"#wake", p.Pos(markDone.Pos()), "close(p.done) runs on every path (call or defer)", "MarkDone does not close p.done on every path: a concurrent ReceiveBlob of the same ref waits forever in getNewPendingBlobIndex")

	// (6) Reindex drains: workers joined, then reindexWg, before the verdict
	c05ReindexDrain(p, r, rule, indexBlob, isReindexWg)
	r.Floor(rule, 8)
}

func c05Requeue(p *Program, r *Reporter, rule string, irb, indexBlob *ssa.Function) {
	for _, c := range c05CallsTo(irb, indexBlob) {
		construct := FuncKey(irb) + "#requeue"
		call := c.Value()
		if call == nil {
			r.Undecided(rule, construct, p.Pos(c.Pos()), "indexBlob started asynchronously in indexReadyBlobs")
			continue
		}
		br := call.Call.Args[2]
		ev, edges := c05FailureEdges(call)
		if len(edges) == 0 {
			r.Violation(rule, construct, p.Pos(c.Pos()), "the error of indexBlob is not tested: a blob popped from readyReindex whose re-index fails is forgotten")
			continue
		}
		// where is br recorded on the failure path?
		var sink ssa.Value
		direct := false
		stop := func(in ssa.Instruction) bool {
			mu, ok := in.(*ssa.MapUpdate)
			if !ok || !sameOrigin(mu.Key, br) {
				return false
			}
			if _, ok := c05LoadOfField(mu.Map, "Index", "readyReindex"); ok {
				direct = true
				return true
			}
			sink = originValue(mu.Map)
			return true
		}
		var leaks []c05Leak
		for _, e := range edges {
			ex := &c05Explorer{NonNil: []ssa.Value{ev}, Stop: stop, IgnorePanics: true,
				Fail: func(in ssa.Instruction) bool { return in == ssa.Instruction(call) }}
			leaks = append(leaks, ex.OnEdge(e.From, e.To)...)
		}
		if len(leaks) > 0 {
			r.Violation(rule, construct, p.Pos(c.Pos()), "after indexBlob fails, the next iteration or an exit is reached without the ref being recorded ("+c05DescribeLeaks(p, leaks)+"): the blob has already been removed from needs and readyReindex, so it is dropped")
			continue
		}
		if direct && sink == nil {
			r.OK(rule, construct, p.Pos(c.Pos()), "on failure the ref is put back into readyReindex")
			continue
		}
		// the local set must be drained into readyReindex before every return
		okDrain := false
		for _, b := range irb.Blocks {
			for _, in := range b.Instrs {
				rg, ok := in.(*ssa.Range)
				if !ok || originValue(rg.X) != sink {
					continue
				}
				fromRange := func(v ssa.Value) bool {
					nx, ok := v.(*ssa.Next)
					return ok && nx.Iter == ssa.Value(rg)
				}
				for _, w := range c05FieldMapWrites(irb, "Index", "readyReindex") {
					if !DependsOn(w.Key, fromRange) {
						continue
					}
					all := true
					for _, ri := range Returns(irb) {
						if !Precedes(rg, ri.Ret) {
							all = false
						}
					}
					if all {
						okDrain = true
					}
				}
			}
		}
		r.Check(okDrain, rule, construct, p.Pos(c.Pos()),
			"on failure the ref is recorded in a local set that is copied into readyReindex before every return",
			"failed refs are collected but not copied back into Index.readyReindex before every return: Reindex would report success although blobs were not indexed")
	}
}

func c05ReindexDrain(p *Program, r *Reporter, rule string, indexBlob *ssa.Function, isReindexWg func(ssa.Value) bool) {
	reindex := p.Func(c05Pkg, "Index", "Reindex")
	key := FuncKey(reindex)
	var waitR *ssa.Call
	for _, c := range CallsIn(reindex, false) {
		if c.IsStatic("sync", "WaitGroup", "Wait") && isReindexWg(c.Args()[0]) && c.Value() != nil {
			waitR = c.Value()
		}
	}
	if waitR == nil {
		r.Violation(rule, key+"#drain", p.Pos(reindex.Pos()), "Reindex does not wait for reindexWg: it can return (and read needs/readyReindex) while out-of-order re-indexing is still running, so its result is not the final state")
		return
	}
	var bad []string
	for _, nr := range MaybeNilErrorReturns(reindex) {
		if !Precedes(waitR, nr.Ret) {
			bad = append(bad, fmt.Sprintf("the success return at line %d is not preceded by reindexWg.Wait()", p.Fset.Position(c05RetPos(nr.Ret)).Line))
		}
	}
	// the verdict reads come after the wait
	for _, b := range reindex.Blocks {
		for _, in := range b.Instrs {
			fa, ok := in.(*ssa.FieldAddr)
			if !ok {
				continue
			}
			for _, f := range []string{"readyReindex", "needs"} {
				if _, ok := c05FieldOf(fa, "Index", f); ok && !Precedes(waitR, fa) {
					bad = append(bad, "Index."+f+" is read before reindexWg.Wait()")
				}
			}
		}
	}
	// workers that call indexBlob are joined before reindexWg.Wait
	nSpawn := 0
	for _, c := range CallsIn(reindex, false) {
		var lits []*ssa.Function
		lits = append(lits, spawnedClosures(c)...)
		for _, lit := range lits {
			calls := false
			for _, cc := range CallsIn(lit, true) {
				if cc.Callee() == indexBlob {
					calls = true
				}
			}
			if !calls {
				continue
			}
			nSpawn++
			if !isSpawner(c) {
				bad = append(bad, "a worker calling indexBlob is started with a bare go statement; its join cannot be identified")
				continue
			}
			grp := AccessPath(c.Args()[0])
			joined := false
			for _, w := range CallsIn(reindex, false) {
				if isJoin(w) && AccessPath(w.Args()[0]) == grp && Precedes(w.Instr, waitR) {
					joined = true
				}
			}
			if !joined {
				bad = append(bad, "the workers that call indexBlob are not joined before reindexWg.Wait(): a worker can still Add to reindexWg after the Wait returned")
			}
		}
	}
	if nSpawn == 0 {
		bad = append(bad, "no worker goroutine calling indexBlob found in Reindex")
	}
	r.Check(len(bad) == 0, rule, key+"#drain", p.Pos(waitR.Pos()),
		"workers joined, then reindexWg.Wait(), before needs/readyReindex are read and before every success return",
		strings.Join(bad, "; "))
}

// ---------------------------------------------------------------------------
// I-open

// c05OpenExceptions: success returns of index.New that deliberately skip the
// reload of needs/neededBy. One symbol, one reason; the reason is re-checked.
var c05OpenExceptions = map[string]string{
	"aboutToReindex": "the storage has just been wiped and everything is rebuilt by Reindex: there are no missing| rows to reload (re-checked: aboutToReindex is only set where a successful Wipe precedes every later New)",
}

func c05RuleOpen(p *Program, r *Reporter) {
	const rule = "I-open"
	newFn := p.Func(c05Pkg, "", "New")
	init := p.Func(c05Pkg, "Index", "initNeededMapsLocked")
	nnm := p.Func(c05Pkg, "Index", "noteNeededMemoryLocked")
	nnl := p.Func(c05Pkg, "Index", "noteNeededLocked")
	key := FuncKey(newFn)

	rets := map[*ssa.Return]ReturnInfo{}
	for _, ri := range Returns(newFn) {
		rets[ri.Ret] = ri
	}
	usedException := false
	seq := 0
	for _, nr := range MaybeNilErrorReturns(newFn) {
		seq++
		site := p.Pos(c05RetPos(nr.Ret))
		idx := rets[nr.Ret].Results[0]
		if IsNilConst(idx) {
			continue
		}
		okInit := false
		for _, c := range c05CallsTo(newFn, init) {
			if v := c.Value(); v != nil && sameOrigin(v.Call.Args[0], idx) {
				if ok, _ := SuccessDominates(v, nr.Ret); ok {
					okInit = true
				}
			}
		}
		if okInit {
			r.OK(rule, key+"#return-loaded", site, "success return dominated by initNeededMapsLocked()==nil on the returned index")
			continue
		}
		exc := false
		for _, f := range FactsAt(nr.Ret.Block()) {
			if c05GlobalLoad(f.Cond, c05PkgPath, "aboutToReindex") && f.Val {
				exc = true
			}
		}
		if exc {
			usedException = true
			r.OKTable(rule, key+"#return-aboutToReindex", site, "exception: "+c05OpenExceptions["aboutToReindex"])
			continue
		}
		r.Violation(rule, key+"#return-unloaded", site, "index.New returns an index without a successful initNeededMapsLocked: needs/neededBy stay empty although missing| rows exist, so blobs that were waiting before the restart are never re-indexed when their dependencies arrive")
	}

	// exception re-check: aboutToReindex is only set where a successful Wipe precedes New
	if usedException {
		nStores := 0
		for _, fn := range p.FuncsIn(c05Pkg) {
			for _, b := range fn.Blocks {
				for _, in := range b.Instrs {
					st, ok := in.(*ssa.Store)
					if !ok {
						continue
					}
					g, ok := st.Addr.(*ssa.Global)
					if !ok || g.Name() != "aboutToReindex" {
						continue
					}
					if c, ok := st.Val.(*ssa.Const); ok && c.Value != nil && c.Value.Kind() == constant.Bool && !constant.BoolVal(c.Value) {
						continue
					}
					if fn.Name() == "init" && fn.Synthetic != "" {
						continue
					}
					nStores++
					construct := FuncKey(fn) + "#aboutToReindex-implies-wipe"
					isNew := func(x ssa.Instruction) bool {
						ci, ok := x.(ssa.CallInstruction)
						return ok && (CallSite{fn, ci}).Callee() == newFn
					}
					var wipe *ssa.Call
					isWipe := func(x ssa.Instruction) bool {
						call, ok := x.(*ssa.Call)
						if ok && call.Call.IsInvoke() && call.Call.Method.Name() == "Wipe" && strings.HasSuffix(typeKey(call.Call.Value.Type()), "sorted.Wiper") {
							wipe = call
							return true
						}
						return false
					}
					leaks := (&c05Explorer{IgnorePanics: true, Stop: isWipe, Fail: isNew, ExitOK: func(ssa.Instruction) bool { return true }}).After(st)
					if wipe != nil {
						ev, edges := c05FailureEdges(wipe)
						if len(edges) == 0 {
							leaks = append(leaks, c05Leak{wipe, nil})
						}
						for _, e := range edges {
							leaks = append(leaks, (&c05Explorer{NonNil: []ssa.Value{ev}, IgnorePanics: true, Fail: isNew, ExitOK: func(ssa.Instruction) bool { return true }}).OnEdge(e.From, e.To)...)
						}
					}
					r.Check(len(leaks) == 0 && wipe != nil, rule, construct, p.Pos(st.Pos()),
						"after aboutToReindex is set, index.New is reached only through a successful sorted.Wiper.Wipe()",
						"aboutToReindex is set on a path that reaches index.New without a successful Wipe ("+c05DescribeLeaks(p, leaks)+"): New would skip loading needs/neededBy (and the deletes cache) from rows that still exist")
				}
			}
		}
		if nStores == 0 {
			r.OKTable(rule, key+"#aboutToReindex-never-set", p.Pos(newFn.Pos()), "aboutToReindex is never set to true: the exception branch is dead")
		}
	}

	// reload loop + key part order agreement
	ikey := FuncKey(init)
	var bad []string
	okQuery := false
	for _, c := range CallsIn(init, false) {
		if c.MethodName() != "queryPrefix" || c.Callee() == nil || c.Callee().Pkg == nil || c.Callee().Pkg.Pkg.Path() != c05PkgPath {
			continue
		}
		for i, a := range c.Args() {
			if c05GlobalLoad(a, c05PkgPath, "keyMissing") {
				rest := c.Args()[i+1:]
				if len(rest) == 1 && (IsNilConst(rest[0]) || len(c05VarargElems(rest[0])) == 0) {
					okQuery = true
				}
			}
		}
	}
	if !okQuery {
		bad = append(bad, "does not iterate over the whole keyMissing prefix")
	}
	var memCall *ssa.Call
	for _, c := range c05CallsTo(init, nnm) {
		if c.Value() != nil && inLoop(c.Block()) && sameOrigin(c.Args()[0], init.Params[0]) {
			memCall = c.Value()
		}
	}
	if memCall == nil {
		bad = append(bad, "does not call noteNeededMemoryLocked on the receiver for each row")
	}
	r.Check(len(bad) == 0, rule, ikey+"#reload", p.Pos(init.Pos()),
		"ranges over every missing| row and feeds each into noteNeededMemoryLocked",
		"initNeededMapsLocked "+strings.Join(bad, " and "))

	if memCall != nil {
		// reader: which key part feeds which parameter position
		part := func(v ssa.Value) int {
			ex, ok := originValue(v).(*ssa.Extract)
			if !ok || ex.Index != 0 {
				return -1
			}
			call, ok := ex.Tuple.(*ssa.Call)
			if !ok || len(call.Call.Args) != 1 {
				return -1
			}
			sl, ok := originValue(call.Call.Args[0]).(*ssa.Slice)
			if !ok {
				return -1
			}
			switch {
			case sl.Low == nil && sl.High != nil:
				return 0
			case sl.Low != nil && sl.High == nil:
				return 1
			}
			return -1
		}
		readerHave, readerMissing := part(memCall.Call.Args[1]), part(memCall.Call.Args[2])
		// writer: which parameter position is stored as which key part
		writerHave, writerMissing := -1, -1
		for _, c := range CallsIn(nnl, false) {
			if c.IsStatic(c05PkgPath, "keyType", "Key") && c05GlobalLoad(c.Args()[0], c05PkgPath, "keyMissing") {
				for i, e := range c05VarargElems(c.Args()[1]) {
					if c05ParamIs(e, nnl, 1) {
						writerHave = i
					}
					if c05ParamIs(e, nnl, 2) {
						writerMissing = i
					}
				}
			}
		}
		construct := ikey + "#key-order"
		site := p.Pos(memCall.Pos())
		switch {
		case readerHave < 0 || readerMissing < 0 || writerHave < 0 || writerMissing < 0:
			r.Undecided(rule, construct, site, fmt.Sprintf("cannot relate key parts to roles (reader have=%d missing=%d, writer have=%d missing=%d): the parse is not <prefix slice>/<suffix slice> of the key or the writer is not keyMissing.Key(have, missing)", readerHave, readerMissing, writerHave, writerMissing))
		default:
			r.Check(readerHave == writerHave && readerMissing == writerMissing, rule, construct, site,
				fmt.Sprintf("writer stores have as key part %d and missing as part %d; the reload parses them back into the same roles", writerHave, writerMissing),
				fmt.Sprintf("noteNeededLocked writes have/missing as key parts %d/%d but initNeededMapsLocked reads them back as parts %d/%d: after a restart needs and neededBy are inverted, so an arriving dependency never releases the blob that waits for it", writerHave, writerMissing, readerHave, readerMissing))
		}
	}
	// removeAllMissingEdges(br) removes the rows in which br is the *waiting* blob
	rme := p.Func(c05Pkg, "Index", "removeAllMissingEdges")
	rkey := FuncKey(rme) + "#prefix-role"
	okRole, okDelete := false, false
	for _, c := range CallsIn(rme, false) {
		if c.MethodName() == "queryPrefix" && c.Callee() != nil && c.Callee().Pkg != nil && c.Callee().Pkg.Pkg.Path() == c05PkgPath {
			a := c.Args()
			for i := range a {
				if c05GlobalLoad(a[i], c05PkgPath, "keyMissing") && i+1 < len(a) {
					if el := c05VarargElems(a[i+1]); len(el) == 1 && c05ParamIs(el[0], rme, 1) {
						okRole = true
					}
				}
			}
		}
		if v := c.Value(); v != nil && v.Call.IsInvoke() && v.Call.Method.Name() == "Delete" {
			if _, ok := c05LoadOfField(v.Call.Value, "Index", "s"); ok {
				okDelete = true
			}
		}
	}
	writerHaveFirst := false
	for _, c := range CallsIn(nnl, false) {
		if c.IsStatic(c05PkgPath, "keyType", "Key") && c05GlobalLoad(c.Args()[0], c05PkgPath, "keyMissing") {
			if el := c05VarargElems(c.Args()[1]); len(el) >= 1 && c05ParamIs(el[0], nnl, 1) {
				writerHaveFirst = true
			}
		}
	}
	r.Check(okRole && okDelete && writerHaveFirst, rule, rkey, p.Pos(rme.Pos()),
		"deletes the rows under keyMissing.Prefix(br); the writer puts the waiting blob ('have') first, so these are exactly br's own needs",
		"removeAllMissingEdges(br) no longer deletes the keyMissing rows whose first key part is br while noteNeededLocked writes the waiting blob first: the needs of a now-indexed blob survive (and are reloaded at restart) or another blob's needs are deleted")
	r.Floor(rule, 6)
}

// ---------------------------------------------------------------------------
// I-recent

func c05RuleRecent(p *Program, r *Reporter) {
	const rule = "I-recent"
	nbi := p.Func(c05Pkg, "Index", "noteBlobIndexedLocked")
	markDone := p.Func(c05Pkg, "pendingBlobIndex", "MarkDone")
	gnp := p.Func(c05Pkg, "Index", "getNewPendingBlobIndex")
	nkey := FuncKey(nbi)
	isTrue := func(v ssa.Value) bool {
		c, ok := v.(*ssa.Const)
		return ok && c.Value != nil && c.Value.Kind() == constant.Bool && constant.BoolVal(c.Value)
	}

	// (1) noteBlobIndexedLocked records br in recentDone on every path
	okRec := false
	for _, w := range c05FieldMapWrites(nbi, "Index", "recentDone") {
		if c05ParamIs(w.Key, nbi, 1) && isTrue(w.Val) && sameOrigin(w.Base, nbi.Params[0]) {
			if len((&c05Explorer{IgnorePanics: true, Stop: func(in ssa.Instruction) bool { return in == w.Instr }}).FromEntry(nbi)) == 0 {
				okRec = true
			}
		}
	}
	r.Check(okRec, rule, nkey+"#recentDone", p.Pos(nbi.Pos()),
		"recentDone[br]=true on every path",
		"noteBlobIndexedLocked does not record br in recentDone on every path: a blob that notes its need for br just after br was indexed (before its own MarkDone) is never released")

	// (2) a blob leaves needs only into readyReindex
	for _, d := range c05FieldMapBuiltin(nbi, "delete", "Index", "needs") {
		k := d.Common().Args[1]
		ok := false
		for _, w := range c05FieldMapWrites(nbi, "Index", "readyReindex") {
			if !sameOrigin(w.Key, k) || !isTrue(w.Val) {
				continue
			}
			if Precedes(w.Instr, d.Instr) || len((&c05Explorer{IgnorePanics: true, Stop: func(in ssa.Instruction) bool { return in == w.Instr }}).After(d.Instr)) == 0 {
				ok = true
			}
		}
		r.Check(ok, rule, nkey+"#needs-to-ready", p.Pos(d.Pos()),
			"the blob removed from needs is put into readyReindex on the same path",
			"a blob is deleted from Index.needs without being queued in readyReindex: indexReadyBlobs has nothing to pop, the blob is dropped (its missing| rows are only cleaned up by its own successful re-index)")
	}

	// (3) recentDone is cleared only when nothing is pending and after the sweep
	nClear := 0
	for _, fn := range p.FuncsIn(c05Pkg) {
		var resets []ssa.Instruction
		for _, c := range c05FieldMapBuiltin(fn, "clear", "Index", "recentDone") {
			resets = append(resets, c.Instr)
		}
		for _, c := range c05FieldMapBuiltin(fn, "delete", "Index", "recentDone") {
			resets = append(resets, c.Instr)
		}
		for _, b := range fn.Blocks {
			for _, in := range b.Instrs {
				if st, ok := in.(*ssa.Store); ok {
					if _, ok := c05FieldOf(st.Addr, "Index", "recentDone"); ok && fn.Name() != "New" {
						resets = append(resets, st)
					}
				}
			}
		}
		for _, in := range resets {
			nClear++
			construct := FuncKey(fn) + "#recentDone-reset"
			var bad []string
			isPending := func(v ssa.Value) bool { _, ok := c05LoadOfField(v, "Index", "pending"); return ok }
			if k, empty := c05LenZeroFact(in.Block(), isPending); !(k && empty) {
				bad = append(bad, "not under len(pending)==0")
			}
			// the sweep: noteBlobIndexedLocked(k) for k ranging over neededBy with recentDone[k]
			swept := false
			for _, c := range c05CallsTo(fn, nbi) {
				if !inLoop(c.Block()) || ReachableFrom(in, nil)[c.Instr] {
					continue
				}
				arg := c.Args()[1]
				fromNeededBy := DependsOn(arg, func(v ssa.Value) bool {
					rg, ok := v.(*ssa.Range)
					if !ok {
						return false
					}
					_, ok = c05LoadOfField(rg.X, "Index", "neededBy")
					return ok
				})
				underRecent := false
				for _, f := range FactsAt(c.Block()) {
					if lk, ok := f.Cond.(*ssa.Lookup); ok && f.Val && sameOrigin(lk.Index, arg) {
						if _, ok := c05LoadOfField(lk.X, "Index", "recentDone"); ok {
							underRecent = true
						}
					}
				}
				if fromNeededBy && underRecent && ReachableFrom(c.Instr, nil)[in] {
					swept = true
				}
			}
			if !swept {
				bad = append(bad, "not after a sweep calling noteBlobIndexedLocked(k) for every k in neededBy with recentDone[k]")
			}
			r.Check(len(bad) == 0, rule, construct, p.Pos(in.Pos()),
				"recentDone is reset only under len(pending)==0 and after the sweep over neededBy",
				"recentDone is reset "+strings.Join(bad, " and ")+": a dependency indexed while its dependant was still in flight is forgotten, the dependant stays in needs forever")
		}
	}
	_ = markDone

	// (4) getNewPendingBlobIndex registers the entry it returns
	gkey := FuncKey(gnp)
	for _, ri := range Returns(gnp) {
		if len(ri.Results) != 2 || IsNilConst(ri.Results[0]) {
			continue
		}
		ok := false
		for _, w := range c05FieldMapWrites(gnp, "Index", "pending") {
			if c05ParamIs(w.Key, gnp, 2) && sameOrigin(w.Val, ri.Results[0]) && Precedes(w.Instr, ri.Ret) {
				ok = true
			}
		}
		r.Check(ok, rule, gkey+"#register", p.Pos(c05RetPos(ri.Ret)),
			"the returned entry is stored in pending[br] before the return",
			"getNewPendingBlobIndex returns an entry that is not registered in Index.pending under br: len(pending) can reach zero (and recentDone be cleared) while this blob is still being indexed")
	}
	r.Floor(rule, 4)
}
