package main

import (
	"fmt"
	"go/constant"
	"go/token"
	"go/types"
	"sort"
	"strings"
	"time"

	"golang.org/x/tools/go/ssa"
)

func init() {
	register(&PropSpec{
		ID:    "C05",
		Title: "The index is a function of the set of blobs, not of their arrival order (bookkeeping obligations only)",
		Explanation: "Every rule looks at a function's EFFECTIVE BODY: the function plus, transitively (depth 4), the function literals and the unexported same-package functions/methods it calls with a plain static call, as one context-sensitive control-flow graph (a helper's parameter stands for the caller's argument, its results for what it returns; dominance, branch facts - also those implied by what a helper returned -, and path exploration that carries booleans and nil-ness through phis, calls and returns are computed on that graph). A site that sits in a pure helper (unexported, only ever entered by plain calls of its own package) and cannot be judged there is judged in the effective bodies of all its callers (3 levels). The named anchors are ReceiveBlob, populateMutationMap, commit, addBlob, noteNeededLocked, noteBlobIndexedLocked, removeAllMissingEdges, allErrNotExist, indexReadyBlobs, indexBlob, getNewPendingBlobIndex, MarkDone, initNeededMapsLocked, Reindex, New (noteNeeded and noteNeededMemoryLocked are optional: their bodies may be written out at the call sites). " +
			"Decided (structural necessary conditions for 'a blob whose dependencies have not arrived is remembered, not dropped'): " +
			"I-pending — every success return of (*Index).ReceiveBlob is one of: already-indexed shortcut (the have: row read back ends in the same '|indexed' suffix the writer uses), missing-dependency return (preceded by a loop of noteNeeded calls over the fetcher's recorded misses - the list itself, not a proper sub-slice -, no success return reachable once a noteNeeded/commit/addBlob has failed, the miss list known non-empty), or indexed-now return (commit of the populated mutation map succeeded, then noteBlobIndexedLocked and removeAllMissingEdges of the same ref); populateMutationMap writes the '|indexed' suffix only where the populate error is known not to be errMissingDep; noteNeededLocked reports success only after the missing| row was stored and both in-memory maps were updated with the right key/value roles. " +
			"I-miss — every `return errMissingDep` in pkg/index is justified by a recorded miss (a successful noteNeeded before it, or allErrNotExist()==true on a trackErrorsFetcher wrapping the function's own missTrackFetcher), and missTrackFetcher.Fetch appends the ref on every NotExist path. " +
			"I-wg — every reindexWg.Add(1) is followed on all paths by a go of a function that Dones the same WaitGroup on all its paths, indexReadyBlobs is only ever started that way and re-queues blobs whose re-index failed; every successful getNewPendingBlobIndex is paired with MarkDone on all exits, MarkDone always unregisters and wakes waiters; Reindex joins its workers, then reindexWg, before it reads needs/readyReindex or returns success. " +
			"I-open — index.New reloads needs/neededBy (initNeededMapsLocked ok) before every success return, except under aboutToReindex, which is only set where a successful Wipe precedes New; the reload parses the missing| key in the order noteNeededLocked writes it. " +
			"I-recent — noteBlobIndexedLocked always records the ref in recentDone and never removes a blob from needs without queueing it in readyReindex; recentDone is cleared only when no indexing is pending and after the sweep that re-notes recently done dependencies; getNewPendingBlobIndex registers what it returns. " +
			"NOT decided: confluence of the index rows under reordering/interleaving, equality with a full reindex, liveness of the out-of-order queue (a ready blob whose re-index fails, or a restart between a dependency's indexing and its dependants' re-index, is only remembered in memory/rows, never retried by itself), correctness of what is written to the rows, behaviour of any concrete schedule; helpers reached through interfaces, function values, go/defer (other than the deferred-function forms named above) or more than 4 calls deep are not looked into.",
		RuleDocs: map[string]string{
			"I-pending": "classifies every maybe-nil-error return of the effective body of (*Index).ReceiveBlob (returns of helpers whose results are returned included; dominance and path exploration with the failed call's error assumed non-nil, flags/helper results/nil-ness carried along the paths); have: row suffix writer/reader agreement and errMissingDep guard in populateMutationMap; persistence and key roles in noteNeededLocked/noteNeededMemoryLocked",
			"I-miss":    "enumerates every return of the errMissingDep sentinel in pkg/index and demands a recorded miss (judged in the callers when the return sits in a pure helper); missTrackFetcher.Fetch records on every NotExist path",
			"I-wg":      "pairing of reindexWg.Add with go+Done, of getNewPendingBlobIndex with MarkDone, MarkDone's unconditional unregister/close, Reindex's join order, re-queue of failed out-of-order blobs",
			"I-open":    "index.New success returns dominated by initNeededMapsLocked success (exception: aboutToReindex, re-checked: set only before a successful Wipe that precedes New); reload loop and key-part order agreement",
			"I-recent":  "recentDone/readyReindex/pending map discipline in noteBlobIndexedLocked, MarkDone and getNewPendingBlobIndex",
		},
		Run:       runC05,
		DesignRef: "DESIGN.md §4 C05",
		Technique: "static analysis over go/ssa on virtually inlined (context-sensitive) control-flow graphs: dominance and branch facts incl. facts conditioned on helper results, path exploration tracking booleans and nil-ness through phis/calls/returns, acquire/release pairing, caller-lifting of sites in pure helpers, writer/reader constant agreement",
		LevelText: "Decides only the bookkeeping obligations without which an out-of-order blob would be dropped instead of remembered (success returns of ReceiveBlob, justification of errMissingDep, WaitGroup/pending pairing, reload of the needs maps at start-up, recentDone discipline). Does not decide that the index is independent of arrival order, equals a full reindex, or that the out-of-order queue ever drains (level 'other').",
	})
}

const c05Pkg = "pkg/index"
const c05PkgPath = "perkeep.org/pkg/index"

func runC05(p *Program, r *Reporter) {
	fns := p.FuncsIn(c05Pkg)
	r.Analysed("functions", len(fns))
	env := c05EnvFor(p)
	t0 := time.Now()
	var times []string
	lap := func(name string) {
		times = append(times, fmt.Sprintf("%s %.2fs", name, time.Since(t0).Seconds()))
		t0 = time.Now()
	}
	c05RulePending(p, r, env)
	lap("I-pending")
	c05RuleMiss(p, r, env)
	lap("I-miss")
	c05RuleWg(p, r, env)
	lap("I-wg")
	c05RuleOpen(p, r, env)
	lap("I-open")
	c05RuleRecent(p, r)
	lap("I-recent")
	r.Note("rule time after loading: %s", strings.Join(times, ", "))
	nodes := 0
	for _, g := range env.graphs {
		nodes += len(g.nodes)
	}
	r.Analysed("effective_bodies", len(env.graphs))
	r.Analysed("effective_body_nodes", nodes)
}

// c05EnvFor returns the per-program analysis state (one entry: only the most
// recently analysed program is kept alive).
var c05LastEnv *c05Env

func c05EnvFor(p *Program) *c05Env {
	if c05LastEnv == nil || c05LastEnv.p != p {
		c05LastEnv = c05NewEnv(p)
	}
	return c05LastEnv
}

// ===========================================================================
// Effective bodies.
//
// A rule that looks for a site "in function F" looks in F's effective body: F
// plus, transitively (depth <= c05MaxDepth), the function literals and the
// unexported functions/methods of the same package that F calls statically
// with a plain call. The view is context sensitive (one context per call
// string) and is a real control-flow graph: a block that contains an inlined
// call is split at the call, the first half flows into the callee's entry and
// the callee's returns flow into the second half. On that graph the usual
// facts are recomputed: dominance ("P precedes Q" also when P sits in a helper
// called before Q, or both sit in different helpers), branch facts (including
// facts that follow from what a helper returned: `if h() {` gives, inside the
// branch, everything that is known at every `return <maybe true>` of h),
// value identity (a helper's parameter stands for the caller's argument, a
// helper's result for what it returns) and path exploration that carries the
// known boolean / nil-ness of values through phis, calls and returns.
//
// The rules' named anchors (env.stop) are never inlined: calls to them are
// the sites the rules look for.

const c05MaxDepth = 4

type c05Env struct {
	p         *Program
	stop      map[*ssa.Function]bool
	graphs    map[*ssa.Function]*c05Graph
	graphless *c05Graph // for value helpers on plain SSA values (no contexts)
}

// c05AnchorNames: the functions whose calls are the rules' primitive sites.
var c05AnchorNames = [][2]string{
	{"Index", "ReceiveBlob"}, {"Index", "populateMutationMap"}, {"Index", "commit"}, {"Corpus", "addBlob"},
	{"Index", "noteNeededLocked"}, {"Index", "noteNeeded"}, {"Index", "noteNeededMemoryLocked"},
	{"Index", "noteBlobIndexedLocked"}, {"Index", "removeAllMissingEdges"}, {"trackErrorsFetcher", "allErrNotExist"},
	{"Index", "indexReadyBlobs"}, {"Index", "indexBlob"}, {"Index", "getNewPendingBlobIndex"},
	{"pendingBlobIndex", "MarkDone"}, {"Index", "initNeededMapsLocked"}, {"Index", "Reindex"}, {"", "New"},
}

func c05NewEnv(p *Program) *c05Env {
	e := &c05Env{p: p, stop: map[*ssa.Function]bool{}, graphs: map[*ssa.Function]*c05Graph{}}
	e.graphless = &c05Graph{env: e, segs: map[c05BK][]*c05Node{}, originMemo: map[c05V]c05V{}, factMemo: map[*c05Node][]c05Fact{}, factBusy: map[*c05Node]bool{}}
	for _, a := range c05AnchorNames {
		if f := p.LookupFunc(c05Pkg, a[0], a[1]); f != nil {
			e.stop[f] = true
		}
	}
	return e
}

// graph returns the effective body rooted at fn (cached per run).
func (e *c05Env) graph(fn *ssa.Function) *c05Graph {
	if g, ok := e.graphs[fn]; ok {
		return g
	}
	g := &c05Graph{env: e, segs: map[c05BK][]*c05Node{}, originMemo: map[c05V]c05V{}, factMemo: map[*c05Node][]c05Fact{}, factBusy: map[*c05Node]bool{}}
	g.root = g.newCtx(nil, nil, fn, false)
	g.computeDom()
	e.graphs[fn] = g
	return g
}

type c05Ctx struct {
	g      *c05Graph
	parent *c05Ctx
	site   ssa.CallInstruction // the call in parent.fn that enters fn (nil for the root)
	fn     *ssa.Function
	depth  int
	id     int
	kids   map[ssa.CallInstruction]*c05Ctx
	side   bool // deferred callee: explored on request, not linked into the graph
	rets   map[*ssa.Return][]ssa.Value
}

type c05BK struct {
	ctx *c05Ctx
	b   *ssa.BasicBlock
}

// c05Node is a straight-line piece of a block in a context: instructions
// [lo,hi) of b. When kid != nil, instruction hi-1 is an inlined call.
type c05Node struct {
	id           int
	ctx          *c05Ctx
	b            *ssa.BasicBlock
	lo, hi       int
	kid          *c05Ctx
	succs, preds []*c05Node
	idom         *c05Node
	rpo          int // -1: unreachable from the root's entry
}

type c05Graph struct {
	env        *c05Env
	root       *c05Ctx
	ctxs       []*c05Ctx
	nodes      []*c05Node
	segs       map[c05BK][]*c05Node
	originMemo map[c05V]c05V
	factMemo   map[*c05Node][]c05Fact
	factBusy   map[*c05Node]bool
	relevant   map[c05V]bool
}

// c05I / c05V / c05S: an instruction, a value, a call site in a context.
type c05I struct {
	Ctx *c05Ctx
	In  ssa.Instruction
}
type c05V struct {
	Ctx *c05Ctx
	V   ssa.Value
}
type c05S struct {
	Ctx *c05Ctx
	CallSite
}

func (s c05S) I() c05I { return c05I{s.Ctx, s.Instr} }
func (s c05S) Arg(i int) c05V {
	a := s.Args()
	if i >= len(a) {
		return c05V{s.Ctx, nil}
	}
	return c05V{s.Ctx, a[i]}
}
func (s c05S) NArgs() int { return len(s.Args()) }

func (g *c05Graph) inlinable(ctx *c05Ctx, f *ssa.Function) bool {
	if f == nil || len(f.Blocks) == 0 || g.env.stop[f] || ctx.depth >= c05MaxDepth {
		return false
	}
	for c := ctx; c != nil; c = c.parent {
		if c.fn == f {
			return false
		}
	}
	if f.Parent() != nil {
		return true // function literal
	}
	if f.Synthetic != "" || f.Pkg == nil {
		return false
	}
	top := TopFunc(g.root.fn)
	if top.Pkg == nil || f.Pkg != top.Pkg {
		return false
	}
	return !token.IsExported(f.Name())
}

func (g *c05Graph) newCtx(parent *c05Ctx, site ssa.CallInstruction, fn *ssa.Function, side bool) *c05Ctx {
	c := &c05Ctx{g: g, parent: parent, site: site, fn: fn, id: len(g.ctxs), kids: map[ssa.CallInstruction]*c05Ctx{}, side: side, rets: map[*ssa.Return][]ssa.Value{}}
	if parent != nil {
		c.depth = parent.depth + 1
	} else if g.root == nil {
		g.root = c
	}
	g.ctxs = append(g.ctxs, c)
	for _, ri := range Returns(fn) {
		c.rets[ri.Ret] = ri.Results
	}
	g.expand(c)
	return c
}

func (g *c05Graph) newNode(c *c05Ctx, b *ssa.BasicBlock, lo, hi int) *c05Node {
	n := &c05Node{id: len(g.nodes), ctx: c, b: b, lo: lo, hi: hi, rpo: -1}
	g.nodes = append(g.nodes, n)
	return n
}

func c05Link(a, b *c05Node) {
	a.succs = append(a.succs, b)
	b.preds = append(b.preds, a)
}

func (g *c05Graph) expand(c *c05Ctx) {
	callee := map[*ssa.Call]*ssa.Function{}
	for _, b := range c.fn.Blocks {
		lo := 0
		var segs []*c05Node
		for i, in := range b.Instrs {
			call, ok := in.(*ssa.Call)
			if !ok {
				continue
			}
			f := (CallSite{c.fn, call}).Callee()
			if !g.inlinable(c, f) {
				continue
			}
			callee[call] = f
			segs = append(segs, g.newNode(c, b, lo, i+1))
			lo = i + 1
		}
		segs = append(segs, g.newNode(c, b, lo, len(b.Instrs)))
		g.segs[c05BK{c, b}] = segs
	}
	for _, b := range c.fn.Blocks {
		segs := g.segs[c05BK{c, b}]
		for k, n := range segs {
			if k == len(segs)-1 {
				for _, s := range b.Succs {
					c05Link(n, g.segs[c05BK{c, s}][0])
				}
				continue
			}
			call := b.Instrs[n.hi-1].(*ssa.Call)
			kid := g.newCtx(c, call, callee[call], false)
			c.kids[call] = kid
			n.kid = kid
			c05Link(n, kid.entry())
			for _, r := range kid.returnNodes() {
				c05Link(r, segs[k+1])
			}
		}
	}
}

func (c *c05Ctx) entry() *c05Node { return c.g.segs[c05BK{c, c.fn.Blocks[0]}][0] }

// returnNodes: the nodes of c that end in a Return (the recover block excluded).
func (c *c05Ctx) returnNodes() []*c05Node {
	var out []*c05Node
	for _, b := range c.fn.Blocks {
		if b == c.fn.Recover || len(b.Instrs) == 0 {
			continue
		}
		if _, ok := b.Instrs[len(b.Instrs)-1].(*ssa.Return); ok {
			segs := c.g.segs[c05BK{c, b}]
			out = append(out, segs[len(segs)-1])
		}
	}
	return out
}

// sideCtx builds (once) the body of the static callee of a defer/go/call
// instruction as a detached context, so that it can be explored with the
// caller's values standing for its parameters and captured variables.
func (g *c05Graph) sideCtx(ctx *c05Ctx, in ssa.CallInstruction) *c05Ctx {
	if k, ok := ctx.kids[in]; ok {
		return k
	}
	f := (CallSite{ctx.fn, in}).Callee()
	if f == nil || len(f.Blocks) == 0 || ctx.depth >= c05MaxDepth+2 || !InModule(TopFunc(f)) {
		return nil
	}
	for c := ctx; c != nil; c = c.parent {
		if c.fn == f {
			return nil
		}
	}
	k := g.newCtx(ctx, in, f, true)
	ctx.kids[in] = k
	return k
}

func (n *c05Node) last() ssa.Instruction { return n.b.Instrs[n.hi-1] }

// lastNode / firstNode of a block in a context.
func (g *c05Graph) lastNode(c *c05Ctx, b *ssa.BasicBlock) *c05Node {
	s := g.segs[c05BK{c, b}]
	if len(s) == 0 {
		return nil
	}
	return s[len(s)-1]
}
func (g *c05Graph) firstNode(c *c05Ctx, b *ssa.BasicBlock) *c05Node {
	s := g.segs[c05BK{c, b}]
	if len(s) == 0 {
		return nil
	}
	return s[0]
}

func (g *c05Graph) nodeOf(i c05I) (*c05Node, int) {
	idx := instrIndex(i.In)
	for _, n := range g.segs[c05BK{i.Ctx, i.In.Block()}] {
		if n.lo <= idx && idx < n.hi {
			return n, idx
		}
	}
	return nil, -1
}

// ---- dominance

func (g *c05Graph) computeDom() {
	entry := g.root.entry()
	var post []*c05Node
	seen := map[*c05Node]bool{}
	var dfs func(n *c05Node)
	dfs = func(n *c05Node) {
		seen[n] = true
		for _, s := range n.succs {
			if !seen[s] {
				dfs(s)
			}
		}
		post = append(post, n)
	}
	dfs(entry)
	for i, n := range post {
		n.rpo = len(post) - 1 - i
	}
	entry.idom = entry
	intersect := func(a, b *c05Node) *c05Node {
		for a != b {
			for a.rpo > b.rpo {
				a = a.idom
			}
			for b.rpo > a.rpo {
				b = b.idom
			}
		}
		return a
	}
	for changed := true; changed; {
		changed = false
		for i := len(post) - 1; i >= 0; i-- {
			n := post[i]
			if n == entry {
				continue
			}
			var ni *c05Node
			for _, p := range n.preds {
				if p.rpo < 0 || p.idom == nil {
					continue
				}
				if ni == nil {
					ni = p
				} else {
					ni = intersect(p, ni)
				}
			}
			if ni != nil && n.idom != ni {
				n.idom = ni
				changed = true
			}
		}
	}
}

// dominates: a == b, or every path from the root's entry to b passes a.
func (g *c05Graph) dominates(a, b *c05Node) bool {
	if a == nil || b == nil || a.rpo < 0 || b.rpo < 0 {
		return false
	}
	for x := b; ; x = x.idom {
		if x == a {
			return true
		}
		if x.idom == nil || x.idom == x || x.rpo < a.rpo {
			return false
		}
	}
}

// precedes: a executes before b on every path to b.
func (g *c05Graph) precedes(a, b c05I) bool {
	na, ia := g.nodeOf(a)
	nb, ib := g.nodeOf(b)
	if na == nil || nb == nil {
		return false
	}
	if na == nb {
		return ia < ib
	}
	return g.dominates(na, nb)
}

// precedesEnd: a has executed whenever the end of node n is reached.
func (g *c05Graph) precedesEnd(a c05I, n *c05Node) bool {
	na, _ := g.nodeOf(a)
	return na != nil && (na == n || g.dominates(na, n))
}

// inCycle: the node of i lies on a cycle of the effective body (a loop in its
// own function, or a helper called from a loop).
func (g *c05Graph) inCycle(i c05I) bool {
	n, _ := g.nodeOf(i)
	if n == nil {
		return false
	}
	seen := map[*c05Node]bool{}
	var walk func(x *c05Node) bool
	walk = func(x *c05Node) bool {
		for _, s := range x.succs {
			if s == n {
				return true
			}
			if !seen[s] {
				seen[s] = true
				if walk(s) {
					return true
				}
			}
		}
		return false
	}
	return walk(n)
}

// reaches: b can execute after a (plain graph reachability).
func (g *c05Graph) reaches(a, b c05I) bool {
	na, ia := g.nodeOf(a)
	nb, ib := g.nodeOf(b)
	if na == nil || nb == nil {
		return false
	}
	if na == nb && ia < ib {
		return true
	}
	seen := map[*c05Node]bool{}
	var walk func(x *c05Node) bool
	walk = func(x *c05Node) bool {
		for _, s := range x.succs {
			if s == nb {
				return true
			}
			if !seen[s] {
				seen[s] = true
				if walk(s) {
					return true
				}
			}
		}
		return false
	}
	return walk(na)
}

// ---- enumeration

// calls lists every call/go/defer instruction of the effective body (the
// inlined calls themselves included; side contexts excluded).
func (g *c05Graph) calls() []c05S {
	var out []c05S
	for _, c := range g.ctxs {
		if c.side {
			continue
		}
		for _, b := range c.fn.Blocks {
			for _, in := range b.Instrs {
				if ci, ok := in.(ssa.CallInstruction); ok {
					out = append(out, c05S{c, CallSite{c.fn, ci}})
				}
			}
		}
	}
	return out
}

func (g *c05Graph) callsTo(f *ssa.Function) []c05S {
	var out []c05S
	for _, s := range g.calls() {
		if s.Callee() == f {
			out = append(out, s)
		}
	}
	return out
}

// instrs visits every instruction of the effective body.
func (g *c05Graph) instrs(visit func(i c05I)) {
	for _, c := range g.ctxs {
		if c.side {
			continue
		}
		for _, b := range c.fn.Blocks {
			for _, in := range b.Instrs {
				visit(c05I{c, in})
			}
		}
	}
}

// ctxsOf lists the contexts in which fn is (virtually) executed.
func (g *c05Graph) ctxsOf(fn *ssa.Function) []*c05Ctx {
	var out []*c05Ctx
	for _, c := range g.ctxs {
		if c.fn == fn && !c.side {
			out = append(out, c)
		}
	}
	return out
}

// ---- values

func c05ValueFn(v ssa.Value) *ssa.Function {
	switch x := v.(type) {
	case *ssa.Parameter:
		return x.Parent()
	case *ssa.FreeVar:
		return x.Parent()
	case ssa.Instruction:
		return x.Parent()
	}
	return nil
}

// ctxFor finds the context (c or an ancestor) that executes fn; c itself when
// there is none (the value then belongs to a function outside the view).
func c05CtxFor(c *c05Ctx, fn *ssa.Function) *c05Ctx {
	if fn == nil {
		return nil
	}
	for x := c; x != nil; x = x.parent {
		if x.fn == fn {
			return x
		}
	}
	return c
}

func (c *c05Ctx) paramArg(p *ssa.Parameter) (c05V, bool) {
	if c == nil || c.parent == nil || p.Parent() != c.fn {
		return c05V{}, false
	}
	args := (CallSite{c.parent.fn, c.site}).Common().Args
	for i, q := range c.fn.Params {
		if q == p {
			if i < len(args) {
				return c05V{c.parent, args[i]}, true
			}
		}
	}
	return c05V{}, false
}

// resultOf: when v is (an Extract of) the value of an inlined call, the
// callee's context and the result index.
func (g *c05Graph) resultOf(v c05V) (*c05Ctx, int, bool) {
	if v.Ctx == nil {
		return nil, 0, false
	}
	switch x := v.V.(type) {
	case *ssa.Call:
		if k := v.Ctx.kids[x]; k != nil && !k.side && k.fn.Signature.Results().Len() == 1 {
			return k, 0, true
		}
	case *ssa.Extract:
		if call, ok := x.Tuple.(*ssa.Call); ok {
			if k := v.Ctx.kids[call]; k != nil && !k.side {
				return k, x.Index, true
			}
		}
	}
	return nil, 0, false
}

// origin resolves v to the value it stands for: value-preserving wrappers and
// single-assignment variables (originValue), a helper's parameter -> the
// caller's argument, a captured variable -> its binding, the result of an
// inlined call -> the returned value when all returns agree.
func (g *c05Graph) origin(v c05V) c05V {
	if v.V == nil {
		return v
	}
	if o, ok := g.originMemo[v]; ok {
		return o
	}
	in := v
	for i := 0; i < 32; i++ {
		o := originValue(v.V)
		if o == nil {
			break
		}
		if fn := c05ValueFn(o); fn != nil {
			v = c05V{c05CtxFor(v.Ctx, fn), o}
		} else {
			v = c05V{nil, o}
			break
		}
		switch x := o.(type) {
		case *ssa.Parameter:
			if a, ok := v.Ctx.paramArg(x); ok {
				v = a
				continue
			}
		case *ssa.FreeVar:
			if b := bindingOf(x); b != nil {
				v = c05V{c05CtxFor(v.Ctx, x.Parent().Parent()), b}
				continue
			}
		case *ssa.Field:
			// a field of a struct value built once in a local variable
			ox := g.origin(c05V{v.Ctx, x.X})
			if ld, ok := ox.V.(*ssa.UnOp); ok && ld.Op == token.MUL {
				if al, ok := ld.X.(*ssa.Alloc); ok {
					if fv := c05StructFieldStore(al, x.Field); fv != nil {
						v = c05V{ox.Ctx, fv}
						continue
					}
				}
			}
		case *ssa.UnOp:
			if x.Op == token.MUL {
				if fa, ok := x.X.(*ssa.FieldAddr); ok {
					if al, ok := fa.X.(*ssa.Alloc); ok {
						if fv := c05StructFieldStore(al, fa.Field); fv != nil {
							v = c05V{v.Ctx, fv}
							continue
						}
						// a by-value struct parameter spilled to a local: the field of what was passed
						if w := c05StructWholeStore(al); w != nil {
							ox := g.origin(c05V{v.Ctx, w})
							if ld, ok := ox.V.(*ssa.UnOp); ok && ld.Op == token.MUL {
								if al2, ok := ld.X.(*ssa.Alloc); ok {
									if fv := c05StructFieldStore(al2, fa.Field); fv != nil {
										v = c05V{ox.Ctx, fv}
										continue
									}
								}
							}
						}
					}
				}
			}
		case *ssa.Call, *ssa.Extract:
			if k, idx, ok := g.resultOf(v); ok {
				var first c05V
				same := len(k.rets) > 0
				n := 0
				for _, res := range k.rets {
					if idx >= len(res) {
						same = false
						break
					}
					ro := g.origin(c05V{k, res[idx]})
					if n == 0 {
						first = ro
					} else if ro != first {
						same = false
					}
					n++
				}
				if same && n > 0 {
					v = first
					continue
				}
			}
		}
		break
	}
	g.originMemo[in] = v
	return v
}

// c05StructFieldStore: for a local struct variable whose address does not
// escape and whose field idx is stored exactly once (a composite literal
// hoisted into a variable), the stored value.
func c05StructFieldStore(al *ssa.Alloc, idx int) ssa.Value {
	if al.Referrers() == nil {
		return nil
	}
	var val ssa.Value
	n := 0
	for _, r := range *al.Referrers() {
		switch x := r.(type) {
		case *ssa.FieldAddr:
			if x.Referrers() == nil {
				continue
			}
			for _, r2 := range *x.Referrers() {
				switch y := r2.(type) {
				case *ssa.Store:
					if y.Addr != ssa.Value(x) {
						return nil
					}
					if x.Field == idx {
						val = y.Val
						n++
					}
				case *ssa.UnOp:
					if y.Op != token.MUL {
						return nil
					}
				case *ssa.DebugRef:
				default:
					return nil
				}
			}
		case *ssa.UnOp:
			if x.Op != token.MUL {
				return nil
			}
		case *ssa.DebugRef:
		default:
			return nil
		}
	}
	if n != 1 {
		return nil
	}
	return val
}

// c05StructWholeStore: for a local struct variable that is assigned as a
// whole exactly once, never field-wise, and whose address does not escape,
// the assigned value.
func c05StructWholeStore(al *ssa.Alloc) ssa.Value {
	if al.Referrers() == nil {
		return nil
	}
	var val ssa.Value
	n := 0
	for _, r := range *al.Referrers() {
		switch x := r.(type) {
		case *ssa.Store:
			if x.Addr != ssa.Value(al) {
				return nil
			}
			val = x.Val
			n++
		case *ssa.FieldAddr:
			if x.Referrers() == nil {
				continue
			}
			for _, r2 := range *x.Referrers() {
				switch y := r2.(type) {
				case *ssa.UnOp:
					if y.Op != token.MUL {
						return nil
					}
				case *ssa.DebugRef:
				default:
					return nil
				}
			}
		case *ssa.UnOp:
			if x.Op != token.MUL {
				return nil
			}
		case *ssa.DebugRef:
		default:
			return nil
		}
	}
	if n != 1 {
		return nil
	}
	return val
}

// same: the two values denote the same run-time value as far as the view can tell.
func (g *c05Graph) same(a, b c05V) bool { return g.sameAs(a, b, true) }

// sameAs: with throughCalls, the result of an inlined call also stands for
// each of the values the callee may return (as a phi stands for its operands);
// facts about nil-ness must not be transferred that way.
func (g *c05Graph) sameAs(a, b c05V, throughCalls bool) bool {
	if a.V == nil || b.V == nil {
		return false
	}
	oa, ob := g.origin(a), g.origin(b)
	if oa == ob {
		return true
	}
	// a phi (or the result of an inlined call) one of whose incoming values is the other
	flows := func(x, y c05V) bool {
		if ph, ok := x.V.(*ssa.Phi); ok {
			for _, e := range ph.Edges {
				if g.origin(c05V{x.Ctx, e}) == y {
					return true
				}
			}
		}
		if !throughCalls {
			return false
		}
		if k, idx, ok := g.resultOf(x); ok {
			for _, res := range k.rets {
				if idx < len(res) {
					for _, l := range c05Leaves(res[idx], nil, 0) {
						if g.origin(c05V{k, l.V}) == y {
							return true
						}
					}
				}
			}
		}
		return false
	}
	return flows(oa, ob) || flows(ob, oa)
}

// isParam: v stands for parameter idx of the root function.
func (g *c05Graph) isParam(v c05V, idx int) bool {
	ps := g.root.fn.Params
	return idx < len(ps) && g.same(v, c05V{g.root, ps[idx]})
}

// dependsOn: v transitively depends (operands, variable stores, elements
// stored into locally built arrays/structs, a helper's parameter -> the
// argument, an inlined call's result -> what it returns) on a value
// satisfying target.
func (g *c05Graph) dependsOn(v c05V, target func(c05V) bool) bool {
	return g.dependsOnB(v, target, nil)
}

// c05IsSubSlice: v is x[lo:hi] with a bound (a proper part of x as far as can be told).
func c05IsSubSlice(v c05V) bool {
	sl, ok := v.V.(*ssa.Slice)
	return ok && (sl.Low != nil || sl.High != nil)
}

// dependsOnB is dependsOn that does not look through values satisfying barrier.
func (g *c05Graph) dependsOnB(v c05V, target func(c05V) bool, barrier func(c05V) bool) bool {
	seen := map[c05V]bool{}
	var walk func(v c05V, depth int) bool
	walk = func(v c05V, depth int) bool {
		if v.V == nil || seen[v] || depth > 80 {
			return false
		}
		seen[v] = true
		if fn := c05ValueFn(v.V); fn != nil {
			v.Ctx = c05CtxFor(v.Ctx, fn)
		}
		if target(v) {
			return true
		}
		if barrier != nil && barrier(v) {
			return false
		}
		switch x := v.V.(type) {
		case *ssa.Parameter:
			if a, ok := v.Ctx.paramArg(x); ok {
				return walk(a, depth+1)
			}
			return false
		case *ssa.FreeVar:
			if b := bindingOf(x); b != nil {
				return walk(c05V{c05CtxFor(v.Ctx, x.Parent().Parent()), b}, depth+1)
			}
			return false
		case *ssa.Alloc:
			if x.Referrers() == nil {
				return false
			}
			for _, ref := range *x.Referrers() {
				switch y := ref.(type) {
				case *ssa.Store:
					if y.Addr == ssa.Value(x) && walk(c05V{v.Ctx, y.Val}, depth+1) {
						return true
					}
				case *ssa.IndexAddr, *ssa.FieldAddr:
					for _, r2 := range *y.(ssa.Value).Referrers() {
						if st, ok := r2.(*ssa.Store); ok && st.Addr == y.(ssa.Value) && walk(c05V{v.Ctx, st.Val}, depth+1) {
							return true
						}
					}
				}
			}
			return false
		case *ssa.UnOp:
			if x.Op == token.MUL {
				if cell, ok := varOf(x.X); ok {
					if cell != x.X && target(c05V{c05CtxFor(v.Ctx, c05ValueFn(cell)), cell}) {
						return true
					}
					for _, st := range storesTo(cell) {
						if walk(c05V{c05CtxFor(v.Ctx, st.Parent()), st.Val}, depth+1) {
							return true
						}
					}
				}
			}
		case *ssa.Call, *ssa.Extract:
			if k, idx, ok := g.resultOf(v); ok {
				for _, res := range k.rets {
					if idx < len(res) && walk(c05V{k, res[idx]}, depth+1) {
						return true
					}
				}
				return false
			}
		}
		if in, ok := v.V.(ssa.Instruction); ok {
			for _, op := range in.Operands(nil) {
				if *op != nil && walk(c05V{v.Ctx, *op}, depth+1) {
					return true
				}
			}
		}
		return false
	}
	return walk(v, 0)
}

// fieldOf: addr is &X.field of the pkg/index struct typeName; returns X.
func (g *c05Graph) fieldOf(addr c05V, typeName, field string) (c05V, bool) {
	if base, ok := c05FieldOf(addr.V, typeName, field); ok {
		return c05V{addr.Ctx, base}, true
	}
	if o := g.origin(addr); o != addr && o.V != nil {
		if base, ok := c05FieldOf(o.V, typeName, field); ok {
			return c05V{o.Ctx, base}, true
		}
	}
	return c05V{}, false
}

// loadOfField: v is a load of X.field; returns X.
func (g *c05Graph) loadOfField(v c05V, typeName, field string) (c05V, bool) {
	for i := 0; i < 2; i++ {
		if u, ok := v.V.(*ssa.UnOp); ok && u.Op == token.MUL {
			if base, ok := c05FieldOf(u.X, typeName, field); ok {
				return c05V{v.Ctx, base}, true
			}
		}
		o := g.origin(v)
		if o == v || o.V == nil {
			break
		}
		v = o
	}
	return c05V{}, false
}

// ---- branch facts

// c05Fact: condition C evaluated to Val; or (IsNil) value C is nil (Val) /
// non-nil (!Val).
type c05Fact struct {
	C     c05V
	Val   bool
	IsNil bool
}

// edgeFact: the fact established by taking the edge from -> to, if any.
func (g *c05Graph) edgeFact(from, to *c05Node) (c05Fact, bool) {
	if from.kid != nil || from.hi != len(from.b.Instrs) || len(from.succs) != 2 || from.succs[0] == from.succs[1] {
		return c05Fact{}, false
	}
	ifi, ok := from.last().(*ssa.If)
	if !ok {
		return c05Fact{}, false
	}
	switch to {
	case from.succs[0]:
		return c05Fact{C: c05V{from.ctx, ifi.Cond}, Val: true}, true
	case from.succs[1]:
		return c05Fact{C: c05V{from.ctx, ifi.Cond}, Val: false}, true
	}
	return c05Fact{}, false
}

// factsAt returns what is known on every path to (the whole of) node n: the
// conditions of the dominating branch edges, and what follows from them about
// the returns of inlined helpers.
func (g *c05Graph) factsAt(n *c05Node) []c05Fact {
	if n == nil || n.rpo < 0 {
		return nil
	}
	if f, ok := g.factMemo[n]; ok {
		return f
	}
	var out []c05Fact
	for d := n.idom; d != nil && d != n; d = d.idom {
		if len(d.succs) == 2 && d.succs[0] != d.succs[1] {
			for i := 0; i < 2; i++ {
				s := d.succs[i]
				if !(s == n || g.dominates(s, n)) {
					continue
				}
				okEdge := true
				for _, p := range s.preds {
					if p != d && p.rpo >= 0 && !g.dominates(s, p) {
						okEdge = false
					}
				}
				if !okEdge {
					continue
				}
				if f, ok := g.edgeFact(d, s); ok {
					out = append(out, f)
				}
			}
		}
		if d.idom == d {
			break
		}
	}
	if g.factBusy[n] {
		return out
	}
	g.factBusy[n] = true
	out = g.expandFacts(out)
	delete(g.factBusy, n)
	g.factMemo[n] = out
	return out
}

// factsOnEdge: the facts at the end of from, plus the edge's own condition.
func (g *c05Graph) factsOnEdge(from, to *c05Node) []c05Fact {
	out := append([]c05Fact(nil), g.factsAt(from)...)
	if to != nil {
		if f, ok := g.edgeFact(from, to); ok {
			out = g.expandFacts(append(out, f))
		}
	}
	return out
}

// c05ResLeaf is one value a helper may return for a result, with the node at
// whose end it is chosen and (for phi operands) the node the edge leads to.
type c05ResLeaf struct {
	V    c05V
	At   *c05Node
	Next *c05Node
}

func (g *c05Graph) resultLeaves(k *c05Ctx, idx int) []c05ResLeaf {
	var out []c05ResLeaf
	for _, rn := range k.returnNodes() {
		res := k.rets[rn.last().(*ssa.Return)]
		if idx >= len(res) {
			continue
		}
		for _, l := range c05Leaves(res[idx], rn.b, 0) {
			at, next := rn, (*c05Node)(nil)
			if l.To != nil {
				at = g.lastNode(k, l.At)
				next = g.firstNode(k, l.To)
			}
			out = append(out, c05ResLeaf{c05V{k, l.V}, at, next})
		}
	}
	return out
}

// expandFacts adds, for every fact that says something about the result of an
// inlined call (true/false, nil/non-nil), the facts common to all returns of
// the callee that are compatible with it.
func (g *c05Graph) expandFacts(facts []c05Fact) []c05Fact {
	have := map[c05Fact]bool{}
	for _, f := range facts {
		have[f] = true
	}
	for i := 0; i < len(facts) && i < 96; i++ {
		f := facts[i]
		var subject c05V
		wantNil, wantVal := false, false
		if f.IsNil {
			subject, wantNil, wantVal = f.C, true, f.Val
		} else {
			cc, val := g.condCore(f.C, f.Val)
			cond := cc.V
			if bo, ok := cond.(*ssa.BinOp); ok && (bo.Op == token.EQL || bo.Op == token.NEQ) && (IsNilConst(bo.X) || IsNilConst(bo.Y)) {
				other := bo.X
				if IsNilConst(bo.X) {
					other = bo.Y
				}
				subject, wantNil, wantVal = c05V{cc.Ctx, other}, true, (bo.Op == token.EQL) == val
			} else {
				subject, wantVal = cc, val
			}
		}
		// the subject as an inlined call's result (through parameters and plain variables)
		so := subject
		k, idx, ok := g.resultOf(so)
		if !ok {
			so = g.originShallow(subject)
			k, idx, ok = g.resultOf(so)
		}
		if !ok {
			continue
		}
		var common map[c05Fact]bool
		n := 0
		for _, l := range g.resultLeaves(k, idx) {
			lf := g.factsOnEdge(l.At, l.Next)
			var self *c05Fact
			if wantNil {
				if IsNilConst(l.V.V) {
					if !wantVal {
						continue
					}
				} else if kn, isNil := g.nilFact(lf, l.V); kn {
					if isNil != wantVal {
						continue
					}
				} else if isNonNilErrorExpr(l.V.V) {
					if wantVal {
						continue
					}
				} else {
					self = &c05Fact{C: l.V, Val: wantVal, IsNil: true}
				}
			} else {
				if c, ok := l.V.V.(*ssa.Const); ok && c.Value != nil && c.Value.Kind() == constant.Bool {
					if constant.BoolVal(c.Value) != wantVal {
						continue
					}
				} else {
					self = &c05Fact{C: l.V, Val: wantVal}
				}
			}
			set := map[c05Fact]bool{}
			for _, x := range lf {
				set[x] = true
			}
			if self != nil {
				set[*self] = true
			}
			if n == 0 {
				common = set
			} else {
				for x := range common {
					if !set[x] {
						delete(common, x)
					}
				}
			}
			n++
		}
		var add []c05Fact
		for x := range common {
			if !have[x] {
				add = append(add, x)
			}
		}
		sort.Slice(add, func(i, j int) bool { return c05FactLess(add[i], add[j]) })
		for _, x := range add {
			have[x] = true
			facts = append(facts, x)
		}
	}
	return facts
}

func c05FactLess(a, b c05Fact) bool {
	ka := fmt.Sprintf("%d|%s|%v|%v", c05CtxID(a.C.Ctx), a.C.V.Name(), a.Val, a.IsNil)
	kb := fmt.Sprintf("%d|%s|%v|%v", c05CtxID(b.C.Ctx), b.C.V.Name(), b.Val, b.IsNil)
	return ka < kb
}

func c05CtxID(c *c05Ctx) int {
	if c == nil {
		return -1
	}
	return c.id
}

// originShallow follows only value-preserving steps that keep "the result of
// a call" a call result: wrappers, single-store variables, parameters.
func (g *c05Graph) originShallow(v c05V) c05V {
	for i := 0; i < 16 && v.V != nil; i++ {
		o := originValue(v.V)
		if fn := c05ValueFn(o); fn != nil {
			v = c05V{c05CtxFor(v.Ctx, fn), o}
		} else {
			return c05V{nil, o}
		}
		if p, ok := o.(*ssa.Parameter); ok {
			if a, ok := v.Ctx.paramArg(p); ok {
				v = a
				continue
			}
		}
		break
	}
	return v
}

// condCore strips negations from a condition and looks through parameters of
// inlined helpers (the caller's argument) and plain single-assignment
// variables; val is adjusted for the negations.
func (g *c05Graph) condCore(c c05V, val bool) (c05V, bool) {
	for i := 0; i < 16 && c.V != nil; i++ {
		next := false
		switch x := c.V.(type) {
		case *ssa.UnOp:
			if x.Op == token.NOT {
				c, val, next = c05V{c.Ctx, x.X}, !val, true
			} else if x.Op == token.MUL {
				if o := originValue(x); o != ssa.Value(x) && o != nil {
					if fn := c05ValueFn(o); fn != nil {
						c = c05V{c05CtxFor(c.Ctx, fn), o}
					} else {
						c = c05V{nil, o}
					}
					next = true
				}
			}
		case *ssa.Parameter:
			if a, ok := c.Ctx.paramArg(x); ok {
				c, next = a, true
			}
		}
		if !next {
			break
		}
	}
	return c, val
}

// nilFact: what facts say about v's nil-ness.
func (g *c05Graph) nilFact(facts []c05Fact, v c05V) (known, isNil bool) {
	for _, f := range facts {
		if f.IsNil {
			if g.sameAs(f.C, v, false) {
				return true, f.Val
			}
			continue
		}
		cc, val := g.condCore(f.C, f.Val)
		cond := cc.V
		bo, ok := cond.(*ssa.BinOp)
		if !ok || (bo.Op != token.EQL && bo.Op != token.NEQ) {
			continue
		}
		var other ssa.Value
		if IsNilConst(bo.Y) {
			other = bo.X
		} else if IsNilConst(bo.X) {
			other = bo.Y
		} else {
			continue
		}
		if g.sameAs(c05V{cc.Ctx, other}, v, false) {
			return true, (bo.Op == token.EQL) == val
		}
	}
	return false, false
}

// boolCallFact: a call satisfying pred is known to have returned val.
func (g *c05Graph) boolCallFact(facts []c05Fact, pred func(c05S) bool) (known, val bool, site c05S) {
	for _, f := range facts {
		if f.IsNil {
			continue
		}
		cc, v := g.condCore(f.C, f.Val)
		o := g.originShallow(cc)
		if c, ok := o.V.(*ssa.Call); ok {
			s := c05S{o.Ctx, CallSite{c.Parent(), c}}
			if pred(s) {
				return true, v, s
			}
		}
	}
	return false, false, c05S{}
}

// lenZeroFact: what facts say about len(x)==0 for a slice/map x satisfying is.
func (g *c05Graph) lenZeroFact(facts []c05Fact, is func(c05V) bool) (known, empty bool) {
	for _, f := range facts {
		if f.IsNil {
			continue
		}
		cc, val := g.condCore(f.C, f.Val)
		bo, ok := cc.V.(*ssa.BinOp)
		if !ok {
			continue
		}
		x, y, op := bo.X, bo.Y, bo.Op
		if _, isC := x.(*ssa.Const); isC { // 0 == len(x), 0 < len(x)
			x, y = y, x
			switch op {
			case token.LSS:
				op = token.GTR
			case token.GTR:
				op = token.LSS
			case token.LEQ:
				op = token.GEQ
			case token.GEQ:
				op = token.LEQ
			}
		}
		lc, ok := g.originShallow(c05V{cc.Ctx, x}).V.(*ssa.Call)
		if !ok || !c05IsBuiltin(CallSite{lc.Parent(), lc}, "len") || len(lc.Call.Args) != 1 {
			continue
		}
		lctx := c05CtxFor(cc.Ctx, lc.Parent())
		if !is(c05V{lctx, lc.Call.Args[0]}) {
			continue
		}
		n, ok := ConstInt(y)
		if !ok {
			continue
		}
		switch {
		case n == 0 && op == token.EQL:
			return true, val
		case n == 0 && (op == token.NEQ || op == token.GTR):
			return true, !val
		case n == 0 && op == token.LEQ:
			return true, val
		case n == 1 && op == token.GEQ:
			return true, !val
		case n == 1 && op == token.LSS:
			return true, val
		}
	}
	return false, false
}

// ---- returns of the root

// c05Ret is one way the root may return a possibly-nil error: the root's
// Return, the leaf error value, and the nodes at whose ends the leaf is
// chosen (outermost first; the facts of all of them hold).
type c05Ret struct {
	Ret   *ssa.Return
	Val   c05V
	Ats   []*c05Node
	Nexts []*c05Node // per At: the node a phi edge leads to (nil otherwise)
}

func (g *c05Graph) rootReturns() []*c05Node { return g.root.returnNodes() }

// nilRets lists the leaves of the root's error result that may be nil.
func (g *c05Graph) nilRets() []c05Ret {
	idx := ErrResultIndex(g.root.fn)
	if idx < 0 {
		return nil
	}
	var out []c05Ret
	for _, rn := range g.rootReturns() {
		ret := rn.last().(*ssa.Return)
		g.maybeNil(ret, c05V{g.root, g.root.rets[ret][idx]}, []*c05Node{rn}, []*c05Node{nil}, 0, &out)
	}
	return out
}

func (g *c05Graph) retFacts(r c05Ret) []c05Fact {
	var out []c05Fact
	for i, n := range r.Ats {
		out = append(out, g.factsOnEdge(n, r.Nexts[i])...)
	}
	return out
}

// retAfter: instruction i has executed whenever the root returns through leaf
// r: by dominance, or because no feasible path from the entry reaches r's
// Return with a possibly-nil error without passing i.
func (g *c05Graph) retAfter(i c05I, r c05Ret) bool {
	for k, n := range r.Ats {
		if k == 0 && len(r.Ats) == 1 && r.Nexts[0] == nil {
			if g.precedes(i, c05I{g.root, r.Ret}) {
				return true
			}
			break
		}
		if g.precedesEnd(i, n) {
			return true
		}
	}
	x := &c05X{G: g, IgnorePanics: true, Stop: func(j c05I) bool { return j == i }, ExitOK: func(c05I) bool { return true }}
	x.Fail = func(j c05I) bool { return j.In == ssa.Instruction(r.Ret) && g.successExit(x, j) }
	return len(x.FromEntry()) == 0
}

// successExit: j is a Return of the root whose error result is not known
// non-nil on the explored path.
func (g *c05Graph) successExit(x *c05X, j c05I) bool {
	ret, ok := j.In.(*ssa.Return)
	if !ok || j.Ctx != g.root {
		return false
	}
	idx := ErrResultIndex(g.root.fn)
	if idx < 0 {
		return true
	}
	if k, isNil := x.IsNil(c05V{g.root, g.root.rets[ret][idx]}); k && !isNil {
		return false
	}
	return true
}

func (g *c05Graph) maybeNil(ret *ssa.Return, v c05V, ats, nexts []*c05Node, depth int, out *[]c05Ret) {
	leaf := func() {
		*out = append(*out, c05Ret{ret, v, append([]*c05Node(nil), ats...), append([]*c05Node(nil), nexts...)})
	}
	if IsNilConst(v.V) {
		leaf()
		return
	}
	var facts []c05Fact
	for i, n := range ats {
		facts = append(facts, g.factsOnEdge(n, nexts[i])...)
	}
	if k, isNil := g.nilFact(facts, v); k && !isNil {
		return
	}
	if isNonNilErrorExpr(v.V) {
		return
	}
	if depth > 8 {
		leaf()
		return
	}
	at := ats[len(ats)-1]
	if ph, ok := v.V.(*ssa.Phi); ok {
		for i, e := range ph.Edges {
			pn := g.lastNode(v.Ctx, ph.Block().Preds[i])
			nx := g.firstNode(v.Ctx, ph.Block())
			// the phi edge replaces the innermost position when it lies in the same context
			a2, n2 := append([]*c05Node(nil), ats...), append([]*c05Node(nil), nexts...)
			if at.ctx == v.Ctx {
				a2[len(a2)-1], n2[len(n2)-1] = pn, nx
			} else {
				a2, n2 = append(a2, pn), append(n2, nx)
			}
			g.maybeNil(ret, c05V{v.Ctx, e}, a2, n2, depth+1, out)
		}
		return
	}
	o := g.originShallow(v)
	if k, idx, ok := g.resultOf(o); ok {
		for _, rn := range k.returnNodes() {
			res := k.rets[rn.last().(*ssa.Return)]
			if idx < len(res) {
				g.maybeNil(ret, c05V{k, res[idx]}, append(append([]*c05Node(nil), ats...), rn), append(append([]*c05Node(nil), nexts...), nil), depth+1, out)
			}
		}
		return
	}
	if o != v && o.V != nil {
		if _, isPhi := o.V.(*ssa.Phi); isPhi || IsNilConst(o.V) {
			g.maybeNil(ret, o, ats, nexts, depth+1, out)
			return
		}
	}
	leaf()
}

// c05Tuple is one way the root may return: all results, resolved through
// `return helper(...)`.
type c05Tuple struct {
	Ret     *ssa.Return
	Results []c05V
	Ats     []*c05Node
}

func (g *c05Graph) returnTuples() []c05Tuple {
	var out []c05Tuple
	var expand func(ret *ssa.Return, c *c05Ctx, rn *c05Node, ats []*c05Node, depth int)
	expand = func(ret *ssa.Return, c *c05Ctx, rn *c05Node, ats []*c05Node, depth int) {
		res := c.rets[rn.last().(*ssa.Return)]
		ats = append(append([]*c05Node(nil), ats...), rn)
		// all results are the results, in order, of one inlined call?
		var kid *c05Ctx
		ok := len(res) > 0 && depth < 6
		for i, v := range res {
			k, idx, isRes := g.resultOf(g.originShallow(c05V{c, v}))
			if !isRes || idx != i || (kid != nil && k != kid) {
				ok = false
				break
			}
			kid = k
		}
		if ok && kid != nil {
			for _, krn := range kid.returnNodes() {
				expand(ret, kid, krn, ats, depth+1)
			}
			return
		}
		t := c05Tuple{Ret: ret, Ats: ats}
		for _, v := range res {
			t.Results = append(t.Results, c05V{c, v})
		}
		out = append(out, t)
	}
	for _, rn := range g.rootReturns() {
		expand(rn.last().(*ssa.Return), g.root, rn, nil, 0)
	}
	return out
}

func (g *c05Graph) tupleFacts(t c05Tuple) []c05Fact {
	var out []c05Fact
	for _, n := range t.Ats {
		out = append(out, g.factsAt(n)...)
	}
	return out
}

func (g *c05Graph) tupleAfter(i c05I, t c05Tuple) bool {
	for _, n := range t.Ats {
		if nn, _ := g.nodeOf(i); nn != nil && nn != n && g.dominates(nn, n) {
			return true
		}
		if nn, ii := g.nodeOf(i); nn == n && ii < n.hi-1 {
			return true
		}
	}
	return false
}

// ---- path exploration

// c05X explores the paths of the effective body, carrying what is known about
// booleans (flags through phis, results of helpers) and nil-ness (errors)
// along each path; knowledge about a value is dropped when the instruction
// that defines it executes again.
type c05X struct {
	G            *c05Graph
	Init         map[c05V]bool // initial knowledge: bool value, or (nil-able types) true = nil
	Assume       func(cond c05V) (known, val bool)
	Stop         func(i c05I) bool // obligation met: the path ends fine
	Fail         func(i c05I) bool // reaching this instruction is a leak
	ExitOK       func(i c05I) bool // acceptable Return of the top context / Panic
	IgnorePanics bool
	Top          *c05Ctx // the context whose returns are exits (default: the root)

	env map[c05V]bool // current path's knowledge, valid during callbacks
	cur *c05Node      // the node being walked
}

type c05XLeak struct {
	At  c05I
	Via []*c05Node
}

func c05IsBool(t types.Type) bool {
	b, ok := t.Underlying().(*types.Basic)
	return ok && b.Info()&types.IsBoolean != 0
}

func c05Nilable(t types.Type) bool {
	switch t.Underlying().(type) {
	case *types.Pointer, *types.Interface, *types.Slice, *types.Map, *types.Chan, *types.Signature:
		return true
	}
	return false
}

func (x *c05X) lookup(env map[c05V]bool, v c05V) (known, val bool) {
	if b, ok := env[v]; ok {
		return true, b
	}
	if len(env) == 0 {
		return false, false
	}
	if o := x.G.originShallow(v); o != v {
		if b, ok := env[o]; ok {
			return true, b
		}
	}
	if o := x.G.origin(v); o != v {
		if b, ok := env[o]; ok {
			return true, b
		}
	}
	return false, false
}

func (c *c05Ctx) within(a *c05Ctx) bool {
	for x := c; x != nil; x = x.parent {
		if x == a {
			return true
		}
	}
	return false
}

// learnable: cond (possibly negated) is `x == nil` / `x != nil` or a plain
// boolean whose outcome is consulted again later (it is returned by a helper,
// flows into a phi, or is tested by more than one branch). subj is the value
// the knowledge is about; taking the true edge means subj == eq (for nil
// tests: subj is nil == eq).
func (g *c05Graph) learnable(cond c05V) (subj c05V, isNilTest, eq, ok bool) {
	subj, isNilTest, eq = g.condSubject(cond)
	if subj.V == nil {
		return subj, false, false, false
	}
	if _, isConst := subj.V.(*ssa.Const); isConst {
		return subj, false, false, false
	}
	return subj, isNilTest, eq, g.relevantSet()[subj]
}

// condSubject: the value a branch condition is about.
func (g *c05Graph) condSubject(cond c05V) (subj c05V, isNilTest, eq bool) {
	cc, val := g.condCore(cond, true)
	c := cc.V
	if c == nil {
		return c05V{}, false, false
	}
	if bo, ok := c.(*ssa.BinOp); ok && (bo.Op == token.EQL || bo.Op == token.NEQ) && (IsNilConst(bo.X) || IsNilConst(bo.Y)) {
		other := bo.X
		if IsNilConst(bo.X) {
			other = bo.Y
		}
		return g.originShallow(c05V{cc.Ctx, other}), true, (bo.Op == token.EQL) == val
	}
	if !c05IsBool(c.Type()) {
		return c05V{}, false, false
	}
	return g.originShallow(cc), false, val
}

func (g *c05Graph) relevantSet() map[c05V]bool {
	if g.relevant != nil {
		return g.relevant
	}
	rel := map[c05V]bool{}
	tests := map[c05V]int{}
	add := func(v c05V) {
		if v.V == nil {
			return
		}
		if _, isConst := v.V.(*ssa.Const); isConst {
			return
		}
		if c05IsBool(v.V.Type()) || c05Nilable(v.V.Type()) {
			rel[g.originShallow(v)] = true
		}
	}
	for _, c := range g.ctxs {
		for _, b := range c.fn.Blocks {
			for _, in := range b.Instrs {
				switch t := in.(type) {
				case *ssa.Return:
					if c.parent != nil {
						for _, v := range c.rets[t] {
							for _, l := range c05Leaves(v, nil, 0) {
								add(c05V{c, l.V})
							}
						}
					}
				case *ssa.Phi:
					for _, e := range t.Edges {
						add(c05V{c, e})
					}
				case *ssa.If:
					if s, _, _ := g.condSubject(c05V{c, t.Cond}); s.V != nil {
						tests[s]++
					}
				}
			}
		}
	}
	for s, n := range tests {
		if n >= 2 {
			rel[s] = true
		}
	}
	g.relevant = rel
	return rel
}

// Bool evaluates a boolean under the current path's knowledge (for callbacks).
func (x *c05X) Bool(v c05V) (known, val bool) { return x.evalBool(v, x.env, 0) }

// IsNil evaluates nil-ness under the current path's knowledge (for callbacks).
func (x *c05X) IsNil(v c05V) (known, isNil bool) { return x.evalNil(v, x.env, 0) }

func (x *c05X) evalBool(v c05V, env map[c05V]bool, depth int) (known, val bool) {
	if v.V == nil || depth > 12 {
		return false, false
	}
	switch c := v.V.(type) {
	case *ssa.Const:
		if c.Value != nil && c.Value.Kind() == constant.Bool {
			return true, constant.BoolVal(c.Value)
		}
		return false, false
	case *ssa.Parameter:
		if a, ok := v.Ctx.paramArg(c); ok {
			return x.evalBool(a, env, depth+1)
		}
	case *ssa.UnOp:
		if c.Op == token.NOT {
			k, b := x.evalBool(c05V{v.Ctx, c.X}, env, depth+1)
			return k, !b
		}
	case *ssa.BinOp:
		if c.Op == token.EQL || c.Op == token.NEQ {
			var other ssa.Value
			if IsNilConst(c.Y) {
				other = c.X
			} else if IsNilConst(c.X) {
				other = c.Y
			}
			if other != nil {
				if k, isNil := x.evalNil(c05V{v.Ctx, other}, env, depth+1); k {
					return true, (c.Op == token.EQL) == isNil
				}
			} else if c05IsBool(c.X.Type()) {
				ka, a := x.evalBool(c05V{v.Ctx, c.X}, env, depth+1)
				kb, b := x.evalBool(c05V{v.Ctx, c.Y}, env, depth+1)
				if ka && kb {
					return true, (c.Op == token.EQL) == (a == b)
				}
			}
		}
	}
	if k, b := x.lookup(env, v); k {
		return true, b
	}
	if x.Assume != nil {
		return x.Assume(v)
	}
	return false, false
}

func (x *c05X) evalNil(v c05V, env map[c05V]bool, depth int) (known, isNil bool) {
	if v.V == nil || depth > 12 {
		return false, false
	}
	if IsNilConst(v.V) {
		return true, true
	}
	if k, b := x.lookup(env, v); k {
		return true, b
	}
	switch c := v.V.(type) {
	case *ssa.Parameter:
		if a, ok := v.Ctx.paramArg(c); ok {
			return x.evalNil(a, env, depth+1)
		}
		return false, false
	case *ssa.ChangeInterface:
		return x.evalNil(c05V{v.Ctx, c.X}, env, depth+1)
	case *ssa.ChangeType:
		return x.evalNil(c05V{v.Ctx, c.X}, env, depth+1)
	case *ssa.MakeInterface, *ssa.Alloc, *ssa.MakeClosure, *ssa.MakeMap, *ssa.MakeSlice, *ssa.MakeChan:
		return true, false
	case *ssa.Phi:
		return false, false
	}
	if isNonNilErrorExpr(v.V) {
		return true, false
	}
	// what dominance says at the current position holds on every path
	if x.cur != nil {
		if k, isNil := x.G.nilFact(x.G.factsAt(x.cur), v); k {
			return true, isNil
		}
	}
	return false, false
}

func c05EnvKey(env map[c05V]bool) string {
	if len(env) == 0 {
		return ""
	}
	var s []string
	for k, v := range env {
		s = append(s, fmt.Sprintf("%d.%s=%v", c05CtxID(k.Ctx), k.V.Name(), v))
	}
	sort.Strings(s)
	return strings.Join(s, ",")
}

func (x *c05X) run(n *c05Node, idx int, pred *c05Node) []c05XLeak {
	g := x.G
	top := x.Top
	if top == nil {
		top = g.root
	}
	var leaks []c05XLeak
	seen := map[string]bool{}
	clone := func(env map[c05V]bool) map[c05V]bool {
		ne := make(map[c05V]bool, len(env)+2)
		for k, v := range env {
			ne[k] = v
		}
		return ne
	}
	set := func(env map[c05V]bool, v c05V, src c05V, old map[c05V]bool) {
		delete(env, v)
		switch {
		case c05IsBool(v.V.Type()):
			if k, b := x.evalBool(src, old, 0); k {
				env[v] = b
			}
		case c05Nilable(v.V.Type()):
			if k, b := x.evalNil(src, old, 0); k {
				env[v] = b
			}
		}
	}
	var walk func(n *c05Node, idx int, pred *c05Node, env map[c05V]bool, via []*c05Node)
	walk = func(n *c05Node, idx int, pred *c05Node, env map[c05V]bool, via []*c05Node) {
		nenv := env
		if pred != nil && idx == 0 && n.lo == 0 && pred.ctx == n.ctx && pred.kid == nil {
			pi := -1
			for i, pp := range n.b.Preds {
				if pp == pred.b {
					pi = i
					break
				}
			}
			first := true
			for _, in := range n.b.Instrs {
				ph, ok := in.(*ssa.Phi)
				if !ok {
					break
				}
				if first {
					nenv, first = clone(env), false
				}
				pv := c05V{n.ctx, ph}
				if pi < 0 {
					delete(nenv, pv)
					continue
				}
				set(nenv, pv, c05V{n.ctx, ph.Edges[pi]}, env) // old env: phis are simultaneous
			}
		}
		key := fmt.Sprintf("%d@%d|%s", n.id, idx, c05EnvKey(nenv))
		if seen[key] {
			return
		}
		seen[key] = true
		via = append(via[:len(via):len(via)], n)
		start := idx
		if start < n.lo {
			start = n.lo
		}
		for i := start; i < n.hi; i++ {
			in := n.b.Instrs[i]
			I := c05I{n.ctx, in}
			if v, ok := in.(ssa.Value); ok {
				_, isPhi := in.(*ssa.Phi)
				_, isEx := in.(*ssa.Extract) // an Extract is as fresh as its call
				if !isPhi && !isEx {
					if _, has := nenv[c05V{n.ctx, v}]; has {
						nenv = clone(nenv)
						delete(nenv, c05V{n.ctx, v})
					}
					if call, ok := in.(*ssa.Call); ok && call.Referrers() != nil {
						for _, r := range *call.Referrers() {
							if ex, ok := r.(*ssa.Extract); ok {
								if _, has := nenv[c05V{n.ctx, ex}]; has {
									nenv = clone(nenv)
									delete(nenv, c05V{n.ctx, ex})
								}
							}
						}
					}
				}
			}
			x.env, x.cur = nenv, n
			if x.Fail != nil && x.Fail(I) {
				leaks = append(leaks, c05XLeak{I, via})
				return
			}
			if x.Stop != nil && x.Stop(I) {
				return
			}
			switch t := in.(type) {
			case *ssa.Return:
				if n.ctx == top || n.ctx.parent == nil || n.ctx.side {
					if x.ExitOK == nil || !x.ExitOK(I) {
						leaks = append(leaks, c05XLeak{I, via})
					}
					return
				}
				// bind the call's results in the caller; what was known about the
				// finished activation's own values is dropped
				cenv := make(map[c05V]bool, len(nenv)+2)
				for k, v := range nenv {
					if k.Ctx == nil || !k.Ctx.within(n.ctx) {
						cenv[k] = v
					}
				}
				res := n.ctx.rets[t]
				pc := n.ctx.parent
				if call, ok := n.ctx.site.(*ssa.Call); ok {
					if len(res) == 1 {
						set(cenv, c05V{pc, call}, c05V{n.ctx, res[0]}, nenv)
					} else if call.Referrers() != nil {
						for _, r := range *call.Referrers() {
							if ex, ok := r.(*ssa.Extract); ok && ex.Index < len(res) {
								set(cenv, c05V{pc, ex}, c05V{n.ctx, res[ex.Index]}, nenv)
							}
						}
					}
				}
				for _, s := range n.succs {
					walk(s, s.lo, n, cenv, via)
				}
				return
			case *ssa.Panic:
				if !x.IgnorePanics && (x.ExitOK == nil || !x.ExitOK(I)) {
					leaks = append(leaks, c05XLeak{I, via})
				}
				return
			case *ssa.If:
				if len(n.succs) != 2 {
					break
				}
				if k, v := x.evalBool(c05V{n.ctx, t.Cond}, nenv, 0); k {
					s := n.succs[1]
					if v {
						s = n.succs[0]
					}
					walk(s, s.lo, n, nenv, via)
					return
				}
				// unknown: both ways, remembering the outcome when it can matter later
				if subj, isNilTest, eq, ok := g.learnable(c05V{n.ctx, t.Cond}); ok {
					for bi, s := range n.succs {
						val := bi == 0
						if !eq {
							val = !val
						}
						_ = isNilTest
						e2 := clone(nenv)
						e2[subj] = val
						walk(s, s.lo, n, e2, via)
					}
					return
				}
			}
		}
		for _, s := range n.succs {
			walk(s, s.lo, n, nenv, via)
		}
	}
	init := map[c05V]bool{}
	for k, v := range x.Init {
		init[k] = v
	}
	walk(n, idx, pred, init, nil)
	return leaks
}

// After explores the paths that start right after instruction i (for an
// inlined call: after it has returned).
func (x *c05X) After(i c05I) []c05XLeak {
	n, idx := x.G.nodeOf(i)
	if n == nil {
		return []c05XLeak{{i, nil}}
	}
	if idx+1 == n.hi && n.kid != nil {
		segs := x.G.segs[c05BK{n.ctx, n.b}]
		for k, s := range segs {
			if s == n && k+1 < len(segs) {
				return x.run(segs[k+1], segs[k+1].lo, nil)
			}
		}
	}
	return x.run(n, idx+1, nil)
}

// FromEntry explores the paths from the first instruction of the top context.
func (x *c05X) FromEntry() []c05XLeak {
	top := x.Top
	if top == nil {
		top = x.G.root
	}
	return x.run(top.entry(), 0, nil)
}

// OnEdge explores the paths that start by taking the edge from -> to.
func (x *c05X) OnEdge(from, to *c05Node) []c05XLeak { return x.run(to, to.lo, from) }

func (g *c05Graph) describeLeaks(leaks []c05XLeak) string {
	p := g.env.p
	var s []string
	for i, l := range leaks {
		if i == 3 {
			s = append(s, "…")
			break
		}
		what := "exit"
		if _, ok := l.At.In.(*ssa.Return); !ok {
			what = "instruction"
		}
		line := p.Fset.Position(l.At.In.Pos()).Line
		if line == 0 && l.At.In.Block() != nil {
			for _, in := range l.At.In.Block().Instrs {
				if in.Pos().IsValid() {
					line = p.Fset.Position(in.Pos()).Line
				}
			}
		}
		var via []string
		for _, n := range l.Via {
			if n.ctx.parent == nil {
				via = append(via, fmt.Sprintf("%d", n.b.Index))
			} else {
				via = append(via, fmt.Sprintf("%s:%d", n.ctx.fn.Name(), n.b.Index))
			}
		}
		if len(via) > 12 {
			via = append(via[:6], append([]string{"…"}, via[len(via)-5:]...)...)
		}
		s = append(s, fmt.Sprintf("%s near line %d via blocks %s", what, line, strings.Join(via, ">")))
	}
	return strings.Join(s, "; ")
}

// allPathsPass: every path from the entry of the top context (default: the
// root) to an exit passes an instruction satisfying pred: directly, as a
// deferred call, or inside a deferred function on all of its paths.
func (g *c05Graph) allPathsPass(top *c05Ctx, pred func(i c05I) bool) []c05XLeak {
	return (&c05X{G: g, Top: top, IgnorePanics: true, Stop: g.passStop(pred)}).FromEntry()
}

// ---- lifting: a site that sits in a pure helper is judged in its callers

// c05PureHelper reports whether fn is only ever entered by plain static calls
// from its own package: an unexported function or method that is never used
// as a value, never started with go/defer and not reachable through an
// interface; or a function literal that is only called.
func (e *c05Env) pureHelper(fn *ssa.Function) ([]CallSite, bool) {
	p := e.p
	if fn == nil || e.stop[fn] {
		return nil, false
	}
	callers := p.StaticCallers(fn)
	if len(callers) == 0 {
		return nil, false
	}
	for _, c := range callers {
		if c.Value() == nil || TopFunc(c.Fn).Pkg != TopFunc(fn).Pkg {
			return nil, false
		}
	}
	if fn.Parent() != nil {
		// every use of the closure value is a call of it (directly or through a variable that is only called)
		for _, mc := range p.cgs().closureMakers[fn] {
			if mc.Referrers() == nil {
				continue
			}
			for _, r := range *mc.Referrers() {
				switch u := r.(type) {
				case *ssa.Call:
					if u.Call.Value != ssa.Value(mc) {
						return nil, false
					}
				case *ssa.Store:
					al, ok := u.Addr.(*ssa.Alloc)
					if !ok || u.Val != ssa.Value(mc) || !plainVariable(al) {
						return nil, false
					}
					okUse := true
					followVar(al, func(ld *ssa.UnOp) {
						if ld.Referrers() == nil {
							return
						}
						for _, r2 := range *ld.Referrers() {
							switch c := r2.(type) {
							case *ssa.Call:
								if c.Call.Value != ssa.Value(ld) {
									okUse = false
								}
							case *ssa.DebugRef:
							default:
								okUse = false
							}
						}
					})
					if !okUse {
						return nil, false
					}
				case *ssa.DebugRef:
				default:
					return nil, false
				}
			}
		}
		return callers, true
	}
	if fn.Synthetic != "" || token.IsExported(fn.Name()) || len(p.FuncValueUses(fn)) > 0 {
		return nil, false
	}
	if fn.Signature.Recv() != nil && len(p.InvokeSites(fn)) > 0 {
		return nil, false
	}
	return callers, true
}

// c05Verdict of a lifted check.
type c05Verdict struct {
	OK      bool
	Vacuous bool // nothing to judge at this level (try the callers)
	Undec   bool
	Detail  string
}

// lifted judges a site of function fn: check is evaluated for every context
// in which fn runs in the effective body rooted at fn; when that does not
// succeed and fn is a pure helper, in the effective bodies of its callers
// (all of them must succeed), up to three levels. The verdict of the first
// level is reported when no level succeeds.
func (e *c05Env) lifted(fn *ssa.Function, check func(g *c05Graph, c *c05Ctx) c05Verdict) c05Verdict {
	level := []*ssa.Function{fn}
	var first c05Verdict
	everyVacuous := true
	for depth := 0; depth <= 3 && len(level) > 0; depth++ {
		allOK, anyVacuous := true, false
		var worst c05Verdict
		for _, root := range level {
			g := e.graph(root)
			cs := g.ctxsOf(fn)
			if len(cs) == 0 {
				allOK = false
				worst = c05Verdict{Detail: "the helper is not reached by plain calls from " + FuncKey(root)}
				continue
			}
			for _, c := range cs {
				v := check(g, c)
				if v.Vacuous {
					anyVacuous = true
					if worst.Detail == "" {
						worst = v
					}
					continue
				}
				if !v.OK {
					allOK = false
					worst = v
				} else if worst.Detail == "" {
					worst = v
				}
			}
		}
		if depth == 0 {
			first = worst
			first.OK = allOK && !anyVacuous
		}
		if !(allOK && anyVacuous) {
			everyVacuous = false
		}
		if allOK && !anyVacuous {
			worst.OK = true
			return worst
		}
		// lift
		var next []*ssa.Function
		seen := map[*ssa.Function]bool{}
		liftable := true
		for _, root := range level {
			callers, ok := e.pureHelper(root)
			if !ok {
				liftable = false
				break
			}
			for _, c := range callers {
				if !seen[c.Fn] {
					seen[c.Fn] = true
					next = append(next, c.Fn)
				}
			}
		}
		if !liftable {
			break
		}
		sort.Slice(next, func(i, j int) bool { return FuncKey(next[i]) < FuncKey(next[j]) })
		level = next
	}
	if everyVacuous {
		first.OK, first.Vacuous = true, true
	}
	return first
}

// ---------------------------------------------------------------------------
// Value-level helpers

// c05FieldOf reports whether addr is &X.field for a struct type named
// typeName declared in pkg/index, returning X.
func c05FieldOf(addr ssa.Value, typeName, field string) (base ssa.Value, ok bool) {
	fa, isFA := addr.(*ssa.FieldAddr)
	if !isFA {
		return nil, false
	}
	n := NamedOf(fa.X.Type())
	if n == nil || n.Obj().Name() != typeName || n.Obj().Pkg() == nil || n.Obj().Pkg().Path() != c05PkgPath {
		return nil, false
	}
	if fieldName(fa.X.Type(), fa.Field) != field {
		return nil, false
	}
	return fa.X, true
}

// c05GlobalLoad reports whether v is a load of the package-level variable
// pkgPath.name.
func c05GlobalLoad(v ssa.Value, pkgPath, name string) bool {
	u, ok := originValue(v).(*ssa.UnOp)
	if !ok || u.Op != token.MUL {
		return false
	}
	g, ok := u.X.(*ssa.Global)
	return ok && g.Name() == name && g.Pkg != nil && g.Pkg.Pkg.Path() == pkgPath
}

// globalLoad: v stands for a load of the package-level variable (through
// parameters of inlined helpers).
func (g *c05Graph) globalLoad(v c05V, pkgPath, name string) bool {
	if v.V == nil {
		return false
	}
	if c05GlobalLoad(v.V, pkgPath, name) {
		return true
	}
	o := g.origin(v)
	return o.V != nil && c05GlobalLoad(o.V, pkgPath, name)
}

func c05IsBuiltin(c CallSite, name string) bool {
	b, ok := c.Common().Value.(*ssa.Builtin)
	return ok && b.Name() == name
}

// c05MapWrite is one write into a map-typed field: m[k] = v or mak.Set(&x.f, k, v).
type c05MapWrite struct {
	I        c05I
	Base     c05V // the struct the field belongs to
	Key, Val c05V
}

// fieldMapWrites lists the writes of the effective body into the map field
// typeName.field.
func (g *c05Graph) fieldMapWrites(typeName, field string) []c05MapWrite {
	var out []c05MapWrite
	g.instrs(func(i c05I) {
		switch x := i.In.(type) {
		case *ssa.MapUpdate:
			if base, ok := g.loadOfField(c05V{i.Ctx, x.Map}, typeName, field); ok {
				out = append(out, c05MapWrite{i, base, c05V{i.Ctx, x.Key}, c05V{i.Ctx, x.Value}})
			}
		case ssa.CallInstruction:
			c := CallSite{i.Ctx.fn, x}
			if c05IsGenericFunc(c.Callee(), "tailscale.com/util/mak", "Set") && len(c.Common().Args) == 3 {
				if base, ok := g.fieldOf(c05V{i.Ctx, c.Common().Args[0]}, typeName, field); ok {
					out = append(out, c05MapWrite{i, base, c05V{i.Ctx, c.Common().Args[1]}, c05V{i.Ctx, c.Common().Args[2]}})
				}
			}
		}
	})
	return out
}

// c05IsGenericFunc matches an instantiation of the generic package function
// pkgPath.name (funcIs compares the instance's bracketed name).
func c05IsGenericFunc(f *ssa.Function, pkgPath, name string) bool {
	if f == nil {
		return false
	}
	if o := f.Origin(); o != nil {
		f = o
	}
	return f.Name() == name && f.Pkg != nil && f.Pkg.Pkg.Path() == pkgPath && f.Signature.Recv() == nil
}

// fieldMapBuiltin lists calls of builtin name (delete, clear, len) in the
// effective body whose first argument is a load of typeName.field.
func (g *c05Graph) fieldMapBuiltin(builtin, typeName, field string) []c05S {
	var out []c05S
	for _, c := range g.calls() {
		if !c05IsBuiltin(c.CallSite, builtin) || len(c.Common().Args) == 0 {
			continue
		}
		if _, ok := g.loadOfField(c05V{c.Ctx, c.Common().Args[0]}, typeName, field); ok {
			out = append(out, c)
		}
	}
	return out
}

// c05VarargElems returns the values stored, in order, into the backing array of
// a variadic argument slice built at the call site (nil when not such a slice).
func c05VarargElems(v ssa.Value) []ssa.Value {
	sl, ok := v.(*ssa.Slice)
	if !ok {
		return nil
	}
	al, ok := sl.X.(*ssa.Alloc)
	if !ok || al.Referrers() == nil {
		return nil
	}
	elems := map[int64]ssa.Value{}
	var max int64 = -1
	for _, ref := range *al.Referrers() {
		ia, ok := ref.(*ssa.IndexAddr)
		if !ok || ia.Referrers() == nil {
			continue
		}
		idx, ok := ConstInt(ia.Index)
		if !ok {
			return nil
		}
		for _, r2 := range *ia.Referrers() {
			if st, ok := r2.(*ssa.Store); ok && st.Addr == ssa.Value(ia) {
				elems[idx] = st.Val
				if idx > max {
					max = idx
				}
			}
		}
	}
	var out []ssa.Value
	for i := int64(0); i <= max; i++ {
		out = append(out, elems[i])
	}
	return out
}

// c05MayReturnMissingDep computes the functions of pkg/index that may return
// the errMissingDep sentinel: directly, or (over-approximated) by calling a
// function that does.
func c05MayReturnMissingDep(p *Program) (direct, all map[*ssa.Function]bool) {
	direct, all = map[*ssa.Function]bool{}, map[*ssa.Function]bool{}
	fns := p.FuncsIn(c05Pkg)
	for _, fn := range fns {
		idx := ErrResultIndex(fn)
		if idx < 0 {
			continue
		}
		for _, ri := range Returns(fn) {
			for _, l := range c05Leaves(ri.Results[idx], ri.Ret.Block(), 0) {
				if c05GlobalLoad(l.V, c05PkgPath, "errMissingDep") {
					direct[fn], all[fn] = true, true
				}
			}
		}
	}
	for changed := true; changed; {
		changed = false
		for _, fn := range fns {
			if all[fn] || ErrResultIndex(fn) < 0 {
				continue
			}
			for _, c := range CallsIn(fn, true) {
				if f := c.Callee(); f != nil && all[f] {
					all[fn], changed = true, true
					break
				}
			}
		}
	}
	return
}

type c05Leaf struct {
	V  ssa.Value
	At *ssa.BasicBlock // the block at whose end the value is chosen
	To *ssa.BasicBlock // for phi operands: the phi's block (the edge At -> To selects V)
}

// c05Leaves expands phis: each leaf value with the block in which it is chosen
// (the predecessor contributing the phi edge).
func c05Leaves(v ssa.Value, at *ssa.BasicBlock, depth int) []c05Leaf {
	return c05LeavesTo(v, at, nil, depth)
}

func c05LeavesTo(v ssa.Value, at, to *ssa.BasicBlock, depth int) []c05Leaf {
	if ph, ok := v.(*ssa.Phi); ok && depth < 6 {
		var out []c05Leaf
		for i, e := range ph.Edges {
			out = append(out, c05LeavesTo(e, ph.Block().Preds[i], ph.Block(), depth+1)...)
		}
		return out
	}
	return []c05Leaf{{v, at, to}}
}

// c05VLeaf is a leaf of a value in the effective body: phis and the results
// of inlined helpers are expanded; Facts are those known where the leaf is
// chosen (plus those at the place of use).
type c05VLeaf struct {
	V     c05V
	Facts []c05Fact
	Where string
}

// valueLeaves expands v (used at node at) into its leaves.
func (g *c05Graph) valueLeaves(v c05V, at *c05Node) []c05VLeaf {
	var out []c05VLeaf
	var walk func(v c05V, facts []c05Fact, where string, depth int)
	walk = func(v c05V, facts []c05Fact, where string, depth int) {
		if depth < 8 {
			if ph, ok := v.V.(*ssa.Phi); ok {
				for i, e := range ph.Edges {
					pn, nx := g.lastNode(v.Ctx, ph.Block().Preds[i]), g.firstNode(v.Ctx, ph.Block())
					f2 := append(append([]c05Fact(nil), facts...), g.factsOnEdge(pn, nx)...)
					walk(c05V{v.Ctx, e}, f2, fmt.Sprintf("%s block %d", v.Ctx.fn.Name(), ph.Block().Preds[i].Index), depth+1)
				}
				return
			}
			o := g.originShallow(v)
			if k, idx, ok := g.resultOf(o); ok {
				for _, rn := range k.returnNodes() {
					res := k.rets[rn.last().(*ssa.Return)]
					if idx < len(res) {
						f2 := append(append([]c05Fact(nil), facts...), g.factsAt(rn)...)
						walk(c05V{k, res[idx]}, f2, fmt.Sprintf("%s block %d", k.fn.Name(), rn.b.Index), depth+1)
					}
				}
				return
			}
			if o != v && o.V != nil {
				if _, isPhi := o.V.(*ssa.Phi); isPhi {
					walk(o, facts, where, depth+1)
					return
				}
			}
		}
		out = append(out, c05VLeaf{v, facts, where})
	}
	walk(v, append([]c05Fact(nil), g.factsAt(at)...), fmt.Sprintf("%s block %d", at.ctx.fn.Name(), at.b.Index), 0)
	return out
}

// notMissingDep reports whether facts say that one of errs is not
// errMissingDep (errors.Is false, == false, != true, or known nil).
func (g *c05Graph) notMissingDep(facts []c05Fact, errs []c05V) bool {
	about := func(a c05V) bool {
		for _, e := range errs {
			if g.same(a, e) {
				return true
			}
		}
		return false
	}
	for _, f := range facts {
		if f.IsNil {
			if f.Val && about(f.C) {
				return true
			}
			continue
		}
		cc, val := g.condCore(f.C, f.Val)
		ctx := cc.Ctx
		switch x := cc.V.(type) {
		case *ssa.Call:
			c := CallSite{x.Parent(), x}
			if c.IsStatic("errors", "", "Is") && about(c05V{ctx, x.Call.Args[0]}) && g.globalLoad(c05V{ctx, x.Call.Args[1]}, c05PkgPath, "errMissingDep") && !val {
				return true
			}
		case *ssa.BinOp:
			if x.Op != token.EQL && x.Op != token.NEQ {
				continue
			}
			a, gl := x.X, x.Y
			if g.globalLoad(c05V{ctx, a}, c05PkgPath, "errMissingDep") {
				a, gl = gl, a
			}
			if g.globalLoad(c05V{ctx, gl}, c05PkgPath, "errMissingDep") && about(c05V{ctx, a}) && (x.Op == token.EQL) != val {
				return true
			}
		}
	}
	for _, e := range errs {
		if k, isNil := g.nilFact(facts, e); k && isNil {
			return true
		}
	}
	return false
}

// c05MayEndWith classifies whether string value v may end with suffix:
// 1 yes, 0 no, -1 unknown.
func c05MayEndWith(v ssa.Value, suffix string) int {
	if s, ok := ConstString(v); ok {
		if strings.HasSuffix(s, suffix) {
			return 1
		}
		return 0
	}
	switch x := originValue(v).(type) {
	case *ssa.Call:
		c := CallSite{x.Parent(), x}
		if c.IsStatic("fmt", "", "Sprintf") || c.IsStatic("fmt", "", "Sprint") {
			if !c.IsStatic("fmt", "", "Sprintf") {
				return -1
			}
			f, ok := ConstString(x.Call.Args[0])
			if !ok {
				return -1
			}
			if strings.HasSuffix(f, suffix) {
				return 1
			}
			// a trailing verb that renders arbitrary text could still produce the suffix
			if n := len(f); n >= 2 && f[n-2] == '%' && strings.ContainsRune("svqxX", rune(f[n-1])) {
				return -1
			}
			return 0
		}
	case *ssa.BinOp:
		if x.Op == token.ADD {
			return c05MayEndWith(x.Y, suffix)
		}
	}
	return -1
}

// keyPrefix: for key = "<const>" + rest, returns the constant and rest.
func (g *c05Graph) keyPrefix(v c05V) (string, c05V, bool) {
	try := func(v c05V) (string, c05V, bool) {
		bo, ok := v.V.(*ssa.BinOp)
		if !ok || bo.Op != token.ADD {
			return "", c05V{}, false
		}
		s, ok := ConstString(bo.X)
		return s, c05V{v.Ctx, bo.Y}, ok
	}
	if v.V == nil {
		return "", c05V{}, false
	}
	if s, r, ok := try(c05V{v.Ctx, originValue(v.V)}); ok {
		return s, r, true
	}
	return try(g.origin(v))
}

// isRefString: v is (blob.Ref).String(ref) with ref the same value as want.
func (g *c05Graph) isRefString(v c05V, want c05V) bool {
	o := g.origin(v)
	call, ok := o.V.(*ssa.Call)
	if !ok {
		return false
	}
	c := CallSite{call.Parent(), call}
	return c.IsStatic("perkeep.org/pkg/blob", "Ref", "String") && g.same(c05V{o.Ctx, call.Call.Args[0]}, want)
}

func c05RetPos(ret *ssa.Return) token.Pos {
	if ret.Pos().IsValid() {
		return ret.Pos()
	}
	var pos token.Pos
	for _, in := range ret.Block().Instrs {
		if in.Pos().IsValid() {
			pos = in.Pos()
		}
	}
	return pos
}

// c05LeafPos: a position for a return leaf (the innermost return).
func c05LeafPos(r c05Ret) token.Pos {
	for i := len(r.Ats) - 1; i >= 0; i-- {
		n := r.Ats[i]
		if ret, ok := n.last().(*ssa.Return); ok {
			if p := c05RetPos(ret); p.IsValid() {
				return p
			}
		}
	}
	return c05RetPos(r.Ret)
}

func c05IsTrue(v ssa.Value) bool {
	c, ok := v.(*ssa.Const)
	return ok && c.Value != nil && c.Value.Kind() == constant.Bool && constant.BoolVal(c.Value)
}

// ---------------------------------------------------------------------------
// I-pending

func c05RulePending(p *Program, r *Reporter, env *c05Env) {
	const rule = "I-pending"
	rb := p.Func(c05Pkg, "Index", "ReceiveBlob")
	pmmFn := p.Func(c05Pkg, "Index", "populateMutationMap")
	commitFn := p.Func(c05Pkg, "Index", "commit")
	addBlobFn := p.Func(c05Pkg, "Corpus", "addBlob")
	nnl := p.Func(c05Pkg, "Index", "noteNeededLocked")
	nn := p.LookupFunc(c05Pkg, "Index", "noteNeeded")              // optional: a locking wrapper
	nnm := p.LookupFunc(c05Pkg, "Index", "noteNeededMemoryLocked") // optional: may be written out in its callers
	nbi := p.Func(c05Pkg, "Index", "noteBlobIndexedLocked")
	rme := p.Func(c05Pkg, "Index", "removeAllMissingEdges")
	key := FuncKey(rb)
	if len(rb.Params) < 4 {
		brokenf("anchor unresolved: (*Index).ReceiveBlob no longer has (ix, ctx, blobRef, source) parameters")
	}
	g := env.graph(rb)
	blobRef := c05V{g.root, rb.Params[2]}

	pmmCalls := g.callsTo(pmmFn)
	if len(pmmCalls) != 1 || pmmCalls[0].Value() == nil {
		r.Undecided(rule, key+"#populate", p.Pos(rb.Pos()), fmt.Sprintf("expected exactly one plain call of populateMutationMap in the effective body of ReceiveBlob, found %d: the success returns cannot be classified", len(pmmCalls)))
		r.Floor(rule, 11)
		return
	}
	pmmS := pmmCalls[0]
	pmm := pmmS.Value()
	pe, _, _ := ErrValue(pmm)
	pErr := c05V{pmmS.Ctx, pe}
	pMM := c05V{pmmS.Ctx, ResultValue(pmm, 0)}
	fetcherArg := pmmS.Arg(2)

	maybeNil := map[*ssa.Return]bool{}
	nilRets := g.nilRets()
	for _, nr := range nilRets {
		maybeNil[nr.Ret] = true
	}
	successExit := func(x *c05X, i c05I) bool {
		ret, ok := i.In.(*ssa.Return)
		return ok && i.Ctx == g.root && maybeNil[ret] && g.successExit(x, i)
	}

	// (1) calls whose failure must exclude a success return
	mustSucceed := map[*ssa.Function]string{nnl: "noteNeededLocked", commitFn: "commit", addBlobFn: "addBlob"}
	if nn != nil {
		mustSucceed[nn] = "noteNeeded"
	}
	var noteCalls []c05S
	for _, c := range g.calls() {
		if c.Callee() == nil {
			continue
		}
		name, ok := mustSucceed[c.Callee()]
		if !ok {
			continue
		}
		if c.Callee() == nnl || c.Callee() == nn {
			noteCalls = append(noteCalls, c)
		}
		construct := key + "#must-succeed:" + name
		call := c.Value()
		if call == nil {
			r.Violation(rule, construct, p.Pos(c.Pos()), name+" is started with go/defer: its error cannot gate the success return")
			continue
		}
		ev, hasErr, discarded := ErrValue(call)
		if !hasErr || discarded || ev == nil {
			r.Violation(rule, construct, p.Pos(c.Pos()), "the error of "+name+" is discarded: a failure cannot be shown to exclude the success return, so a blob could be acknowledged without being recorded/committed")
			continue
		}
		x := &c05X{G: g, Init: map[c05V]bool{{c.Ctx, ev}: false}, IgnorePanics: true}
		x.ExitOK = func(i c05I) bool { return !successExit(x, i) }
		leaks := x.After(c.I())
		r.Check(len(leaks) == 0, rule, construct, p.Pos(c.Pos()),
			"no return with a possibly-nil error is reachable once "+name+" has failed (flags, helper results and error values tracked along the paths of the effective body)",
			"a success return is reachable after "+name+" failed: "+g.describeLeaks(leaks)+" — the blob is acknowledged although it was neither indexed nor recorded as waiting")
	}

	retAfter := g.retAfter
	successDominatesRet := func(c c05S, nr c05Ret) (bool, string) {
		if !retAfter(c.I(), nr) {
			return false, "the call does not precede the return on every path"
		}
		ev, hasErr, discarded := ErrValue(c.Value())
		if !hasErr {
			return true, ""
		}
		if discarded || ev == nil {
			return false, "error result of the call is discarded"
		}
		if k, isNil := g.nilFact(g.retFacts(nr), c05V{c.Ctx, ev}); k && isNil {
			return true, ""
		}
		// path-wise: no success return is reachable once the call failed
		x := &c05X{G: g, Init: map[c05V]bool{{c.Ctx, ev}: false}, IgnorePanics: true}
		x.ExitOK = func(i c05I) bool { return !(i.In == ssa.Instruction(nr.Ret) && successExit(x, i)) }
		if len(x.After(c.I())) == 0 {
			return true, ""
		}
		return false, "the return is not on the err==nil side of the call"
	}

	// (2) classify every success return
	isMissingSlice := func(v c05V) bool {
		base, ok := g.loadOfField(v, "missTrackFetcher", "missing")
		return ok && g.same(base, fetcherArg)
	}
	var shortcutPrefix, shortcutSuffix string
	haveShortcut, sawShortcut := false, false
	seq := map[string]int{}
	for _, nr := range nilRets {
		site := p.Pos(c05LeafPos(nr))
		facts := g.retFacts(nr)
		name := func(class string) string {
			seq[class]++
			if seq[class] > 1 {
				return fmt.Sprintf("%s#return-%s-%d", key, class, seq[class])
			}
			return key + "#return-" + class
		}
		if !retAfter(pmmS.I(), nr) {
			sawShortcut = true
			// already-indexed shortcut
			construct := name("already-indexed")
			k, val, hs := g.boolCallFact(facts, func(c c05S) bool { return c.IsStatic("strings", "", "HasSuffix") })
			if !k || !val {
				r.Violation(rule, construct, site, "success return before populateMutationMap that is not under strings.HasSuffix(<have row>, <indexed suffix>)==true: a blob that was never (fully) indexed is acknowledged without indexing — a waiting blob re-submitted by indexReadyBlobs would be dropped")
				continue
			}
			suffix, okS := "", false
			if so := g.origin(hs.Arg(1)); so.V != nil {
				suffix, okS = ConstString(so.V)
			}
			var get c05S
			if o := g.origin(hs.Arg(0)); o.V != nil {
				if ex, ok := o.V.(*ssa.Extract); ok && ex.Index == 0 {
					if gc, ok := ex.Tuple.(*ssa.Call); ok {
						get = c05S{o.Ctx, CallSite{gc.Parent(), gc}}
					}
				}
			}
			bad := ""
			switch {
			case !okS:
				bad = "the suffix tested is not a constant"
			case get.Instr == nil || !get.Common().IsInvoke() || get.Common().Method.Name() != "Get" || !strings.HasSuffix(typeKey(get.Common().Value.Type()), "sorted.KeyValue"):
				bad = "the tested string is not the value of a sorted.KeyValue.Get"
			default:
				if _, ok := g.loadOfField(c05V{get.Ctx, get.Common().Value}, "Index", "s"); !ok {
					bad = "the Get is not on the index's own storage ix.s"
				}
				pre, rest, ok := g.keyPrefix(c05V{get.Ctx, get.Common().Args[0]})
				if !ok || !g.isRefString(rest, blobRef) {
					bad = "the row read is not <const prefix>+blobRef.String() of the blob being received"
				}
				if ok2, why := successDominatesRet(get, nr); !ok2 {
					bad = "the Get's error is not known nil at the return (" + why + ")"
				}
				shortcutPrefix, shortcutSuffix, haveShortcut = pre, suffix, bad == ""
			}
			r.Check(bad == "", rule, construct, site,
				fmt.Sprintf("shortcut return is under Get(%q+ref) ok and HasSuffix(value, %q)", shortcutPrefix, shortcutSuffix),
				"already-indexed shortcut is not justified: "+bad)
			continue
		}
		kn, isNil := g.nilFact(facts, pErr)
		switch {
		case kn && !isNil:
			construct := name("missing-dep")
			var good []c05S
			for _, c := range noteCalls {
				if c.Value() == nil || !g.reaches(c.I(), c05I{g.root, nr.Ret}) {
					continue
				}
				// the element handed over comes from the miss list itself, not from a proper sub-slice of it
				if c.NArgs() == 3 && g.same(c.Arg(1), blobRef) && g.dependsOnB(c.Arg(2), isMissingSlice, c05IsSubSlice) && g.inCycle(c.I()) {
					good = append(good, c)
				}
			}
			if len(good) == 0 {
				r.Violation(rule, construct, site, "success return on the populate-error path is not preceded by a loop calling noteNeeded(Locked)(blobRef, m) for the misses m recorded in the fetcher handed to populateMutationMap: the blob would be acknowledged but never re-indexed when its dependencies arrive")
				continue
			}
			r.OK(rule, construct, site, fmt.Sprintf("%d noteNeeded call(s) over fetcher.missing lie on the way to this return (their failure is checked under must-succeed)", len(good)))
			// zero-iteration guard: the miss list is known non-empty here, or
			// populateMutationMap only returns an error together with a non-empty list
			c3 := key + "#missing-nonempty"
			if k, empty := g.lenZeroFact(facts, isMissingSlice); k && !empty {
				r.OK(rule, c3, site, "len(fetcher.missing)!=0 is known at the missing-dependency success return")
			} else if ok, why := c05PmmErrImpliesMisses(env, pmmFn); ok {
				r.OK(rule, c3, site, "populateMutationMap returns (mm, err) with err possibly non-nil only under len(fetcher.missing)!=0")
			} else {
				r.Violation(rule, c3, site, "nothing guarantees a non-empty miss list on the missing-dependency path ("+why+"): with zero recorded misses the loop records nothing and the blob is acknowledged and forgotten")
			}
		case kn && isNil:
			construct := name("indexed")
			var bad []string
			var commit c05S
			for _, c := range g.callsTo(commitFn) {
				if v := c.Value(); v != nil && g.same(c.Arg(1), pMM) {
					commit = c
				}
			}
			var commitErr c05V
			if commit.Instr == nil {
				bad = append(bad, "no commit of the mutation map returned by populateMutationMap")
			} else {
				if ok, why := successDominatesRet(commit, nr); !ok {
					bad = append(bad, "commit(mm) success does not dominate the return ("+why+")")
				}
				ce, _, _ := ErrValue(commit.Value())
				commitErr = c05V{commit.Ctx, ce}
			}
			need := func(fn *ssa.Function, what string) {
				var found c05S
				for _, c := range g.callsTo(fn) {
					if _, isCall := c.Instr.(*ssa.Call); !isCall {
						continue
					}
					if c.NArgs() >= 2 && g.same(c.Arg(1), blobRef) && retAfter(c.I(), nr) {
						found = c
					}
				}
				if found.Instr == nil {
					bad = append(bad, what+"(blobRef) does not precede the return on every path")
					return
				}
				if commit.Instr != nil {
					fnode, _ := g.nodeOf(found.I())
					ok := g.precedes(commit.I(), found.I())
					if ok && commitErr.V != nil {
						k, isNil := g.nilFact(g.factsAt(fnode), commitErr)
						ok = k && isNil
					}
					if !ok {
						// path-wise: after a failed commit the call is not reached
						x := &c05X{G: g, Init: map[c05V]bool{commitErr: false}, IgnorePanics: true,
							Fail: func(j c05I) bool { return j == found.I() }, ExitOK: func(c05I) bool { return true }}
						x2 := &c05X{G: g, IgnorePanics: true, Stop: func(j c05I) bool { return j == commit.I() },
							Fail: func(j c05I) bool { return j == found.I() }, ExitOK: func(c05I) bool { return true }}
						ok = commitErr.V != nil && len(x.After(commit.I())) == 0 && len(x2.FromEntry()) == 0
					}
					if !ok {
						bad = append(bad, what+" is not after the successful commit (dependants released/edges removed before the rows they need are stored)")
					}
				}
			}
			need(nbi, "noteBlobIndexedLocked")
			need(rme, "removeAllMissingEdges")
			r.Check(len(bad) == 0, rule, construct, site,
				"dominated by commit(mm)==nil, then noteBlobIndexedLocked(blobRef) and removeAllMissingEdges(blobRef)",
				"indexed-now success return: "+strings.Join(bad, "; "))
		default:
			r.Undecided(rule, name("unclassified"), site, "success return after populateMutationMap where its error is neither known nil nor known non-nil: cannot tell the missing-dependency path from the normal path")
		}
	}

	// (3) have: row — the indexed suffix is written only when the error is not errMissingDep
	_, mayMD := c05MayReturnMissingDep(p)
	if !sawShortcut {
		shortcutPrefix = "none"
	}
	c05HaveRow(p, r, env, rule, pmmFn, mayMD, haveShortcut, shortcutPrefix, shortcutSuffix)

	// (4) noteNeededLocked persists before it reports success; map roles
	c05NoteNeeded(p, r, env, rule, nnl, nnm)
	r.Floor(rule, 11)
}

// c05PmmErrImpliesMisses: every return of populateMutationMap that hands back a
// non-nil map together with a possibly non-nil error is under len(fetcher.missing)!=0.
func c05PmmErrImpliesMisses(env *c05Env, pmmFn *ssa.Function) (bool, string) {
	if len(pmmFn.Params) < 3 {
		return false, "populateMutationMap has no fetcher parameter"
	}
	g := env.graph(pmmFn)
	fetcher := c05V{g.root, pmmFn.Params[2]}
	isMissing := func(v c05V) bool {
		base, ok := g.loadOfField(v, "missTrackFetcher", "missing")
		return ok && g.same(base, fetcher)
	}
	n := 0
	for _, t := range g.returnTuples() {
		if len(t.Results) != 2 || IsNilConst(t.Results[1].V) || IsNilConst(t.Results[0].V) {
			continue
		}
		facts := g.tupleFacts(t)
		if k, isNil := g.nilFact(facts, t.Results[1]); k && isNil {
			continue
		}
		n++
		if k, empty := g.lenZeroFact(facts, isMissing); !(k && !empty) {
			return false, "populateMutationMap can return (mm, err) without len(fetcher.missing)!=0 being known"
		}
	}
	if n == 0 {
		return false, "populateMutationMap has no (mm, err) return"
	}
	return true, ""
}

func c05HaveRow(p *Program, r *Reporter, env *c05Env, rule string, pmmFn *ssa.Function, mayMD map[*ssa.Function]bool, haveShortcut bool, prefix, suffix string) {
	key := FuncKey(pmmFn)
	if !haveShortcut && prefix == "none" {
		r.OKTable(rule, key+"#have-row", p.Pos(pmmFn.Pos()), "ReceiveBlob has no already-indexed shortcut: no reader relies on an 'indexed' marker in the have row")
		return
	}
	if !haveShortcut {
		r.Undecided(rule, key+"#have-row", p.Pos(pmmFn.Pos()), "the already-indexed shortcut of ReceiveBlob was not recognised, so the row prefix/suffix it relies on are unknown and the writer cannot be checked against them")
		return
	}
	// is `in` (of fn) a write of a row under the prefix? returns key and value operands
	writeOf := func(fn *ssa.Function, in ssa.Instruction) (k, v ssa.Value) {
		switch x := in.(type) {
		case *ssa.MapUpdate:
			return x.Key, x.Value
		case *ssa.Call:
			c := CallSite{fn, x}
			if c.MethodName() == "Set" && len(c.Args()) == 3 {
				return c.Args()[1], c.Args()[2]
			}
		}
		return nil, nil
	}
	writers := 0
	for _, fn := range p.FuncsIn(c05Pkg) {
		for _, b := range fn.Blocks {
			for _, in := range b.Instrs {
				k, v := writeOf(fn, in)
				if k == nil {
					continue
				}
				// cheap pre-filter: a constant other prefix, or a key that does not involve a parameter
				if bo, ok := originValue(k).(*ssa.BinOp); ok && bo.Op == token.ADD {
					if pre, ok := ConstString(bo.X); ok && pre != prefix {
						continue
					}
				}
				if _, _, ok := env.graphless.keyPrefix(c05V{nil, k}); !ok {
					if !DependsOn(k, func(x ssa.Value) bool { _, isP := x.(*ssa.Parameter); return isP }) {
						continue
					}
				}
				// the key's constant prefix may come from the caller: judged per context
				var nWriters int
				in := in
				verdict := env.lifted(fn, func(g *c05Graph, c *c05Ctx) c05Verdict {
					pre, _, ok := g.keyPrefix(c05V{c, k})
					if !ok {
						// the key is assembled from the helper's parameters: judged in the callers
						return c05Verdict{Vacuous: true, Detail: "key without a constant prefix"}
					}
					if pre != prefix {
						return c05Verdict{OK: true, Detail: "not a " + prefix + " row"}
					}
					nWriters++
					// errors, in the effective body, that may be errMissingDep
					var errs []c05V
					for _, cs := range g.calls() {
						if f := cs.Callee(); f != nil && mayMD[f] && cs.Value() != nil {
							if ev, has, disc := ErrValue(cs.Value()); has && !disc && ev != nil {
								errs = append(errs, c05V{cs.Ctx, ev})
							}
						}
					}
					n, _ := g.nodeOf(c05I{c, in})
					if n == nil {
						return c05Verdict{Undec: true, Detail: "the write is not part of the effective body"}
					}
					nYes := 0
					unknown := false
					bad := ""
					for _, l := range g.valueLeaves(c05V{c, v}, n) {
						switch c05MayEndWith(l.V.V, suffix) {
						case 1:
							nYes++
							if len(errs) > 0 && !g.notMissingDep(l.Facts, errs) {
								bad = fmt.Sprintf("a value ending in %q is chosen in %s where the populate error is not known to differ from errMissingDep: a blob with a missing dependency would be marked fully indexed and skipped by the shortcut when it is re-submitted", suffix, l.Where)
							}
						case -1:
							unknown = true
						}
					}
					switch {
					case bad != "":
						return c05Verdict{Detail: bad}
					case unknown:
						return c05Verdict{Undec: true, Detail: "a value written under the " + prefix + " key cannot be classified (not a constant or Sprintf with constant format)"}
					case len(errs) == 0 && nYes > 0:
						return c05Verdict{Vacuous: true, Detail: fmt.Sprintf("%d value(s) ending in %q; no call that may return errMissingDep in scope", nYes, suffix)}
					}
					return c05Verdict{OK: true, Detail: fmt.Sprintf("%d value(s) ending in %q, each chosen only where the populate error is known not to be errMissingDep (errors.Is/==/nil fact); %d candidate error(s)", nYes, suffix, len(errs))}
				})
				if nWriters == 0 {
					continue
				}
				writers++
				construct := FuncKey(fn) + "#have-row"
				switch {
				case verdict.OK:
					r.OK(rule, construct, p.Pos(in.Pos()), verdict.Detail)
					r.OKTable(rule, construct+"-agreement", p.Pos(in.Pos()), fmt.Sprintf("writer and ReceiveBlob's shortcut agree on key prefix %q and suffix %q", prefix, suffix))
				case verdict.Undec:
					r.Undecided(rule, construct, p.Pos(in.Pos()), verdict.Detail)
				default:
					r.Violation(rule, construct, p.Pos(in.Pos()), verdict.Detail)
				}
			}
		}
	}
	if writers == 0 {
		r.Violation(rule, key+"#have-row", p.Pos(pmmFn.Pos()), fmt.Sprintf("no writer of a %q row found in pkg/index although ReceiveBlob's shortcut reads one", prefix))
	}
}

func c05NoteNeeded(p *Program, r *Reporter, env *c05Env, rule string, nnl, nnm *ssa.Function) {
	key := FuncKey(nnl)
	g := env.graph(nnl)
	if len(nnl.Params) != 3 {
		brokenf("anchor unresolved: noteNeededLocked(have, missing) signature changed")
	}
	var set c05S
	for _, c := range g.calls() {
		v := c.Value()
		if v == nil || !v.Call.IsInvoke() || v.Call.Method.Name() != "Set" {
			continue
		}
		if kc, ok := g.origin(c05V{c.Ctx, v.Call.Args[0]}).V.(*ssa.Call); ok {
			kcs := CallSite{kc.Parent(), kc}
			if kcs.IsStatic(c05PkgPath, "keyType", "Key") && c05GlobalLoad(kc.Call.Args[0], c05PkgPath, "keyMissing") {
				set = c
			}
		}
	}
	var bad []string
	if set.Instr == nil {
		bad = append(bad, "no store of a keyMissing row into the index storage")
	}
	mem := c05MemUpdates(g, nnm)
	for _, nr := range g.nilRets() {
		facts := g.retFacts(nr)
		returnsSetErr := set.Instr != nil && !IsNilConst(nr.Val.V) && g.same(nr.Val, c05V{set.Ctx, set.Value()})
		if set.Instr != nil && !returnsSetErr {
			ok := g.retAfter(set.I(), nr)
			if ok {
				k, isNil := g.nilFact(facts, c05V{set.Ctx, set.Value()})
				ok = k && isNil
			}
			if !ok {
				bad = append(bad, "a success return is not dominated by the row store succeeding: the need would be lost at the next restart")
			}
		}
		okMem := false
		for _, m := range mem {
			if g.retAfter(m.I, nr) && g.isParam(m.Have, 1) && g.isParam(m.Missing, 2) {
				okMem = true
			}
		}
		if !okMem && returnsSetErr {
			okMem = true // returning Set's own error value; memory update checked on the nil path
		}
		if !okMem {
			bad = append(bad, "a success return is not preceded by the update of needs/neededBy for (have, missing)")
		}
	}
	r.Check(len(bad) == 0, rule, key+"#persist", p.Pos(nnl.Pos()),
		"success is reported only after the missing| row was stored without error and needs/neededBy were updated",
		strings.Join(bad, "; "))

	// roles in the in-memory maps (judged in noteNeededMemoryLocked, or where its body was written out)
	mfn := nnm
	if mfn == nil {
		mfn = nnl
	}
	mk := FuncKey(mfn)
	if len(mfn.Params) != 3 {
		brokenf("anchor unresolved: noteNeededMemoryLocked(have, missing) signature changed")
	}
	gm := env.graph(mfn)
	check := func(field string, keyIdx, valIdx int) string {
		for _, w := range gm.fieldMapWrites("Index", field) {
			if !gm.isParam(w.Key, keyIdx) {
				continue
			}
			if !gm.dependsOn(w.Val, func(v c05V) bool { return gm.isParam(v, valIdx) }) {
				continue
			}
			// on every path that does not end in an error return
			x := &c05X{G: gm, IgnorePanics: true, Stop: gm.passStop(func(i c05I) bool { return i == w.I })}
			x.ExitOK = func(j c05I) bool { return !gm.successExit(x, j) }
			if len(x.FromEntry()) == 0 {
				return ""
			}
		}
		return fmt.Sprintf("%s is not updated on every path with key=%s and a value containing %s", field, mfn.Params[keyIdx].Name(), mfn.Params[valIdx].Name())
	}
	var bad2 []string
	if s := check("needs", 1, 2); s != "" {
		bad2 = append(bad2, s)
	}
	if s := check("neededBy", 2, 1); s != "" {
		bad2 = append(bad2, s)
	}
	r.Check(len(bad2) == 0, rule, mk+"#maps", p.Pos(mfn.Pos()),
		"needs[have] gains missing and neededBy[missing] gains have on every path",
		strings.Join(bad2, "; ")+" — noteBlobIndexedLocked(missing) would not find the waiting blob")
}

// c05MemUpdate is one update of the in-memory needs/neededBy maps for the
// pair (Have, Missing): a call of noteNeededMemoryLocked, or - where that
// helper's body is written out - a pair of writes needs[Have] <- ..Missing..
// and neededBy[Missing] <- ..Have.. on the same Index. Both have happened
// after I.
type c05MemUpdate struct {
	Recv, Have, Missing c05V
	I                   c05I
	Pos                 token.Pos
}

func c05MemUpdates(g *c05Graph, nnm *ssa.Function) []c05MemUpdate {
	var out []c05MemUpdate
	if nnm != nil {
		for _, c := range g.callsTo(nnm) {
			if _, isCall := c.Instr.(*ssa.Call); isCall && c.NArgs() == 3 {
				out = append(out, c05MemUpdate{c.Arg(0), c.Arg(1), c.Arg(2), c.I(), c.Pos()})
			}
		}
	}
	ns, bs := g.fieldMapWrites("Index", "needs"), g.fieldMapWrites("Index", "neededBy")
	for _, n := range ns {
		for _, b := range bs {
			if !g.same(n.Base, b.Base) {
				continue
			}
			if !g.dependsOn(n.Val, func(v c05V) bool { return g.same(v, b.Key) }) || !g.dependsOn(b.Val, func(v c05V) bool { return g.same(v, n.Key) }) {
				continue
			}
			later := b.I
			switch {
			case g.precedes(n.I, b.I):
			case g.precedes(b.I, n.I):
				later = n.I
			default:
				continue
			}
			out = append(out, c05MemUpdate{n.Base, n.Key, b.Key, later, later.In.Pos()})
		}
	}
	return out
}

// ---------------------------------------------------------------------------
// I-miss

// c05OuterParam: v is a parameter of the view's root (or of a function
// enclosing it).
func c05OuterParam(v c05V) bool {
	p, ok := v.V.(*ssa.Parameter)
	return ok && (v.Ctx == nil || v.Ctx.parent == nil || p.Parent() != v.Ctx.fn)
}

func c05RuleMiss(p *Program, r *Reporter, env *c05Env) {
	const rule = "I-miss"
	direct, _ := c05MayReturnMissingDep(p)
	nnl := p.Func(c05Pkg, "Index", "noteNeededLocked")
	nn := p.LookupFunc(c05Pkg, "Index", "noteNeeded") // optional: a locking wrapper
	allNotExist := p.Func(c05Pkg, "trackErrorsFetcher", "allErrNotExist")
	mtf := p.NamedType(c05Pkg, "missTrackFetcher")
	if mtf == nil {
		brokenf("anchor unresolved: type index.missTrackFetcher")
	}
	mtfPtr := types.NewPointer(mtf)

	var fns []*ssa.Function
	for fn := range direct {
		fns = append(fns, fn)
	}
	sort.Slice(fns, func(i, j int) bool { return FuncKey(fns[i]) < FuncKey(fns[j]) })
	for _, fn := range fns {
		idx := ErrResultIndex(fn)
		for _, ri := range Returns(fn) {
			for _, l := range c05Leaves(ri.Results[idx], ri.Ret.Block(), 0) {
				if !c05GlobalLoad(l.V, c05PkgPath, "errMissingDep") {
					continue
				}
				l := l
				construct := FuncKey(fn) + "#return-errMissingDep"
				site := p.Pos(c05RetPos(ri.Ret))
				v := env.lifted(fn, func(g *c05Graph, c *c05Ctx) c05Verdict {
					at := g.lastNode(c, l.At)
					var next *c05Node
					if l.To != nil {
						next = g.firstNode(c, l.To)
					}
					if at == nil {
						return c05Verdict{Detail: "the return is not part of the effective body"}
					}
					facts := g.factsOnEdge(at, next)
					// (ii) a successful noteNeeded precedes
					for _, cs := range g.calls() {
						if cs.Callee() != nil && (cs.Callee() == nnl || cs.Callee() == nn) && cs.Value() != nil && g.precedesEnd(cs.I(), at) {
							if ev, has, disc := ErrValue(cs.Value()); has && !disc && ev != nil {
								if k, isNil := g.nilFact(facts, c05V{cs.Ctx, ev}); k && isNil {
									return c05Verdict{OK: true, Detail: "dominated by a successful " + cs.MethodName() + " (the need is stored before the sentinel is returned)"}
								}
							}
						}
					}
					// (i) allErrNotExist()==true on a tracker wrapping the function's missTrackFetcher
					k, val, ac := g.boolCallFact(facts, func(cs c05S) bool { return cs.Callee() == allNotExist })
					if k && val {
						if bad := c05TrackerWrapsMissTracker(g, ac.Arg(0), mtfPtr); bad == "" {
							return c05Verdict{OK: true, Detail: "under allErrNotExist()==true of a trackErrorsFetcher that wraps the *missTrackFetcher passed in (every NotExist fetch was recorded in fetcher.missing)"}
						} else {
							return c05Verdict{Detail: "errMissingDep is returned under allErrNotExist(), but " + bad + ": the misses are not recorded where ReceiveBlob looks for them, so the blob is marked 'have' without '|indexed' and never re-indexed"}
						}
					}
					return c05Verdict{Detail: "errMissingDep is returned without a recorded miss (no successful noteNeeded dominates, no allErrNotExist()==true on a tracking fetcher): ReceiveBlob turns this sentinel into success, so the blob would be forgotten"}
				})
				r.Check(v.OK, rule, construct, site, v.Detail, v.Detail)
			}
		}
	}

	// missTrackFetcher.Fetch records every NotExist
	fetch := p.Func(c05Pkg, "missTrackFetcher", "Fetch")
	fkey := FuncKey(fetch) + "#record"
	g := env.graph(fetch)
	var inner c05S
	for _, c := range g.calls() {
		if v := c.Value(); v != nil && v.Call.IsInvoke() && v.Call.Method.Name() == "Fetch" {
			if base, ok := g.loadOfField(c05V{c.Ctx, v.Call.Value}, "missTrackFetcher", "fetcher"); ok && g.isParam(base, 0) {
				inner = c
			}
		}
	}
	if inner.Instr == nil || len(fetch.Params) < 3 {
		r.Violation(rule, fkey, p.Pos(fetch.Pos()), "missTrackFetcher.Fetch no longer forwards to its wrapped fetcher")
	} else {
		e, _, _ := ErrValue(inner.Value())
		ev := c05V{inner.Ctx, e}
		isNotExistTest := func(cond c05V) (bool, bool) {
			call, ok := cond.V.(*ssa.Call)
			if !ok {
				return false, false
			}
			c := CallSite{call.Parent(), call}
			if c.IsStatic("errors", "", "Is") && g.same(c05V{cond.Ctx, call.Call.Args[0]}, ev) &&
				(g.globalLoad(c05V{cond.Ctx, call.Call.Args[1]}, "os", "ErrNotExist") || g.globalLoad(c05V{cond.Ctx, call.Call.Args[1]}, "io/fs", "ErrNotExist")) {
				return true, true
			}
			if c.IsStatic("os", "", "IsNotExist") && g.same(c05V{cond.Ctx, call.Call.Args[0]}, ev) {
				return true, true
			}
			return false, false
		}
		stop := func(i c05I) bool {
			st, ok := i.In.(*ssa.Store)
			if !ok {
				return false
			}
			base, ok := g.fieldOf(c05V{i.Ctx, st.Addr}, "missTrackFetcher", "missing")
			return ok && g.isParam(base, 0) && g.dependsOn(c05V{i.Ctx, st.Val}, func(v c05V) bool { return g.isParamDirect(v, 2) })
		}
		init := map[c05V]bool{}
		if e != nil {
			init[ev] = false
		}
		leaks := (&c05X{G: g, Init: init, Assume: isNotExistTest, Stop: stop, IgnorePanics: true}).After(inner.I())
		r.Check(len(leaks) == 0, rule, fkey, p.Pos(inner.Pos()),
			"assuming the wrapped Fetch's error is NotExist, every path to an exit appends br to f.missing",
			"with a NotExist error from the wrapped fetcher an exit is reachable without br being appended to f.missing ("+g.describeLeaks(leaks)+"): the dependency is not recorded, errMissingDep is then swallowed and the blob never re-indexed")
	}
	r.Floor(rule, 5)
}

// isParamDirect: v is (syntactically, through helper parameters) the root's
// parameter idx; cheaper than isParam and usable as a dependsOn target.
func (g *c05Graph) isParamDirect(v c05V, idx int) bool {
	ps := g.root.fn.Params
	return idx < len(ps) && v.Ctx == g.root && v.V == ssa.Value(ps[idx])
}

// c05TrackerWrapsMissTracker checks that tf (receiver of allErrNotExist) is a
// trackErrorsFetcher allocated in the effective body whose field f is only
// ever set to a *missTrackFetcher that derives from one of the root's
// parameters.
func c05TrackerWrapsMissTracker(g *c05Graph, tf c05V, mtfPtr types.Type) string {
	o := g.origin(tf)
	al, ok := o.V.(*ssa.Alloc)
	if !ok {
		return "the tracking fetcher is not allocated in this function"
	}
	n := 0
	for _, ref := range *al.Referrers() {
		fa, ok := ref.(*ssa.FieldAddr)
		if !ok || fieldName(fa.X.Type(), fa.Field) != "f" || fa.Referrers() == nil {
			continue
		}
		for _, r2 := range *fa.Referrers() {
			st, ok := r2.(*ssa.Store)
			if !ok || st.Addr != ssa.Value(fa) {
				continue
			}
			n++
			v := st.Val
			for {
				if mi, ok := v.(*ssa.MakeInterface); ok {
					v = mi.X
					continue
				}
				if ci, ok := v.(*ssa.ChangeInterface); ok {
					v = ci.X
					continue
				}
				break
			}
			t := v.Type()
			if ta, ok := v.(*ssa.TypeAssert); ok {
				t = ta.AssertedType
			}
			if !types.Identical(t, mtfPtr) {
				// an interface-typed parameter of a helper: look at what the caller passes
				if ov := g.origin(c05V{o.Ctx, v}); ov.V != nil && types.Identical(ov.V.Type(), mtfPtr) {
					t = ov.V.Type()
				}
			}
			if !types.Identical(t, mtfPtr) {
				return "its wrapped fetcher is a " + t.String() + ", not the *missTrackFetcher"
			}
			if !g.dependsOn(c05V{o.Ctx, v}, c05OuterParam) {
				return "its wrapped *missTrackFetcher is not the one passed to this function"
			}
		}
	}
	if n == 0 {
		return "its wrapped fetcher is never set"
	}
	return ""
}

// ---------------------------------------------------------------------------
// I-wg

func c05IsJoin(c CallSite) bool {
	return c.IsStatic("sync", "WaitGroup", "Wait") || c.IsStatic("go4.org/syncutil", "Group", "Wait") ||
		c.IsStatic("go4.org/syncutil", "Group", "Err") || c.IsStatic("golang.org/x/sync/errgroup", "Group", "Wait")
}

// passStop turns "instruction satisfies pred" into the stop test of a
// must-pass exploration: a plain call or a deferred call satisfying pred, or
// a deferred function that passes pred on all of its own paths. Goroutines
// started with go do not count.
func (g *c05Graph) passStop(pred func(i c05I) bool) func(i c05I) bool {
	var stop func(i c05I, depth int) bool
	stop = func(i c05I, depth int) bool {
		if _, isGo := i.In.(*ssa.Go); isGo {
			return false
		}
		if pred(i) {
			return true
		}
		if d, ok := i.In.(*ssa.Defer); ok && depth < 3 {
			if k := g.sideCtx(i.Ctx, d); k != nil {
				lk := (&c05X{G: g, Top: k, IgnorePanics: true, Stop: func(j c05I) bool { return stop(j, depth+1) }}).FromEntry()
				return len(lk) == 0
			}
		}
		return false
	}
	return func(i c05I) bool { return stop(i, 0) }
}

// wgBase: for a call of sync.WaitGroup.<method> whose receiver is
// &X.reindexWg, the value X.
func (g *c05Graph) wgBase(s c05S, method string) (c05V, bool) {
	if !s.IsStatic("sync", "WaitGroup", method) || s.NArgs() == 0 {
		return c05V{}, false
	}
	return g.fieldOf(s.Arg(0), "Index", "reindexWg")
}

// goReleases reports whether instruction i starts (go) a function that Dones
// the reindexWg of base on all of its paths.
func (g *c05Graph) goReleases(i c05I, base c05V) bool {
	gi, ok := i.In.(*ssa.Go)
	if !ok {
		return false
	}
	k := g.sideCtx(i.Ctx, gi)
	if k == nil {
		return false
	}
	isDone := func(j c05I) bool {
		ci, ok := j.In.(ssa.CallInstruction)
		if !ok {
			return false
		}
		b, ok := g.wgBase(c05S{j.Ctx, CallSite{j.Ctx.fn, ci}}, "Done")
		return ok && g.same(b, base)
	}
	return len(g.allPathsPass(k, isDone)) == 0
}

func c05RuleWg(p *Program, r *Reporter, env *c05Env) {
	const rule = "I-wg"
	irb := p.Func(c05Pkg, "Index", "indexReadyBlobs")
	indexBlob := p.Func(c05Pkg, "Index", "indexBlob")
	isReindexWg := func(v ssa.Value) bool {
		_, ok := c05FieldOf(v, "Index", "reindexWg")
		return ok
	}

	// (1) every reindexWg.Add(1) is followed by go <releasing function>
	nAdd := 0
	for _, fn := range p.FuncsIn(c05Pkg) {
		for _, c := range CallsIn(fn, false) {
			if !c.IsStatic("sync", "WaitGroup", "Add") || !isReindexWg(c.Args()[0]) {
				continue
			}
			nAdd++
			c := c
			construct := FuncKey(fn) + "#reindexWg.Add"
			site := p.Pos(c.Pos())
			if n, ok := ConstInt(c.Args()[1]); !ok || n != 1 || c.IsDefer() || c.IsGo() {
				r.Undecided(rule, construct, site, "reindexWg.Add with a delta other than the constant 1 (or deferred): cannot be paired with one goroutine")
				continue
			}
			v := env.lifted(fn, func(g *c05Graph, ctx *c05Ctx) c05Verdict {
				s := c05S{ctx, c}
				base, ok := g.wgBase(s, "Add")
				if !ok {
					return c05Verdict{Detail: "receiver is not an Index's reindexWg"}
				}
				leaks := (&c05X{G: g, IgnorePanics: true, Stop: func(i c05I) bool { return g.goReleases(i, base) }}).After(s.I())
				if len(leaks) == 0 {
					return c05Verdict{OK: true}
				}
				return c05Verdict{Detail: g.describeLeaks(leaks)}
			})
			r.Check(v.OK, rule, construct, site,
				"on every path the Add(1) is followed by a go statement whose function calls Done on the same WaitGroup on all its paths",
				"reindexWg.Add(1) is not followed on every path by a goroutine that Dones it ("+v.Detail+"): Reindex's reindexWg.Wait() would hang, or the ready blob is never re-indexed")
		}
	}
	if nAdd == 0 {
		r.Violation(rule, FuncKey(irb)+"#reindexWg.Add", p.Pos(irb.Pos()), "no reindexWg.Add found in pkg/index: out-of-order re-indexing is no longer accounted for")
	}

	// (2) indexReadyBlobs is only started as a counted goroutine, and Dones
	ikey := FuncKey(irb)
	if uses := p.FuncValueUses(irb); len(uses) > 0 {
		r.Undecided(rule, ikey+"#callers", p.Pos(uses[0].Pos()), "indexReadyBlobs is used as a function value; its callers cannot be enumerated")
	}
	for _, c := range p.StaticCallers(irb) {
		c := c
		construct := FuncKey(c.Fn) + "#start-indexReadyBlobs"
		ok := false
		if c.IsGo() {
			v := env.lifted(c.Fn, func(g *c05Graph, ctx *c05Ctx) c05Verdict {
				s := c05S{ctx, c}
				for _, a := range g.calls() {
					if _, isCall := a.Instr.(*ssa.Call); !isCall {
						continue
					}
					if base, isAdd := g.wgBase(a, "Add"); isAdd && g.same(base, s.Arg(0)) && g.precedes(a.I(), s.I()) {
						return c05Verdict{OK: true}
					}
				}
				return c05Verdict{}
			})
			ok = v.OK
		}
		r.Check(ok, rule, construct, p.Pos(c.Pos()),
			"started with go, after a reindexWg.Add on every path",
			"indexReadyBlobs (which Dones reindexWg) is started without a preceding reindexWg.Add, or not as a goroutine: the counter goes negative (panic) or the caller blocks while holding the index lock")
	}
	gi := env.graph(irb)
	isOwnDone := func(j c05I) bool {
		ci, ok := j.In.(ssa.CallInstruction)
		if !ok {
			return false
		}
		b, ok := gi.wgBase(c05S{j.Ctx, CallSite{j.Ctx.fn, ci}}, "Done")
		return ok && gi.isParam(b, 0)
	}
	okDone := len(gi.allPathsPass(nil, isOwnDone)) == 0
	r.Check(okDone, rule, ikey+"#Done", p.Pos(irb.Pos()), "reindexWg.Done runs on every path (deferred)", "indexReadyBlobs does not call reindexWg.Done on every path: Reindex would wait forever")

	// (3) failed re-index attempts are put back into readyReindex
	c05Requeue(p, r, env, rule, irb, indexBlob)

	// (4) getNewPendingBlobIndex ... MarkDone
	gnp := p.Func(c05Pkg, "Index", "getNewPendingBlobIndex")
	markDone := p.Func(c05Pkg, "pendingBlobIndex", "MarkDone")
	for _, c := range p.StaticCallers(gnp) {
		c := c
		construct := FuncKey(c.Fn) + "#MarkDone"
		call := c.Value()
		if call == nil {
			r.Undecided(rule, construct, p.Pos(c.Pos()), "getNewPendingBlobIndex called with go/defer")
			continue
		}
		pvS := ResultValue(call, 0)
		evS, _, disc := ErrValue(call)
		if pvS == nil || disc || evS == nil {
			r.Violation(rule, construct, p.Pos(c.Pos()), "the pending entry or the error returned by getNewPendingBlobIndex is discarded: the entry can never be marked done, so len(pending) never drops to zero and recentDone dependencies are never swept")
			continue
		}
		v := env.lifted(c.Fn, func(g *c05Graph, ctx *c05Ctx) c05Verdict {
			s := c05S{ctx, c}
			pv, ev := c05V{ctx, pvS}, c05V{ctx, evS}
			marks := func(i c05I) bool {
				ci, ok := i.In.(ssa.CallInstruction)
				if !ok {
					return false
				}
				cs := c05S{i.Ctx, CallSite{i.Ctx.fn, ci}}
				return cs.Callee() == markDone && g.same(cs.Arg(0), pv)
			}
			leaks := (&c05X{G: g, Init: map[c05V]bool{ev: true}, Stop: g.passStop(marks), IgnorePanics: true}).After(s.I())
			if len(leaks) == 0 {
				return c05Verdict{OK: true}
			}
			return c05Verdict{Detail: g.describeLeaks(leaks)}
		})
		r.Check(v.OK, rule, construct, p.Pos(c.Pos()),
			"on the err==nil edge every path to an exit passes MarkDone of the returned entry (call, defer, or deferred function)",
			"a successful getNewPendingBlobIndex is not followed by MarkDone on every path ("+v.Detail+"): the entry stays in Index.pending, concurrent receivers of the same blob wait forever and recentDone is never swept")
	}

	// (5) MarkDone always unregisters and wakes
	mkey := FuncKey(markDone)
	gm := env.graph(markDone)
	isRecvField := func(v c05V, field string) bool {
		base, ok := gm.loadOfField(v, "pendingBlobIndex", field)
		return ok && gm.isParam(base, 0)
	}
	builtinOn := func(name string, test func(s c05S) bool) func(i c05I) bool {
		return func(i c05I) bool {
			ci, ok := i.In.(ssa.CallInstruction)
			if !ok {
				return false
			}
			s := c05S{i.Ctx, CallSite{i.Ctx.fn, ci}}
			return c05IsBuiltin(s.CallSite, name) && test(s)
		}
	}
	okDel := len(gm.allPathsPass(nil, builtinOn("delete", func(s c05S) bool {
		if len(s.Common().Args) < 2 {
			return false
		}
		_, ok := gm.loadOfField(c05V{s.Ctx, s.Common().Args[0]}, "Index", "pending")
		return ok && isRecvField(c05V{s.Ctx, s.Common().Args[1]}, "blobRef")
	}))) == 0
	r.Check(okDel, rule, mkey+"#unregister", p.Pos(markDone.Pos()), "delete(x.pending, p.blobRef) runs on every path", "MarkDone does not remove its entry from Index.pending on every path: len(pending) never reaches zero, recentDone is never swept, dependants recorded during the race window are never re-indexed")
	okClose := len(gm.allPathsPass(nil, builtinOn("close", func(s c05S) bool {
		return len(s.Common().Args) == 1 && isRecvField(c05V{s.Ctx, s.Common().Args[0]}, "done")
	}))) == 0
	r.Check(okClose, rule, mkey+"#wake", p.Pos(markDone.Pos()), "close(p.done) runs on every path (call or defer)", "MarkDone does not close p.done on every path: a concurrent ReceiveBlob of the same ref waits forever in getNewPendingBlobIndex")

	// (6) Reindex drains: workers joined, then reindexWg, before the verdict
	c05ReindexDrain(p, r, env, rule, indexBlob)
	r.Floor(rule, 8)
}

func c05Requeue(p *Program, r *Reporter, env *c05Env, rule string, irb, indexBlob *ssa.Function) {
	g := env.graph(irb)
	for _, c := range g.callsTo(indexBlob) {
		construct := FuncKey(irb) + "#requeue"
		call := c.Value()
		if call == nil {
			r.Undecided(rule, construct, p.Pos(c.Pos()), "indexBlob started asynchronously in indexReadyBlobs")
			continue
		}
		br := c.Arg(2)
		e, _, disc := ErrValue(call)
		if disc || e == nil {
			r.Violation(rule, construct, p.Pos(c.Pos()), "the error of indexBlob is not tested: a blob popped from readyReindex whose re-index fails is forgotten")
			continue
		}
		ev := c05V{c.Ctx, e}
		// where is br recorded on the failure path?
		var sink c05V
		direct := false
		stop := func(i c05I) bool {
			mu, ok := i.In.(*ssa.MapUpdate)
			if !ok || !g.same(c05V{i.Ctx, mu.Key}, br) {
				return false
			}
			if _, ok := g.loadOfField(c05V{i.Ctx, mu.Map}, "Index", "readyReindex"); ok {
				direct = true
				return true
			}
			sink = g.origin(c05V{i.Ctx, mu.Map})
			return true
		}
		self := c.I()
		leaks := (&c05X{G: g, Init: map[c05V]bool{ev: false}, Stop: stop, IgnorePanics: true,
			Fail: func(i c05I) bool { return i == self }}).After(self)
		if len(leaks) > 0 {
			r.Violation(rule, construct, p.Pos(c.Pos()), "after indexBlob fails, the next iteration or an exit is reached without the ref being recorded ("+g.describeLeaks(leaks)+"): the blob has already been removed from needs and readyReindex, so it is dropped")
			continue
		}
		if direct && sink.V == nil {
			r.OK(rule, construct, p.Pos(c.Pos()), "on failure the ref is put back into readyReindex")
			continue
		}
		// the local set must be drained into readyReindex before every return
		okDrain := false
		g.instrs(func(i c05I) {
			rg, ok := i.In.(*ssa.Range)
			if !ok || g.origin(c05V{i.Ctx, rg.X}) != sink {
				return
			}
			fromRange := func(v c05V) bool {
				nx, ok := v.V.(*ssa.Next)
				return ok && nx.Iter == ssa.Value(rg) && v.Ctx == i.Ctx
			}
			for _, w := range g.fieldMapWrites("Index", "readyReindex") {
				if !g.dependsOn(w.Key, fromRange) {
					continue
				}
				all := true
				for _, rn := range g.rootReturns() {
					if !g.precedes(i, c05I{g.root, rn.last()}) {
						all = false
					}
				}
				if all {
					okDrain = true
				}
			}
		})
		r.Check(okDrain, rule, construct, p.Pos(c.Pos()),
			"on failure the ref is recorded in a local set that is copied into readyReindex before every return",
			"failed refs are collected but not copied back into Index.readyReindex before every return: Reindex would report success although blobs were not indexed")
	}
}

// accessPath renders v in the root's terms (a helper's parameter is the
// caller's argument).
func (g *c05Graph) accessPath(v c05V) string {
	for i := 0; i < 8 && v.Ctx != nil && v.Ctx.parent != nil; i++ {
		o := g.originShallow(v)
		if o == v {
			break
		}
		v = o
	}
	if v.Ctx == nil || v.Ctx.parent == nil {
		return AccessPath(v.V)
	}
	switch x := v.V.(type) {
	case *ssa.FieldAddr:
		base := g.accessPath(c05V{v.Ctx, x.X})
		base = strings.TrimPrefix(base, "&")
		return "&" + base + "." + fieldName(x.X.Type(), x.Field)
	case *ssa.UnOp:
		if x.Op == token.MUL {
			s := g.accessPath(c05V{v.Ctx, x.X})
			if strings.HasPrefix(s, "&") {
				return s[1:]
			}
			return "*" + s
		}
	}
	return fmt.Sprintf("?%d.%s", v.Ctx.id, v.V.Name())
}

func c05ReindexDrain(p *Program, r *Reporter, env *c05Env, rule string, indexBlob *ssa.Function) {
	reindex := p.Func(c05Pkg, "Index", "Reindex")
	key := FuncKey(reindex)
	g := env.graph(reindex)
	var waitR c05S
	for _, c := range g.calls() {
		if _, isCall := c.Instr.(*ssa.Call); !isCall {
			continue
		}
		if base, ok := g.wgBase(c, "Wait"); ok && g.isParam(base, 0) {
			waitR = c
		}
	}
	if waitR.Instr == nil {
		r.Violation(rule, key+"#drain", p.Pos(reindex.Pos()), "Reindex does not wait for reindexWg: it can return (and read needs/readyReindex) while out-of-order re-indexing is still running, so its result is not the final state")
		return
	}
	var bad []string
	for _, nr := range g.nilRets() {
		if !g.retAfter(waitR.I(), nr) {
			bad = append(bad, fmt.Sprintf("the success return at line %d is not preceded by reindexWg.Wait()", p.Fset.Position(c05LeafPos(nr)).Line))
		}
	}
	// the verdict reads come after the wait
	g.instrs(func(i c05I) {
		fa, ok := i.In.(*ssa.FieldAddr)
		if !ok {
			return
		}
		for _, f := range []string{"readyReindex", "needs"} {
			if _, ok := c05FieldOf(fa, "Index", f); ok && !g.precedes(waitR.I(), i) {
				bad = append(bad, "Index."+f+" is read before reindexWg.Wait()")
			}
		}
	})
	// workers that call indexBlob are joined before reindexWg.Wait
	nSpawn := 0
	for _, c := range g.calls() {
		for _, lit := range spawnedClosures(c.CallSite) {
			if len(env.graph(lit).callsTo(indexBlob)) == 0 {
				deep := false
				for _, cc := range CallsIn(lit, true) {
					if cc.Callee() == indexBlob {
						deep = true
					}
				}
				if !deep {
					continue
				}
			}
			nSpawn++
			if !isSpawner(c.CallSite) {
				bad = append(bad, "a worker calling indexBlob is started with a bare go statement; its join cannot be identified")
				continue
			}
			grp := g.accessPath(c.Arg(0))
			joined := false
			for _, w := range g.calls() {
				if _, isCall := w.Instr.(*ssa.Call); isCall && c05IsJoin(w.CallSite) && g.accessPath(w.Arg(0)) == grp && g.precedes(w.I(), waitR.I()) {
					joined = true
				}
			}
			if !joined {
				bad = append(bad, "the workers that call indexBlob are not joined before reindexWg.Wait(): a worker can still Add to reindexWg after the Wait returned")
			}
		}
	}
	if nSpawn == 0 {
		bad = append(bad, "no worker goroutine calling indexBlob found in Reindex")
	}
	r.Check(len(bad) == 0, rule, key+"#drain", p.Pos(waitR.Pos()),
		"workers joined, then reindexWg.Wait(), before needs/readyReindex are read and before every success return",
		strings.Join(bad, "; "))
}

// ---------------------------------------------------------------------------
// I-open

// c05OpenExceptions: success returns of index.New that deliberately skip the
// reload of needs/neededBy. One symbol, one reason; the reason is re-checked.
var c05OpenExceptions = map[string]string{
	"aboutToReindex": "the storage has just been wiped and everything is rebuilt by Reindex: there are no missing| rows to reload (re-checked: aboutToReindex is only set where a successful Wipe precedes every later New)",
}

func c05RuleOpen(p *Program, r *Reporter, env *c05Env) {
	const rule = "I-open"
	newFn := p.Func(c05Pkg, "", "New")
	init := p.Func(c05Pkg, "Index", "initNeededMapsLocked")
	nnm := p.LookupFunc(c05Pkg, "Index", "noteNeededMemoryLocked") // optional: may be written out in its callers
	nnl := p.Func(c05Pkg, "Index", "noteNeededLocked")
	key := FuncKey(newFn)
	g := env.graph(newFn)

	// the returned index, per return
	idxOf := map[*ssa.Return]c05V{}
	for _, rn := range g.rootReturns() {
		ret := rn.last().(*ssa.Return)
		if res := g.root.rets[ret]; len(res) > 0 {
			idxOf[ret] = c05V{g.root, res[0]}
		}
	}
	usedException := false
	for _, nr := range g.nilRets() {
		site := p.Pos(c05LeafPos(nr))
		idx := idxOf[nr.Ret]
		// `return helper(...)`: the index is what the helper returns on this leaf
		if len(nr.Ats) > 1 {
			for _, t := range g.returnTuples() {
				if t.Ret == nr.Ret && len(t.Ats) == len(nr.Ats) && t.Ats[len(t.Ats)-1] == nr.Ats[len(nr.Ats)-1] && len(t.Results) > 0 {
					idx = t.Results[0]
				}
			}
		}
		if idx.V == nil || IsNilConst(idx.V) {
			continue
		}
		facts := g.retFacts(nr)
		okInit := false
		for _, c := range g.callsTo(init) {
			v := c.Value()
			if v == nil || !g.same(c.Arg(0), idx) || !g.retAfter(c.I(), nr) {
				continue
			}
			if k, isNil := g.nilFact(facts, c05V{c.Ctx, v}); k && isNil {
				okInit = true
			}
		}
		if okInit {
			r.OK(rule, key+"#return-loaded", site, "success return dominated by initNeededMapsLocked()==nil on the returned index")
			continue
		}
		exc := false
		for _, f := range facts {
			if !f.IsNil && f.Val && g.globalLoad(f.C, c05PkgPath, "aboutToReindex") {
				exc = true
			}
		}
		if exc {
			usedException = true
			r.OKTable(rule, key+"#return-aboutToReindex", site, "exception: "+c05OpenExceptions["aboutToReindex"])
			continue
		}
		r.Violation(rule, key+"#return-unloaded", site, "index.New returns an index without a successful initNeededMapsLocked: needs/neededBy stay empty although missing| rows exist, so blobs that were waiting before the restart are never re-indexed when their dependencies arrive")
	}

	// exception re-check: aboutToReindex is only set where a successful Wipe precedes New
	if usedException {
		nStores := 0
		for _, fn := range p.FuncsIn(c05Pkg) {
			for _, b := range fn.Blocks {
				for _, in := range b.Instrs {
					st, ok := in.(*ssa.Store)
					if !ok {
						continue
					}
					gl, ok := st.Addr.(*ssa.Global)
					if !ok || gl.Name() != "aboutToReindex" || gl.Pkg == nil || gl.Pkg.Pkg.Path() != c05PkgPath {
						continue
					}
					if c, ok := st.Val.(*ssa.Const); ok && c.Value != nil && c.Value.Kind() == constant.Bool && !constant.BoolVal(c.Value) {
						continue
					}
					if fn.Name() == "init" && fn.Synthetic != "" {
						continue
					}
					nStores++
					construct := FuncKey(fn) + "#aboutToReindex-implies-wipe"
					v := env.lifted(fn, func(g *c05Graph, ctx *c05Ctx) c05Verdict {
						isNew := func(i c05I) bool {
							ci, ok := i.In.(ssa.CallInstruction)
							return ok && (CallSite{i.Ctx.fn, ci}).Callee() == newFn
						}
						var wipes []c05S
						isWipe := func(i c05I) bool {
							call, ok := i.In.(*ssa.Call)
							if ok && call.Call.IsInvoke() && call.Call.Method.Name() == "Wipe" && strings.HasSuffix(typeKey(call.Call.Value.Type()), "sorted.Wiper") {
								s := c05S{i.Ctx, CallSite{i.Ctx.fn, call}}
								dup := false
								for _, w := range wipes {
									if w.I() == s.I() {
										dup = true
									}
								}
								if !dup {
									wipes = append(wipes, s)
								}
								return true
							}
							return false
						}
						// leaving a pure helper undecided is no verdict: its callers go on from there
						_, rootIsHelper := env.pureHelper(g.root.fn)
						exitOK := func(c05I) bool { return !rootIsHelper }
						leaks := (&c05X{G: g, IgnorePanics: true, Stop: isWipe, Fail: isNew, ExitOK: exitOK}).After(c05I{ctx, st})
						for _, w := range wipes {
							e, _, disc := ErrValue(w.Value())
							if disc || e == nil {
								leaks = append(leaks, c05XLeak{w.I(), nil})
								continue
							}
							leaks = append(leaks, (&c05X{G: g, Init: map[c05V]bool{{w.Ctx, e}: false}, IgnorePanics: true, Fail: isNew, ExitOK: exitOK}).After(w.I())...)
						}
						// at this level the path ends without reaching New: the callers decide
						if len(leaks) == 0 && len(wipes) == 0 {
							reachesNew := false
							for _, c := range g.calls() {
								if c.Callee() == newFn && g.reaches(c05I{ctx, st}, c.I()) {
									reachesNew = true
								}
							}
							if !reachesNew {
								return c05Verdict{Vacuous: true, Detail: "index.New is not reached from here"}
							}
						}
						if len(leaks) == 0 && len(wipes) > 0 {
							return c05Verdict{OK: true}
						}
						return c05Verdict{Detail: g.describeLeaks(leaks)}
					})
					r.Check(v.OK && !v.Vacuous, rule, construct, p.Pos(st.Pos()),
						"after aboutToReindex is set, index.New is reached only through a successful sorted.Wiper.Wipe()",
						"aboutToReindex is set on a path that reaches index.New without a successful Wipe ("+v.Detail+"): New would skip loading needs/neededBy (and the deletes cache) from rows that still exist")
				}
			}
		}
		if nStores == 0 {
			r.OKTable(rule, key+"#aboutToReindex-never-set", p.Pos(newFn.Pos()), "aboutToReindex is never set to true: the exception branch is dead")
		}
	}

	// reload loop + key part order agreement
	ikey := FuncKey(init)
	gi := env.graph(init)
	isQueryPrefix := func(c c05S) bool {
		f := c.Callee()
		return c.MethodName() == "queryPrefix" && f != nil && f.Pkg != nil && f.Pkg.Pkg.Path() == c05PkgPath
	}
	var bad []string
	okQuery := false
	for _, c := range gi.calls() {
		if !isQueryPrefix(c) {
			continue
		}
		for i := 0; i < c.NArgs(); i++ {
			if gi.globalLoad(c.Arg(i), c05PkgPath, "keyMissing") {
				rest := c.Args()[i+1:]
				if len(rest) == 1 && (IsNilConst(rest[0]) || len(c05VarargElems(rest[0])) == 0) {
					okQuery = true
				}
			}
		}
	}
	if !okQuery {
		bad = append(bad, "does not iterate over the whole keyMissing prefix")
	}
	var memCall *c05MemUpdate
	for _, u := range c05MemUpdates(gi, nnm) {
		u := u
		if gi.inCycle(u.I) && gi.isParam(u.Recv, 0) {
			memCall = &u
		}
	}
	if memCall == nil {
		bad = append(bad, "does not update needs/neededBy of the receiver (noteNeededMemoryLocked) for each row")
	}
	r.Check(len(bad) == 0, rule, ikey+"#reload", p.Pos(init.Pos()),
		"ranges over every missing| row and feeds each into noteNeededMemoryLocked",
		"initNeededMapsLocked "+strings.Join(bad, " and "))

	gn := env.graph(nnl)
	if memCall != nil {
		// reader: which key part feeds which parameter position
		part := func(v c05V) int {
			o := gi.origin(v)
			ex, ok := o.V.(*ssa.Extract)
			if !ok || ex.Index != 0 {
				return -1
			}
			call, ok := ex.Tuple.(*ssa.Call)
			if !ok || len(call.Call.Args) != 1 {
				return -1
			}
			sl, ok := gi.origin(c05V{o.Ctx, call.Call.Args[0]}).V.(*ssa.Slice)
			if !ok {
				return -1
			}
			switch {
			case sl.Low == nil && sl.High != nil:
				return 0
			case sl.Low != nil && sl.High == nil:
				return 1
			}
			return -1
		}
		readerHave, readerMissing := part(memCall.Have), part(memCall.Missing)
		// writer: which parameter position is stored as which key part
		writerHave, writerMissing := -1, -1
		for _, c := range gn.calls() {
			if c.IsStatic(c05PkgPath, "keyType", "Key") && gn.globalLoad(c.Arg(0), c05PkgPath, "keyMissing") {
				for i, e := range c05VarargElems(c.Args()[1]) {
					if gn.isParam(c05V{c.Ctx, e}, 1) {
						writerHave = i
					}
					if gn.isParam(c05V{c.Ctx, e}, 2) {
						writerMissing = i
					}
				}
			}
		}
		construct := ikey + "#key-order"
		site := p.Pos(memCall.Pos)
		switch {
		case readerHave < 0 || readerMissing < 0 || writerHave < 0 || writerMissing < 0:
			r.Undecided(rule, construct, site, fmt.Sprintf("cannot relate key parts to roles (reader have=%d missing=%d, writer have=%d missing=%d): the parse is not <prefix slice>/<suffix slice> of the key or the writer is not keyMissing.Key(have, missing)", readerHave, readerMissing, writerHave, writerMissing))
		default:
			r.Check(readerHave == writerHave && readerMissing == writerMissing, rule, construct, site,
				fmt.Sprintf("writer stores have as key part %d and missing as part %d; the reload parses them back into the same roles", writerHave, writerMissing),
				fmt.Sprintf("noteNeededLocked writes have/missing as key parts %d/%d but initNeededMapsLocked reads them back as parts %d/%d: after a restart needs and neededBy are inverted, so an arriving dependency never releases the blob that waits for it", writerHave, writerMissing, readerHave, readerMissing))
		}
	}
	// removeAllMissingEdges(br) removes the rows in which br is the *waiting* blob
	rme := p.Func(c05Pkg, "Index", "removeAllMissingEdges")
	rkey := FuncKey(rme) + "#prefix-role"
	gr := env.graph(rme)
	okRole, okDelete := false, false
	for _, c := range gr.calls() {
		if isQueryPrefix(c) {
			for i := 0; i+1 < c.NArgs(); i++ {
				if gr.globalLoad(c.Arg(i), c05PkgPath, "keyMissing") {
					if el := c05VarargElems(c.Args()[i+1]); len(el) == 1 && gr.isParam(c05V{c.Ctx, el[0]}, 1) {
						okRole = true
					}
				}
			}
		}
		if v := c.Value(); v != nil && v.Call.IsInvoke() && v.Call.Method.Name() == "Delete" {
			if _, ok := gr.loadOfField(c05V{c.Ctx, v.Call.Value}, "Index", "s"); ok {
				okDelete = true
			}
		}
	}
	writerHaveFirst := false
	for _, c := range gn.calls() {
		if c.IsStatic(c05PkgPath, "keyType", "Key") && gn.globalLoad(c.Arg(0), c05PkgPath, "keyMissing") {
			if el := c05VarargElems(c.Args()[1]); len(el) >= 1 && gn.isParam(c05V{c.Ctx, el[0]}, 1) {
				writerHaveFirst = true
			}
		}
	}
	r.Check(okRole && okDelete && writerHaveFirst, rule, rkey, p.Pos(rme.Pos()),
		"deletes the rows under keyMissing.Prefix(br); the writer puts the waiting blob ('have') first, so these are exactly br's own needs",
		"removeAllMissingEdges(br) no longer deletes the keyMissing rows whose first key part is br while noteNeededLocked writes the waiting blob first: the needs of a now-indexed blob survive (and are reloaded at restart) or another blob's needs are deleted")
	r.Floor(rule, 6)
}

// ---------------------------------------------------------------------------
// I-recent (also reported by C14 as L-pending: the signature is fixed)

func c05RuleRecent(p *Program, r *Reporter) {
	const rule = "I-recent"
	env := c05EnvFor(p)
	nbi := p.Func(c05Pkg, "Index", "noteBlobIndexedLocked")
	gnp := p.Func(c05Pkg, "Index", "getNewPendingBlobIndex")
	newFn := p.LookupFunc(c05Pkg, "", "New")
	nkey := FuncKey(nbi)
	g := env.graph(nbi)

	// (1) noteBlobIndexedLocked records br in recentDone on every path
	okRec := false
	for _, w := range g.fieldMapWrites("Index", "recentDone") {
		if g.isParam(w.Key, 1) && c05IsTrue(g.origin(w.Val).V) && g.isParam(w.Base, 0) {
			w := w
			if len(g.allPathsPass(nil, func(i c05I) bool { return i == w.I })) == 0 {
				okRec = true
			}
		}
	}
	r.Check(okRec, rule, nkey+"#recentDone", p.Pos(nbi.Pos()),
		"recentDone[br]=true on every path",
		"noteBlobIndexedLocked does not record br in recentDone on every path: a blob that notes its need for br just after br was indexed (before its own MarkDone) is never released")

	// (2) a blob leaves needs only into readyReindex
	for _, d := range g.fieldMapBuiltin("delete", "Index", "needs") {
		if len(d.Common().Args) < 2 {
			continue
		}
		k := c05V{d.Ctx, d.Common().Args[1]}
		ok := false
		for _, w := range g.fieldMapWrites("Index", "readyReindex") {
			if !g.same(w.Key, k) || !c05IsTrue(g.origin(w.Val).V) {
				continue
			}
			w := w
			if g.precedes(w.I, d.I()) || len((&c05X{G: g, IgnorePanics: true, Stop: func(i c05I) bool { return i == w.I }}).After(d.I())) == 0 {
				ok = true
			}
		}
		r.Check(ok, rule, nkey+"#needs-to-ready", p.Pos(d.Pos()),
			"the blob removed from needs is put into readyReindex on the same path",
			"a blob is deleted from Index.needs without being queued in readyReindex: indexReadyBlobs has nothing to pop, the blob is dropped (its missing| rows are only cleaned up by its own successful re-index)")
	}

	// (3) recentDone is cleared only when nothing is pending and after the sweep
	for _, fn := range p.FuncsIn(c05Pkg) {
		var resets []ssa.Instruction
		for _, c := range CallsIn(fn, false) {
			if (c05IsBuiltin(c, "clear") || c05IsBuiltin(c, "delete")) && len(c.Common().Args) > 0 {
				if u, ok := c.Common().Args[0].(*ssa.UnOp); ok && u.Op == token.MUL {
					if _, ok := c05FieldOf(u.X, "Index", "recentDone"); ok {
						resets = append(resets, c.Instr)
					}
				} else if _, ok := env.graphless.loadOfField(c05V{nil, c.Common().Args[0]}, "Index", "recentDone"); ok {
					resets = append(resets, c.Instr)
				}
			}
		}
		for _, b := range fn.Blocks {
			for _, in := range b.Instrs {
				if st, ok := in.(*ssa.Store); ok {
					if _, ok := c05FieldOf(st.Addr, "Index", "recentDone"); ok && fn != newFn {
						resets = append(resets, st)
					}
				}
			}
		}
		for _, in := range resets {
			in := in
			construct := FuncKey(fn) + "#recentDone-reset"
			v := env.lifted(fn, func(g *c05Graph, ctx *c05Ctx) c05Verdict {
				self := c05I{ctx, in}
				n, _ := g.nodeOf(self)
				if n == nil {
					return c05Verdict{Detail: "not part of the effective body"}
				}
				var bad []string
				isPending := func(v c05V) bool { _, ok := g.loadOfField(v, "Index", "pending"); return ok }
				if k, empty := g.lenZeroFact(g.factsAt(n), isPending); !(k && empty) {
					bad = append(bad, "not under len(pending)==0")
				}
				// the sweep: noteBlobIndexedLocked(k) for k ranging over neededBy with recentDone[k]
				swept := false
				for _, c := range g.callsTo(nbi) {
					if _, isCall := c.Instr.(*ssa.Call); !isCall {
						continue
					}
					if !g.inCycle(c.I()) || g.reaches(self, c.I()) {
						continue
					}
					arg := c.Arg(1)
					fromNeededBy := g.dependsOn(arg, func(v c05V) bool {
						rg, ok := v.V.(*ssa.Range)
						if !ok {
							return false
						}
						_, ok = g.loadOfField(c05V{v.Ctx, rg.X}, "Index", "neededBy")
						return ok
					})
					underRecent := false
					cn, _ := g.nodeOf(c.I())
					for _, f := range g.factsAt(cn) {
						if f.IsNil || !f.Val {
							continue
						}
						o := g.originShallow(f.C)
						var lk *ssa.Lookup
						switch x := o.V.(type) {
						case *ssa.Lookup:
							lk = x
						case *ssa.Extract: // v, ok := m[k]
							lk, _ = x.Tuple.(*ssa.Lookup)
						}
						if lk != nil && g.same(c05V{o.Ctx, lk.Index}, arg) {
							if _, ok := g.loadOfField(c05V{o.Ctx, lk.X}, "Index", "recentDone"); ok {
								underRecent = true
							}
						}
					}
					if fromNeededBy && underRecent && g.reaches(c.I(), self) {
						swept = true
					}
				}
				if !swept {
					bad = append(bad, "not after a sweep calling noteBlobIndexedLocked(k) for every k in neededBy with recentDone[k]")
				}
				if len(bad) == 0 {
					return c05Verdict{OK: true}
				}
				return c05Verdict{Detail: strings.Join(bad, " and ")}
			})
			r.Check(v.OK, rule, construct, p.Pos(in.Pos()),
				"recentDone is reset only under len(pending)==0 and after the sweep over neededBy",
				"recentDone is reset "+v.Detail+": a dependency indexed while its dependant was still in flight is forgotten, the dependant stays in needs forever")
		}
	}

	// (4) getNewPendingBlobIndex registers the entry it returns
	gkey := FuncKey(gnp)
	gg := env.graph(gnp)
	for _, t := range gg.returnTuples() {
		if len(t.Results) != 2 || IsNilConst(t.Results[0].V) {
			continue
		}
		ok := false
		for _, w := range gg.fieldMapWrites("Index", "pending") {
			if gg.isParam(w.Key, 2) && gg.same(w.Val, t.Results[0]) && gg.tupleAfter(w.I, t) {
				ok = true
			}
		}
		r.Check(ok, rule, gkey+"#register", p.Pos(c05RetPos(t.Ret)),
			"the returned entry is stored in pending[br] before the return",
			"getNewPendingBlobIndex returns an entry that is not registered in Index.pending under br: len(pending) can reach zero (and recentDone be cleared) while this blob is still being indexed")
	}
	r.Floor(rule, 4)
}
